package main

import (
	"bondgo"
)

func worker(reg_a uint8, reg_b uint8) {
	var out0 bondgo.Output
	out0 = bondgo.Make(bondgo.Output, 3)
	bondgo.IOWrite(out0, reg_a*2+reg_b)
}

func main() {
	var reg_x uint8
	var reg_y uint8
	reg_x = 3
	reg_y = 5
	go worker(reg_x, reg_y)
}
