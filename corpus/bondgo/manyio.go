package main

import (
	"bondgo"
)

func main() {
	var ina bondgo.Input
	var inb bondgo.Input
	var inc bondgo.Input
	var ind bondgo.Input
	var outa bondgo.Output
	var outb bondgo.Output
	var outc bondgo.Output
	var reg_s uint8
	var reg_t uint8

	ina = bondgo.Make(bondgo.Input, 11)
	inb = bondgo.Make(bondgo.Input, 2)
	inc = bondgo.Make(bondgo.Input, 9)
	ind = bondgo.Make(bondgo.Input, 4)
	outa = bondgo.Make(bondgo.Output, 7)
	outb = bondgo.Make(bondgo.Output, 1)
	outc = bondgo.Make(bondgo.Output, 5)

	for {
		reg_s = bondgo.IORead(ina)
		reg_t = bondgo.IORead(inb)
		bondgo.IOWrite(outa, reg_s+reg_t)
		reg_s = bondgo.IORead(inc)
		bondgo.IOWrite(outb, reg_s*reg_t)
		reg_t = bondgo.IORead(ind)
		bondgo.IOWrite(outc, reg_t)
	}
}
