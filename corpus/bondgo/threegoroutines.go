package main

import (
	"bondgo"
)

func w1(reg_a uint8) {
	var out0 bondgo.Output
	out0 = bondgo.Make(bondgo.Output, 3)
	bondgo.IOWrite(out0, reg_a)
}

func w2(reg_b uint8) {
	var out1 bondgo.Output
	out1 = bondgo.Make(bondgo.Output, 4)
	bondgo.IOWrite(out1, reg_b)
}

func w3(reg_c uint8) {
	var out2 bondgo.Output
	out2 = bondgo.Make(bondgo.Output, 5)
	bondgo.IOWrite(out2, reg_c)
}

func main() {
	var reg_x uint8
	reg_x = 3
	go w1(reg_x)
	go w2(reg_x)
	go w3(reg_x)
}
