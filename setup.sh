#!/bin/sh
# MANIFEST.setup_cmd: build the static Coq theories and the Go harness, offline.
set -e
cd "$(dirname "$0")"
export GOFLAGS=-mod=mod GOPROXY=off GOSUMDB=off GOTOOLCHAIN=local
mkdir -p build coq/generated evidence
(cd coq && coq_makefile -f _CoqProject -o Makefile >/dev/null && timeout 3000 make -j16)
cp /repo/go.sum harness/go.sum
(cd harness && go build -tags verif -o ../build/bmh . && go build -tags verif -race -o ../build/bmh-race .)
echo setup-ok
