#!/usr/bin/env python3
"""apply each seeded change to /repo, run the property's quick check, record whether it is caught, undo.
usage: seed_eval.py <out dir> [ids...]"""
import json, os, shutil, subprocess, sys
OUT = sys.argv[1]
ids = sys.argv[2:] or sorted(d for d in os.listdir(OUT) if d.startswith("C"))
for pid in ids:
    for n in sorted(os.listdir(os.path.join(OUT, pid))):
        if os.environ.get("SEED_N") and n not in os.environ["SEED_N"].split(","):
            continue
        d = os.path.join(OUT, pid, n)
        patch = os.path.join(d, "patch.diff")
        if not os.path.isfile(patch):
            continue
        subprocess.run(["git", "-C", "/repo", "checkout", "--", "."], check=True)
        a = subprocess.run(["git", "-C", "/repo", "apply", patch], capture_output=True, text=True)
        if a.returncode != 0:
            print(pid, n, "PATCH DOES NOT APPLY", a.stderr[:200]); continue
        try:
            p = subprocess.run(["./check", pid, "--tier", "quick"], cwd="/verif", capture_output=True, text=True, timeout=3000)
        finally:
            subprocess.run(["git", "-C", "/repo", "checkout", "--", "."], check=True)
            subprocess.run(["git", "-C", "/repo", "clean", "-fdq"], check=True)
        lines = [l for l in p.stdout.splitlines() if not l.startswith("KNOWN-FINDING")]
        viol = [l for l in lines if l.startswith("VIOLATION")]
        why = [l for l in lines if l.startswith("# ")]
        res = {"exit": p.returncode, "violations": viol[:3], "messages": [w[:300] for w in why[:3]],
               "caught": p.returncode == 1 and bool(viol), "concrete_input": any("no-failing-input-found" not in v for v in viol)}
        if os.environ.get("SEED_EVAL_NOWRITE"):
            print(pid, n, "CAUGHT" if res["caught"] else "MISSED rc=%d" % p.returncode, "(concrete input)" if res["concrete_input"] else "", "|",
                  (why[0][:140] if why else lines[-1][:140] if lines else ""))
            continue
        dst = os.path.join("/verif/seeded", pid, n)
        os.makedirs(dst, exist_ok=True)
        for f in ("patch.diff", "demonstration.md"):
            if os.path.exists(os.path.join(d, f)) and os.path.realpath(d) != os.path.realpath(dst):
                shutil.copy(os.path.join(d, f), dst)
        if os.path.isdir(os.path.join(d, "demo")) and os.path.realpath(d) != os.path.realpath(dst):
            shutil.copytree(os.path.join(d, "demo"), os.path.join(dst, "demo"), dirs_exist_ok=True)
        meta = {}
        try:
            meta = json.load(open(os.path.join(d, "meta.json")))
        except Exception:
            pass
        meta["check_result"] = res
        json.dump(meta, open(os.path.join(dst, "meta.json"), "w"), indent=1)
        print(pid, n, "CAUGHT" if res["caught"] else "MISSED rc=%d" % p.returncode, "(concrete input)" if res["concrete_input"] else "", "|", (why[0][:140] if why else lines[-1][:140] if lines else ""))
