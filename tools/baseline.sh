#!/bin/sh
# runs the repository's baseline test suite (guard off) and prints pass/fail counts vs BASELINE.json
cd /repo
export GOPROXY=off GOSUMDB=off GOTOOLCHAIN=local
go test -mod=mod -json -vet=off -count=1 -timeout 25m ./... 2>/dev/null > /tmp/verif_baseline.json
python3 - <<'PY'
import json
base=json.load(open('/root/.vp/BASELINE.json'))
res={}
for l in open('/tmp/verif_baseline.json'):
    try: e=json.loads(l)
    except Exception: continue
    if e.get('Action') in ('pass','fail') and e.get('Test'):
        res[e['Package']+'::'+e['Test']]=e['Action']
missing=[t for t in base['stable_pass'] if res.get(t)!='pass']
print('stable_pass:',len(base['stable_pass']),'passing now:',len(base['stable_pass'])-len(missing))
for t in missing: print('NOT PASSING:',t,res.get(t))
PY
rm -f /tmp/verif_baseline.json
git -C /repo clean -fdq   # artefacts the tests write into the tree
