#!/usr/bin/env python3
"""Record, for every reviewed map-range site of translators/c07_sites.json, the fingerprints of the loops as they are in /repo now
(run after reviewing a loop; never run by a check)."""
import json, os, subprocess, sys
sys.path.insert(0, "/verif/lib")
import common as C
import c07
C.build_harness()
p = subprocess.run([C.BMH, "sites"] + list(c07.SITE_DIRS), cwd=C.REPO, env=C.GOENV, stdout=subprocess.PIPE, text=True, timeout=900)
sites = C.jsonl(p.stdout)
table = json.load(open(c07.SITE_TABLE))
byk = {}
for s in sites:
    if s["kind"] == "maprange":
        byk.setdefault((s["pkg"], s["file"], s["func"], s["expr"]), []).append(s["hash"])
for e in table:
    hs = sorted(set(byk.get((e["pkg"], e["file"], e["func"], e["expr"]), [])))
    e["loops"] = hs
json.dump(table, open(c07.SITE_TABLE, "w"), indent=1)
print("sites", len(sites), "entries", len(table), "entries without a loop in the tree", sum(1 for e in table if not e["loops"]))
