#!/bin/sh
# runs every registered quick check on the current tree (evidence files are rewritten) and prints one line per property
cd /verif
for p in C01 C02 C03 C04 C05 C06 C07 C08 C09 C10 C11 C12 C13 C14 C15 C16 C17 C18; do
  out=$(./check $p --tier quick 2>&1); rc=$?
  echo "$p rc=$rc $(echo "$out" | grep -c KNOWN-FINDING) known-findings: $(echo "$out" | grep -v KNOWN-FINDING | tail -1 | cut -c1-160)"
done
