#!/usr/bin/env python3
"""Regenerates /verif/MANIFEST.json from the table below and validates it."""
import json, os, subprocess, sys
HERE = os.path.dirname(os.path.dirname(os.path.abspath(__file__)))
BASE = json.load(open("/root/.vp/BASELINE.json"))

CHECKS = {
 "C10": dict(
   technique="Coq proof: wf invariant + refinement to a name-level bond-set spec by induction over edit histories; vm_compute correspondence with the Go edit functions",
   text="Proof (complete for the listed edit operations): for every history of Add/Del input/output, Add_processor, Add_bond, Del_bond, Attach_benchmark_core[V2] (including negative / too-large indices and junk names) the model state is well formed and its bond set equals the name-level specification; the model is tied to the Go functions by replaying seeded random histories in both and comparing every intermediate state.",
   design_ref="DESIGN.md section 5, C10",
   note="Trusted: Coq kernel; hand-written model Net/Topo.v tied by correspondence (harness/c10.go, lib/c10.py); shared-object attach functions are not modelled (they do not touch bonds)."),
 "C03": dict(
   technique="Coq proof over a layout table regenerated from the Go sources by a translator; vm_compute consistency check of every layout; correspondence of model and Arch.Assembler/Machine.Disassembler",
   text="Proof: for every layout passing the symbolic consistency check (decided for all architectures at once as equality of linear forms) and every architecture, an accepted line is exactly Max_word bits, its disassembly is the same instruction with normalised literals, re-assembling the disassembly gives the word back, and an operand longer than its field is never accepted. The table of 82 layouts (Assembler and Disassembler read independently) is re-extracted from pkg/procbuilder/op_*.go on every run and the side condition re-proved. 11 shared-object opcodes are outside the translator (correspondence-only, listed in evidence); fields wider than 63 bits printed through a signed int are excluded by hypothesis.",
   design_ref="DESIGN.md section 5, C03",
   note="Trusted: Coq kernel; translators/layout.py; harness/c03.go + lib/c03.py; Process_number modelled for decimal/0x/0b literals only."),
 "C08": dict(
   technique="Coq-verified disjointness certificate checker (Brzozowski derivatives) run by vm_compute on the matchers dumped from the running code; round-trip theorems for unsigned/hex/bin; correspondence with bmnumbers",
   text="Proof: (uniqueness) the regular expressions registered in bmnumbers.AllMatchers are translated on every run and their pairwise disjointness is decided on the languages themselves by a checker proved sound in Coq, so no string of any length is claimed by two notations; hence ImportString is independent of map order. (round trip / widths) import(export(n)) = n for every representable unsigned-64, hex and bin number, ExportBinaryNBits has exactly n digits, ExportVerilogBinary has the stated width. Partial: floats are checked only by the Go-side round-trip predicate (strconv not modelled), FloPoCo and linear-quantiser types are not modelled; sized-unsigned export is a recorded finding.",
   design_ref="DESIGN.md section 5, C08",
   note="Trusted: Coq kernel; translators/regex.py (validated against regexp.MatchString each run); harness/c08.go + lib/c08.py; Front/Numbers.v is a value-level model."),
 "C13": dict(
   technique="Coq proof of refinement to an abstract sequence for a parametric step function (all configurations, all inputs); model tied to the emitted Verilog by exhaustive state x input equality under a Coq Verilog semantics",
   text="Proof: for every memory type, depth, data width, number of senders and receivers and every input sequence, Gen.StackModel.step keeps the invariant (sp = number of stored elements, circular-pointer relation), each acknowledge rises exactly in the cycle of its transfer, an acknowledged write stores its value exactly once, an acknowledged read returns and removes the element the LIFO/FIFO discipline prescribes, nothing else changes the contents, empty/full reflect the contents, and a continuously requesting agent is served within #agents cycles when the interface is ready. The step function is a transcription of the template; for the small configurations (dsize 1, depth <= 2, <= 2+2 agents) model and emitted circuit are compared on every state and every input inside Coq (Vlog.Sem), larger configurations by lock-step runs.",
   design_ref="DESIGN.md section 5, C13",
   note="Trusted: Coq kernel; Vlog.Sem as the meaning of the emitted Verilog; lib/vparse.py + lib/vcoq.py front-end; harness vlog command."),
 "C15": dict(
   technique="Coq proof of print/parse round trip on a model of simbox.Add / Rule.String; correspondence on rule-list histories",
   text="Proof (part 1, rule text and rule list): every rule in the image of the parser prints to a string that parses back to the same rule (all rule forms, ticks over the whole uint64 range including the signed rendering), the image of the parser is characterised syntactically, suspended rules are absent from the active list, reactivation restores. Model tied to simbox by replaying random rule-list histories (add/del/suspend/reactivate, malformed text, out-of-range indices) and comparing every intermediate list and printed form; JSON save/load checked on the Go side. Part 2 (effect of rules during simulation) is not yet modelled: partial.",
   design_ref="DESIGN.md section 5, C15",
   note="Trusted: Coq kernel; harness/c15.go + lib/c15.py; Front/Simbox.v hand-written model."),
 "C18": dict(
   technique="Per-configuration validation: every emitted file set is parsed and linted by a Coq-evaluated checker (Vlog/Lint.v) for undeclared identifiers, undefined modules, port mismatches, assignment kinds and multiple drivers",
   category="translation_validation",
   text="Translation validation per configuration: random machines (opcode families, modes ha/vn/hy, register sizes, shared objects attached to processors, bonds) are rendered with Bondmachine.Write_verilog, every file except the test bench is parsed (Verilog-2001 front-end) and the design is linted by Vlog.Lint evaluated inside Coq. Twelve genuine defect classes of the unchanged tree are recorded as known findings with narrow keys (class, module kind, identifier); any other error is a violation. The soundness theorem of the linter against a declarative well-formedness predicate is not proved yet (only structural lemmas), hence the category.",
   design_ref="DESIGN.md section 5, C18",
   note="Trusted: lib/vparse.py, lib/vcoq.py (front-end), Vlog/Lint.v as the definition of the six error classes, Coq vm_compute. Implicit nets are accepted where Verilog-2001 allows them (port connections, continuous-assignment targets)."),
 "C09": dict(
   technique="Coq proof that the tick result is independent of the processors' execution order and of interleaving with other simulations (model Net.Tick); forced-schedule and concurrent-run differential testing of the Go simulator through a verif-tagged yield hook",
   text="Proof (partial): on the model of bondmachine.VM.Step, stepping the processors in any complete order gives the state Net.Tick.tick computes, any two complete orders agree, and in every interleaving of two simulations each ends in the state of its solo run. The model is tied to the Go simulator by per-tick full-state comparison, and the simulator itself is run under forced start orders of the processor workers (hook), GOMAXPROCS 1-16 and concurrent simulations, comparing per-tick digests. Not proved: absence of data races (Go memory model) - the race detector is run in the thorough tier as supporting evidence; the token/answer barrier of VM.Step is exercised, not modelled.",
   design_ref="DESIGN.md section 5, C09",
   note="Trusted: Coq kernel; Isa/Sim.v and Net/Tick.v as models (tied by correspondence); harness c09/sim commands; hook commit 6ef07ff."),
 "C04": dict(
   technique="Coq proof of an inductive invariant over the product of producer/consumer protocol automata, parametric in the number of consumers and the schedule, for both implementations; automata tied to the Go simulator and to the emitted Verilog (under a Coq Verilog semantics) by following observed schedules",
   text="Proof (partial by hypothesis): for every fan-out k, every schedule of IO / non-IO instructions and every data, the simulator's protocol (SimSys) and the hardware's (HdlSys) keep an inductive invariant that implies: each consumer's stream is a prefix of the offered stream and at most one value behind, the producer passes r2owa only when every consumer holds the value, a consumer passes i2rw only by capturing. The schedule hypotheses s_ok/h_ok (no re-read while the previous capture is pending and valid is up; no new offer while received is up) are necessary - the unrestricted statements are refuted by vm_compute witnesses (finding F2, recorded as known findings c04_not_well_spaced_sim/hdl). Corollaries for one consumer: fixed padding >= 1 (simulator), >= 1 producer / >= 2 consumer (hardware) keep every execution inside the hypotheses. Liveness is not claimed.",
   design_ref="DESIGN.md section 5, C04",
   note="Trusted: Coq kernel; Net/Handshake.v automata (hand-derived from op_r2owa.go, op_i2rw.go, deferred.go, vm.go and the Verilog templates) tied by flag-level comparison on every tick/clock of generated machines; Vlog.Sem for the hardware half."),
 "C17": dict(
   technique="Coq proof on a labelled transition system of the Step barrier and the Stop shutdown (every worker is back at its select after a Step; closing quit releases all of them in every interleaving; without Stop no transition removes a worker) plus bookkeeping over call histories; goroutine counts and profiles as the tie",
   text="Proof (thin, on models): the worker protocol of VM.Step / Processor_execute / VM.Stop is modelled as an LTS for any number of processors; proved: the round invariant, progress (a Step never blocks), termination measure, at the end of a Step every worker waits for its next instruction, the live-worker count is constant until Stop and Stop lets every worker exit. Bookkeeping: histories of complete single-shot simulations leave zero workers; the pre-fix code leaves n*(P+1) (refuted variant kept). The tie is dynamic: goroutine count and goroutine profile grouped by function around batches of SinglePipelineSimulate / Fitness_default calls (sequential and concurrent). Assembler instances leak their requirements server (known finding). Heap retention is measured, not proved.",
   design_ref="DESIGN.md section 5, C17",
   note="Trusted: Coq kernel; Front/Barrier.v, Front/Leak.v hand-written models; harness/c17.go goroutine accounting."),
 "C12": dict(
   technique="Coq proof of compiler correctness for the register-variable subset (emitted code under the simulator model writes the Go semantics' output sequence, all programs / register sizes / machines with enough registers) plus an LTS of the compiler's three workers (never blocks, terminates, requirements independent of the interleaving); ties: the real cmd/bondgo binary compared instruction by instruction with the model under forced worker delays and a deadline",
   text="Proof: Front/Bondgo.v models Expr_eval/Visit for declarations, assignment, literals, variables, + and *, IOWrite together with the allocator's lowest-free-register policy; compile_correct is proved by induction with an invariant relating allocator state, machine registers and the Go environment. Front/BondgoProto.v models visitor / Var_assigner / Usage_Monitor as rendezvous automata for every visitor behaviour; with the repaired shutdown order no reachable state is stuck, a measure decreases, and the final requirement is schedule independent; the old order is refuted by a concrete deadlock. Tie: random programs of the subset are compiled by the real binary (built with -tags verif) with the allocator's notifications delayed by 0/25 ms (quick) or 0/5/25/60 ms; assembly, reported register requirement and simulated outputs are compared with the model. Control flow, functions, goroutines and channels are outside the model (partial).",
   design_ref="DESIGN.md section 5, C12",
   note="Trusted: Coq kernel; hand-written models Front/Bondgo.v, Front/BondgoProto.v; Isa/Sim.v as the meaning of assembly (tied to the Go simulator in C09); the verif hook verifYieldBondgo."),
 "C11": dict(
   technique="Coq proof over a model regenerated from the Go source on every run (translators/gojson.py: struct definitions and the bodies of the four Jsoner/Dejsoner methods -> generated/GenJson.v): load(save m) = m on every described field, save(load(save m)) = save m, save(load j) = j when every name resolves, bonds/links carried verbatim; the generated functions are also evaluated on dumped machines and compared with the Go methods; saved machines are reloaded in a fresh process and compared on JSON bytes, struct fields, Verilog and simulation",
   text="Proof on a translator-generated model: a field added to a struct but not copied by Jsoner/Dejsoner gets the Go zero value in the regenerated function and the round-trip theorem stops checking. Opcodes and shared instances are (name, identity) pairs; the registry, the dynamic-instruction families and Instantiate are parameters, the hypothesis 'registered' (every opcode resolves to itself by name) is what the harness checks for every opcode of every generated machine in a fresh process. Dynamic half: 36 (quick) / 400 machines incl. BASM output, shared objects, rsets* dynamic opcodes, threaded CPs, WordSize overrides. encoding/json is not modelled. Known finding: an unresolvable name is dropped silently.",
   design_ref="DESIGN.md section 5, C11",
   note="Trusted: Coq kernel; translators/gojson.py (validated by in-Coq evaluation against the Go methods each run); Front/Json.v loop-shape semantics; harness/c11.go reflect dump."),
 "C14": dict(
   technique="Coq model of the quantum-circuit compiler (layering, localQBits/localOrder swap bookkeeping, tensor products, undoing the swaps) over an arbitrary coefficient ring, evaluated exactly in Z[1/2][zeta8] and compared entry by entry with the matrices the Go code emits; reference unitary (gates embedded and multiplied in program order) computed exactly in Coq and independently in the harness; theorems on the model",
   text="Model Front/Quantum.v transcribes QasmToBmMatrices / BmMatrixFromOperation / swaps2baseSwaps with basis states as bit lists; Front/Cyclo8.v gives exact arithmetic for every gate of the supported set with angles k*pi/2 (rotations) and k*pi/4 (phases). Each run: random circuits (1-4 qubits quick, 1-5 thorough; arbitrary distinct arguments, single two-qubit gate per layer, neighbours, dense two-qubit layers) are compiled by the Go code; every emitted matrix entry is compared with the exact model entry (tolerance 2e-5 against exact values), every emitted matrix is checked unitary, the product and every software-simulated basis state are compared with the reference unitary. The pre-fix code (original qubit numbers used as positions) is kept in the model as layer_matrix_old and refuted.",
   design_ref="DESIGN.md section 5, C14",
   note="Trusted: Coq kernel; Front/Quantum.v hand transcription, bit-list vs numeric index correspondence checked by the entrywise comparison; Front/Cyclo8.v gate table; float tolerance."),
 "C07": dict(
   technique="Coq proofs of order independence for the loop shapes through which Go's map iteration order and goroutine timing enter the build tools (commuting visits, keyed writes, maximum accumulation, sort-before-emit, first-match over pairwise disjoint matchers, the compiler's worker protocol), an inventory of every map range and clock/random use found with go/types on every run and classified in a committed table, and byte comparison of every artefact over repeated fresh-process runs with varied GOMAXPROCS",
   text="Proof (on models with the visiting order as an explicit argument): visit_all_perm and its invariant form, keyed writes observably order-free, max accumulation, opcode-list selection independent of the order objectSet.getReqs answers in, emit-after-sort independent of the map order (mathcomp sort), ImportString independent of matcher order (from the regenerated matcher table, C08), compiler result independent of worker interleaving (C12 LTS). Every map-range site of the tool packages (206 at the pinned tree) is listed by harness/sites.go and must appear in translators/c07_sites.json with a class; an unlisted site fails the check; sites whose order can reach an artefact are known findings unless repaired. Dynamic: basm (with requirements dump), bondgo (single and multi processor), neuralbond->basm, bmqsim->basm, bondmachine -create-verilog, 6 (quick) / 24 fresh runs per input with GOMAXPROCS 1/2/4/16, plus in-process repetition. The tie between the order argument and the Go runtime is statistical.",
   design_ref="DESIGN.md section 5, C07",
   note="Trusted: Coq kernel; Front/Order.v, Front/SortedEmit.v loop-shape models; the manual class of each site in translators/c07_sites.json; harness/sites.go (go/types)."),
 "C05": dict(
   technique="Coq model of the BASM assembler for .romtext sections over the simulated instruction subset (labels, entry directive removal, mov pseudo-instruction by operand kinds and iomode, architecture sizing) with a lock-step simulation theorem against a direct source-level semantics, and a sizing-adequacy theorem; tie: the real assembler's program, sizes and bonds and the real simulator's external streams compared with the model on generated sources",
   text="Proof: lockstep (one step of the source semantics, whose program counter ranges over source items and whose jumps go to the item a label is written in front of, corresponds to one simulator step of the assembled program, with the ROM address the number of instruction items before the source position), lifted to any number of steps; start states agree when the entry label precedes the first instruction (refuted otherwise: known finding, the 'entry' metadata is never used); inferred R/N/M/O fit every register, port and address of the program. Tie per run: 40 (quick) / 500 generated sources with 1-3 processors wired by ioatt, labels, forward/backward j/jz, all four mov forms, entry directive first or elsewhere, sync/async, register sizes 8/16/32: assembled program and sizes equal the model's, bond set equals the ioatt lines, 40 ticks of external streams equal the whole machine run from the source-level semantics (Net.Tick with source steps). Macros, data sections, templates, fragments (C06) are outside the model (partial).",
   design_ref="DESIGN.md section 5, C05",
   note="Trusted: Coq kernel; Front/Basm.v hand-written; Isa/Sim.v and Net/Tick.v (tied in C09)."),
 "C16": dict(
   technique="a validator written in Coq (wf_bondmachine: ROM word width and decodability with the opcode layouts regenerated from the source, port indices in range, sorted duplicate-free opcode lists, ROM within 2^O, equal register sizes, well-formed bond graph, domain port counts) evaluated by vm_compute on every machine the real front-ends emit in the run, with theorems about what a positive answer guarantees and about the assembler's sizing",
   text="Theorems: a validated word has the architecture's width, carries the number of one of the processor's opcodes and the simulator's disassembler cannot fail on it; a validated processor has a duplicate-free opcode list, fixed-width ROM within 2^O; the assembler's sizing (needed_bits, R/N/M/O inference) fits every register, port and address of the program it was derived from (with C05's model of creatorbm.go); bond graphs built by edit operations are well formed (C10). Per run: machines from basm (corpus, with and without the chooser, generated C05 sources), neuralbond->basm in both modes, bmqsim->basm, bondgo single and multi processor are loaded through Bondmachine_json.Dejsoner and validated; four sources that cannot fit (literal wider than the registers via rset and via mov, undefined label, romsize too small) must be rejected. Level: translation validation of each emitted machine plus proof about the validator and the sizing.",
   design_ref="DESIGN.md section 5, C16",
   note="Trusted: Coq kernel; Front/Wf.v validator; translators/layout.py (validated in C03); harness/c16.go."),
 "C06": dict(
   technique="Coq model of fragments, instances, links, the direct dataflow evaluation of the graph and of fragmentComposer (numbering of processor inputs/outputs/temporaries, glue moves, bodies in collapse order, temporaries renamed to the lowest free registers); the composed section of every processor of every partition is compared instruction by instruction with the assembler's program, and the settled outputs of the simulated machine with the direct evaluation, for all-on-one, one-each and random partitions",
   text="Model Front/Frag.v; per run 14 (quick) / 150 random DAGs of 2-6 instances of random integer fragments, 3-5 partitions each (everything on one processor, one processor per instance, random ones with topologically ordered collapse lists), register sizes 8/16/32: (1) compose(g, collapse list) evaluated in Coq equals the disassembled program of that processor; (2) eval(g, inputs) evaluated in Coq and independently in the harness equals the outputs the simulated machine settles on within 500 ticks under constant inputs. Theorems about compose are being added (see DESIGN.md); the stabilisation argument across processors is not proved (partial).",
   design_ref="DESIGN.md section 5, C06",
   note="Trusted: Coq kernel; Front/Frag.v hand-written; Isa/Sim.v; asynchronous iomode only."),
}
NOT_APPLICABLE = []

def main():
    checks = []
    for pid in sorted(CHECKS):
        c = CHECKS[pid]
        checks.append(dict(property_id=pid, quick_cmd="./check %s --tier quick" % pid,
                           thorough_cmd="./check %s --tier thorough" % pid,
                           evidence_file="evidence/%s.json" % pid,
                           replay_cmd_template="./check %s --replay {path}" % pid,
                           engine="coq+bmh",
                           level_claimed=dict(category=c.get("category", "proof"), text=c["text"], design_ref=c["design_ref"]),
                           level_note=c["note"], technique=c["technique"]))
    hooks_file = os.path.join(HERE, "MANIFEST.hooks")
    commits = []
    if os.path.exists(hooks_file):
        for l in open(hooks_file):
            if l.startswith("commit "):
                commits.append(l.split()[1])
    m = dict(version=1, setup_cmd="./setup.sh",
             hooks=dict(guard="verif", enable="go build -tags verif (harness module /verif/harness with replace => /repo)",
                        baseline_off_cmd=BASE["cmd"], source_commits=commits, add_only=True),
             engines=[dict(name="coq+bmh", path="check", serves_properties=sorted(CHECKS),
                           kind_free_text="Coq 8.16 theories (coq/theories) + Go harness (harness/) + Python driver (check, lib/)")],
             checks=checks,
             notes="Every check: make (all static theories) + coqc Properties/<id>.v with Print Assumptions, then correspondence of the Coq model with /repo's working tree via vm_compute-evaluated cases files. See DESIGN.md.",
             not_applicable=NOT_APPLICABLE)
    json.dump(m, open(os.path.join(HERE, "MANIFEST.json"), "w"), indent=1)
    r = subprocess.run(["python3-vt", "-c", "import json,jsonschema,sys; jsonschema.validate(json.load(open('%s/MANIFEST.json')), json.load(open('/root/.vp/MANIFEST.schema.json'))); print('manifest valid')" % HERE])
    sys.exit(r.returncode)
main()
