"""C03 — instruction encoding is a lossless, fixed-width, range-checked code."""
import json
import os
import random
import re
import sys

import common as C

sys.path.insert(0, os.path.join(C.VERIF, "translators"))
import layout as LT  # noqa: E402

MODES = {"ha": "Ha", "vn": "Vn", "hy": "Hy"}


def sel_bits(n):
    for b in range(1, 16):
        if (1 << b) >= n:
            return b
    return 1


SHR_KIND_NAME = {"SQueue": ("queue", "q"), "SStack": ("stack", "st"), "SUart": ("uart", "u"), "SKbd": ("kbd", "k"), "SBarrier": ("barrier", "br"),
                 "SLfsr8": ("lfsr8", "lfsr8"), "SChannel": ("channel", "ch")}


def shr_num(a, kind):
    name = SHR_KIND_NAME[kind][0]
    return sum(1 for x in (a.get("shared") or "").split(",") if ":" in x and x.split(":")[0] == name)


def shr_bits(a, kind):
    n = shr_num(a, kind)
    if n == 0:
        return 0
    b = 1
    while (1 << b) < n:
        b += 1
    return b


def shared_kinds(a):
    """the kind names of Shared_constraints, in order (entries without a ':' are not counted by Shared_num)"""
    return [x.split(":")[0] for x in (a.get("shared") or "").split(",") if ":" in x]


def weval(w, a, nops):
    t = w[0]
    if t == "C":
        return w[1]
    if t == "A" and w[1].startswith("(AShr "):
        return shr_bits(a, w[1][6:-1])
    if t == "A":
        return {"AOp": sel_bits(nops), "AR": a["R"], "ARsize": a["rsize"], "AInb": sel_bits(a["N"]),
                "AOutb": sel_bits(a["M"]), "AO": a["O"], "AL": a["L"], "AMaxOL": max(a["O"], a["L"])}[w[1]]
    if t == "P":
        return weval(w[1], a, nops) + weval(w[2], a, nops)
    if t == "M":
        return w[1] * weval(w[2], a, nops)
    return weval(w[1 + ["ha", "vn", "hy"].index(a["mode"])], a, nops)


def operand_pool(kind, width, a, rnd):
    if kind.startswith("(KShr "):
        k = kind[6:-1]
        short, n = SHR_KIND_NAME[k][1], shr_num(a, k)
        return ["%s0" % short, "%s%d" % (short, max(n - 1, 0)), "%s%d" % (short, n // 2), "%s%d" % (short, n), short, "%s01" % short, "r0", "%s%d" % (short, n + 7)]
    if kind == "KReg":
        n = 1 << a["R"]
        return ["r0", "r%d" % (n - 1), "r%d" % (n // 2), "r%d" % n, "r", "r01", "x1", "i0"]
    if kind == "KIn":
        n = a["N"]
        return ["i0", "i%d" % max(n - 1, 0), "i%d" % n, "o0", "i"]
    if kind == "KOut":
        n = a["M"]
        return ["o0", "o%d" % max(n - 1, 0), "o%d" % n, "i0", "o00"]
    top = 1 << width
    vals = [0, 1, top - 1, top, top >> 1, top + 1, rnd.randrange(max(top, 1)), (1 << 63) - 1, 1 << 63,
            (1 << 64) - 1, 1 << 64]
    out = []
    for v in vals:
        f = rnd.randrange(6)
        out.append(str(v) if f < 3 else "0x%x" % v if f == 3 else "0b" + bin(v)[2:] if f == 4 else "00%d" % v)
    return out + ["-1", "1.5", "0x", "abc"]


def gen_lines(layouts, ops, a, rnd, per_op):
    lines = []
    nops = len(ops)
    for name in ops:
        l = layouts.get(name)
        if l is None:
            # opaque opcode: a few generic operand shapes; only the Go-side predicates apply
            for args in (["r0"], ["r0", "r1"], ["r0", "0"], ["r0", "7"], ["r1", "5"], ["r0", "i0"], [], ["3"]):
                lines.append(" ".join([name] + args))
            if a.get("shared"):
                # shared-object operands: q<k> st<k> u<k> k<k> br<k> lfsr8<k> ch<k>, in and out of range, with and without a register
                for short in ("q", "st", "u", "k", "br", "lfsr8", "ch"):
                    for k in (0, 1, 2, 4, 7):
                        lines.append("%s r%d %s%d" % (name, k % 3, short, k))
                        lines.append("%s %s%d" % (name, short, k))
                        lines.append("%s %s%d r%d" % (name, short, k, k % 2))
            continue
        pools = [operand_pool(k, weval(w, a, nops), a, rnd) for k, w in l["fields"]]
        # mostly-valid stream: first three entries of each pool are in range
        for _ in range(per_op):
            args = []
            for p in pools:
                args.append(p[rnd.randrange(3)] if rnd.random() < 0.7 else p[rnd.randrange(len(p))])
            lines.append(" ".join([name] + args))
        # boundary stream: each field at each pool value, others valid
        for fi, p in enumerate(pools):
            for v in p:
                args = [q[0] for q in pools]
                args[fi] = v
                lines.append(" ".join([name] + args))
        # arity errors
        base = [q[0] for q in pools]
        lines.append(" ".join([name] + base + ["r0"]))
        if base:
            lines.append(" ".join([name] + base[:-1]))
    lines += ["nosuchop r0", "# comment", "  ", "RSET R0 1" if "rset" in ops else "NOP"]
    return lines


def arch_term(a, opnames):
    return "(mkArch %d %d %s %s %d %d %s %d %s %s)" % (
        a["rsize"], a["R"], C.cq_N(a["N"]), C.cq_N(a["M"]), a["L"], a["O"],
        C.cq_list([C.cq_string(n) for n in opnames]), a.get("wordsize", 0), MODES[a["mode"]],
        C.cq_list([C.cq_string(n) for n in shared_kinds(a)]))


def coq_ok_token(t):
    return all(32 <= ord(ch) < 127 for ch in t)


def canon_num(tok):
    """value of an integer literal in the notations the model covers, else None"""
    if re.fullmatch(r"[0-9]+", tok):
        v = int(tok)
        return v if v < (1 << 64) else None
    m = re.fullmatch(r"0x([0-9a-fA-F]+)", tok)
    if m:
        return int(m.group(1), 16)
    m = re.fullmatch(r"0b([01]+)", tok)
    if m:
        return int(m.group(1), 2)
    return None


def go_predicates(res, r, layouts):
    """The property's own statements evaluated on the implementation's output alone.
    Returns a list of (code, text)."""
    out = []
    if r["err"] == "panic":
        return [("panic", "assembler panicked")]
    if r["err"]:
        return out
    words = r["line"].lower().split()
    if not words or words[0].startswith("#"):
        return out
    if len(r["word"]) != res["maxword"]:
        out.append(("width", "word has %d bits, architecture width is %d" % (len(r["word"]), res["maxword"])))
    if r["diserr"]:
        out.append(("disasm", "disassembler failed (%s) on an assembled word" % r["diserr"]))
        return out
    dis = r["dis"].split()
    l = layouts.get(words[0])
    if l is not None and len(words) - 1 == len(l["fields"]):
        want = [words[0]]
        for (k, _), tok in zip(l["fields"], words[1:]):
            if k == "KNum":
                v = canon_num(tok)
                want.append(str(v) if v is not None else tok)
            else:
                want.append(tok)
        if dis != want:
            out.append(("roundtrip", "disassembly %r is not the instruction %r" % (r["dis"], " ".join(want))))
    elif l is None and dis[:1] != words[:1]:
        out.append(("roundtrip", "disassembly %r names another opcode" % r["dis"]))
    if r["reerr"] or r["re"] != r["word"]:
        out.append(("reasm", "assembling the disassembly %r gives %r, not the word" % (r["dis"], r["re"] or r["reerr"])))
    return out


def classify_known(code, res, r):
    """narrow keys of KNOWN_FINDINGS.json; returns key or None"""
    a = res["arch"]
    if code in ("roundtrip", "reasm") and a["rsize"] == 64 and any(t.startswith("-") for t in r["dis"].split()):
        return "c03_int64_disassembly"
    return None


def make_archs(rnd, layouts, allops, tier):
    archs = []
    modelled = sorted(layouts)
    n = 14 if tier == "quick" else 160
    combos = [(8, 2, 2, 2, 3, 4), (8, 1, 1, 1, 1, 1), (16, 3, 3, 3, 4, 5), (32, 2, 0, 4, 2, 6), (64, 2, 2, 2, 3, 4),
              (8, 8, 255, 255, 8, 8), (16, 1, 5, 0, 0, 3), (32, 4, 16, 17, 6, 2)]
    for k in range(n):
        if k < len(combos):
            rs, R, N, M, L, O = combos[k]
        else:
            rs, R, N, M, L, O = (rnd.choice([8, 16, 32, 64]), rnd.choice([1, 2, 3, 8]), rnd.choice([0, 1, 2, 3, 4, 5, 255]),
                                 rnd.choice([0, 1, 2, 3, 4, 255]), rnd.choice([0, 1, 2, 8]), rnd.choice([1, 2, 4, 8]))
        mode = ["ha", "vn", "hy"][k % 3] if k >= 3 else "ha"
        a = dict(rsize=rs, R=R, N=N, M=M, L=L, O=O, mode=mode, wordsize=0, shared="")
        if k % 7 == 6:
            a["wordsize"] = rnd.choice([6, 12, 24, 40])
        if k % 2 == 0 or k < 4:
            cnt = rnd.choice([1, 2, 3, 5, 9, 17, 33])
            a["ops"] = sorted(rnd.sample(modelled, min(cnt, len(modelled))))
            a["modelled"] = True
        else:
            a["ops"] = sorted(rnd.sample(allops, rnd.choice([4, 12, 40])))
            a["modelled"] = all(o in layouts for o in a["ops"])
        archs.append(a)
    # every opcode somewhere: one arch with all modelled ones, one with everything
    archs.append(dict(rsize=8, R=2, N=3, M=3, L=3, O=5, mode="ha", wordsize=0, shared="", ops=modelled, modelled=True))
    archs.append(dict(rsize=16, R=3, N=2, M=2, L=4, O=4, mode="hy", wordsize=0, shared="", ops=list(allops), modelled=False))
    archs.append(dict(rsize=64, R=2, N=1, M=1, L=2, O=4, mode="ha", wordsize=0, shared="",
                      ops=sorted(o for o in ("rset", "j", "jz", "m2r", "nop") if o in layouts), modelled=True))
    # processors attached to shared objects (several of every kind): the opcodes that name them carry an object index field
    shared = ",".join(["queue:4", "queue:4", "queue:8", "stack:4", "stack:4", "uart:a", "uart:b", "uart:c", "kbd:a", "kbd:b",
                       "barrier:a", "barrier:b", "barrier:c", "lfsr8:a", "lfsr8:b", "channel:a", "channel:b", "channel:c", "channel:d", "channel:e"])
    so_ops = [o for o in allops if o not in layouts and not o.startswith("rsets")]
    so_all = [o for o in ("hit", "k2r", "lfsr82r", "q2r", "r2q", "r2t", "r2u", "t2r", "u2r", "wrd", "wwr") if o in allops]
    for ar in (dict(rsize=8, R=2, N=1, M=1, L=2, O=4, mode="ha", wordsize=0, shared=shared, ops=sorted(set(so_ops + so_all) | {"rset", "nop", "j"})),
               dict(rsize=16, R=3, N=2, M=2, L=2, O=9, mode="ha", wordsize=0, shared=shared, ops=sorted(set(so_ops + so_all) | {"jz", "nop", "cpy"})),
               dict(rsize=8, R=1, N=0, M=0, L=0, O=3, mode="ha", wordsize=0, shared="queue:4,stack:4,channel:a", ops=sorted(set(so_all) | {"nop"})),
               dict(rsize=8, R=1, N=0, M=0, L=0, O=3, mode="ha", wordsize=0, shared="", ops=sorted(set(so_all) | {"nop"}))):
        ar["modelled"] = all(o in layouts for o in ar["ops"])
        archs.append(ar)
    return archs


def run(res, a):
    layouts_l, opaque = LT.translate(C.REPO)
    os.makedirs(C.GEN, exist_ok=True)
    LT.emit_coq(layouts_l, opaque, os.path.join(C.GEN, "GenLayout.v"))
    layouts = {l["name"]: l for l in layouts_l}
    expected = json.load(open(os.path.join(C.VERIF, "translators", "expected_layouts.json")))
    lost = [(n, dict(opaque).get(n, "opcode file or name not found")) for n in expected["modelled"] if n not in layouts]
    C.coq_make()
    C.coqc(os.path.join(C.GEN, "GenLayout.v"))
    obl = os.path.join(C.GEN, "C03_obligations.v")
    with open(obl, "w") as f:
        f.write("""(* GENERATED on every run: the theorems of Properties/C03.v instantiated with the layout
   table extracted from /repo's current source *)
From Coq Require Import List String.
From BM Require Import Isa.Encode Front.NumLit Proofs.EncodeProofs Properties.C03.
From BMGen Require Import GenLayout.
Theorem current_tree_layouts_consistent : forallb layout_rt_ok table = true.
Proof. vm_compute. reflexivity. Qed.
Print Assumptions current_tree_layouts_consistent.
Theorem current_tree_roundtrip : forall a name args w,
    asm table a (name :: args) = Some w ->
    (forall l, find_layout table name = Some l -> small_fields a (afields l) (dfields l)) ->
    exists l, find_layout table name = Some l /\\
              disasm_word table a w = Some (name :: normalise process_number a (afields l) args) /\\
              asm table a (name :: normalise process_number a (afields l) args) = Some w.
Proof. exact (disasm_asm table current_tree_layouts_consistent). Qed.
Print Assumptions current_tree_roundtrip.
Theorem current_tree_rejects_unfit : forall a name args w,
    asm table a (name :: args) = Some w ->
    exists l, find_layout table name = Some l /\\ operands_fit process_number a (afields l) args.
Proof. exact (asm_rejects_unfit table current_tree_layouts_consistent). Qed.
Print Assumptions current_tree_rejects_unfit.
""")
    failed = C.proof_part(res, "C03", extra_files=[obl], trusted=[
        "translators/layout.py (Go source -> layout table; regex/AST based, refuses unknown shapes)",
        "harness/c03.go + lib/c03.py as the correspondence tie",
        "model of Process_number limited to decimal / 0x / 0b literals (Front/NumLit.v)"])
    bad_layouts = []
    if failed:
        # which layouts break the consistency check?
        try:
            out = C.eval_cases("C03", "badlayouts",
                               "From Coq Require Import List String Bool.\nFrom BM Require Import Isa.Encode.\n"
                               "From BMGen Require Import GenLayout.\n"
                               "Definition M := Eval vm_compute in map lname (filter (fun l => negb (layout_rt_ok l)) table).\n")
            bad_layouts = [s for s in re.findall(r'"([a-z0-9]+)"', str(out["M"]))] if not isinstance(out["M"], list) else out["M"]
        except C.Broken:
            pass
    C.build_harness()
    rnd = random.Random(a.seed)
    probe = C.jsonl(C.sh([C.BMH, "c03"], input=json.dumps({"arch": dict(rsize=8, R=1, N=1, M=1, L=1, O=1, ops=[], mode="ha"), "lines": []}) + "\n").stdout)
    # opcodes created on demand (dynop_rsets.go: rsets<N>, an N-bit immediate) have no op_*.go file: the Go-side predicates
    # (width, round trip of the disassembly) apply to them as to the opaque ones
    allops = sorted(set(layouts) | set(n for n, _ in opaque) | {"rsets4", "rsets5", "rsets8", "rsets12"})
    archs = make_archs(rnd, layouts, allops, a.tier)
    if a.replay:
        rp = json.load(open(a.replay))["replay"]
        archs = [dict(rp["arch"], modelled=all(o in layouts for o in rp["arch"]["ops"]))]
    reqs = []
    for ar in archs:
        lines = [rp["line"]] if a.replay else gen_lines(layouts, ar["ops"], ar, rnd, 4 if a.tier == "quick" else 12)
        lines = [l for l in lines if coq_ok_token(l)]
        reqs.append({"arch": {k: v for k, v in ar.items() if k != "modelled"}, "lines": lines})
    out = C.sh([C.BMH, "c03"], input="".join(json.dumps(r) + "\n" for r in reqs), timeout=1800).stdout
    results = C.jsonl(out)
    if len(results) != len(reqs):
        raise C.Broken("harness answered %d of %d architectures" % (len(results), len(reqs)))
    # ---- spec predicates on the implementation alone
    errkinds = {}
    opseen = {}
    known = C.known_findings("C03")
    known_keys = {k["key"] for k in known}
    viol = []
    nlines = 0
    for rs in results:
        for r in rs["res"]:
            nlines += 1
            w0 = (r["line"].lower().split() or [""])[0]
            opseen[w0] = opseen.get(w0, 0) + 1
            errkinds[r["err"] or "accepted"] = errkinds.get(r["err"] or "accepted", 0) + 1
            res.count_case({"a": rs["arch"], "l": r["line"]}, nontrivial=bool(r["err"] == "" and len(r["line"].split()) > 1))
            for code, text in go_predicates(rs, r, layouts):
                key = classify_known(code, rs, r)
                if key and key in known_keys:
                    res.known_finding("%s %s: %s" % (key, r["line"], text))
                else:
                    viol.append((code, text, rs["arch"], r["line"]))
    # ---- a whole program (accepted lines with comment and blank lines in between) assembles to exactly the words of its lines, in order,
    # and disassembles to their disassemblies
    nprogs = 0
    for rs in results:
        pl = rs.get("proglines") or []
        if not pl or a.replay:
            continue
        nprogs += 1
        single = {r["line"]: r for r in rs["res"] if r["err"] == ""}
        want = [single[l]["word"] for l in pl]
        if rs.get("progerr") or (rs.get("progwords") or []) != want:
            viol.append(("program", "a program of %d instruction lines with comment and blank lines assembles to %s, its lines one by one to %s (%s)"
                         % (len(pl), rs.get("progerr") or rs.get("progwords"), want, json.dumps(rs.get("progtext"))), rs["arch"], pl[0]))
        elif [d.strip() for d in rs.get("progdis") or []] != [single[l]["dis"].strip() for l in pl if single[l]["diserr"] == ""] and \
                all(single[l]["diserr"] == "" for l in pl):
            viol.append(("program", "the disassembly of a program, %s, is not the disassembly of its words one by one, %s"
                         % (rs.get("progdis"), [single[l]["dis"] for l in pl]), rs["arch"], pl[0]))
    res.coverage["whole_programs_assembled"] = nprogs
    # ---- model vs implementation
    bodies, owners = [], []
    for rs, ar in zip(results, archs):
        if not ar.get("modelled"):
            continue
        obs = []
        for r in rs["res"]:
            ws = r["line"].lower().split()
            if not ws or ws[0].startswith("#"):
                continue
            obs.append("(%s, %s, %s)" % (C.cq_list([C.cq_string(t) for t in ws]), C.cq_string(r["word"]),
                                         C.cq_list([C.cq_string(t) for t in r["dis"].split()])))
        bodies.append("From Coq Require Import List String NArith.\nFrom BM Require Import Isa.Encode Isa.EncodeCheck.\n"
                      "From BMGen Require Import GenLayout.\nImport ListNotations.\nLocal Open Scope string_scope.\n"
                      "Definition c : arch * nat * nat * list obs := (%s, %d, %d, %s).\nDefinition M := Eval vm_compute in check_arch table c.\n" % (
                          arch_term(rs["arch"], rs["opnames"]), rs["opbits"], rs["maxword"], C.cq_list(["\n" + o for o in obs])))
        owners.append(rs)
    mism = []
    for rs, o in zip(owners, C.eval_cases_parallel("C03", bodies)):
        lines = [r for r in rs["res"] if r["line"].lower().split() and not r["line"].lower().split()[0].startswith("#")]
        for k, code in o["M"]:
            r = lines[k] if code < 8 else {"line": "(architecture sizing)"}
            mism.append((code, rs["arch"], r))
    cov = res.coverage
    cov["rule"] = ("architectures at boundary widths x opcodes (93 modelled layouts, shared-object opcodes included) x operand tuples: mostly-valid "
                   "stream, per-field boundary stream (first out-of-range value of each field, literals in decimal/hex/binary, "
                   "malformed tokens), arity errors; non-trivial = accepted instruction with at least one operand; distinct by hash")
    cov["architectures"] = len(archs)
    cov["lines"] = nlines
    cov["outcome_histogram"] = errkinds
    cov["opcodes_exercised"] = len(opseen)
    cov["modelled_layouts"] = len(layouts)
    cov["opaque_opcodes_correspondence_only"] = [n for n, _ in opaque]
    cov["model_vs_impl_mismatches"] = len(mism)
    cov["traces_validated_against_impl"] = sum(len(rs["res"]) for rs in owners) - len(mism)
    cov["samples"] = [{"arch": results[0]["arch"], "line": r["line"], "word": r["word"], "dis": r["dis"]} for r in results[0]["res"][:3]]
    for code, text, ar, line in viol[:3]:
        res.violation("C03 %s: %s (line %r)" % (code, text, line), {"arch": ar, "line": line})
    if not viol:
        for code, ar, r in mism[:3]:
            res.violation("C03 model and implementation disagree (code %d) on %r" % (code, r["line"]), {"arch": ar, "line": r["line"]},
                          nofail=True)
    if lost and not viol:
        res.violation("C03 opcodes %s are no longer covered by the round-trip theorem: the translator cannot read their "
                      "Assembler/Disassembler any more (%s)" % ([n for n, _ in lost], lost),
                      {"untranslatable": lost}, nofail=True)
    if failed and not viol and not mism:
        res.violation("C03 proof obligation no longer checks: %s; inconsistent layouts: %s" % (failed, bad_layouts),
                      {"obligation": failed, "layouts": bad_layouts}, nofail=True)
    return res.finish("proof")
