"""C16 — every machine a front-end emits is well formed."""
import glob
import json
import re
import os
import random
import shutil
import tempfile
from concurrent.futures import ThreadPoolExecutor

import common as C
import c03
import c05
import c07
import c12
import simlib

import layout as LT  # noqa: E402  (translators/ is put on sys.path by c03)

MODES = {"ha": "Ha", "vn": "Vn", "hy": "Hy"}


def bits_term(w):
    return "(%s : list bool)" % C.cq_list(["true" if ch == "1" else "false" for ch in w])


def machine_rows(desc):
    doms, datas = [], []
    for d in desc["doms"]:
        arch = "(mkArch %d %d %s %s %d %d %s %d %s %s)" % (d["Rsize"], d["R"], C.cq_N(d["N"]), C.cq_N(d["M"]), d["L"], d["O"],
                                                          C.cq_list([C.cq_string(n) + "%string" for n in d["Ops"] or []]), d["WordSize"], MODES.get(d["Mode"], "Ha"),
                                                          C.cq_list([C.cq_string(x.split(":")[0]) + "%string" for x in (d.get("Shared") or "").split(",") if ":" in x]))
        doms.append("(%s, %s)" % (arch, C.cq_list([bits_term(w) for w in d["Rom"] or []])))
        datas.append(C.cq_list([str(len(w)) for w in (d.get("Data") or [])]))      # the width of every ROM data word
    return "(%d, %s, %s, %s)" % (desc["rsize"], C.cq_list(doms), simlib.topo_term(desc["topo"]), C.cq_list(datas))


def unfit_sources(rnd):
    """sources with one operand or size that cannot fit: an error is expected, never a machine"""
    out = []
    hdr = "%%section c .romtext iomode:async\n  entry _start\n_start:\n%s%%endsection\n%%meta cpdef cpa romcode:c%s\n%%meta bmdef global registersize:8\n"
    out.append(("literal wider than the registers", hdr % ("  rset r0, 300\n  r2o r0, o0\n  j _start\n", ""), True))
    out.append(("literal wider than the registers (mov)", hdr % ("  mov r0, 256\n  r2o r0, o0\n  j _start\n", ""), True))
    out.append(("jump to an undefined label", hdr % ("  inc r0\n  j nowhere\n", ""), True))
    out.append(("romsize too small for the program", hdr % ("  inc r0\n  inc r0\n  inc r0\n  inc r0\n  r2o r0, o0\n  j _start\n", ", romsize:1"), True))
    return out


def run(res, a):
    layouts_l, opaque = LT.translate(C.REPO)
    os.makedirs(C.GEN, exist_ok=True)
    LT.emit_coq(layouts_l, opaque, os.path.join(C.GEN, "GenLayout.v"))
    C.coq_make()
    C.coqc(os.path.join(C.GEN, "GenLayout.v"))
    failed = C.proof_part(res, "C16", trusted=[
        "Front/Wf.v: the validator (hand-written); it decodes ROM words with the opcode layouts regenerated from the source by translators/layout.py "
        "(C03); opcodes whose encoding is not modelled are validated for width and opcode number only",
        "harness/c16.go: reads the JSON a front-end wrote, as cmd/bondmachine would"])
    C.build_harness()
    c07.build_tools()
    rnd = random.Random(a.seed)
    work = tempfile.mkdtemp(prefix="verif-c16-")
    machines = []   # (origin, json text or None, error text)
    try:
        def basm_json(name, srcs, flags):
            d = tempfile.mkdtemp(dir=work)
            rc, out = c07.run_tool([c07.tool("basm")] + flags + ["-o", "out.json"] + srcs, d, 4)
            js = c07.read(os.path.join(d, "out.json"))
            return (name, js.decode() if js else None, out[-300:] if rc != 0 or not js else "")
        jobs = []
        for f in sorted(glob.glob(os.path.join(C.VERIF, "corpus/basm/*.basm"))):
            jobs.append(lambda f=f: basm_json("basm:" + os.path.basename(f), [f], ["-disable-dynamical-matching"]))
            jobs.append(lambda f=f: basm_json("basm-chooser:" + os.path.basename(f), [f], ["-chooser-min-word-size"]))
        expected = {}
        for k in range(12 if a.tier == "quick" else 150):
            s = c05.gen_source(rnd)
            expected["basm:generated%d" % k] = s
            p = os.path.join(work, "gen%d.basm" % k)
            open(p, "w").write(s["text"])
            jobs.append(lambda p=p, k=k: basm_json("basm:generated%d" % k, [p], ["-disable-dynamical-matching"]))

        def neural(net, mode):
            d = tempfile.mkdtemp(dir=work)
            arts = c07.pipe_neuralbond(d, 4, net, mode)
            js = arts.get("bondmachine.json")
            return ("neuralbond:%s:%s" % (os.path.basename(net), mode), js.decode() if js else None, "" if js else "no machine")
        for net in ("net-testsmall.json", "net-testnormal.json")[:1 if a.tier == "quick" else 2]:
            for mode in ("romcode", "fragment"):
                jobs.append(lambda n=os.path.join(C.REPO, "cmd/neuralbond", net), m=mode: neural(n, m))

        def qsim(k, bmq, fl):
            d = tempfile.mkdtemp(dir=work)
            arts = c07.pipe_bmqsim(d, 4, bmq, fl)
            js = arts.get("bondmachine.json")
            return ("bmqsim:%d:%s" % (k, fl), js.decode() if js else None, "" if js else "no machine")
        for k in range(2 if a.tier == "quick" else 10):
            bmq = c07.gen_bmq(rnd)
            jobs.append(lambda k=k, b=bmq, f=c07.flavor_for(rnd, bmq): qsim(k, b, f))

        said = {}
        rejected = []

        def bondgo(name, src, rsize, mpm):
            d = tempfile.mkdtemp(dir=work)
            open(os.path.join(d, "p.go"), "w").write(src)
            # the machine file is only written in multi-processor mode
            args = [c07.tool("bondgo"), "-input-file", "p.go", "-register-size", str(rsize), "-save-bondmachine", "bm.json", "-mpm"]
            rc, out = c07.run_tool(args, d, 4)
            js = c07.read(os.path.join(d, "bm.json"))
            if not js and mpm and "error processing chw" in out:
                # goroutines with arguments: the compiler's own assembly is refused (C12 known finding c12_goroutine_arguments_rejected);
                # a rejected source is not a machine, so there is nothing for this property to say
                rejected.append(name)
                return (name, "", "rejected")
            if js and rc == 0:
                m = re.search(r"[^\n]*(error processing|Unknown [a-z ]*name)[^\n]*", out)
                if m:
                    said[name] = m.group(0).strip()
            return (name, js.decode() if js else None, out[-300:] if not js else "")
        for k in range(4 if a.tier == "quick" else 40):
            nouts, stmts = c12.gen_prog(rnd)
            stmts = [(s[0], s[1], c12.normalise(s[2])) if s[0] in ("assign", "write") else s for s in stmts]
            rs = rnd.choice([8, 16, 32])
            jobs.append(lambda k=k, s=c12.go_source(nouts, stmts, rs), r=rs: bondgo("bondgo:prog%d" % k, s, r, False))
        for f in sorted(glob.glob(os.path.join(C.VERIF, "corpus/bondgo/*.go"))):
            jobs.append(lambda f=f: bondgo("bondgo-mpm:" + os.path.basename(f), open(f).read(), 8, True))

        def multiasm(name, rsize):
            """the multi abstract-assembly front-end of bondgo: programs of several processors and their bonds in one JSON file"""
            d = tempfile.mkdtemp(dir=work)
            k1, k2 = rnd.randrange(1, 60), rnd.randrange(1, 60)
            aa = {"ProcProgs": ["rset r1 %d\nclr r2\ni2r r0 i0\nadd r0 r1\nr2o r0 o0\njz r2 2\n" % k1,
                                "rset r1 %d\nclr r2\ni2r r0 i0\nadd r0 r1\nr2o r0 o0\njz r2 2\n" % k2],
                  "Bonds": ["i0,p0i0", "p0o0,p1i0", "p1o0,o0"]}
            open(os.path.join(d, "aa.json"), "w").write(json.dumps(aa))
            rc, out = c07.run_tool([c07.tool("bondgo"), "-input-file", "aa.json", "-multi-abstract-assembly-input", "-register-size", str(rsize),
                                    "-save-bondmachine", "bm.json"], d, 4)
            js = c07.read(os.path.join(d, "bm.json"))
            return (name, js.decode() if js else None, out[-300:] if not js else "")
        for rs in ([8, 12, 24] if a.tier == "quick" else [8, 16, 32, 12, 24, 10, 48]):
            jobs.append(lambda rs=rs: multiasm("bondgo-multiasm:rsize%d" % rs, rs))
        with ThreadPoolExecutor(max_workers=12) as ex:
            machines = list(ex.map(lambda j: j(), jobs))
        # sources that cannot fit
        unfit = []
        for what, src, expect_err in unfit_sources(rnd):
            p = os.path.join(work, "unfit%d.basm" % len(unfit))
            open(p, "w").write(src)
            unfit.append((what, src, basm_json("unfit", [p], ["-disable-dynamical-matching"])))
    finally:
        shutil.rmtree(work, ignore_errors=True)
    viol = []
    got = [(n, js) for n, js, err in machines if js]
    for n, js, err in machines:
        if err == "rejected":
            continue
        res.count_case({"origin": n}, nontrivial=bool(js))
        if not js:
            viol.append(("front-end produced no machine for %s: %s" % (n, err), {"origin": n}))
    descs = C.jsonl(C.sh([C.BMH, "c16"], input="".join(json.dumps({"json": js}) + "\n" for _, js in got), timeout=1800).stdout)
    rows, metas = [], []
    for (n, js), d in zip(got, descs):
        if d.get("err"):
            viol.append(("the emitted machine %s cannot be loaded: %s" % (n, d["err"]), {"origin": n}))
            continue
        # what any accepted source means: a program at the reset address of every processor, every machine output driven, and no
        # error swallowed on the way
        if n in said:
            viol.append(("%s reports '%s' and still exits 0 and writes a machine (a source that cannot be fitted must be rejected)" % (n, said[n]),
                         {"origin": n}))
            continue
        if n in expected:
            e = expected[n]
            got_bonds = sorted(b[1] for b in (d["topo"].get("bonds") or []))
            if (d["topo"]["inputs"], d["topo"]["outputs"]) != (e["bm_in"], e["bm_out"]) or got_bonds != e["bonds"]:
                viol.append(("machine from %s has %d inputs, %d outputs and bonds %s; its source declares %d inputs, %d outputs and connections %s"
                             % (n, d["topo"]["inputs"], d["topo"]["outputs"], got_bonds, e["bm_in"], e["bm_out"], e["bonds"]),
                             {"origin": n, "source": e["text"]}))
                continue
        rows.append(machine_rows(d))
        metas.append((n, d, js))
    bodies = []
    shard = 4
    for i in range(0, len(rows), shard):
        bodies.append("From Coq Require Import List NArith Bool Arith String.\nFrom BM Require Import Base.Bits Isa.Encode Net.Topo Front.Wf.\n"
                      "From BMGen Require Import GenLayout.\nImport ListNotations.\n"
                      "Definition diag (x : nat * list (arch * list bstr) * bm * list (list nat)) : list nat :=\n"
                      "  let '(rs, doms, t, datas) := x in\n"
                      "  flat_map (fun dn => (if List.length (snd (fst dn)) + List.length (snd dn) <=? 2 ^ obits (fst (fst dn)) then [] else [6]) ++\n"
                      "                      (if forallb (fun w => Nat.eqb w (max_word table (fst (fst dn)))) (snd dn) then [] else [10])) (combine doms datas) ++\n"
                      "  (if wf_bmb t then [] else [1]) ++\n"
                      "  flat_map (fun d => (if sorted_strict (ops (fst d)) then [] else [2]) ++ (if forallb (wf_word table (fst d)) (snd d) then [] else [3]) ++\n"
                      "                     (if List.length (snd d) <=? 2 ^ obits (fst d) then [] else [4]) ++ (if Nat.eqb (rsize (fst d)) rs then [] else [5])) doms ++\n"
                      "  (if roms_nonempty doms t then [] else [7]) ++ (if outputs_driven t then [] else [8]) ++\n"
                      "  (if wf_bondmachine table rs doms t then [] else [9]).\n"
                      "Definition M := Eval vm_compute in map diag %s.\n" % C.cq_list(["\n" + r for r in rows[i:i + shard]]))
    k = 0
    names = {1: "the bond graph is not well formed", 2: "an opcode list is not sorted and duplicate-free", 3: "a ROM word has the wrong width or does not decode "
             "to an in-range instruction of its processor", 4: "a ROM is larger than 2^O", 5: "a domain's register size differs from the machine's",
             6: "a ROM cannot hold its program and data words (more than 2^O)", 7: "a processor has an empty ROM (no word at the reset address)",
             8: "a machine output is not driven by anything", 9: "wf_bondmachine is false",
             10: "a ROM data word does not have the architecture's word width"}
    hist = {}
    for o in C.eval_cases_parallel("C16", bodies, timeout=3000):
        for codes in o["M"]:
            n, d, js = metas[k]
            k += 1
            origin = n.split(":")[0]
            hist[origin] = hist.get(origin, 0) + 1
            if codes:
                viol.append(("machine from %s is not well formed: %s" % (n, "; ".join(names[c] for c in sorted(set(codes)) if c != 9 or len(set(codes)) == 1)),
                             {"origin": n, "machine_json": js}))
    known = {kf["key"] for kf in C.known_findings("C16")}
    for what, src, (n, js, err) in unfit:
        res.count_case({"unfit": what}, nontrivial=True)
        if js:
            key = "c16_unfit_accepted_" + "_".join(what.split()[:3])
            if key in known:
                res.known_finding("%s the assembler emits a machine for a source with %s" % (key, what))
            else:
                viol.append(("a source with %s is assembled instead of rejected" % what, {"source": src, "key": key}))
    cov = res.coverage
    cov["rule"] = ("machines emitted in this run by basm (corpus with and without the chooser, generated C05 sources), neuralbond->basm (romcode and fragment), "
                   "bmqsim->basm, bondgo (single and multi processor) are loaded and validated in Coq with wf_bondmachine (ROM word width and decodability "
                   "with the regenerated layouts, port indices in range, sorted duplicate-free opcode lists, ROM size, register sizes, bond graph, "
                   "domain port counts); sources whose operand or size cannot fit must be rejected")
    cov["input_distribution"] = {"validated_by_origin": hist, "unfit_sources": len(unfit)}
    cov["traces_validated_against_impl"] = len(rows)
    cov["samples"] = [{"origin": machines[0][0]}] if machines else []
    for text, meta in viol[:4]:
        res.violation("C16 " + text, meta)
    if failed and not viol:
        res.violation("C16 proof obligation no longer checks: %s" % (failed[:2],), {"obligation": [list(f) for f in failed][:3]}, nofail=True)
    return res.finish("proof")
