"""C05 — an assembled BASM program means what its source says."""
import json
import random

import common as C
import simlib

TWO = ["add", "mult", "cpy"]
ONE = ["inc", "dec", "clr"]


def gen_section(rnd, sync, nin, nout, rsize):
    """-> (items, text lines).  items: ('entry', label) | ('op', [labels], coq_sop, text)"""
    nreg = rnd.choice([1, 2, 3, 4])
    n = rnd.randint(3, 12)
    labels = ["L%d" % i for i in range(rnd.randint(1, 3))]
    where = {l: rnd.randrange(n) for l in labels}
    entry_at = 0 if rnd.random() < 0.8 else rnd.randrange(n)      # instruction index carrying the entry label
    where["_start"] = entry_at
    entry_line_before = 0 if rnd.random() < 0.75 else rnd.randrange(n + 1)  # the directive sits before this instruction index
    must_in = list(range(nin))
    must_out = list(range(nout))
    ops = []
    for k in range(n):
        r1, r2 = rnd.randrange(nreg), rnd.randrange(nreg)
        c = rnd.randrange(100)
        if must_in and (c < 25 or n - k <= len(must_in) + len(must_out)):
            i = must_in.pop()
            if rnd.random() < 0.5:
                ops.append(("(SMovRI %d %d)" % (r1, i), "mov r%d, i%d" % (r1, i)))
            else:
                op = "i2rw" if sync else "i2r"
                ops.append(("(SPlain (%s %d %d))" % ("II2rw" if sync else "II2r", r1, i), "%s r%d, i%d" % (op, r1, i)))
        elif must_out and (c < 50 or n - k <= len(must_out)):
            o = must_out.pop()
            if rnd.random() < 0.5:
                ops.append(("(SMovOR %d %d)" % (o, r1), "mov o%d, r%d" % (o, r1)))
            else:
                op = "r2owa" if sync else "r2o"
                ops.append(("(SPlain (%s %d %d))" % ("IR2owa" if sync else "IR2o", r1, o), "%s r%d, o%d" % (op, r1, o)))
        elif c < 62:
            g = rnd.choice(TWO)
            ctor = {"add": "IAdd", "mult": "IMult", "cpy": "ICpy"}[g]
            ops.append(("(SPlain (%s %d %d))" % (ctor, r1, r2), "%s r%d, r%d" % (g, r1, r2)))
        elif c < 72:
            g = rnd.choice(ONE)
            ops.append(("(SPlain (%s %d))" % ({"inc": "IInc", "dec": "IDec", "clr": "IClr"}[g], r1), "%s r%d" % (g, r1)))
        elif c < 80:
            v = rnd.choice([0, 1, 2, 7, 10, 31, 64, rnd.randrange(1 << min(rsize, 8))])
            # "numeric literals load the value they denote": the same value in the notations of the number library
            lit = rnd.choice(["%d" % v, "%d" % v, "0d%d" % v, "0d0%d" % v, "0%d" % v, "0x%x" % v, "0b%s" % bin(v)[2:], "0u%d" % v])
            if rnd.random() < 0.5:
                ops.append(("(SMovRN %d %d%%N)" % (r1, v), "mov r%d, %s" % (r1, lit)))
            else:
                ops.append(("(SPlain (IRset %d %d%%N))" % (r1, v), "rset r%d, %s" % (r1, lit)))
        elif c < 85:
            ops.append(("(SMovRR %d %d)" % (r1, r2), "mov r%d, r%d" % (r1, r2)))
        elif c < 92:
            l = rnd.choice(labels + ["_start"])
            ops.append(('(SJz %d "%s")' % (r1, l), "jz r%d, %s" % (r1, l)))
        elif c < 97:
            l = rnd.choice(labels + ["_start"])
            ops.append(('(SJ "%s")' % l, "j %s" % l))
        else:
            ops.append(("(SPlain INop)", "nop"))
    # an output that is never written / input never read would change N/M: both lists are empty now by construction
    items, text = [], []
    for k in range(n + 1):
        if k == entry_line_before:
            items.append('(IEntry "_start")')
            text.append("  entry _start")
        if k == n:
            break
        ls = [l for l in sorted(where) if where[l] == k]
        for l in ls:
            text.append("%s:" % l)
        items.append("(IOp %s %s)" % (C.cq_list(['"%s"' % l for l in ls]), ops[k][0]))
        text.append("  " + ops[k][1])
    return items, text, entry_at == 0


def gen_source(rnd):
    rsize = rnd.choice([8, 16, 32])
    sync = rnd.random() < 0.4
    ncp = rnd.choice([1, 1, 2, 3])
    cps = []
    # section names are the user's: numbered, or one name and the names the assembler itself derives from it (X_0, X_1)
    sect_names = rnd.choice([["code0", "code1", "code2"], ["w", "w_0", "w_1"], ["w_0", "w", "w_00"], ["main", "main_1", "main_0"]])
    for p in range(ncp):
        nin, nout = rnd.choice([0, 1, 1, 2]), rnd.choice([1, 1, 2])
        items, text, first = gen_section(rnd, sync, nin, nout, rsize)
        cps.append({"name": "cp%s" % "abc"[p], "sect": sect_names[p], "nin": nin, "nout": nout, "items": items, "text": text, "entry_first": first})
    lines = []
    order = list(range(ncp))
    rnd.shuffle(order)
    for p in order:
        c = cps[p]
        lines.append("%%section %s .romtext iomode:%s" % (c["sect"], "sync" if sync else "async"))
        lines += c["text"]
        lines.append("%endsection")
        lines.append("")
    for p in order:
        lines.append("%%meta cpdef %s romcode:%s" % (cps[p]["name"], cps[p]["sect"]))
    # wiring: every CP input from a BM input or an earlier/later CP output; every CP output to at least one consumer or a BM output
    links = []     # (producer endpoint, consumer endpoint) with endpoints ("cp", p, k) / ("bm", k)
    bm_in = bm_out = 0
    outs = [("cp", p, k) for p, c in enumerate(cps) for k in range(c["nout"])]
    used_out = set()
    for p, c in enumerate(cps):
        for k in range(c["nin"]):
            cand = [o for o in outs if o[1] != p]
            if cand and rnd.random() < 0.6:
                o = rnd.choice(cand)
                used_out.add(o)
                links.append((o, ("cp", p, k)))
            else:
                links.append((("bm", bm_in), ("cp", p, k)))
                bm_in += 1
    for o in outs:
        if o not in used_out or rnd.random() < 0.3:
            links.append((o, ("bm", bm_out)))
            bm_out += 1
    for n, (src, dst) in enumerate(links):
        lines.append("%%meta iodef l%d type:io" % n)
        if src[0] == "bm":
            lines.append("%%meta ioatt l%d cp:bm, type:input, index:%d" % (n, src[1]))
        else:
            lines.append("%%meta ioatt l%d cp:%s, type:output, index:%d" % (n, cps[src[1]]["name"], src[2]))
        if dst[0] == "bm":
            lines.append("%%meta ioatt l%d cp:bm, type:output, index:%d" % (n, dst[1]))
        else:
            lines.append("%%meta ioatt l%d cp:%s, type:input, index:%d" % (n, cps[dst[1]]["name"], dst[2]))
    lines.append("%%meta bmdef global registersize:%d" % rsize)
    def ep(e, out):
        if e[0] == "bm":
            return ("i%d" if out else "o%d") % e[1]
        return "p%d%s%d" % (e[1], "o" if out else "i", e[2])
    expected = sorted("%s,%s" % (ep(s, True), ep(d, False)) for s, d in links)
    return {"rsize": rsize, "sync": sync, "cps": cps, "text": "\n".join(lines) + "\n", "bonds": expected, "bm_in": bm_in, "bm_out": bm_out}


def run(res, a):
    failed = C.proof_part(res, "C05", trusted=[
        "Front/Basm.v: hand-written model of the assembler passes for one .romtext section (labels, entry removal, mov by operand kinds, "
        "architecture sizing) and of the source's own meaning; tied by comparing the assembled program, the sizes and the simulated external "
        "streams with the real assembler and simulator on generated sources",
        "Isa/Sim.v, Net/Tick.v as in C09"])
    C.build_harness()
    rnd = random.Random(a.seed)
    n = 40 if a.tier == "quick" else 500
    srcs = [gen_source(rnd) for _ in range(n)]
    if a.replay:
        rp = json.load(open(a.replay))["replay"]
        srcs = [rp["source"]]
    reqs = []
    for s in srcs:
        ticks = 40
        env = simlib.gen_env(rnd, {"inputs": s["bm_in"], "outputs": s["bm_out"]}, ticks, s["rsize"])
        reqs.append({"bm": {"basm": s["text"], "nodyn": True}, "env": env, "ticks": ticks, "dump": "ext"})
    out = simlib.run_sims(reqs)
    known = {k["key"] for k in C.known_findings("C05")}
    viol, mism = [], []
    rows, metas = [], []
    hist = {"sources": len(srcs), "rejected_by_assembler": 0, "sync": 0, "entry_not_first": 0, "processors": {}, "entry_not_first_diverges": 0}
    for s, q, r in zip(srcs, reqs, out):
        meta = {"source": s}
        res.count_case(s["text"], nontrivial=True)
        hist["sync"] += s["sync"]
        hist["processors"][str(len(s["cps"]))] = hist["processors"].get(str(len(s["cps"])), 0) + 1
        if r.get("err"):
            hist["rejected_by_assembler"] += 1
            viol.append(("the assembler rejects a well-formed source: %s" % r["err"], meta))
            continue
        bonds = sorted(b[1] for b in r["topo"]["bonds"])
        if bonds != s["bonds"]:
            viol.append(("the machine's bonds %s are not the connections the ioatt lines describe %s" % (bonds, s["bonds"]), meta))
            continue
        progs = []
        bad = False
        for prog in r["progs"]:
            t = [simlib.instr_term(l) for l in prog]
            if None in t:
                bad = True
            progs.append(t)
        if bad:
            mism.append(("the assembled program contains an opcode outside the model: %s" % r["progs"], meta))
            continue
        cfgs = ["(%s, %d%%N, %s)" % (C.cq_bool(s["sync"]), s["rsize"], C.cq_list(c["items"])) for c in s["cps"]]
        asm = ["check_asm %s %s (%d, %d, %d, %d)" % (cfg, C.cq_list(p), info[1], info[2], info[3], info[4])
               for cfg, p, info in zip(cfgs, progs, r["procinfo"])]
        envs = [simlib.env_term(e) for e in q["env"][:q["ticks"]]]
        rbits = [str(info[1]) for info in r["procinfo"]]
        rows.append("(%s, check_src %s %s %s %s %s, entries_first %s)" % (
            C.cq_list(asm), simlib.topo_term(r["topo"]), C.cq_list(cfgs), C.cq_list(rbits), C.cq_list(envs),
            C.cq_list([simlib.vobs_term(t) for t in r["ticks"]]), C.cq_list(cfgs)))
        metas.append(meta)
        if not all(c["entry_first"] for c in s["cps"]):
            hist["entry_not_first"] += 1
    shard = 8
    bodies = []
    for i in range(0, len(rows), shard):
        bodies.append("From Coq Require Import List NArith Bool Arith String.\nFrom BM Require Import Net.Topo Isa.Sim Net.Tick Net.TickCheck Front.Basm "
                      "Front.BasmCheck.\nImport ListNotations.\nOpen Scope string_scope.\n"
                      "Definition M := Eval vm_compute in map (fun x => match x with (a, b, c) => (a, match b with Some k => [k] | None => [] end, c) end) %s.\n"
                      % C.cq_list(["\n" + r for r in rows[i:i + shard]]))
    k = 0
    for o in C.eval_cases_parallel("C05", bodies, timeout=3000):
        for codes, div, first in o["M"]:
            meta = metas[k]
            k += 1
            flat = sorted(set(c for cs in codes for c in cs))
            for c in flat:
                mism.append(({1: "the assembler's program differs from the model's", 2: "the machine's R/N/M/O differ from the model's sizing",
                              3: "the model rejects a source the assembler accepts", 4: "the inferred sizes do not fit the program",
                              5: "a generated section is outside the premise of the lock-step theorems (a jump written without a label)"}[c], meta))
            if div:
                if not first:
                    hist["entry_not_first_diverges"] += 1
                    if "c05_entry_label_not_first_instruction" in known:
                        res.known_finding("c05_entry_label_not_first_instruction the machine starts at ROM address 0 although the source's entry label "
                                          "is not in front of the first instruction: external streams differ from the source's meaning at tick %d" % div[0])
                    else:
                        viol.append(("the machine does not start at the entry label (streams differ at tick %d)" % div[0], meta))
                else:
                    viol.append(("the simulated machine's external streams differ from the source's meaning at tick %d" % div[0], meta))
    # the default configuration of cmd/basm (dynamical matching on): a mov of a literal that does not fit the
    # smallest dynamic rsets variant
    probe = ("%section c .romtext iomode:async\n  entry _start\n_start:\n  mov r0, 200\n  r2o r0, o0\n  j _start\n%endsection\n"
             "%meta cpdef cpa romcode:c\n%meta iodef x type:io\n%meta ioatt x cp:cpa, type:output, index:0\n%meta ioatt x cp:bm, type:output, index:0\n"
             "%meta bmdef global registersize:8\n")
    pr = simlib.run_sims([{"bm": {"basm": probe, "nodyn": False}, "env": [{"in": [], "outrecv": [-1]}] * 6, "ticks": 6, "dump": "ext"}])[0]
    res.count_case({"probe": "mov literal with dynamical matching"}, nontrivial=True)
    if pr.get("err") or not any(t["out"] == [200] for t in pr.get("ticks", [])):
        what = pr.get("err") or "output stream %s" % [t["out"] for t in pr.get("ticks", [])]
        if "c05_mov_literal_dynamical_matching" in known:
            res.known_finding("c05_mov_literal_dynamical_matching 'mov r0, 200' with dynamical matching enabled (the default of cmd/basm): %s" % what)
        else:
            viol.append(("'mov r0, 200' is not assembled to code that loads 200 when dynamical matching is enabled: %s" % what, {"source": {"text": probe, "nodyn": False}}))
    # data sections (outside the Coq model): a name of a .romdata section denotes the ROM address of its first word, the words lie
    # behind the program in declaration order, 'mov r, rom:name' loads the address and 'mov r, rom:[r]' the word at an address
    dreqs, dmeta = [], []
    for _ in range(6 if a.tier == "quick" else 60):
        pre = ["  rset r2, %d" % rnd.randrange(8) for _ in range(rnd.randint(0, 4))]
        names = rnd.sample(["alpha", "beta", "gamma", "delta"], rnd.randint(2, 4))
        vars_ = [(nm, rnd.randint(1, 3), rnd.randrange(1, 250)) for nm in names]
        pick = rnd.randrange(len(vars_))
        text = ("%section code .romtext iomode:async\n  entry _start\n_start:\n" + "".join(l + "\n" for l in pre) +
                "  mov r1, rom:%s\n  mov r0, rom:[r1]\n  mov o0, r0\nhalt:\n  j halt\n%%endsection\n" % vars_[pick][0] +
                "%section consts .romdata\n" + "".join("  %s %sdb %s\n" % (nm, ("%d:" % rep) if rep > 1 else "", hex(v)) for nm, rep, v in vars_) + "%endsection\n"
                "%meta cpdef cpu romcode:code, romdata:consts, ramsize:0\n%meta iodef x type:io\n"
                "%meta ioatt x cp:cpu, type:output, index:0\n%meta ioatt x cp:bm, type:output, index:0\n%meta bmdef global registersize:8\n")
        dreqs.append({"bm": {"basm": text, "nodyn": True}, "env": [{"in": [], "outrecv": [-1]}] * 16, "ticks": 16, "dump": "ext"})
        dmeta.append((text, vars_[pick][0], vars_[pick][2]))
    for (text, nm, val), r in zip(dmeta, simlib.run_sims(dreqs)):
        res.count_case(text, nontrivial=True)
        if r.get("err"):
            viol.append(("the assembler rejects a source with a data section: %s" % r["err"], {"source": {"text": text, "nodyn": True}}))
        elif r["ticks"][-1]["out"] != [val]:
            viol.append(("the program loads the ROM word named %s (%d) and writes it to o0; the simulated machine ends with o0 = %s"
                         % (nm, val, r["ticks"][-1]["out"]), {"source": {"text": text, "nodyn": True}}))
    hist["data_section_sources"] = len(dreqs)
    # wider data (dd next to db at register size 32: every datum is one ROM word) and macros (a macro call means its body, in place)
    xreqs, xmeta = [], []
    for _ in range(4 if a.tier == "quick" else 40):
        names = rnd.sample(["alpha", "beta", "gamma", "delta", "eps"], rnd.randint(3, 5))
        vars_ = []
        for nm in names:
            if rnd.random() < 0.5:
                vars_.append((nm, "dd", rnd.randrange(1 << 20, 1 << 31)))
            else:
                vars_.append((nm, "db", rnd.randrange(1, 250)))
        pick = rnd.randrange(1, len(vars_))
        text = ("%section code .romtext iomode:async\n  entry _start\n_start:\n  mov r1, rom:" + vars_[pick][0] + "\n  mov r0, rom:[r1]\n  mov o0, r0\nhalt:\n  j halt\n%endsection\n"
                "%section consts .romdata\n" + "".join("  %s %s %s\n" % (nm, kind, hex(v)) for nm, kind, v in vars_) + "%endsection\n"
                "%meta cpdef cpu romcode:code, romdata:consts, ramsize:0\n%meta iodef x type:io\n"
                "%meta ioatt x cp:cpu, type:output, index:0\n%meta ioatt x cp:bm, type:output, index:0\n%meta bmdef global registersize:32\n")
        xreqs.append({"bm": {"basm": text, "nodyn": True}, "env": [{"in": [], "outrecv": [-1]}] * 16, "ticks": 16, "dump": "ext"})
        xmeta.append((text, "the ROM word named %s (%d)" % (vars_[pick][0], vars_[pick][2]), vars_[pick][2]))
    for _ in range(4 if a.tier == "quick" else 40):
        pool = ["inc r0", "dec r0", "inc r1", "add r0, r1", "inc r0"]
        mbody = [rnd.choice(pool) for _ in range(rnd.randint(2, 4))]
        main = []
        for _k in range(rnd.randint(3, 6)):
            main.append("CALL" if rnd.random() < 0.35 else rnd.choice(pool))
        if "CALL" not in main:
            main.insert(rnd.randrange(len(main)), "CALL")
        regs = [0, 0]
        for ins in [x for m_ in main for x in (mbody if m_ == "CALL" else [m_])]:
            w = ins.replace(",", "").split()
            if w[0] == "inc":
                regs[int(w[1][1])] = (regs[int(w[1][1])] + 1) % 256
            elif w[0] == "dec":
                regs[int(w[1][1])] = (regs[int(w[1][1])] - 1) % 256
            else:
                regs[0] = (regs[0] + regs[1]) % 256
        text = ("%macro bump 0\n" + "".join("  %s\n" % l for l in mbody) + "%endmacro\n"
                "%section code .romtext iomode:async\n  entry _start\n_start:\n  clr r0\n  clr r1\n" +
                "".join("  %s\n" % ("bump" if l == "CALL" else l) for l in main) + "  mov o0, r0\nhalt:\n  j halt\n%endsection\n"
                "%meta cpdef cpu romcode:code, ramsize:0\n%meta iodef x type:io\n"
                "%meta ioatt x cp:cpu, type:output, index:0\n%meta ioatt x cp:bm, type:output, index:0\n%meta bmdef global registersize:8\n")
        xreqs.append({"bm": {"basm": text, "nodyn": True}, "env": [{"in": [], "outrecv": [-1]}] * 40, "ticks": 40, "dump": "ext"})
        xmeta.append((text, "the value the program computes with its macro calls replaced by the macro's body (%d)" % regs[0], regs[0]))
    # a replicated list (n:db a,b,c is the list n times over) read at an offset, and two processors that share their code section but
    # not their data section
    for _ in range(3 if a.tier == "quick" else 30):
        lst = [rnd.randrange(1, 250) for _ in range(rnd.randint(2, 4))]
        rep = rnd.randint(2, 3)
        off = rnd.randrange(rep * len(lst))
        text = ("%section code .romtext iomode:async\n  entry _start\n_start:\n  mov r1, rom:tab\n" + "  inc r1\n" * off +
                "  mov r0, rom:[r1]\n  mov o0, r0\nhalt:\n  j halt\n%endsection\n"
                "%section consts .romdata\n  pre db 0x01\n  tab " + ("%d:db " % rep) + ", ".join(hex(v) for v in lst) + "\n  post db 0x02\n%endsection\n"
                "%meta cpdef cpu romcode:code, romdata:consts, ramsize:0\n%meta iodef x type:io\n"
                "%meta ioatt x cp:cpu, type:output, index:0\n%meta ioatt x cp:bm, type:output, index:0\n%meta bmdef global registersize:8\n")
        xreqs.append({"bm": {"basm": text, "nodyn": True}, "env": [{"in": [], "outrecv": [-1]}] * 40, "ticks": 40, "dump": "ext"})
        xmeta.append((text, "element %d of the list %s repeated %d times (%d)" % (off, lst, rep, lst[off % len(lst)]), lst[off % len(lst)]))
    for _ in range(2 if a.tier == "quick" else 20):
        v1, v2 = rnd.sample(range(1, 250), 2)
        text = ("%section code .romtext iomode:async\n  entry _start\n_start:\n  mov r1, rom:k\n  mov r0, rom:[r1]\n  mov o0, r0\nhalt:\n  j halt\n%endsection\n"
                "%section d1 .romdata\n  k db " + hex(v1) + "\n%endsection\n%section d2 .romdata\n  k db " + hex(v2) + "\n%endsection\n"
                "%meta cpdef cpa romcode:code, romdata:d1, ramsize:0\n%meta cpdef cpb romcode:code, romdata:d2, ramsize:0\n"
                "%meta iodef x type:io\n%meta ioatt x cp:cpa, type:output, index:0\n%meta ioatt x cp:bm, type:output, index:0\n"
                "%meta iodef y type:io\n%meta ioatt y cp:cpb, type:output, index:0\n%meta ioatt y cp:bm, type:output, index:1\n%meta bmdef global registersize:8\n")
        xreqs.append({"bm": {"basm": text, "nodyn": True}, "env": [{"in": [], "outrecv": [-1, -1]}] * 20, "ticks": 20, "dump": "ext"})
        xmeta.append((text, "its own constant, the two processors %d and %d" % (v1, v2), [v1, v2]))
    for (text, what, val), r in zip(xmeta, simlib.run_sims(xreqs)):
        res.count_case(text, nontrivial=True)
        if r.get("err"):
            viol.append((("the machine assembled from a well-formed source cannot be simulated: %s" if "process dies" in r["err"] else
                          "the assembler rejects a well-formed source: %s") % r["err"], {"source": {"text": text, "nodyn": True}}))
        elif r["ticks"][-1]["out"] != (val if isinstance(val, list) else [val]):
            viol.append(("the program writes %s to o0; the simulated machine ends with o0 = %s" % (what, r["ticks"][-1]["out"]),
                         {"source": {"text": text, "nodyn": True}}))
    hist["wide_data_and_macro_sources"] = len(xreqs)
    cov = res.coverage
    cov["rule"] = ("generated BASM sources: 1-3 processors, 3-12 instructions each over explicit opcodes and the four mov forms, 1-4 labels with forward "
                   "and backward j/jz, the entry directive first or elsewhere, sync or async iomode, register size 8/16/32, processors wired by ioatt "
                   "to each other and to the machine's inputs/outputs; compared: assembled program and R/N/M/O per processor with the model, the "
                   "bond set with the ioatt lines, 40 ticks of external output/valid/received streams under a random environment with the "
                   "source-level meaning")
    cov["input_distribution"] = hist
    cov["traces_validated_against_impl"] = len(rows)
    cov["samples"] = [{"source": srcs[0]["text"]}]
    for text, meta in viol[:3]:
        res.violation("C05 " + text, meta)
    if not viol:
        for text, meta in mism[:2]:
            res.violation("C05 model and implementation disagree: " + text, meta, nofail=True)
        if failed and not mism:
            res.violation("C05 proof obligation no longer checks: %s" % (failed[:2],), {"obligation": [list(f) for f in failed][:3]}, nofail=True)
    return res.finish("proof")
