"""Run emitted Verilog under the Coq semantics (Vlog.Sem): parse, flatten, elaborate, simulate cycles,
read back chosen signals.  Used by C01/C02/C04."""
import common as C
import vcoq
import vparse

HEADER = ("From Coq Require Import List NArith PArith.\nFrom BM Require Import Vlog.Syntax Vlog.Sem.\nImport ListNotations.\n"
          "Local Open Scope N_scope.\n")


class VsimError(Exception):
    pass


def flat_design(files, top, skip=("bondmachine_tb.v",)):
    mods = []
    for name in sorted(files):
        if name.endswith(".v") and name not in skip:
            mods += vparse.parse_file(files[name])
    em = vcoq.Emitter()
    flat = vcoq.flat_module(mods, top)
    return em, em.module(flat), flat


def mem_reads(em, mems):
    """mems: list of (name, index) memory words to observe"""
    return "[" + "; ".join("(%s, %d)" % (em.P(n), i) for n, i in mems) + "]"


def sim_body(em, term, inputs_per_cycle, observe, mems=()):
    """Coq file body computing, per cycle, the values of `observe` (and memory words)"""
    known = set(em.I.names)
    obs_ids = []
    for n in observe:
        if n not in known:
            raise VsimError("signal %s does not exist in the flattened design" % n)
        obs_ids.append(em.P(n))
    ins = "[" + ";\n ".join("[" + "; ".join("(%s, %d)" % (em.P(k), v) for k, v in cyc.items()) + "]" for cyc in inputs_per_cycle) + "]"
    return (HEADER + "Definition m : module := %s.\nDefinition obs : list positive := [%s].\nDefinition mobs : list (positive * N) := %s.\n"
            "Definition errcode (e : err) : N := match e with Unsupported n => N.of_nat n | CombLoop => 100 | FuelOut => 101 | BadDecl _ => 102 | BadLhs => 103 end.\n"
            "Definition M := Eval vm_compute in\n  match elaborate m with\n  | Ok E => match init_state E with\n"
            "            | Ok s0 => match run E s0 %s with\n"
            "                       | Ok l => map (fun s => map (get s) obs ++ map (fun p => getm s (fst p) (snd p)) mobs) l\n"
            "                       | Err e => [[777001; errcode e]] end\n            | Err e => [[777002; errcode e]] end\n  | Err e => [[777003; errcode e]] end.\n"
            % (term, "; ".join(obs_ids), mem_reads(em, mems), ins))


def check_rows(rows):
    if rows and rows[0] and rows[0][0] in (777001, 777002, 777003):
        raise VsimError("%s (code %s)" % ({777001: "interpreter error while running", 777002: "interpreter error in initial blocks",
                         777003: "design outside the interpreted subset (elaboration failed)"}[rows[0][0]], rows[0][1:]))
    return rows
