"""Shared machinery of every check: building the harness from /repo's working tree,
building the Coq development, evaluating cases_*.v with vm_compute, writing evidence,
printing the verdict lines."""
import hashlib
import json
import os
import re
import shutil
import subprocess
import sys
import tempfile
import time

VERIF = os.path.dirname(os.path.dirname(os.path.abspath(__file__)))
REPO = os.environ.get("VERIF_REPO", "/repo")
COQ = os.path.join(VERIF, "coq")
BUILD = os.path.join(VERIF, "build")
GEN = os.path.join(COQ, "generated")
HARNESS = os.path.join(VERIF, "harness")
BMH = os.path.join(BUILD, "bmh")

GOENV = dict(os.environ, GOFLAGS="-mod=mod", GOPROXY="off", GOSUMDB="off", GOTOOLCHAIN="local",
             CGO_ENABLED=os.environ.get("CGO_ENABLED", "1"))

ALLOWED_AXIOMS = {
    # standard-library axioms named in DESIGN.md section 6.2 (none expected outside C08 floats)
    "ClassicalDedekindReals.sig_forall_dec", "ClassicalDedekindReals.sig_not_dec",
    "FunctionalExtensionality.functional_extensionality_dep",
}


class Broken(Exception):
    """The machinery itself failed (not a verdict)."""


def sh(cmd, cwd=None, env=None, timeout=1800, check=True, input=None):
    p = subprocess.run(cmd, cwd=cwd, env=env or GOENV, timeout=timeout, input=input,
                       stdout=subprocess.PIPE, stderr=subprocess.PIPE, text=True,
                       shell=isinstance(cmd, str))
    if check and p.returncode != 0:
        raise Broken("command failed (%d): %s\n%s\n%s" % (p.returncode, cmd, p.stdout[-4000:], p.stderr[-4000:]))
    return p


# ---------------------------------------------------------------- harness

def build_harness(race=False):
    """go build the harness against /repo's current working tree, hooks on (-tags verif)."""
    os.makedirs(BUILD, exist_ok=True)
    shutil.copyfile(os.path.join(REPO, "go.sum"), os.path.join(HARNESS, "go.sum"))
    modfile = os.path.join(HARNESS, "go.mod")
    txt = open(modfile).read()
    want = "replace github.com/BondMachineHQ/BondMachine => %s" % REPO
    txt2 = re.sub(r"replace github.com/BondMachineHQ/BondMachine => \S+", want, txt)
    if txt2 != txt:
        open(modfile, "w").write(txt2)
    target = BMH + ("-race" if race else "")
    cmd = ["go", "build", "-tags", "verif"] + (["-race"] if race else []) + ["-o", target, "."]
    p = sh(cmd, cwd=HARNESS, check=False, timeout=1200)
    if p.returncode != 0:
        raise Broken("harness does not build against /repo:\n" + p.stderr[-6000:])
    return target


def run_harness(args, timeout=1800, binary=None, check=True, env=None):
    p = sh([binary or BMH] + [str(a) for a in args], cwd=BUILD, timeout=timeout, check=check, env=env)
    return p


def jsonl(text):
    return [json.loads(l) for l in text.splitlines() if l.startswith("{")]


# ---------------------------------------------------------------- coq

def coq_make(timeout=3000):
    """Full .vo build of the static theories (incremental; never -vos/-vok)."""
    forbidden_scan()
    if not os.path.exists(os.path.join(COQ, "Makefile")):
        sh(["coq_makefile", "-f", "_CoqProject", "-o", "Makefile"], cwd=COQ)
    p = sh(["make", "-j16"], cwd=COQ, timeout=timeout, check=False)
    if p.returncode != 0:
        raise Broken("coq make failed:\n" + (p.stdout + p.stderr)[-6000:])


FORBID = re.compile(r"\b(Admitted|admit|Axiom|Axioms|Parameter|Parameters|Conjecture|Admit Obligations|"
                    r"Unset Guard Checking|Unset Positivity Checking|Unset Universe Checking|bypass_check|"
                    r"native_compute)\b")


def strip_coq_comments(s):
    out = []
    depth = 0
    i = 0
    while i < len(s):
        if s.startswith("(*", i):
            depth += 1
            i += 2
        elif s.startswith("*)", i) and depth:
            depth -= 1
            i += 2
        else:
            if depth == 0:
                out.append(s[i])
            i += 1
    return "".join(out)


def forbidden_scan():
    for root in (os.path.join(COQ, "theories"), GEN):
        for dp, _, fns in os.walk(root):
            for fn in fns:
                if fn.endswith(".v"):
                    src = strip_coq_comments(open(os.path.join(dp, fn)).read())
                    m = FORBID.search(src)
                    if m:
                        raise Broken("forbidden vernacular %r in %s" % (m.group(0), os.path.join(dp, fn)))
                    if re.search(r"^\s*(Variable|Hypothesis|Variables|Hypotheses)\b", src, re.M):
                        # allowed only inside a Section: cheap check = file has a Section
                        if not re.search(r"^\s*Section\b", src, re.M):
                            raise Broken("Variable/Hypothesis outside a section in " + fn)


COQARGS = ["-Q", os.path.join(COQ, "theories"), "BM", "-Q", GEN, "BMGen",
           "-w", "-notation-overridden,-deprecated-hint-without-locality,-deprecated-instance-without-locality"]


TIER = "quick"


def coqc(path, timeout=1200, check=True):
    # an evaluation that does not come back is not a verdict: in the quick tier every coqc call is cut at 15 minutes (the run is
    # then reported as a check that could not be completed)
    if TIER == "quick":
        timeout = min(timeout, 900)
    try:
        p = sh(["coqc"] + COQARGS + [path], cwd=os.path.dirname(path), timeout=timeout, check=False)
    except subprocess.TimeoutExpired:
        raise Broken("coqc did not finish within %d s on %s" % (timeout, path))
    if check and p.returncode != 0:
        raise Broken("coqc failed on %s:\n%s" % (path, (p.stdout + p.stderr)[-6000:]))
    return p


def check_properties(pid, extra_files=()):
    """(Re)compile Properties/<pid>.v (and any regenerated obligation files), parse
    Print Assumptions.  Returns dict(obligations, discharged, theorems, axioms, failed, log)."""
    files = [os.path.join(COQ, "theories", "Properties", pid + ".v")] + list(extra_files)
    theorems = []
    discharged = 0
    axioms = set()
    failed = []
    log = []
    for f in files:
        src = strip_coq_comments(open(f).read())
        names = re.findall(r"^\s*(?:Theorem|Lemma|Corollary)\s+([A-Za-z0-9_']+)", src, re.M)
        p = coqc(f, check=False)
        log.append(p.stdout[-3000:] + p.stderr[-3000:])
        if p.returncode != 0:
            failed.append((os.path.basename(f), (p.stdout + p.stderr)[-3000:]))
            theorems += names
            continue
        # one block per Print Assumptions
        blocks = re.split(r"(?=Closed under the global context|Axioms:)", p.stdout)
        nblocks = 0
        for b in blocks:
            if b.startswith("Closed under the global context"):
                nblocks += 1
            elif b.startswith("Axioms:"):
                ax = re.findall(r"^([A-Za-z_][A-Za-z0-9_.']*)\s*:", b[len("Axioms:"):], re.M)
                bad = [a for a in ax if a not in ALLOWED_AXIOMS]
                axioms.update(ax)
                if bad:
                    failed.append((os.path.basename(f), "axioms not in the trusted base: %s" % bad))
                else:
                    nblocks += 1
        theorems += names
        if nblocks < len(names):
            failed.append((os.path.basename(f), "%d theorems but %d Print Assumptions blocks" % (len(names), nblocks)))
        discharged += min(nblocks, len(names))
    return dict(obligations=len(theorems), discharged=discharged, theorems=theorems,
                axioms=sorted(axioms), failed=failed, log=log)


def parse_coq_value(out, name):
    """Extract the value printed by `Print name.` (form: `name = <term>\n     : type`)."""
    m = re.search(r"^%s\s*=\s*(.*?)\n\s*:\s" % re.escape(name), out, re.S | re.M)
    if not m:
        raise Broken("could not find value of %s in coq output:\n%s" % (name, out[-3000:]))
    return re.sub(r"\s+", " ", m.group(1)).strip()


def coq_list_to_py(term):
    """Parse a Coq term made of lists, tuples, numbers, booleans, strings into Python."""
    t = term
    t = re.sub(r"%[A-Za-z]+", "", t)
    t = t.replace(";", ",").replace("true", "True").replace("false", "False")
    t = re.sub(r"\bSome\b", "", t).replace("None", "None")
    try:
        return eval(t, {"__builtins__": {}}, {})
    except Exception as e:  # pragma: no cover
        raise Broken("cannot parse coq term %r: %s" % (term[:400], e))


def eval_cases(pid, shard, body, names=("M",), timeout=1200):
    """Write generated/cases_<pid>_<shard>.v with `body`, compile, return {name: python value}."""
    os.makedirs(GEN, exist_ok=True)
    path = os.path.join(GEN, "cases_%s_%s.v" % (pid, shard))
    with open(path, "w") as f:
        f.write(body)
        for n in names:
            f.write("\nPrint %s.\n" % n)
    p = coqc(path, timeout=timeout)
    res = {}
    for n in names:
        res[n] = coq_list_to_py(parse_coq_value(p.stdout, n))
    return res


def eval_cases_parallel(pid, bodies, names=("M",), timeout=1200, workers=16):
    from concurrent.futures import ThreadPoolExecutor
    with ThreadPoolExecutor(max_workers=workers) as ex:
        futs = [ex.submit(eval_cases, pid, k, b, names, timeout) for k, b in enumerate(bodies)]
        return [f.result() for f in futs]


def clean_generated(pid):
    if os.path.isdir(GEN):
        for fn in os.listdir(GEN):
            if fn.startswith("cases_%s_" % pid) or fn.startswith(".cases_%s_" % pid):
                try:
                    os.remove(os.path.join(GEN, fn))
                except OSError:
                    pass


# ---------------------------------------------------------------- coq term printers

def cq_nat(n):
    assert 0 <= n < 5000, n
    return str(n)


def cq_Z(z):
    return "(%d)%%Z" % z


def cq_N(n):
    return "%d%%N" % n


def cq_list(items):
    return "[" + "; ".join(items) + "]"


def cq_bool(b):
    return "true" if b else "false"


def cq_string(s):
    return '"' + s.replace('"', '""') + '"'


# ---------------------------------------------------------------- evidence, verdicts

def known_findings(pid):
    path = os.path.join(VERIF, "KNOWN_FINDINGS.json")
    if not os.path.exists(path):
        return []
    return [e for e in json.load(open(path)).get("findings", []) if e["property"] == pid]


class Result:
    def __init__(self, pid, tier, seed):
        self.pid, self.tier, self.seed = pid, tier, seed
        self.t0 = time.time()
        self.coverage = {}
        self.assumptions = []
        self.violations = []   # (summary, replay_obj, nofail)
        self.known = []        # strings
        self.hashes = set()

    def count_case(self, obj, nontrivial=True):
        self.coverage["evaluations"] = self.coverage.get("evaluations", 0) + 1
        if nontrivial:
            self.hashes.add(hashlib.sha1(json.dumps(obj, sort_keys=True).encode()).hexdigest())

    def violation(self, summary, replay_obj, nofail=False):
        self.violations.append((summary, replay_obj, nofail))

    def known_finding(self, text):
        """text starts with the finding's key; one line per key (first witness + count)"""
        key = text.split(" ", 1)[0]
        for k in self.known:
            if k[0] == key:
                k[2] += 1
                return
        self.known.append([key, text, 1])

    def finish(self, level="proof"):
        cov = self.coverage
        cov.setdefault("evaluations", 0)
        cov["distinct_nontrivial"] = len(self.hashes)
        ev = dict(property_id=self.pid, tier=self.tier, seed=self.seed, level=level, coverage=cov,
                  assumptions=self.assumptions, wall_s=round(time.time() - self.t0, 2),
                  violations=len(self.violations))
        os.makedirs(os.path.join(VERIF, "evidence"), exist_ok=True)
        with open(os.path.join(VERIF, "evidence", self.pid + ".json"), "w") as f:
            json.dump(ev, f, indent=1, sort_keys=True)
        for key, text, cnt in self.known:
            print("KNOWN-FINDING: property=%s %s%s" % (self.pid, text, " (%d occurrences in this run)" % cnt if cnt > 1 else ""))
        if self.known:
            self.coverage["known_findings_seen"] = {k[0]: k[2] for k in self.known}
        if not self.violations:
            print("OK property=%s tier=%s obligations=%s discharged=%s evaluations=%s wall=%.1fs" % (
                self.pid, self.tier, cov.get("obligations"), cov.get("discharged"), cov.get("evaluations"),
                time.time() - self.t0))
            return 0
        rdir = os.path.join(VERIF, "replays", self.pid)
        os.makedirs(rdir, exist_ok=True)
        for n, (summary, obj, nofail) in enumerate(self.violations[:5]):
            path = os.path.join(rdir, "%d-%d.json" % (self.seed, n))
            with open(path, "w") as f:
                json.dump(dict(property=self.pid, summary=summary, replay=obj), f, indent=1)
            print("# " + summary)
            print("VIOLATION property=%s replay=%s%s" % (self.pid, path, " no-failing-input-found" if nofail else ""))
        return 1


def proof_part(res, pid, extra_files=(), trusted=()):
    """Run the proof half of a check; fills coverage; returns list of failures."""
    coq_make()
    pr = check_properties(pid, extra_files)
    cov = res.coverage
    cov["obligations"] = pr["obligations"]
    cov["discharged"] = pr["discharged"]
    cov["theorems"] = pr["theorems"]
    cov["axioms_reported_by_Print_Assumptions"] = pr["axioms"]
    cov["checker_cmd"] = "make -C coq -j16 (coq_makefile, full .vo) && coqc -Q coq/theories BM -Q coq/generated BMGen coq/theories/Properties/%s.v%s" % (
        pid, "".join(" " + os.path.relpath(f, VERIF) for f in extra_files))
    cov["trusted_base"] = ["Coq 8.16.1 kernel, vm_compute (no native_compute)",
                           "axioms: " + (", ".join(pr["axioms"]) if pr["axioms"] else "none (Closed under the global context)")] + list(trusted)
    return pr["failed"]


def seed_and_tier(argv):
    import argparse
    ap = argparse.ArgumentParser()
    ap.add_argument("pid")
    ap.add_argument("--tier", default=os.environ.get("VERIF_TIER", "quick"))
    ap.add_argument("--seed", type=int, default=int(os.environ.get("VERIF_SEED", "20260923")))
    ap.add_argument("--replay", default=None)
    a = ap.parse_args(argv)
    if a.tier not in ("quick", "thorough"):
        a.tier = "quick"
    global TIER
    TIER = a.tier
    return a
