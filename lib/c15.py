"""C15 — simulation rules are applied exactly as written (part 1: rule text and rule list;
part 2, the dynamic effect of rules, is added by lib/c15dyn once the simulation model exists)."""
import json
import re
import random

import common as C
import simlib

TIMEC = ["TAbs", "TNone", "TRel", "TOnValid", "TOnRecv", "TOnExit"]
ACTION = ["ASet", "AGet", "AShow", "AConfig"]
CONFIG3 = ["get_all", "get_all_internal", "show_all", "show_all_internal"]
CONFIG2 = ["show_pc", "show_instruction", "show_disasm", "show_ticks", "get_ticks", "show_proc_regs_pre",
           "show_proc_regs_post", "show_proc_io_pre", "show_proc_io_post", "show_io_pre", "show_io_post"]
OBJECTS = ["i0", "o1", "p0r1", "p1i0", "p0o0", "p2m3", "", "x", "I0", "p0 r1"]
EXTRAS = ["unsigned", "hex", "0x1f", "5", "", "signed", "bin", "a b"]
TICKS = ["0", "1", "7", "100", "9223372036854775807", "9223372036854775808", "-1", "-9223372036854775808",
         "-9223372036854775809", "+3", "007", "", "x", "1e3", " 5", "5 ", "--1", "18446744073709551615"]


def gen_rule_text(rnd):
    k = rnd.randrange(100)
    t = rnd.choice(TICKS) if rnd.random() < 0.5 else str(rnd.randrange(1000))
    if k < 30:
        return "%s:%s:%s:%s:%s" % (rnd.choice(["absolute", "relative"]), t, rnd.choice(["set", "get", "show"]), rnd.choice(OBJECTS), rnd.choice(EXTRAS))
    if k < 45:
        return "%s:%s:%s:%s" % (rnd.choice(["absolute", "relative"]), t, rnd.choice(["get", "show", "set"]), rnd.choice(OBJECTS))
    if k < 60:
        return "%s:%s:%s:%s" % (rnd.choice(["onvalid", "onrecv", "onexit"]), rnd.choice(["get", "show", "set"]), rnd.choice(OBJECTS), rnd.choice(EXTRAS))
    if k < 70:
        return "%s:%s:%s" % (rnd.choice(["onvalid", "onrecv", "onexit"]), rnd.choice(["get", "show"]), rnd.choice(OBJECTS))
    if k < 78:
        return "config:%s:%s" % (rnd.choice(CONFIG3 + ["show_pc", "nosuch"]), rnd.choice(EXTRAS))
    if k < 88:
        return "config:%s" % rnd.choice(CONFIG2 + ["get_all", "nosuch", ""])
    # malformed stream
    return rnd.choice(["", ":", "::::", "absolute", "absolute:1:set:i0:1:2", "Absolute:1:set:i0:1", "absolute:1:SET:i0:1",
                       "onvalid:get", "config", "config:show_pc:", "relative:1:set:i0", "a:b:c:d:e:f:g"])


def op_term(o):
    if o["op"] == "add":
        return "(SbAdd %s)" % C.cq_string(o.get("s", ""))
    return "(%s %s)" % ({"del": "SbDel", "suspend": "SbSuspend", "reactivate": "SbReactivate"}[o["op"]], C.cq_Z(o.get("i", 0)))


def rule_term(r):
    return "(mkRule %s %s %s %s %s %s)" % (TIMEC[r["timec"]], C.cq_N(r["tick"]), ACTION[r["action"]], C.cq_string(r["object"]),
                                           C.cq_string(r["extra"]), C.cq_bool(r["suspended"]))


IO_RE = re.compile(r"([io])(\d+): ([01]+) \(v:(true|false) r:(true|false)\)")


def dynamic_part(res, rnd, a):
    """set rules during a real simulation (cmd/bondmachine -sim with a simbox file) against the rules' stated meaning applied by
    hand to the VM (harness sim, 'rules'): exactly the named object gets exactly the stated value at exactly the stated tick, an
    external input also gets its valid flag, a suspended rule changes nothing"""
    import os, shutil, subprocess, tempfile
    import c07
    c07.build_tools()
    n = 8 if a.tier == "quick" else 80
    viol = []
    done = 0
    work = tempfile.mkdtemp(prefix="verif-c15-")
    try:
        for k in range(n):
            N = rnd.choice([1, 2, 3])
            rsize = 8
            sync = rnd.random() < 0.5
            prog = []
            for i in range(N):
                prog.append(("i2rw r%d i%d" if sync else "i2r r%d i%d") % (i, i))
            prog += ["add r0 r3", "r2o r0 o0"]
            if N > 1:
                prog += ["r2o r1 o1"]
            prog.append("j 0")
            M = 2 if N > 1 else 1
            ops = sorted(set(l.split()[0] for l in prog) | {"nop"})
            spec = {"rsize": rsize, "procs": [{"arch": {"R": 2, "N": N, "M": M, "L": 0, "O": 4, "ops": ops, "mode": "ha", "rsize": rsize}, "prog": prog}],
                    "inputs": N, "outputs": M, "bonds": [["p0i%d" % i, "i%d" % i] for i in range(N)] + [["o%d" % o, "p0o%d" % o] for o in range(M)]}
            ticks = 14
            rules = []
            for _ in range(rnd.randint(1, 5)):
                obj = rnd.choice(["i%d" % rnd.randrange(N), "p0r%d" % rnd.randrange(4)])
                rules.append({"tick": rnd.randrange(ticks - 2), "obj": obj, "val": rnd.randrange(1, 200), "suspended": rnd.random() < 0.25})
            # one (tick, object) pair at most: two rules for the same object at the same tick have no stated order
            seen, uniq = set(), []
            for r in rules:
                if (r["tick"], r["obj"]) not in seen:
                    seen.add((r["tick"], r["obj"]))
                    uniq.append(r)
            rules = uniq
            ref = simlib.run_sims([{"bm": spec, "env": [], "ticks": ticks, "dump": "ext", "rules": rules}])[0]
            saved = C.jsonl(C.sh([C.BMH, "c11", "save"], input=json.dumps({"bm": spec}) + "\n").stdout)[0]
            d = os.path.join(work, "c%d" % k)
            os.mkdir(d)
            open(os.path.join(d, "bm.json"), "w").write(saved["json"])
            sb = {"Rules": [{"Timec": 0, "Tick": r["tick"], "Action": 0, "Object": r["obj"], "Extra": str(r["val"]), "Suspended": r["suspended"]} for r in rules] +
                           [{"Timec": 1, "Tick": 0, "Action": 3, "Object": "show_io_post", "Extra": "", "Suspended": False}]}
            open(os.path.join(d, "sb.json"), "w").write(json.dumps(sb))
            p = subprocess.run([c07.tool("bondmachine"), "-bondmachine-file", "bm.json", "-sim", "-simbox-file", "sb.json", "-sim-interactions", str(ticks)],
                               cwd=d, env=C.GOENV, stdout=subprocess.PIPE, stderr=subprocess.STDOUT, text=True, timeout=120)
            lines = [l for l in p.stdout.splitlines() if "Post-compute IO" in l]
            meta = {"machine": spec, "rules": rules}
            res.count_case(meta, nontrivial=True)
            if ref.get("err") or len(lines) < ticks:
                viol.append(("the simulation with rules %s cannot be run: %s" % (rules, ref.get("err") or p.stdout[-300:]), meta))
                continue
            done += 1
            for t in range(ticks):
                got = {}
                for kind, idx, bits, v, r in IO_RE.findall(lines[t]):
                    got[kind + idx] = (int(bits, 2), v == "true", r == "true")
                want = {}
                for i in range(N):
                    want["i%d" % i] = (ref["ticks"][t]["in"][i], ref["ticks"][t]["inv"][i], ref["ticks"][t]["inr"][i])
                for o in range(M):
                    want["o%d" % o] = (ref["ticks"][t]["out"][o], ref["ticks"][t]["outv"][o], ref["ticks"][t]["outr"][o])
                if got != want:
                    bad = sorted(x for x in want if got.get(x) != want[x])
                    viol.append(("with rules %s the simulation shows %s = %s at tick %d; applying the rules as written gives %s"
                                 % ([("suspended " if r["suspended"] else "") + "absolute:%d:set:%s:%d" % (r["tick"], r["obj"], r["val"]) for r in rules],
                                    bad[0], got.get(bad[0]), t, want[bad[0]]), meta))
                    break
    finally:
        shutil.rmtree(work, ignore_errors=True)
    return viol, done


def run(res, a):
    failed = C.proof_part(res, "C15", trusted=["harness/c15.go + lib/c15.py as the tie", "model Front/Simbox.v (hand-written)"])
    C.build_harness()
    rnd = random.Random(a.seed)
    n = 300 if a.tier == "quick" else 5000
    cases = []
    if a.replay:
        cases = [json.load(open(a.replay))["replay"]["ops"]]
    else:
        for _ in range(n):
            ops = []
            cnt = 0
            for _ in range(rnd.randint(1, 14)):
                k = rnd.randrange(10)
                idx = rnd.choice([-1, 0, 0, 1, 2, cnt - 1, cnt, cnt + 1]) if rnd.random() < 0.7 else rnd.randrange(max(cnt, 1))
                if k < 6:
                    ops.append({"op": "add", "s": gen_rule_text(rnd)})
                    cnt += 1
                elif k < 7:
                    ops.append({"op": "del", "i": idx})
                elif k < 9:
                    ops.append({"op": "suspend", "i": idx})
                else:
                    ops.append({"op": "reactivate", "i": idx})
            cases.append(ops)
    out = C.jsonl(C.sh([C.BMH, "c15"], input="".join(json.dumps({"ops": ops}) + "\n" for ops in cases)).stdout)
    viol, forms = [], {}
    for c in out:
        ok_adds = 0
        for o, st in zip(c["ops"], c["steps"]):
            if o["op"] == "add":
                w = o.get("s", "").split(":")
                forms["%d words/%s" % (len(w), st["outcome"])] = forms.get("%d words/%s" % (len(w), st["outcome"]), 0) + 1
                if st["outcome"] == "ok":
                    ok_adds += 1
                    if st.get("rtok") is False:
                        viol.append(("rule %r is stored as a rule that prints as %r, which does not parse back to it" % (o.get("s", ""), st.get("printed")), c["ops"]))
        if not c["jsonok"] or not c["jsonsame"]:
            viol.append(("saving and reloading the rule list changes it", c["ops"]))
        res.count_case(c["ops"], nontrivial=ok_adds >= 2)
    terms = []
    for c in out:
        obs = []
        for st in c["steps"]:
            oc = {"ok": "SbOk", "err": "SbErr", "panic": "SbPanic"}[st["outcome"]]
            obs.append("(%s, %s, %s)" % (oc, C.cq_list([rule_term(r) for r in st["rules"]]), C.cq_string(st.get("printed", ""))))
        terms.append("(%s, %s)" % (C.cq_list([op_term(o) for o in c["ops"]]), C.cq_list(obs)))
    shards = [terms[i:i + 150] for i in range(0, len(terms), 150)]
    bodies = ["From Coq Require Import List String NArith ZArith.\nFrom BM Require Import Front.Simbox Front.SimboxCheck.\n"
              "Import ListNotations.\nLocal Open Scope string_scope.\n"
              "Definition M := Eval vm_compute in map check_case %s.\n" % C.cq_list(["\n" + t for t in sh]) for sh in shards]
    mism = []
    k = 0
    for sh, o in zip(shards, C.eval_cases_parallel("C15", bodies)):
        for fails in o["M"]:
            if fails:
                mism.append((out[k]["ops"], fails))
            k += 1
    dyn_viol, dyn_n = dynamic_part(res, rnd, a)
    viol += dyn_viol
    cov = res.coverage
    cov["rules_applied_in_simulation_compared"] = dyn_n
    cov["rule"] = ("rule-list histories: add (every rule form x object/extra/tick pools incl. boundary ticks, signs, malformed text), "
                   "del/suspend/reactivate with in-range, negative and too-large indices; JSON save/load of the final list; "
                   "non-trivial = at least two accepted rules; distinct by hash")
    cov["add_forms_histogram"] = forms
    cov["traces_validated_against_impl"] = len(out) - len(mism)
    cov["samples"] = out[:1] and [{"ops": out[0]["ops"]}]
    for text, ops in viol[:3]:
        res.violation("C15 " + text, {"ops": ops})
    if not viol:
        for ops, fails in mism[:3]:
            code = fails[0][1]
            res.violation("C15 %s at step %d of %s" % ({1: "model and implementation disagree on the rule list", 2: "model and implementation print the new rule differently",
                                                        3: "printed rule does not parse back (model)"}.get(code), fails[0][0], json.dumps(ops)),
                          {"ops": ops, "failures": fails}, nofail=(code != 3))
    if failed and not viol and not mism:
        res.violation("C15 proof obligation no longer checks: %s" % failed, {"obligation": failed}, nofail=True)
    return res.finish("proof")
