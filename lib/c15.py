"""C15 — simulation rules are applied exactly as written (part 1: rule text and rule list;
part 2, the dynamic effect of rules, is added by lib/c15dyn once the simulation model exists)."""
import json
import re
import random

import common as C
import simlib

TIMEC = ["TAbs", "TNone", "TRel", "TOnValid", "TOnRecv", "TOnExit"]
ACTION = ["ASet", "AGet", "AShow", "AConfig"]
CONFIG3 = ["get_all", "get_all_internal", "show_all", "show_all_internal"]
CONFIG2 = ["show_pc", "show_instruction", "show_disasm", "show_ticks", "get_ticks", "show_proc_regs_pre",
           "show_proc_regs_post", "show_proc_io_pre", "show_proc_io_post", "show_io_pre", "show_io_post"]
OBJECTS = ["i0", "o1", "p0r1", "p1i0", "p0o0", "p2m3", "", "x", "I0", "p0 r1"]
EXTRAS = ["unsigned", "hex", "0x1f", "5", "", "signed", "bin", "a b"]
TICKS = ["0", "1", "7", "100", "9223372036854775807", "9223372036854775808", "-1", "-9223372036854775808",
         "-9223372036854775809", "+3", "007", "", "x", "1e3", " 5", "5 ", "--1", "18446744073709551615"]


def gen_rule_text(rnd):
    k = rnd.randrange(100)
    t = rnd.choice(TICKS) if rnd.random() < 0.5 else str(rnd.randrange(1000))
    if k < 30:
        return "%s:%s:%s:%s:%s" % (rnd.choice(["absolute", "relative"]), t, rnd.choice(["set", "get", "show"]), rnd.choice(OBJECTS), rnd.choice(EXTRAS))
    if k < 45:
        return "%s:%s:%s:%s" % (rnd.choice(["absolute", "relative"]), t, rnd.choice(["get", "show", "set"]), rnd.choice(OBJECTS))
    if k < 60:
        return "%s:%s:%s:%s" % (rnd.choice(["onvalid", "onrecv", "onexit"]), rnd.choice(["get", "show", "set"]), rnd.choice(OBJECTS), rnd.choice(EXTRAS))
    if k < 70:
        return "%s:%s:%s" % (rnd.choice(["onvalid", "onrecv", "onexit"]), rnd.choice(["get", "show"]), rnd.choice(OBJECTS))
    if k < 78:
        return "config:%s:%s" % (rnd.choice(CONFIG3 + ["show_pc", "nosuch"]), rnd.choice(EXTRAS))
    if k < 88:
        return "config:%s" % rnd.choice(CONFIG2 + ["get_all", "nosuch", ""])
    # malformed stream
    return rnd.choice(["", ":", "::::", "absolute", "absolute:1:set:i0:1:2", "Absolute:1:set:i0:1", "absolute:1:SET:i0:1",
                       "onvalid:get", "config", "config:show_pc:", "relative:1:set:i0", "a:b:c:d:e:f:g"])


def op_term(o):
    if o["op"] == "add":
        return "(SbAdd %s)" % C.cq_string(o.get("s", ""))
    return "(%s %s)" % ({"del": "SbDel", "suspend": "SbSuspend", "reactivate": "SbReactivate"}[o["op"]], C.cq_Z(o.get("i", 0)))


def rule_term(r):
    return "(mkRule %s %s %s %s %s %s)" % (TIMEC[r["timec"]], C.cq_N(r["tick"]), ACTION[r["action"]], C.cq_string(r["object"]),
                                           C.cq_string(r["extra"]), C.cq_bool(r["suspended"]))


IO_RE = re.compile(r"([io])(\d+): ([01]+) \(v:(true|false) r:(true|false)\)")


def dynamic_part(res, rnd, a):
    """set rules during a real simulation (cmd/bondmachine -sim with a simbox file) against the rules' stated meaning applied by
    hand to the VM (harness sim, 'rules'): exactly the named object gets exactly the stated value at exactly the stated tick, an
    external input also gets its valid flag, a suspended rule changes nothing"""
    import os, shutil, subprocess, tempfile
    import c07
    c07.build_tools()
    n = 8 if a.tier == "quick" else 80
    viol = []
    done = 0
    work = tempfile.mkdtemp(prefix="verif-c15-")
    try:
        for k in range(n):
            N = rnd.choice([1, 2, 3])
            rsize = 8
            sync = rnd.random() < 0.5
            prog = []
            for i in range(N):
                prog.append(("i2rw r%d i%d" if sync else "i2r r%d i%d") % (i, i))
            prog += ["add r0 r3", "r2o r0 o0"]
            if N > 1:
                prog += ["r2o r1 o1"]
            prog.append("j 0")
            M = 2 if N > 1 else 1
            ops = sorted(set(l.split()[0] for l in prog) | {"nop"})
            spec = {"rsize": rsize, "procs": [{"arch": {"R": 2, "N": N, "M": M, "L": 0, "O": 4, "ops": ops, "mode": "ha", "rsize": rsize}, "prog": prog}],
                    "inputs": N, "outputs": M, "bonds": [["p0i%d" % i, "i%d" % i] for i in range(N)] + [["o%d" % o, "p0o%d" % o] for o in range(M)]}
            ticks = 14
            rules = []
            for _ in range(rnd.randint(1, 5)):
                obj = rnd.choice(["i%d" % rnd.randrange(N), "p0r%d" % rnd.randrange(4)])
                rules.append({"tick": rnd.randrange(ticks - 2), "obj": obj, "val": rnd.randrange(1, 200), "suspended": rnd.random() < 0.25})
            # one (tick, object) pair at most: two rules for the same object at the same tick have no stated order
            seen, uniq = set(), []
            for r in rules:
                if (r["tick"], r["obj"]) not in seen:
                    seen.add((r["tick"], r["obj"]))
                    uniq.append(r)
            rules = uniq
            ref = simlib.run_sims([{"bm": spec, "env": [], "ticks": ticks, "dump": "ext", "rules": rules}])[0]
            saved = C.jsonl(C.sh([C.BMH, "c11", "save"], input=json.dumps({"bm": spec}) + "\n").stdout)[0]
            d = os.path.join(work, "c%d" % k)
            os.mkdir(d)
            open(os.path.join(d, "bm.json"), "w").write(saved["json"])
            sb = {"Rules": [{"Timec": 0, "Tick": r["tick"], "Action": 0, "Object": r["obj"], "Extra": str(r["val"]), "Suspended": r["suspended"]} for r in rules] +
                           [{"Timec": 1, "Tick": 0, "Action": 3, "Object": "show_io_post", "Extra": "", "Suspended": False}]}
            open(os.path.join(d, "sb.json"), "w").write(json.dumps(sb))
            p = subprocess.run([c07.tool("bondmachine"), "-bondmachine-file", "bm.json", "-sim", "-simbox-file", "sb.json", "-sim-interactions", str(ticks)],
                               cwd=d, env=C.GOENV, stdout=subprocess.PIPE, stderr=subprocess.STDOUT, text=True, timeout=120)
            lines = [l for l in p.stdout.splitlines() if "Post-compute IO" in l]
            meta = {"machine": spec, "rules": rules}
            res.count_case(meta, nontrivial=True)
            if ref.get("err") or len(lines) < ticks:
                viol.append(("the simulation with rules %s cannot be run: %s" % (rules, ref.get("err") or p.stdout[-300:]), meta))
                continue
            done += 1
            for t in range(ticks):
                got = {}
                for kind, idx, bits, v, r in IO_RE.findall(lines[t]):
                    got[kind + idx] = (int(bits, 2), v == "true", r == "true")
                want = {}
                for i in range(N):
                    want["i%d" % i] = (ref["ticks"][t]["in"][i], ref["ticks"][t]["inv"][i], ref["ticks"][t]["inr"][i])
                for o in range(M):
                    want["o%d" % o] = (ref["ticks"][t]["out"][o], ref["ticks"][t]["outv"][o], ref["ticks"][t]["outr"][o])
                if got != want:
                    bad = sorted(x for x in want if got.get(x) != want[x])
                    viol.append(("with rules %s the simulation shows %s = %s at tick %d; applying the rules as written gives %s"
                                 % ([("suspended " if r["suspended"] else "") + "absolute:%d:set:%s:%d" % (r["tick"], r["obj"], r["val"]) for r in rules],
                                    bad[0], got.get(bad[0]), t, want[bad[0]]), meta))
                    break
    finally:
        shutil.rmtree(work, ignore_errors=True)
    return viol, done


def rule_text(r):
    pre = "suspended " if r.get("suspended") else ""
    if r["kind"] == "set":
        return pre + ("relative:%d:set:%s:%d" % (r["period"], r["obj"], r["val"]) if r.get("period") else "absolute:%d:set:%s:%d" % (r["tick"], r["obj"], r["val"]))
    if r["kind"] == "get":
        return pre + ("relative:%d:get:%s:unsigned" % (r["period"], r["obj"]) if r.get("period") else "absolute:%d:get:%s:unsigned" % (r["tick"], r["obj"]))
    if r["when"] == "abs":
        return pre + "absolute:%d:show:%s:unsigned" % (r["tick"], r["obj"])
    if r["when"] == "rel":
        return pre + "relative:%d:show:%s:unsigned" % (r["period"], r["obj"])
    return pre + "%s:show:%s:unsigned" % (r["when"], r["obj"])


def sb_rule(r):
    T = {"abs": 0, "rel": 2, "onvalid": 3, "onexit": 5}
    if r["kind"] == "set":
        return {"Timec": 2 if r.get("period") else 0, "Tick": r.get("period") or r["tick"], "Action": 0, "Object": r["obj"], "Extra": str(r["val"]),
                "Suspended": bool(r.get("suspended"))}
    return {"Timec": T[r["when"]], "Tick": r.get("period") or r.get("tick") or 0, "Action": 1 if r["kind"] == "get" else 2, "Object": r["obj"],
            "Extra": "unsigned", "Suspended": bool(r.get("suspended"))}


def object_value(snap, obj):
    m = re.fullmatch(r"p0r(\d+)", obj)
    if m:
        return snap["procs"][0]["regs"][int(m.group(1))]
    m = re.fullmatch(r"p0i(\d+)", obj)
    if m:
        return snap["procs"][0]["in"][int(m.group(1))]
    m = re.fullmatch(r"p0o(\d+)", obj)
    if m:
        return snap["procs"][0]["out"][int(m.group(1))]
    m = re.fullmatch(r"i(\d+)", obj)
    if m:
        return snap["in"][int(m.group(1))]
    return snap["out"][int(obj[1:])]


def coq_rule(r):
    if r["kind"] == "set":
        return "(mkRule %s %d%%N ASet %s %s %s)" % ("TRel" if r.get("period") else "TAbs", r.get("period") or r["tick"], C.cq_string(r["obj"]),
                                                    C.cq_string(str(r["val"])), C.cq_bool(bool(r.get("suspended"))))
    T = {"abs": "TAbs", "rel": "TRel", "onvalid": "TOnValid", "onexit": "TOnExit"}
    return "(mkRule %s %d%%N %s %s %s %s)" % (T[r["when"]], r.get("period") or r.get("tick") or 0, "AGet" if r["kind"] == "get" else "AShow", C.cq_string(r["obj"]),
                                                 C.cq_string("unsigned"), C.cq_bool(bool(r.get("suspended"))))


SIMRUN_HDR = ("From Coq Require Import String NArith List Bool.\nFrom BM Require Import Front.Simbox Front.SimRun Front.SimRunCheck.\n"
              "Import ListNotations.\nLocal Open Scope string_scope.\n")


def dynamic_shows(res, rnd, a):
    """show rules (absolute, periodic, on-valid, on-exit) and periodic set rules in a real simulation (cmd/bondmachine -sim) against
    the rule-firing model Front/SimRun.v (the one the C15 run theorems are about): the model says which set rules act at which tick
    and which objects are printed at which tick, in which order; the values come from a reference run of the VM under exactly
    those sets"""
    import os, shutil, subprocess, tempfile
    import c07
    c07.build_tools()
    n = 8 if a.tier == "quick" else 80
    viol, done = [], 0
    hist = {"abs_show": 0, "rel_show": 0, "onvalid_show": 0, "onexit_show": 0, "rel_set": 0, "abs_set": 0, "suspended": 0, "stop_on_valid": 0}
    ticks = 16
    cases = []
    for k in range(n):
        N = rnd.choice([1, 2])
        prog = ["i2r r%d i%d" % (i, i) for i in range(N)] + ["add r0 r3", "inc r2", "r2owa r0 o0", "r2o r2 o1", "j 0"]
        M = 2
        ops = sorted(set(l.split()[0] for l in prog) | {"nop"})
        spec = {"rsize": 8, "procs": [{"arch": {"R": 2, "N": N, "M": M, "L": 0, "O": 4, "ops": ops, "mode": "ha", "rsize": 8}, "prog": prog}],
                "inputs": N, "outputs": M, "bonds": [["p0i%d" % i, "i%d" % i] for i in range(N)] + [["o%d" % o, "p0o%d" % o] for o in range(M)]}
        objs = ["i%d" % i for i in range(N)] + ["o0", "o1", "p0r0", "p0r2", "p0r3", "p0o0", "p0o1"] + ["p0i%d" % i for i in range(N)]
        rules = []
        for _ in range(rnd.randint(1, 3)):
            if rnd.random() < 0.4:
                rules.append({"kind": "set", "period": rnd.choice([2, 3, 5]), "tick": 0, "obj": rnd.choice(["i0", "p0r3"]), "val": rnd.randrange(1, 200)})
            else:
                rules.append({"kind": "set", "tick": rnd.randrange(ticks - 2), "obj": rnd.choice(["i%d" % rnd.randrange(N), "p0r3"]), "val": rnd.randrange(1, 200)})
        # at most one set rule per object (periodic and absolute sets of one object have no stated order)
        seen, uniq = set(), []
        for r in rules:
            if r["obj"] not in seen:
                seen.add(r["obj"])
                uniq.append(r)
        rules = uniq
        for _ in range(rnd.randint(2, 5)):
            w = rnd.choice(["abs", "abs", "rel", "onvalid", "onexit"])
            r = {"kind": "show", "when": w, "obj": rnd.choice(objs)}
            if w == "abs":
                r["tick"] = rnd.randrange(ticks)
            elif w == "rel":
                r["period"] = rnd.choice([1, 2, 3, 4, 7])
            elif w == "onvalid":
                r["obj"] = "o0"
            rules.append(r)
        # get rules (they feed the report file, not the printed lines) on some of the same objects, mixed among the others
        for _ in range(rnd.randint(0, 2)):
            g = {"kind": "get", "when": rnd.choice(["abs", "rel"]), "obj": rnd.choice(objs)}
            if g["when"] == "abs":
                g["tick"] = rnd.randrange(ticks)
            else:
                g["period"] = rnd.choice([1, 2, 3])
            rules.insert(rnd.randrange(len(rules) + 1), g)
        # every other case: a periodic show whose object also has a get rule, behind a show rule of another object (the numbering of the
        # reported objects and of the shown objects are separate)
        rel_shows = [r for r in rules if r["kind"] == "show" and r["when"] == "rel"]
        if k % 2 == 0 and rel_shows:
            r0 = rel_shows[0]
            other = rnd.choice([o for o in objs if o != r0["obj"]])
            j = rules.index(r0)
            rules.insert(j, {"kind": "get", "when": "rel", "obj": r0["obj"], "period": rnd.choice([1, 2])})
            rules.insert(0, {"kind": "show", "when": "abs", "obj": other, "tick": rnd.randrange(ticks)})
        for r in rules:
            r["suspended"] = rnd.random() < 0.2
        stop = rnd.random() < 0.5          # -sim-stop-on-valid-of 0: the run ends when o0 is valid at the start of an iteration
        cases.append({"spec": spec, "rules": rules, "stop": stop, "objs": objs})
    # the model: which set rules act at which tick
    body = SIMRUN_HDR + "Definition M := Eval vm_compute in %s.\n" % C.cq_list(
        ["\n sets_trace %s %d" % (C.cq_list([coq_rule(r) for r in c["rules"]]), ticks) for c in cases])
    sets_tr = C.eval_cases("C15", "sets", body, timeout=1200)["M"]
    reqs = []
    for c, tr in zip(cases, sets_tr):
        explicit = []
        for t, idxs in enumerate(tr):
            for i in idxs:
                r = c["rules"][i]
                explicit.append({"tick": t, "period": 0, "obj": r["obj"], "val": r["val"], "suspended": False})
        reqs.append({"bm": c["spec"], "env": [], "ticks": ticks, "rules": explicit})
    refs = simlib.run_sims(reqs)
    # the model: what is printed at which tick
    rows = []
    for c, ref in zip(cases, refs):
        outv = [bool(t["outv"][0]) for t in ref.get("ticks", [])] or [False] * ticks
        rows.append("\n shows_trace %s %s %s %s false %d 0%%N" % (C.cq_list([coq_rule(r) for r in c["rules"]]), C.cq_list([C.cq_string(o) for o in c["objs"]]),
                                                                  C.cq_bool(c["stop"]), C.cq_list([C.cq_bool(b) for b in outv]), ticks))
    shows_tr = C.eval_cases("C15", "shows", SIMRUN_HDR + "Definition M := Eval vm_compute in %s.\n" % C.cq_list(rows), timeout=1200)["M"]
    work = tempfile.mkdtemp(prefix="verif-c15s-")
    try:
        for k, (c, ref, tr) in enumerate(zip(cases, refs, shows_tr)):
            spec, rules, stop = c["spec"], c["rules"], c["stop"]
            saved = C.jsonl(C.sh([C.BMH, "c11", "save"], input=json.dumps({"bm": spec}) + "\n").stdout)[0]
            d = os.path.join(work, "c%d" % k)
            os.mkdir(d)
            open(os.path.join(d, "bm.json"), "w").write(saved["json"])
            sb = {"Rules": [sb_rule(r) for r in rules] + [{"Timec": 1, "Tick": 0, "Action": 3, "Object": "show_ticks", "Extra": "", "Suspended": False}]}
            open(os.path.join(d, "sb.json"), "w").write(json.dumps(sb))
            cmd = [c07.tool("bondmachine"), "-bondmachine-file", "bm.json", "-sim", "-simbox-file", "sb.json", "-sim-interactions", str(ticks)]
            if stop:
                cmd += ["-sim-stop-on-valid-of", "0"]
            p = subprocess.run(cmd, cwd=d, env=C.GOENV, stdout=subprocess.PIPE, stderr=subprocess.STDOUT, text=True, timeout=120)
            meta = {"machine": spec, "rules": [rule_text(r) for r in rules], "stop_on_valid_of_0": stop}
            res.count_case(meta, nontrivial=True)
            if ref.get("err") or "Absolute tick:0" not in p.stdout:
                viol.append(("the simulation with rules %s cannot be run: %s" % (meta["rules"], ref.get("err") or p.stdout[-300:]), meta))
                continue
            done += 1
            for r in rules:
                if r["suspended"]:
                    hist["suspended"] += 1
                elif r["kind"] == "set":
                    hist["rel_set" if r.get("period") else "abs_set"] += 1
                elif r["kind"] == "get":
                    hist["get"] = hist.get("get", 0) + 1
                else:
                    hist[{"abs": "abs_show", "rel": "rel_show", "onvalid": "onvalid_show", "onexit": "onexit_show"}[r["when"]]] += 1
            hist["stop_on_valid"] += int(stop)
            # what was printed: the show lines, each under the header of the tick it follows
            got, cur = [], None
            for line in p.stdout.splitlines():
                if line.startswith("Absolute tick:"):
                    cur = int(line.split(":")[1])
                elif cur is not None and re.fullmatch(r"[0-9]+( [0-9]+)* ?", line):
                    got.append((cur, [int(x) for x in line.split()]))
            # what the model says: rows (tick, stopping?, positions of the printed objects); in the stopping iteration nothing is
            # stepped or printed before the show line, so it follows the previous tick's header and shows the previous state
            snaps = ref["ticks"]
            want = []
            for row in tr:
                t, exiting, idxs = row[0], bool(row[1]), row[2:]
                snap = snaps[t - 1] if exiting else snaps[t]
                want.append((t - 1 if exiting else t, [object_value(snap, c["objs"][i]) for i in idxs]))
            if got != want:
                k2 = next((j for j in range(max(len(got), len(want))) if j >= len(got) or j >= len(want) or got[j] != want[j]), 0)
                viol.append(("with rules %s%s the simulation prints %s (after the header of tick, values); applying the rules as written gives %s"
                             % (meta["rules"], " and -sim-stop-on-valid-of 0" if stop else "", got[k2] if k2 < len(got) else "nothing more",
                                want[k2] if k2 < len(want) else "nothing more"), meta))
    finally:
        shutil.rmtree(work, ignore_errors=True)
    return viol, done, hist


def run(res, a):
    failed = C.proof_part(res, "C15", trusted=["harness/c15.go + lib/c15.py as the tie", "model Front/Simbox.v (hand-written)"])
    C.build_harness()
    rnd = random.Random(a.seed)
    n = 300 if a.tier == "quick" else 5000
    cases = []
    if a.replay:
        cases = [json.load(open(a.replay))["replay"]["ops"]]
    else:
        for _ in range(n):
            ops = []
            cnt = 0
            for _ in range(rnd.randint(1, 14)):
                k = rnd.randrange(10)
                idx = rnd.choice([-1, 0, 0, 1, 2, cnt - 1, cnt, cnt + 1]) if rnd.random() < 0.7 else rnd.randrange(max(cnt, 1))
                if k < 6:
                    ops.append({"op": "add", "s": gen_rule_text(rnd)})
                    cnt += 1
                elif k < 7:
                    ops.append({"op": "del", "i": idx})
                elif k < 9:
                    ops.append({"op": "suspend", "i": idx})
                else:
                    ops.append({"op": "reactivate", "i": idx})
            cases.append(ops)
    out = C.jsonl(C.sh([C.BMH, "c15"], input="".join(json.dumps({"ops": ops}) + "\n" for ops in cases)).stdout)
    viol, forms = [], {}
    for c in out:
        ok_adds = 0
        for o, st in zip(c["ops"], c["steps"]):
            if o["op"] == "add":
                w = o.get("s", "").split(":")
                forms["%d words/%s" % (len(w), st["outcome"])] = forms.get("%d words/%s" % (len(w), st["outcome"]), 0) + 1
                if st["outcome"] == "ok":
                    ok_adds += 1
                    if st.get("rtok") is False:
                        viol.append(("rule %r is stored as a rule that prints as %r, which does not parse back to it" % (o.get("s", ""), st.get("printed")), c["ops"]))
        if not c["jsonok"] or not c["jsonsame"]:
            viol.append(("saving and reloading the rule list changes it", c["ops"]))
        res.count_case(c["ops"], nontrivial=ok_adds >= 2)
    terms = []
    for c in out:
        obs = []
        for st in c["steps"]:
            oc = {"ok": "SbOk", "err": "SbErr", "panic": "SbPanic"}[st["outcome"]]
            obs.append("(%s, %s, %s)" % (oc, C.cq_list([rule_term(r) for r in st["rules"]]), C.cq_string(st.get("printed", ""))))
        terms.append("(%s, %s)" % (C.cq_list([op_term(o) for o in c["ops"]]), C.cq_list(obs)))
    shards = [terms[i:i + 150] for i in range(0, len(terms), 150)]
    bodies = ["From Coq Require Import List String NArith ZArith.\nFrom BM Require Import Front.Simbox Front.SimboxCheck.\n"
              "Import ListNotations.\nLocal Open Scope string_scope.\n"
              "Definition M := Eval vm_compute in map check_case %s.\n" % C.cq_list(["\n" + t for t in sh]) for sh in shards]
    mism = []
    k = 0
    for sh, o in zip(shards, C.eval_cases_parallel("C15", bodies)):
        for fails in o["M"]:
            if fails:
                mism.append((out[k]["ops"], fails))
            k += 1
    dyn_viol, dyn_n = dynamic_part(res, rnd, a)
    viol += dyn_viol
    sh_viol, sh_n, sh_hist = dynamic_shows(res, rnd, a)
    viol += sh_viol
    cov = res.coverage
    cov["rules_applied_in_simulation_compared"] = dyn_n
    cov["show_and_periodic_rules_in_simulation_compared"] = sh_n
    cov["show_and_periodic_rules_histogram"] = sh_hist
    cov["rule"] = ("rule-list histories: add (every rule form x object/extra/tick pools incl. boundary ticks, signs, malformed text), "
                   "del/suspend/reactivate with in-range, negative and too-large indices; JSON save/load of the final list; "
                   "non-trivial = at least two accepted rules; distinct by hash")
    cov["add_forms_histogram"] = forms
    cov["traces_validated_against_impl"] = len(out) - len(mism)
    cov["samples"] = out[:1] and [{"ops": out[0]["ops"]}]
    for text, ops in viol[:3]:
        res.violation("C15 " + text, {"ops": ops})
    if not viol:
        for ops, fails in mism[:3]:
            code = fails[0][1]
            res.violation("C15 %s at step %d of %s" % ({1: "model and implementation disagree on the rule list", 2: "model and implementation print the new rule differently",
                                                        3: "printed rule does not parse back (model)"}.get(code), fails[0][0], json.dumps(ops)),
                          {"ops": ops, "failures": fails}, nofail=(code != 3))
    if failed and not viol and not mism:
        res.violation("C15 proof obligation no longer checks: %s" % failed, {"obligation": failed}, nofail=True)
    return res.finish("proof")
