"""C06 — mapping a fragment graph onto more or fewer processors keeps its result."""
import json
import random

import common as C
import simlib

OPS2 = ["add", "mult", "cpy"]
OPS1 = ["inc", "dec"]


def gen_fragment(rnd, name):
    nin, nout = rnd.choice([1, 1, 2]), rnd.choice([1, 1, 2])
    nreg = rnd.choice([2, 3, 4])
    resin = rnd.sample(range(nreg), nin)
    written = set(resin)
    body = []
    for _ in range(rnd.randint(1, 5)):
        c = rnd.randrange(10)
        if c < 2 or len(written) < 1:
            r = rnd.randrange(nreg)
            if rnd.random() < 0.4:
                body.append(("clr", r))        # a register that may occur only as the single operand of one-operand instructions
            else:
                body.append(("rset", r, rnd.choice([0, 1, 2, 3, 5, 7])))
            written.add(r)
        elif c < 7:
            d = rnd.randrange(nreg)
            s = rnd.choice(sorted(written))
            op = rnd.choice(OPS2)
            if op != "cpy" and d not in written:
                op = "cpy"
            body.append((op, d, s))
            written.add(d)
        else:
            d = rnd.choice(sorted(written))
            body.append((rnd.choice(OPS1), d))
    resout = rnd.sample(sorted(written), min(nout, len(written)))
    return {"name": name, "resin": resin, "resout": resout, "body": body, "nreg": nreg}


def run_fragment(f, ins, mod):
    regs = {}
    for r, v in zip(f["resin"], ins):
        regs[r] = v % mod
    for op in f["body"]:
        if op[0] == "rset":
            regs[op[1]] = op[2] % mod
        elif op[0] == "add":
            regs[op[1]] = (regs[op[1]] + regs[op[2]]) % mod
        elif op[0] == "mult":
            regs[op[1]] = (regs[op[1]] * regs[op[2]]) % mod
        elif op[0] == "cpy":
            regs[op[1]] = regs[op[2]]
        elif op[0] == "clr":
            regs[op[1]] = 0
        elif op[0] == "inc":
            regs[op[1]] = (regs[op[1]] + 1) % mod
        elif op[0] == "dec":
            regs[op[1]] = (regs[op[1]] - 1) % mod
    return [regs[r] for r in f["resout"]]


def gen_graph(rnd):
    nfrag = rnd.randint(1, 3)
    frags = [gen_fragment(rnd, "fr%d" % i) for i in range(nfrag)]
    ninst = rnd.randint(2, 6)
    insts = [rnd.randrange(nfrag) for _ in range(ninst)]
    links = []      # (source, sink): source ("ext", k) | ("inst", p, port); sink ("ext", k) | ("inst", p, port)
    next_in = 0
    consumed = set()
    for p, fi in enumerate(insts):
        for port in range(len(frags[fi]["resin"])):
            cands = [(q, o) for q in range(p) for o in range(len(frags[insts[q]]["resout"]))]
            if cands and rnd.random() < 0.65:
                q, o = rnd.choice(cands)
                links.append((("inst", q, o), ("inst", p, port)))
                consumed.add((q, o))
            else:
                links.append((("ext", next_in), ("inst", p, port)))
                next_in += 1
    next_out = 0
    for p, fi in enumerate(insts):
        for o in range(len(frags[fi]["resout"])):
            if (p, o) not in consumed or rnd.random() < 0.3:
                links.append((("inst", p, o), ("ext", next_out)))
                next_out += 1
    return {"frags": frags, "insts": insts, "links": links, "nin": next_in, "nout": next_out}


def wide_graph(nin):
    """an adder chain over nin external inputs (nin - 1 instances of a two-input fragment): collapsed on one processor it needs nin
    processor inputs, more than ten when nin > 10"""
    add2 = {"name": "add2", "resin": [0, 1], "resout": [0], "body": [("add", 0, 1)], "nreg": 2}
    links = [(("ext", 0), ("inst", 0, 0)), (("ext", 1), ("inst", 0, 1))]
    for k in range(1, nin - 1):
        links += [(("inst", k - 1, 0), ("inst", k, 0)), (("ext", k + 1), ("inst", k, 1))]
    links.append((("inst", nin - 2, 0), ("ext", 0)))
    return {"frags": [add2], "insts": [0] * (nin - 1), "links": links, "nin": nin, "nout": 1}


def partitions(rnd, n, k):
    """k partitions of range(n) into ordered lists (index order is topological): everything on one CP, one CP each, random ones"""
    out = [[list(range(n))], [[i] for i in range(n)]]
    while len(out) < k:
        ncp = rnd.randint(1, n)
        assign = [rnd.randrange(ncp) for _ in range(n)]
        part = [sorted(i for i in range(n) if assign[i] == c) for c in range(ncp)]
        part = [p for p in part if p]
        if part not in out:
            out.append(part)
        if n <= 2:
            break
    return out


def basm_text(g, part, rsize):
    lines = []
    for f in g["frags"]:
        lines.append("%%fragment %s resin:%s resout:%s" % (f["name"], ":".join("r%d" % r for r in f["resin"]), ":".join("r%d" % r for r in f["resout"])))
        for op in f["body"]:
            if op[0] == "rset":
                lines.append("  rset r%d, %d" % (op[1], op[2]))
            elif len(op) == 3:
                lines.append("  %s r%d, r%d" % op)
            else:
                lines.append("  %s r%d" % op)
        lines.append("%endfragment")
        lines.append("")
    for p, fi in enumerate(g["insts"]):
        lines.append("%%meta fidef n%d fragment:%s" % (p, g["frags"][fi]["name"]))
    for n, (src, dst) in enumerate(g["links"]):
        lines.append("%%meta filinkdef k%d type:fl" % n)
        if src[0] == "ext":
            lines.append("%%meta filinkatt k%d fi:ext, type:input, index:%d" % (n, src[1]))
        else:
            lines.append("%%meta filinkatt k%d fi:n%d, type:output, index:%d" % (n, src[1], src[2]))
        if dst[0] == "ext":
            lines.append("%%meta filinkatt k%d fi:ext, type:output, index:%d" % (n, dst[1]))
        else:
            lines.append("%%meta filinkatt k%d fi:n%d, type:input, index:%d" % (n, dst[1], dst[2]))
    for c, insts in enumerate(part):
        lines.append("%%meta cpdef cp%d fragcollapse:%s" % (c, ":".join("n%d" % i for i in insts)))
    lines.append("%%meta bmdef global registersize:%d" % rsize)
    return "\n".join(lines) + "\n"


def eval_graph(g, xs, mod):
    vals = {}
    for p, fi in enumerate(g["insts"]):
        f = g["frags"][fi]
        ins = []
        for port in range(len(f["resin"])):
            src = next(s for s, d in g["links"] if d == ("inst", p, port))
            ins.append(xs[src[1]] % mod if src[0] == "ext" else vals[(src[1], src[2])])
        for o, v in enumerate(run_fragment(f, ins, mod)):
            vals[(p, o)] = v
    outs = [None] * g["nout"]
    for s, d in g["links"]:
        if d[0] == "ext":
            outs[d[1]] = vals[(s[1], s[2])]
    return outs


INSTR = {"add": "IAdd", "mult": "IMult", "cpy": "ICpy", "inc": "IInc", "dec": "IDec", "clr": "IClr"}


def graph_term(g):
    def body(f):
        out = []
        for op in f["body"]:
            if op[0] == "rset":
                out.append("(IRset %d %d%%N)" % (op[1], op[2]))
            elif len(op) == 3:
                out.append("(%s %d %d)" % (INSTR[op[0]], op[1], op[2]))
            else:
                out.append("(%s %d)" % (INSTR[op[0]], op[1]))
        return C.cq_list(out)
    frs = ["(mkFrag %s %s %s)" % (C.cq_list([str(r) for r in f["resin"]]), C.cq_list([str(r) for r in f["resout"]]), body(f)) for f in g["frags"]]
    insts = []
    for p, fi in enumerate(g["insts"]):
        srcs = []
        for port in range(len(g["frags"][fi]["resin"])):
            src = next(s for s, d in g["links"] if tuple(d) == ("inst", p, port))
            srcs.append("(SExt %d)" % src[1] if src[0] == "ext" else "(SOut %d %d)" % (src[1], src[2]))
        insts.append("(mkInst %s %s)" % (frs[fi], C.cq_list(srcs)))
    outs = [None] * g["nout"]
    for s_, d in g["links"]:
        if d[0] == "ext":
            outs[d[1]] = "(%d, %d)" % (s_[1], s_[2])
    return "(mkGraph %s %s)" % (C.cq_list(insts), C.cq_list(outs))


def run(res, a):
    failed = C.proof_part(res, "C06", trusted=[
        "Front/Frag.v: value-level model of fragmentComposer (glue moves, temporaries, body in collapse order) and direct dataflow evaluation",
        "the simulator runs until the outputs are stable; asynchronous iomode"])
    C.build_harness()
    rnd = random.Random(a.seed)
    n = 14 if a.tier == "quick" else 150
    cases = []
    for _ in range(n):
        g = gen_graph(rnd)
        rsize = rnd.choice([8, 16, 32])
        xs = [rnd.randrange(1 << min(rsize, 10)) for _ in range(g["nin"])]
        for part in partitions(rnd, len(g["insts"]), 3 if a.tier == "quick" else 5):
            cases.append((g, part, rsize, xs))
    # many externally fed ports on one processor (input indices of two digits)
    # (the Coq-side pass model of the check runs on 16 registers: at most 13 inputs)
    for nin in ((12,) if a.tier == "quick" else (11, 12, 13)):
        g = wide_graph(nin)
        xs = [rnd.randrange(1, 20) for _ in range(nin)]
        ni = nin - 1
        for part in ([list(range(ni))], [list(range(ni // 2)), list(range(ni // 2, ni))], [[i] for i in range(ni)]):
            cases.append((g, part, 16, xs))
    if a.replay:
        rp = json.load(open(a.replay))["replay"]
        cases = [(rp["graph"], rp["partition"], rp["rsize"], rp["inputs"])]
    reqs = []
    ticks = 500
    for g, part, rsize, xs in cases:
        env = [{"in": [[x, 1] for x in xs], "outrecv": [-1] * g["nout"]}] * ticks
        reqs.append({"bm": {"basm": basm_text(g, part, rsize), "nodyn": True}, "env": env, "ticks": ticks, "dump": "ext"})
    out = simlib.run_sims(reqs, timeout=3000)
    viol, mism = [], []
    rows, metas = [], []
    hist = {"graphs": n, "runs": len(cases), "single_cp": 0, "one_cp_each": 0, "mixed": 0, "instances": {}}
    for (g, part, rsize, xs), r in zip(cases, out):
        meta = {"graph": g, "partition": part, "rsize": rsize, "inputs": xs, "source": basm_text(g, part, rsize)}
        res.count_case(meta["source"] + str(xs), nontrivial=True)
        ninst = len(g["insts"])
        hist["instances"][str(ninst)] = hist["instances"].get(str(ninst), 0) + 1
        hist["single_cp" if len(part) == 1 else "one_cp_each" if len(part) == ninst else "mixed"] += 1
        if r.get("err"):
            viol.append(("the assembler rejects the fragment graph: %s" % r["err"], meta))
            continue
        want = eval_graph(g, xs, 1 << rsize)
        last = r["ticks"][-1]["out"]
        stable = all(t["out"] == last for t in r["ticks"][-60:])
        if not stable:
            viol.append(("the outputs do not settle within %d ticks (last %s)" % (ticks, last), meta))
        elif last != want:
            viol.append(("partition %s gives outputs %s, direct evaluation of the graph gives %s" % (part, last, want), meta))
        progs = [[simlib.instr_term(l) for l in prog] for prog in r["progs"]]
        if any(None in pr for pr in progs) or len(progs) != len(part):
            mism.append(("the assembled programs are outside the model: %s" % r["progs"], meta))
            continue
        cps = ["(%s, %s)" % (C.cq_list([str(i) for i in cl]), C.cq_list(pr)) for cl, pr in zip(part, progs)]
        rows.append("check_case %d%%N %s %s %s %s" % (rsize, graph_term(g), C.cq_list(cps), simlib.nl(xs), simlib.nl(last)))
        metas.append(meta)
    bodies = []
    shard = 10
    for i in range(0, len(rows), shard):
        bodies.append("From Coq Require Import List NArith Bool Arith.\nFrom BM Require Import Isa.Sim Front.Frag Front.FragCheck.\nImport ListNotations.\n"
                      "Definition M := Eval vm_compute in %s.\n" % C.cq_list(["\n" + r for r in rows[i:i + shard]]))
    k = 0
    for o in C.eval_cases_parallel("C06", bodies, timeout=3000):
        for codes in o["M"]:
            for c in codes:
                mism.append(({1: "the section composed by the model differs from the assembled program of some processor",
                              2: "the model's direct evaluation differs from the settled outputs",
                              3: "a generated graph or partition is outside the conditions of the theorems (graph_ok / ext_ok / partition_ok)",
                              5: "the pass-by-pass machine model built from the assembled programs does not end with the observed outputs",
                              4: "one pass of the assembled section, run in the model on the settled inputs, does not leave the graph's values at the processor outputs"}[c], metas[k]))
            k += 1
    if False:
        pass
    cov = res.coverage
    cov["rule"] = ("random DAGs of 2-6 instances of 1-3 random integer fragments (1-2 resin, 1-2 resout, rset/add/mult/cpy/inc/dec bodies reading only "
                   "initialised registers), links from external inputs or earlier instances with fan-out, register sizes 8/16/32; each graph is "
                   "assembled with everything on one processor, one processor per instance and random partitions; simulated 500 ticks with constant "
                   "inputs; the settled outputs are compared with direct evaluation")
    cov["input_distribution"] = hist
    cov["traces_validated_against_impl"] = len(rows) - len(mism)
    cov["composed_sections_compared"] = sum(len(m["partition"]) for m in metas)
    cov["samples"] = [{"source": basm_text(*cases[0][:3])}]
    for text, meta in viol[:3]:
        res.violation("C06 " + text, meta)
    if not viol:
        # a wrong value computed by the assembled programs (run in the model) is a concrete failing input; a mere difference between
        # the composed section and the model's is not
        concrete = [m for m in mism if "does not leave the graph's values" in m[0] or "does not end with the observed outputs" in m[0]]
        for text, meta in (concrete or mism)[:2]:
            res.violation("C06 model and implementation disagree: " + text, meta, nofail=not concrete)
    if failed and not viol and not mism:
        res.violation("C06 proof obligation no longer checks: %s" % (failed[:2],), {"obligation": [list(f) for f in failed][:3]}, nofail=True)
    return res.finish("proof")
