"""Verilog-2001 front-end for the text the BondMachine generators emit: lexer + recursive-descent
parser -> Python AST, and a printer of that AST as Coq terms of BM.Vlog.Syntax.

Anything the parser cannot read raises VerilogSyntaxError with the offending token; a construct
that parses but that the Coq semantics does not interpret is marked (`Unsupported`) in the AST so
that lint still sees it."""
import re


class VerilogSyntaxError(Exception):
    pass


TOKEN_RE = re.compile(r"""
    (?P<ws>\s+)
  | (?P<lcomment>//[^\n]*)
  | (?P<bcomment>/\*.*?\*/)
  | (?P<attr>\(\*(?!\s*\)).*?\*\))
  | (?P<directive>`[A-Za-z_][A-Za-z0-9_]*[^\n]*)
  | (?P<string>"(?:[^"\\]|\\.)*")
  | (?P<number>(?:[0-9][0-9_]*)?'[sS]?[bBoOdDhH][0-9a-fA-FxXzZ_?]+|[0-9][0-9_]*(?:\.[0-9]+)?)
  | (?P<sysid>\$[A-Za-z_][A-Za-z0-9_$]*)
  | (?P<id>[A-Za-z_][A-Za-z0-9_$]*|\\\S+)
  | (?P<op><<<|>>>|===|!==|<<|>>|<=|>=|==|!=|&&|\|\||~&|~\||~\^|\^~|\*\*|[-+*/%<>!~&|^?:=,;.()\[\]{}#@])
""", re.S | re.X)

KEYWORDS = {"module", "endmodule", "input", "output", "inout", "wire", "reg", "integer", "genvar", "localparam",
            "parameter", "assign", "always", "initial", "begin", "end", "if", "else", "case", "casez", "casex",
            "endcase", "default", "for", "while", "posedge", "negedge", "or", "generate", "endgenerate", "function",
            "endfunction", "task", "endtask", "signed", "forever", "repeat", "real", "time", "defparam"}


def lex(text):
    toks = []
    pos = 0
    line = 1
    while pos < len(text):
        m = TOKEN_RE.match(text, pos)
        if not m:
            raise VerilogSyntaxError("cannot tokenise at line %d: %r" % (line, text[pos:pos + 30]))
        kind = m.lastgroup
        val = m.group(kind)
        if kind in ("number", "sysid", "id", "op", "string"):
            if kind == "id" and val in KEYWORDS:
                kind = "kw"
            toks.append((kind, val, line))
        line += val.count("\n")
        pos = m.end()
    toks.append(("eof", "", line))
    return toks


def parse_number(txt):
    """-> (width or None, value, has_xz)"""
    t = txt.replace("_", "").replace(" ", "")
    if "'" not in t:
        if "." in t:
            return (None, 0, True)
        return (None, int(t), False)
    w, rest = t.split("'")
    rest = rest.lstrip("sS")
    base = {"b": 2, "o": 8, "d": 10, "h": 16}[rest[0].lower()]
    digits = rest[1:]
    xz = bool(re.search(r"[xXzZ?]", digits))
    digits = re.sub(r"[xXzZ?]", "0", digits)
    try:
        v = int(digits, base)
    except ValueError:
        raise VerilogSyntaxError("illegal digit in based literal %r" % txt)
    width = int(w) if w else None
    if width is not None:
        v &= (1 << width) - 1
    return (width, v, xz)


BINPREC = [
    ("||",), ("&&",), ("|", "~|"), ("^", "~^", "^~"), ("&", "~&"), ("==", "!=", "===", "!=="),
    ("<", "<=", ">", ">="), ("<<", ">>", "<<<", ">>>"), ("+", "-"), ("*", "/", "%"), ("**",),
]


class Parser:
    def __init__(self, text):
        self.toks = lex(text)
        self.i = 0

    # ---- token helpers
    def peek(self, k=0):
        return self.toks[min(self.i + k, len(self.toks) - 1)]

    def at(self, val, kind=None):
        t = self.peek()
        return t[1] == val and (kind is None or t[0] == kind) and t[0] != "string"

    def take(self):
        t = self.toks[self.i]
        self.i += 1
        return t

    def expect(self, val):
        t = self.take()
        if t[1] != val or t[0] == "string":
            raise VerilogSyntaxError("line %d: expected %r, found %r" % (t[2], val, t[1]))
        return t

    def accept(self, val):
        if self.at(val):
            self.take()
            return True
        return False

    def ident(self):
        t = self.take()
        if t[0] != "id":
            raise VerilogSyntaxError("line %d: expected identifier, found %r" % (t[2], t[1]))
        return t[1]

    # ---- expressions
    def expr(self):
        c = self.binary(0)
        if self.accept("?"):
            a = self.expr()
            self.expect(":")
            b = self.expr()
            return ("cond", c, a, b)
        return c

    def binary(self, lvl):
        if lvl == len(BINPREC):
            return self.unary()
        left = self.binary(lvl + 1)
        while self.peek()[0] == "op" and self.peek()[1] in BINPREC[lvl]:
            # `<=` inside an expression is a comparison; statement level handles nonblocking first
            op = self.take()[1]
            right = self.binary(lvl + 1)
            left = ("bin", op, left, right)
        return left

    def unary(self):
        t = self.peek()
        if t[0] == "op" and t[1] in ("!", "~", "-", "+", "&", "|", "^", "~&", "~|", "~^", "^~"):
            self.take()
            return ("un", t[1], self.unary())
        return self.primary()

    def primary(self):
        t = self.take()
        if t[0] == "number":
            w, v, xz = parse_number(t[1])
            return ("num", w, v, xz)
        if t[0] == "string":
            return ("str", t[1])
        if t[0] == "sysid":
            args = []
            if self.accept("("):
                if not self.at(")"):
                    args.append(self.expr())
                    while self.accept(","):
                        args.append(self.expr())
                self.expect(")")
            return ("syscall", t[1], args)
        if t[1] == "(" and t[0] == "op":
            e = self.expr()
            self.expect(")")
            return e
        if t[1] == "{" and t[0] == "op":
            first = self.expr()
            if self.at("{"):
                self.take()
                items = [self.expr()]
                while self.accept(","):
                    items.append(self.expr())
                self.expect("}")
                self.expect("}")
                return ("repl", first, ("concat", items))
            items = [first]
            while self.accept(","):
                items.append(self.expr())
            self.expect("}")
            return ("concat", items)
        if t[0] == "id":
            name = t[1]
            while self.at("."):          # hierarchical reference
                self.take()
                name += "." + self.ident()
            if self.at("(") and self.peek()[0] == "op":   # function call
                self.take()
                args = []
                if not self.at(")"):
                    args.append(self.expr())
                    while self.accept(","):
                        args.append(self.expr())
                self.expect(")")
                return ("call", name, args)
            node = ("id", name)
            while self.at("["):
                self.take()
                a = self.expr()
                if self.accept(":"):
                    b = self.expr()
                    self.expect("]")
                    node = ("part", node, a, b)
                elif self.at("+") and self.peek(1)[1] == ":" or self.at("-") and self.peek(1)[1] == ":":
                    d = self.take()[1]
                    self.take()
                    b = self.expr()
                    self.expect("]")
                    node = ("ipart", node, a, d, b)
                else:
                    self.expect("]")
                    node = ("index", node, a)
            return node
        raise VerilogSyntaxError("line %d: unexpected %r in expression" % (t[2], t[1]))

    def lvalue(self):
        if self.at("{"):
            self.take()
            items = [self.lvalue()]
            while self.accept(","):
                items.append(self.lvalue())
            self.expect("}")
            return ("concat", items)
        e = self.primary()
        if e[0] not in ("id", "index", "part", "ipart"):
            raise VerilogSyntaxError("bad assignment target %r" % (e,))
        return e

    # ---- statements
    def delay(self):
        if self.accept("#"):
            t = self.take()
            if t[1] == "(":
                self.expr()
                self.expect(")")

    def statement(self):
        t = self.peek()
        if t[0] == "op" and t[1] == ";":
            self.take()
            return ("nop",)
        if t[0] == "op" and t[1] == "#":
            self.delay()
            if self.accept(";"):
                return ("nop",)
            return self.statement()
        if t[0] == "op" and t[1] == "@":
            self.take()
            self.sensitivity()
            if self.accept(";"):
                return ("nop",)
            return self.statement()
        if t[0] == "kw":
            if t[1] == "begin":
                self.take()
                if self.accept(":"):
                    self.ident()
                decls = []
                while self.peek()[0] == "kw" and self.peek()[1] in ("reg", "integer", "real", "time"):
                    decls += self.declaration()
                body = []
                while not self.at("end", "kw"):
                    body.append(self.statement())
                self.take()
                return ("block", body, decls)
            if t[1] == "if":
                self.take()
                self.expect("(")
                c = self.expr()
                self.expect(")")
                th = self.statement()
                el = None
                if self.at("else", "kw"):
                    self.take()
                    el = self.statement()
                return ("if", c, th, el)
            if t[1] in ("case", "casez", "casex"):
                kind = self.take()[1]
                self.expect("(")
                sel = self.expr()
                self.expect(")")
                arms, dflt = [], None
                while not self.at("endcase", "kw"):
                    if self.at("default", "kw"):
                        self.take()
                        self.accept(":")
                        dflt = self.statement()
                    else:
                        labels = [self.expr()]
                        while self.accept(","):
                            labels.append(self.expr())
                        self.expect(":")
                        arms.append((labels, self.statement()))
                end = self.take()
                if not arms and dflt is None:
                    # IEEE 1364-2001 A.6.7: case ( expression ) case_item { case_item } endcase - at least one item
                    raise VerilogSyntaxError("line %d: case statement without any item" % end[2])
                return ("case", kind, sel, arms, dflt)
            if t[1] == "for":
                self.take()
                self.expect("(")
                init = self.assignment_nosemi()
                self.expect(";")
                cond = self.expr()
                self.expect(";")
                step = self.assignment_nosemi()
                self.expect(")")
                return ("for", init, cond, step, self.statement())
            if t[1] in ("while", "repeat"):
                self.take()
                self.expect("(")
                c = self.expr()
                self.expect(")")
                return ("unsupported", t[1], [self.statement()], [c])
            if t[1] == "forever":
                self.take()
                return ("unsupported", "forever", [self.statement()], [])
        if t[0] == "sysid":
            self.take()
            args = []
            if self.accept("("):
                if not self.at(")"):
                    args.append(self.expr())
                    while self.accept(","):
                        args.append(self.expr())
                self.expect(")")
            self.expect(";")
            return ("systask", t[1], args)
        if t[0] == "id" and self.peek(1)[1] in (";", "(") and self.peek(1)[0] == "op":
            # task enable
            name = self.ident()
            args = []
            if self.accept("("):
                if not self.at(")"):
                    args.append(self.expr())
                    while self.accept(","):
                        args.append(self.expr())
                self.expect(")")
            self.expect(";")
            return ("taskcall", name, args)
        s = self.assignment_nosemi()
        self.expect(";")
        return s

    def assignment_nosemi(self):
        lhs = self.lvalue()
        t = self.take()
        if t[1] not in ("=", "<="):
            raise VerilogSyntaxError("line %d: expected assignment, found %r" % (t[2], t[1]))
        self.delay()
        if self.at("@"):
            self.take()
            self.sensitivity()
        rhs = self.expr()
        return ("nba" if t[1] == "<=" else "ba", lhs, rhs)

    def sensitivity(self):
        if self.accept("*"):
            return "star"
        self.expect("(")
        if self.accept("*"):
            self.expect(")")
            return "star"
        items = []
        while True:
            edge = "level"
            if self.at("posedge", "kw") or self.at("negedge", "kw"):
                edge = self.take()[1]
            items.append((edge, self.expr()))
            if self.accept(",") or (self.at("or", "kw") and self.take()):
                continue
            break
        self.expect(")")
        return items

    # ---- declarations
    def range_opt(self):
        if self.at("["):
            self.take()
            a = self.expr()
            self.expect(":")
            b = self.expr()
            self.expect("]")
            return (a, b)
        return None

    def declaration(self, in_port_list=False):
        """one declaration statement -> list of decl nodes; consumes the trailing ';' unless in a port list"""
        kinds = []
        while self.peek()[0] == "kw" and self.peek()[1] in ("input", "output", "inout", "wire", "reg", "integer", "genvar",
                                                           "signed", "real", "time"):
            kinds.append(self.take()[1])
        rng = self.range_opt()
        out = []
        while True:
            name = self.ident()
            dims = []
            while self.at("["):
                dims.append(self.range_opt())
            init = None
            if self.accept("="):
                init = self.expr()
            out.append(("decl", kinds, rng, name, dims, init))
            if in_port_list:
                break
            if self.accept(","):
                continue
            break
        if not in_port_list:
            self.expect(";")
        return out

    def param_decl(self, terminated=True):
        kind = self.take()[1]  # localparam / parameter
        if self.at("signed", "kw") or self.at("integer", "kw") or self.at("real", "kw"):
            self.take()
        rng = self.range_opt()
        out = []
        while True:
            name = self.ident()
            self.expect("=")
            val = self.expr()
            out.append(("param", kind, rng, name, val))
            if terminated and self.accept(","):
                continue
            break
        if terminated:
            self.expect(";")
        return out

    # ---- module items
    def module_item(self):
        t = self.peek()
        if t[0] == "kw":
            k = t[1]
            if k in ("input", "output", "inout", "wire", "reg", "integer", "genvar", "real", "time"):
                return self.declaration()
            if k in ("localparam", "parameter"):
                return self.param_decl()
            if k == "assign":
                self.take()
                self.delay()
                out = []
                while True:
                    lhs = self.lvalue()
                    self.expect("=")
                    out.append(("assign", lhs, self.expr()))
                    if not self.accept(","):
                        break
                self.expect(";")
                return out
            if k == "always":
                self.take()
                if self.at("#"):
                    self.delay()
                    return [("always", "delay", self.statement())]
                self.expect("@")
                sens = self.sensitivity()
                return [("always", sens, self.statement())]
            if k == "initial":
                self.take()
                return [("initial", self.statement())]
            if k == "generate":
                self.take()
                items = []
                while not self.at("endgenerate", "kw"):
                    items += self.generate_item()
                self.take()
                return [("generate", items)]
            if k in ("for", "if", "begin", "case"):
                return self.generate_item()
            if k in ("function", "task"):
                self.take()
                end = "end" + k
                if self.at("signed", "kw") or self.at("integer", "kw"):
                    self.take()
                rng = self.range_opt() if k == "function" else None
                name = self.ident()
                decls = []
                if self.accept("("):
                    while not self.at(")"):
                        decls += self.declaration(in_port_list=True)
                        self.accept(",")
                    self.expect(")")
                self.expect(";")
                while self.peek()[0] == "kw" and self.peek()[1] in ("input", "output", "inout", "reg", "integer", "real", "time"):
                    decls += self.declaration()
                body = []
                while not self.at(end, "kw"):
                    body.append(self.statement())
                self.take()
                return [("function", name, rng, decls, body)]
            if k == "defparam":
                while not self.accept(";"):
                    self.take()
                return [("unsupported_item", "defparam")]
        if t[0] == "id":
            return self.instance()
        raise VerilogSyntaxError("line %d: unexpected %r at module level" % (t[2], t[1]))

    def generate_item(self):
        if self.at("for", "kw"):
            self.take()
            self.expect("(")
            init = self.assignment_nosemi()
            self.expect(";")
            cond = self.expr()
            self.expect(";")
            step = self.assignment_nosemi()
            self.expect(")")
            return [("genfor", init, cond, step, self.generate_block())]
        if self.at("if", "kw"):
            self.take()
            self.expect("(")
            c = self.expr()
            self.expect(")")
            th = self.generate_block()
            el = []
            if self.at("else", "kw"):
                self.take()
                el = self.generate_block()
            return [("genif", c, th, el)]
        if self.at("begin", "kw"):
            return [("genblock", self.generate_block())]
        return self.module_item()

    def generate_block(self):
        if self.at("begin", "kw"):
            self.take()
            if self.accept(":"):
                self.ident()
            items = []
            while not self.at("end", "kw"):
                items += self.generate_item()
            self.take()
            return items
        return self.generate_item()

    def instance(self):
        modname = self.ident()
        params = None
        if self.accept("#"):
            self.expect("(")
            params = self.connections()
            self.expect(")")
        out = []
        while True:
            inst = self.ident()
            if self.at("["):
                self.range_opt()
            self.expect("(")
            conns = self.connections()
            self.expect(")")
            out.append(("inst", modname, inst, conns, params))
            if not self.accept(","):
                break
        self.expect(";")
        return out

    def connections(self):
        if self.at(")"):
            return ("pos", [])
        if self.at("."):
            named = []
            while self.accept("."):
                port = self.ident()
                self.expect("(")
                e = None if self.at(")") else self.expr()
                self.expect(")")
                named.append((port, e))
                if not self.accept(","):
                    break
            return ("named", named)
        pos = [self.expr()]
        while self.accept(","):
            pos.append(None if self.at(",") or self.at(")") else self.expr())
        return ("pos", pos)

    def module(self):
        self.expect("module")
        name = self.ident()
        params = []
        if self.accept("#"):
            self.expect("(")
            while not self.at(")"):
                if self.at("parameter", "kw"):
                    params += self.param_decl(terminated=False)
                else:
                    # continuation of a parameter list without the keyword
                    nm = self.ident()
                    self.expect("=")
                    params.append(("param", "parameter", None, nm, self.expr()))
                self.accept(",")
            self.expect(")")
        ports, items = [], list(params)
        if self.accept("("):
            while not self.at(")"):
                if self.peek()[0] == "kw":
                    ds = self.declaration(in_port_list=True)
                    kinds, rng = ds[0][1], ds[0][2]
                    items += ds
                    ports.append(ds[0][3])
                    # `input a, b` continues the same declaration
                    while self.at(",") and self.peek(1)[0] == "id":
                        self.take()
                        nm = self.ident()
                        items.append(("decl", kinds, rng, nm, [], None))
                        ports.append(nm)
                else:
                    ports.append(self.ident())
                self.accept(",")
            self.expect(")")
        self.expect(";")
        while not self.at("endmodule", "kw"):
            items += self.module_item()
        self.take()
        return ("module", name, ports, items)

    def source(self):
        mods = []
        while self.peek()[0] != "eof":
            mods.append(self.module())
        return mods


def parse_file(text):
    return Parser(text).source()
