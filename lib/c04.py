"""C04 — a bond delivers every value exactly once, in order, to every consumer."""
import json
import random

import common as C
import simlib
import vsim


def gen_case(rnd, tier):
    """one producer, k consumers on one bond; explicit pads between IO instructions (0 = back to back)"""
    k = rnd.choice([1, 1, 2, 3])
    nvals = rnd.randint(2, 5)
    rsize = rnd.choice([8, 16])
    vals = [rnd.randrange(1, 200) for _ in range(nvals)]
    style = rnd.choice(["wide", "wide", "tight", "mixed", "offset"])   # wide: pads >= 2 everywhere (well spaced for k = 1)
    if style == "offset" and k == 1:
        k = 2

    def pad():
        if style in ("wide", "offset"):
            return rnd.randint(2, 4)
        if style == "tight":
            return rnd.randint(0, 1)
        return rnd.randint(0, 4)
    prog = ["rset r%d %d" % (i, v) for i, v in enumerate(vals)]
    for i in range(nvals):
        prog.append("r2owa r%d o0" % i)
        prog += ["nop"] * pad()
    procs = [{"arch": {"R": 3, "N": 0, "M": 1, "L": 0, "O": 6, "ops": ["rset", "r2owa", "nop", "j"], "mode": "ha", "rsize": rsize},
              "prog": prog}]
    bonds = []
    for c in range(k):
        cp = ["nop"] * (rnd.randint(0, 6) if style == "offset" else 0)    # consumers arrive at different times
        same_speed = style == "wide" and k > 1
        for i in range(nvals):
            cp.append("i2rw r%d i0" % i)
            cp += ["nop"] * (3 if same_speed else 10 if style == "offset" else
                             pad() + (rnd.randint(0, 6) if k > 1 and rnd.random() < 0.3 else 0))
        procs.append({"arch": {"R": 3, "N": 1, "M": 0, "L": 0, "O": 6, "ops": ["i2rw", "nop", "j"], "mode": "ha", "rsize": rsize},
                      "prog": cp})
        bonds.append(["p%di0" % (c + 1), "p0o0"])
    spec = {"rsize": rsize, "procs": procs, "inputs": 0, "outputs": 0, "bonds": bonds}
    return {"bm": spec, "ticks": 12 * nvals + 30, "env": []}, dict(k=k, vals=vals, style=style)


def observe(req, res):
    """schedule (what each processor executed at every tick) and observations read off the Go trace"""
    progs = res["progs"]
    k = len(progs) - 1
    sched, obs = [], []
    prev = None
    gots = [[] for _ in range(k)]
    init_regs = [[0] * 8 for _ in progs]
    for t in res["ticks"]:
        ps = t["procs"]
        pcs = [p["pc"] for p in prev["procs"]] if prev else [0] * len(ps)
        regs = [p["regs"] for p in prev["procs"]] if prev else init_regs
        # producer
        pi = progs[0][pcs[0]].split() if pcs[0] < len(progs[0]) else ["halt"]
        pa = "(PIo %d%%N)" % regs[0][int(pi[1][1:])] if pi[0] == "r2owa" else "PIdle"
        cas = []
        for c in range(k):
            ci = progs[c + 1][pcs[c + 1]].split() if pcs[c + 1] < len(progs[c + 1]) else ["halt"]
            cas.append("CIo" if ci[0] == "i2rw" else "CIdle")
            if ci[0] == "i2rw" and ps[c + 1]["pc"] != pcs[c + 1]:
                gots[c].append(ps[c + 1]["regs"][int(ci[1][1:])])
        sched.append("(%s, %s)" % (pa, C.cq_list(cas)))
        obs.append("(%s, %d%%N, %s)" % (C.cq_bool(ps[0]["outv"][0]), ps[0]["out"][0],
                                        C.cq_list(["(%s, %s)" % (C.cq_bool(ps[c + 1]["inr"][0]), C.cq_list(["%d%%N" % v for v in gots[c]]))
                                                   for c in range(k)])))
        prev = t
    # values the producer got past
    sent = []
    pcs_seq = [0] + [t["procs"][0]["pc"] for t in res["ticks"]]
    regs_seq = [init_regs[0]] + [t["procs"][0]["regs"] for t in res["ticks"]]
    for a, b, rg in zip(pcs_seq, pcs_seq[1:], regs_seq):
        if a < len(progs[0]) and progs[0][a].startswith("r2owa") and b != a:
            sent.append(rg[int(progs[0][a].split()[1][1:])])
    return k, sched, obs, gots, sent


def hdl_rows(q, ncyc):
    """render the machine, run the emitted Verilog under Vlog.Sem, return per-cycle observations per processor"""
    r = C.jsonl(C.sh([C.BMH, "vlog"], input=json.dumps({"kind": "bm", "bm": q["bm"]}) + "\n").stdout)[0]
    if r.get("err"):
        raise C.Broken("Write_verilog failed on a C04 machine: " + r["err"])
    em, term, flat = vsim.flat_design(r["files"], "bondmachine")
    nproc = len(q["bm"]["procs"])
    obs, layout = [], []
    for p in range(nproc):
        pre = "a%d_inst/p%d_instance/" % (p, p)
        names = ["_pc"] + ["_r%d" % i for i in range(8)] + (["waitsm", "o0_val", "_auxo0"] if p == 0 else ["i0_recv"])
        layout.append((len(obs), names))
        obs += [pre + n for n in names]
    ins = [{"clk": 0, "reset": 1}] * 2 + [{"clk": 0, "reset": 0}] * ncyc
    return em, term, ins, obs, layout


def hdl_observe(q, rows, layout):
    progs = [p["prog"] for p in q["bm"]["procs"]]
    k = len(progs) - 1

    def get(row, p, name):
        off, names = layout[p]
        return row[off + names.index(name)]
    rows = rows[1:]                      # state after the reset cycles
    sched, obs = [], []
    gots = [[] for _ in range(k)]
    sent = []
    for prev, cur in zip(rows, rows[1:]):
        pcs = [get(prev, p, "_pc") for p in range(k + 1)]
        if any(pc >= len(progs[p]) for p, pc in enumerate(pcs)):
            break                        # a processor ran off its program: outside the compared domain
        pi = progs[0][pcs[0]].split()
        if pi[0] == "r2owa":
            pa = "(PIo %d%%N)" % get(prev, 0, "_" + pi[1])
            if get(cur, 0, "_pc") != pcs[0]:
                sent.append(get(prev, 0, "_auxo0"))
        else:
            pa = "PIdle"
        cas = []
        for c in range(k):
            ci = progs[c + 1][pcs[c + 1]].split()
            cas.append("CIo" if ci[0] == "i2rw" else "CIdle")
            if ci[0] == "i2rw" and get(cur, c + 1, "_pc") != pcs[c + 1]:
                gots[c].append(get(cur, c + 1, "_" + ci[1]))
        sched.append("(%s, %s)" % (pa, C.cq_list(cas)))
        obs.append("(%s, %s, %d%%N, %s)" % (C.cq_bool(get(cur, 0, "waitsm")), C.cq_bool(get(cur, 0, "o0_val")), get(cur, 0, "_auxo0"),
                                            C.cq_list(["(%s, %s)" % (C.cq_bool(get(cur, c + 1, "i0_recv")), C.cq_list(["%d%%N" % v for v in gots[c]]))
                                                       for c in range(k)])))
    return k, sched, obs, gots, sent


def spec_holds(sent, gots, final_valid, final_data):
    offered = sent + ([final_data] if final_valid else [])
    for g in gots:
        if g != offered[:len(g)] or len(offered) - len(g) > 1:
            return False
    return True


def two_port_part(res, rnd, a):
    """a consumer with two inputs fed by two producers, reading one port right after the other (different ports need no spacing) and
    forwarding what it received: each forwarded stream must be its producer's sequence, every value once and in order; also with
    opcode delays (stalls) on the I/O instructions"""
    viol, reqs, metas = [], [], []
    for k in range(4 if a.tier == "quick" else 30):
        rsize = rnd.choice([8, 16])
        va = [rnd.randrange(1, 100) for _ in range(rnd.randint(3, 5))]
        vb = [rnd.randrange(100, 200) for _ in range(len(va))]

        def producer(vals):
            prog = []
            for v in vals:
                prog += ["rset r0 %d" % v, "r2owa r0 o0"] + ["nop"] * rnd.randint(2, 4)
            prog.append("j %d" % len(prog))
            return {"arch": {"R": 1, "N": 0, "M": 1, "L": 0, "O": 6, "ops": ["rset", "r2owa", "nop", "j"], "mode": "ha", "rsize": rsize}, "prog": prog}
        ra, rb = rnd.sample(range(4), 2)
        cons = ["i2rw r%d i0" % ra, "i2rw r%d i1" % rb, "r2owa r%d o0" % ra] + ["nop"] * rnd.randint(2, 3) + ["r2owa r%d o1" % rb] + ["nop"] * rnd.randint(2, 3) + ["j 0"]
        procs = [producer(va), producer(vb),
                 {"arch": {"R": 2, "N": 2, "M": 2, "L": 0, "O": 5, "ops": ["i2rw", "r2owa", "nop", "j"], "mode": "ha", "rsize": rsize}, "prog": cons}]
        spec = {"rsize": rsize, "procs": procs, "inputs": 0, "outputs": 2,
                "bonds": [["p2i0", "p0o0"], ["p2i1", "p1o0"], ["o0", "p2o0"], ["o1", "p2o1"]]}
        ticks = 40 * len(va) + 60
        req = {"bm": spec, "ticks": ticks, "env": [{"in": [], "outrecv": [-1, -1]}] * ticks, "dump": "ext"}
        if k % 2 == 1:
            req["delays"] = {"i2rw": {str(rnd.choice([1, 2, 3, 7])): 1.0}, "r2owa": {str(rnd.choice([1, 2, 6, 9])): 1.0}}
        reqs.append(req)
        metas.append({"machine": spec, "a": va, "b": vb, "delays": req.get("delays")})
    # a producer whose r2owa is stalled by an opcode delay and a consumer that is back at its i2rw long before: no value twice
    for k in range(2 if a.tier == "quick" else 12):
        rsize = rnd.choice([8, 16])
        vals = [rnd.randrange(1, 200) for _ in range(4)]
        prog = []
        for v in vals:
            prog += ["rset r0 %d" % v, "r2owa r0 o0", "nop", "nop", "nop"]
        prog.append("j %d" % len(prog))
        procs = [{"arch": {"R": 1, "N": 0, "M": 1, "L": 0, "O": 5, "ops": ["rset", "r2owa", "nop", "j"], "mode": "ha", "rsize": rsize}, "prog": prog},
                 {"arch": {"R": 1, "N": 1, "M": 2, "L": 0, "O": 3, "ops": ["i2rw", "r2o", "inc", "j"], "mode": "ha", "rsize": rsize},
                  "prog": ["i2rw r0 i0", "inc r1", "r2o r0 o0", "r2o r1 o1", "j 0"]}]     # o1 counts the receptions
        spec = {"rsize": rsize, "procs": procs, "inputs": 0, "outputs": 2, "bonds": [["p1i0", "p0o0"], ["o0", "p1o0"], ["o1", "p1o1"]]}
        ticks = 300
        dl = {"r2owa": {str(rnd.choice([6, 9, 12])): 1.0}}
        reqs.append({"bm": spec, "ticks": ticks, "env": [{"in": [], "outrecv": [-1, -1]}] * ticks, "dump": "ext", "delays": dl})
        metas.append({"machine": spec, "one": vals, "delays": dl})
    # a producer without inputs and with three outputs, each read by its own consumer (the output index of r2owa has more bits than
    # the processor has input-index bits)
    for k in range(2 if a.tier == "quick" else 12):
        rsize = rnd.choice([8, 16])
        seqs = [[rnd.randrange(1 + 60 * o, 60 * (o + 1)) for _ in range(3)] for o in range(3)]
        prog = []
        for j in range(3):
            for o in range(3):
                prog += ["rset r0 %d" % seqs[o][j], "r2owa r0 o%d" % o] + ["nop"] * rnd.randint(2, 3)
        prog.append("j %d" % len(prog))
        procs = [{"arch": {"R": 1, "N": 0, "M": 3, "L": 0, "O": 7, "ops": ["rset", "r2owa", "nop", "j"], "mode": "ha", "rsize": rsize}, "prog": prog}]
        for o in range(3):
            procs.append({"arch": {"R": 1, "N": 1, "M": 1, "L": 0, "O": 4, "ops": ["i2rw", "r2owa", "nop", "j"], "mode": "ha", "rsize": rsize},
                          "prog": ["i2rw r0 i0", "nop", "nop", "r2owa r0 o0", "nop", "nop", "j 0"]})
        spec = {"rsize": rsize, "procs": procs, "inputs": 0, "outputs": 3,
                "bonds": [["p%di0" % (o + 1), "p0o%d" % o] for o in range(3)] + [["o%d" % o, "p%do0" % (o + 1)] for o in range(3)]}
        ticks = 400
        reqs.append({"bm": spec, "ticks": ticks, "env": [{"in": [], "outrecv": [-1, -1, -1]}] * ticks, "dump": "ext"})
        metas.append({"machine": spec, "three": seqs, "delays": None})
    for req, meta, r in zip(reqs, metas, simlib.run_sims(reqs)):
        res.count_case(meta, nontrivial=True)
        if r.get("err"):
            viol.append(("a multi-port machine cannot be simulated: %s" % r["err"], {"request": req, "meta": meta}))
            continue
        if "one" in meta:
            seq = []
            for t in r["ticks"]:
                if t["out"][0] and (not seq or seq[-1] != t["out"][0]):
                    seq.append(t["out"][0])
            count = r["ticks"][-1]["out"][1]
            want1 = [v for i_, v in enumerate(meta["one"]) if i_ == 0 or v != meta["one"][i_ - 1]]
            if count != len(meta["one"]) or seq != want1:
                viol.append(("a producer stalled by opcode delays %s writes the %d values %s; its consumer counts %d receptions and shows %s"
                             % (meta["delays"], len(meta["one"]), meta["one"], count, seq), {"request": req, "meta": meta}))
            continue
        if "three" in meta:
            outs3 = [[], [], []]
            prev3 = [False] * 3
            for t in r["ticks"]:
                for o in range(3):
                    if t["outv"][o] and not prev3[o]:
                        outs3[o].append(t["out"][o])
                    prev3[o] = t["outv"][o]
            if outs3 != meta["three"]:
                viol.append(("a producer writes %s to its three outputs; their consumers forward %s" % (meta["three"], outs3), {"request": req, "meta": meta}))
            continue
        outs = [[], []]
        prev = [False, False]
        for t in r["ticks"]:
            for o in range(2):
                if t["outv"][o] and not prev[o]:
                    outs[o].append(t["out"][o])
                prev[o] = t["outv"][o]
        if outs != [meta["a"], meta["b"]]:
            viol.append(("two producers send %s and %s; the two-port consumer forwards %s and %s%s" % (
                meta["a"], meta["b"], outs[0], outs[1], " (opcode delays %s)" % meta["delays"] if meta["delays"] else ""), {"request": req, "meta": meta}))
    return viol, len(reqs)


def multi_output_part(res, rnd, a):
    """a producer that writes the same value to two or three outputs back to back, each read by a consumer of its own speed (a fast
    processor, a much slower processor, the environment): in the simulator and in the generated hardware every consumer must deliver exactly
    the produced sequence, every value once and in order"""
    import c02
    viol = []
    cases = []
    for k in (2, 3, 2, 3)[:2 if a.tier == "quick" else 4]:
        cases.append(c02.directed_two_outputs(rnd, k, True))
        cases.append(c02.directed_two_outputs(rnd, k, False))
    go = simlib.run_sims([{"bm": spec, "env": [], "ticks": 600, "dump": "ext", "streams": st} for spec, st in cases])
    hdl = c02.hdl_streams(cases, "C04m")
    for (spec, st), g, (hs, herr) in zip(cases, go, hdl):
        mask = (1 << spec["rsize"]) - 1
        want = [list(st[0]) if o % 2 == 0 else [(v + 1) & mask for v in st[0]] for o in range(spec["outputs"])]
        meta = {"machine": spec, "streams": st}
        res.count_case(meta, nontrivial=True)
        if g.get("err"):
            viol.append(("the machine cannot be simulated: %s" % g["err"], meta))
            continue
        gs = c02.go_streams(g["ticks"], spec["outputs"])
        if gs != want:
            viol.append(("a producer writes %s to %d outputs back to back; in the simulator the consumers deliver %s" % (st[0], spec["outputs"], gs), meta))
            continue
        if herr:
            viol.append((herr, meta))
            continue
        if [list(x) for x in hs] != want:
            viol.append(("a producer writes %s to %d outputs back to back; in the generated hardware the consumers deliver %s (expected %s)"
                         % (st[0], spec["outputs"], [list(x) for x in hs], want), meta))
    # one processor reading an input of the machine twice in a row (the environment is as fast as the protocol allows) and forwarding the
    # two values to two outputs: 1 2 3 4 5 6 must arrive as 1 3 5 and 2 4 6, in the simulator and in the hardware
    ext = []
    for rsize in (8, 16)[:1 if a.tier == "quick" else 2]:
        pad = ["nop"] * 3
        prog = ["i2rw r0 i0", "i2rw r1 i0", "r2owa r0 o0"] + pad + ["r2owa r1 o1"] + pad + ["j 0"]
        ops = sorted(set(l.split()[0] for l in prog) | {"nop", "j"})
        spec = {"rsize": rsize, "procs": [{"arch": {"R": 2, "N": 1, "M": 2, "L": 0, "O": 5, "ops": ops, "mode": "ha", "rsize": rsize}, "prog": prog}],
                "inputs": 1, "outputs": 2, "bonds": [["p0i0", "i0"], ["o0", "p0o0"], ["o1", "p0o1"]]}
        ext.append((spec, [[rnd.randrange(1, 200) for _ in range(6)]]))
    go = simlib.run_sims([{"bm": spec, "env": [], "ticks": 400, "dump": "ext", "streams": st} for spec, st in ext])
    hdl = c02.hdl_streams(ext, "C04e")
    for (spec, st), g, (hs, herr) in zip(ext, go, hdl):
        want = [st[0][0::2], st[0][1::2]]
        meta = {"machine": spec, "streams": st}
        res.count_case(meta, nontrivial=True)
        gs = None if g.get("err") else c02.go_streams(g["ticks"], 2)
        if gs != want:
            viol.append(("the environment offers %s on an input read twice in a row; the simulated processor forwards %s (expected %s)"
                         % (st[0], gs if gs is not None else g.get("err"), want), meta))
        elif herr or [list(x) for x in hs] != want:
            viol.append(("the environment offers %s on an input read twice in a row; the generated hardware forwards %s (expected %s)"
                         % (st[0], herr or [list(x) for x in hs], want), meta))
    return viol, len(cases) + len(ext)


def run(res, a):
    failed = C.proof_part(res, "C04", trusted=[
        "Net/Handshake.v: hand-written automata of the two protocols; SimSys is tied to the Go simulator by following the observed "
        "schedule tick by tick (flags and captured streams compared); HdlSys is tied to the emitted Verilog through Vlog.Sem",
        "the schedule hypotheses s_ok / h_ok are part of the theorem statements (finding F2)"])
    C.build_harness()
    rnd = random.Random(a.seed)
    n = 60 if a.tier == "quick" else 800
    cases = [gen_case(rnd, a.tier) for _ in range(n)]
    if a.replay:
        rp = json.load(open(a.replay))["replay"]
        cases = [(rp["request"], rp.get("meta", {}))]
    out = simlib.run_sims([q for q, _ in cases])
    known = {k["key"] for k in C.known_findings("C04")}
    viol, rows, metas = [], [], []
    styles = {}
    for (q, meta), r in zip(cases, out):
        if r.get("err"):
            raise C.Broken("simulator failed on a C04 machine: " + r["err"])
        k, sched, obs, gots, sent = observe(q, r)
        last = r["ticks"][-1]["procs"][0]
        ok = spec_holds(sent, gots, last["outv"][0], last["out"][0])
        styles[meta.get("style", "?")] = styles.get(meta.get("style", "?"), 0) + 1
        res.count_case({"q": q["bm"]}, nontrivial=len(sent) >= 2)
        rows.append("(%d, %s, %s)" % (k, C.cq_list(sched), C.cq_list(obs)))
        metas.append((q, meta, ok, gots, sent))
    shards = [list(range(i, min(i + 40, len(rows)))) for i in range(0, len(rows), 40)]
    bodies = ["From Coq Require Import List NArith Bool.\nFrom BM Require Import Net.Handshake Net.HandshakeCheck.\nImport ListNotations.\n"
              "Definition cases : list (nat * list (pact * list cact) * list sobs) := %s.\n"
              "Definition M := Eval vm_compute in map (fun c => match c with (k, sched, obs) => "
              "match s_follow 0 (s_init k) sched obs None None with (m, nk, sp) => "
              "(match m with Some x => [N.of_nat x] | None => [] end, match nk with Some x => [N.of_nat x] | None => [] end, sp) end end) cases.\n"
              % C.cq_list(["\n" + rows[i] for i in g]) for g in shards]
    mism = []
    nok = 0
    for g, o in zip(shards, C.eval_cases_parallel("C04", bodies, timeout=3000)):
        for i, (m, notok, sp) in zip(g, o["M"]):
            q, meta, ok, gots, sent = metas[i]
            if m:
                mism.append((i, m[0]))
            if notok:
                nok += 1
            if not ok:
                text = "consumers received %s but the producer got past %s (fan-out %d, %s padding)" % (gots, sent, meta.get("k"), meta.get("style"))
                if notok and (not m or m[0] >= notok[0]) and "c04_not_well_spaced_sim" in known:
                    res.known_finding("c04_not_well_spaced_sim schedule leaves the hypotheses at tick %d: %s" % (notok[0], text))
                else:
                    viol.append((text, {"request": q, "meta": meta}))
            elif not sp and not m:
                # Go trace satisfies the property but the automaton (same schedule) does not: cannot happen when they agree
                mism.append((i, -1))
    # ---------------- hardware half: the emitted Verilog under Vlog.Sem
    nh = 10 if a.tier == "quick" else 120
    hcases = cases[:nh]
    prep = [hdl_rows(q, q["ticks"]) for q, _ in hcases]
    outs = C.eval_cases_parallel("C04h", [vsim.sim_body(em, term, ins, obs) for em, term, ins, obs, _ in prep], timeout=3000)
    hrows, hmetas = [], []
    for (q, meta), (em, term, ins, obs, layout), o in zip(hcases, prep, outs):
        rows_ = vsim.check_rows(o["M"])
        k, sched, hobs, gots, sent = hdl_observe(q, rows_, layout)
        ok = all(g == sent[:len(g)] or g == (sent + [rows_[-1][0]])[:len(g)] for g in gots)   # refined below by the Coq spec
        hrows.append("(%d, %s, %s)" % (k, C.cq_list(sched), C.cq_list(hobs)))
        hmetas.append((q, meta, gots, sent))
    hbody = ("From Coq Require Import List NArith Bool.\nFrom BM Require Import Net.Handshake Net.HandshakeCheck.\nImport ListNotations.\n"
             "Definition cases : list (nat * list (pact * list cact) * list hobs) := %s.\n"
             "Definition M := Eval vm_compute in map (fun c => match c with (k, sched, obs) => "
             "match h_follow 0 (h_init k) sched obs None None with (m, nk, sp) => "
             "(match m with Some x => [N.of_nat x] | None => [] end, match nk with Some x => [N.of_nat x] | None => [] end, sp) end end) cases.\n"
             % C.cq_list(["\n" + r for r in hrows]))
    hmism, hnok = [], 0
    for i, (m, notok, sp) in enumerate(C.eval_cases("C04h", "follow", hbody, timeout=3000)["M"]):
        q, meta, gots, sent = hmetas[i]
        if m:
            hmism.append((i, m[0]))
        if notok:
            hnok += 1
        if not sp:      # the automaton follows the circuit exactly, so its verdict is the circuit's
            text = "in the generated hardware consumers received %s while the producer got past %s (fan-out %d, %s padding)" % (
                gots, sent, meta.get("k"), meta.get("style"))
            if notok and (not m or m[0] >= notok[0]) and "c04_not_well_spaced_hdl" in known:
                res.known_finding("c04_not_well_spaced_hdl schedule leaves the hypotheses at clock %d: %s" % (notok[0], text))
            else:
                viol.append((text, {"request": q, "meta": meta}))
    tp_viol, tp_n = two_port_part(res, rnd, a)
    viol += tp_viol
    mo_viol, mo_n = multi_output_part(res, rnd, a)
    viol += mo_viol
    res.coverage["multi_output_producer_machines"] = mo_n
    cov = res.coverage
    cov["two_port_consumer_machines"] = tp_n
    cov["hdl_machines_interpreted"] = len(hcases)
    cov["hdl_schedules_outside_the_hypotheses"] = hnok
    cov["hdl_automaton_mismatches"] = len(hmism)
    cov["rule"] = ("machines with one producer and 1-3 consumers on one bond; 2-5 distinct values; explicit numbers of non-IO instructions "
                   "between IO instructions (0 = back to back); styles wide (>=2 everywhere, equal consumer speed for fan-out), tight (0-1), mixed; "
                   "the schedule of IO/non-IO actions is read off the Go trace and fed to the Coq automaton, whose flags and captured streams "
                   "are compared after every tick; the specification is evaluated on the observed streams; non-trivial = at least two values "
                   "passed; distinct by hash")
    cov["padding_styles"] = styles
    cov["schedules_outside_the_hypotheses"] = nok
    cov["traces_validated_against_impl"] = len(rows) - len(mism)
    cov["samples"] = [{"machine": cases[0][0]["bm"], "meta": cases[0][1]}]
    for text, rp in viol[:3]:
        res.violation("C04 " + ("" if "hardware" in text else "(simulator) ") + text, rp)
    if not viol:
        for i, t in hmism[:2]:
            res.violation("C04 hardware handshake automaton and emitted Verilog (under Vlog.Sem) disagree at clock %d" % t,
                          {"request": hmetas[i][0], "meta": hmetas[i][1]}, nofail=True)
        for i, t in mism[:2]:
            res.violation("C04 handshake automaton and simulator disagree at tick %d" % t, {"request": metas[i][0], "meta": metas[i][1]}, nofail=True)
    if failed and not viol and not mism and not hmism:
        res.violation("C04 proof obligation no longer checks: %s" % failed, {"obligation": failed}, nofail=True)
    return res.finish("proof")
