"""AST-based generator for the control-flow subset (replaces the text generator of lib/c12.py): one tree, rendered as Go source
and as a term of Front/BondgoCF.v, whose evaluation in Coq is the reference meaning."""


def gen_cf_ast(rnd):
    nv = rnd.randint(1, 3)
    nouts = rnd.randint(1, 2)
    rsize = rnd.choice([8, 16])

    def expr():
        k = rnd.randrange(6)
        a = rnd.randrange(nv)
        if k < 2:
            return ("var", a)
        if k < 3:
            return ("const", rnd.choice([0, 1, 2, 5, 9]))
        b = rnd.randrange(nv)
        if k < 5:
            return ("add", a, b)
        return ("mulc", a, rnd.choice([2, 3]))

    funcs = []
    for fi in range(rnd.choice([0, 1, 1, 2])):
        ar = rnd.choice([1, 1, 2])

        def fe():
            a_ = rnd.randrange(ar)
            c = rnd.choice([1, 2, 7])
            k_ = rnd.randrange(3)
            if k_ == 0:
                return ("addc", a_, c)
            if k_ == 1:
                return ("mulc", a_, c)
            return ("addp", a_, rnd.randrange(ar))
        shape = rnd.randrange(3)
        e1, e2 = fe(), fe()
        if shape == 0:
            funcs.append({"arity": ar, "body": ("plain", e1)})
        else:
            cond = rnd.random() < 0.5
            extra = rnd.randrange(ar) if shape == 2 else None
            funcs.append({"arity": ar, "body": ("if", cond, e1, e2, extra)})

    def simple():
        k = rnd.randrange(10)
        if funcs and rnd.random() < 0.3:
            f = rnd.randrange(len(funcs))
            return ("call", rnd.randrange(nv), f, [expr() for _ in range(funcs[f]["arity"])])
        if k < 5:
            e = expr()
            return ("write", rnd.randrange(nouts), e)
        if k < 7:
            a = rnd.randrange(nv)
            return ("assign", a, expr())
        a = rnd.randrange(nv)
        return ("inc", a) if rnd.random() < 0.5 else ("dec", a)

    def loop(depth):
        a = rnd.randrange(nv)
        init = rnd.choice([0, 1, 3])
        form = rnd.randrange(3)
        body = []
        if rnd.random() < 0.7:
            body.append(("write", rnd.randrange(nouts), ("var", a)))
        for k in range(rnd.randint(2, 5)):
            c = rnd.randrange(10)
            if c < 5:
                body.append(simple())
            elif c < 7:
                kind = rnd.choice(["continue", "continue", "continue", "break", "write", "write"])
                cond = rnd.random() < (0.7 if kind == "continue" else 0.5)      # a continue that is taken exercises the post statement
                th = [simple()]
                if kind != "write":
                    th.append((kind,))
                el = [simple()] if rnd.random() < 0.3 else None
                body.append(("if", cond, th, el))
            elif depth < 1 and c < 8:
                body.append(loop(depth + 1))
            else:
                body.append(simple())
        if form == 0:
            return ("for", None, None, body)
        return ("for", (a, init), (a, form == 1), body)

    main = [simple() for _ in range(rnd.randint(0, 2))] + [loop(0)] + [simple() for _ in range(rnd.randint(0, 2))]
    # a program whose main returns has no defined continuation on the machine: every generated program ends in an idle loop
    main.append(("for", None, None, []))
    return {"nv": nv, "nouts": nouts, "rsize": rsize, "funcs": funcs, "main": main}


def go_expr(e):
    if e[0] == "var":
        return "reg_v%d" % e[1]
    if e[0] == "const":
        return str(e[1])
    if e[0] == "add":
        return "reg_v%d + reg_v%d" % (e[1], e[2])
    return "reg_v%d * %d" % (e[1], e[2])


def go_fexpr(e):
    if e[0] == "addc":
        return "reg_p%d + %d" % (e[1], e[2])
    if e[0] == "mulc":
        return "reg_p%d * %d" % (e[1], e[2])
    return "reg_p%d + reg_p%d" % (e[1], e[2])


def go_stmts(ss, ind, out):
    for s in ss:
        k = s[0]
        if k == "write":
            out.append(ind + "bondgo.IOWrite(out%d, %s)" % (s[1], go_expr(s[2])))
        elif k == "assign":
            out.append(ind + "reg_v%d = %s" % (s[1], go_expr(s[2])))
        elif k == "call":
            out.append(ind + "reg_v%d = fn%d(%s)" % (s[1], s[2], ", ".join(go_expr(x) for x in s[3])))
        elif k == "inc":
            out.append(ind + "reg_v%d++" % s[1])
        elif k == "dec":
            out.append(ind + "reg_v%d--" % s[1])
        elif k == "if":
            out.append(ind + "if %s {" % ("true" if s[1] else "false"))
            go_stmts(s[2], ind + "\t", out)
            if s[3] is not None:
                out.append(ind + "} else {")
                go_stmts(s[3], ind + "\t", out)
            out.append(ind + "}")
        elif k in ("break", "continue"):
            out.append(ind + k)
        elif k == "for":
            if s[1] is None:
                out.append(ind + "for {")
            else:
                out.append(ind + "for reg_v%d = %d; ; reg_v%d%s {" % (s[1][0], s[1][1], s[2][0], "++" if s[2][1] else "--"))
            go_stmts(s[3], ind + "\t", out)
            out.append(ind + "}")


def render_go(p):
    ty = "uint%d" % p["rsize"]
    lines = ["package main", "", "import (", "\t\"bondgo\"", ")", ""]
    for fi, f in enumerate(p["funcs"]):
        lines.append("func fn%d(%s) %s {" % (fi, ", ".join("reg_p%d %s" % (j, ty) for j in range(f["arity"])), ty))
        lines.append("\tvar reg_r %s" % ty)
        b = f["body"]
        if b[0] == "plain":
            lines.append("\treg_r = %s" % go_fexpr(b[1]))
        else:
            lines += ["\tif %s {" % ("true" if b[1] else "false"), "\t\treg_r = %s" % go_fexpr(b[2]), "\t} else {", "\t\treg_r = %s" % go_fexpr(b[3]), "\t}"]
            if b[4] is not None:
                lines.append("\treg_r = reg_r + reg_p%d" % b[4])
        lines += ["\treturn reg_r", "}", ""]
    lines.append("func main() {")
    lines += ["\tvar out%d bondgo.Output" % o for o in range(p["nouts"])] + ["\tvar reg_v%d %s" % (i, ty) for i in range(p["nv"])]
    lines += ["\tout%d = bondgo.Make(bondgo.Output, %d)" % (o, o + 3) for o in range(p["nouts"])]
    go_stmts(p["main"], "\t", lines)
    lines += ["}", ""]
    return "\n".join(lines)


def cq_list(xs):
    return "[" + "; ".join(xs) + "]"


def coq_expr(e):
    if e[0] == "var":
        return "(EVar %d)" % e[1]
    if e[0] == "const":
        return "(EConst %d%%N)" % e[1]
    if e[0] == "add":
        return "(EAdd %d %d)" % (e[1], e[2])
    return "(EMulC %d %d%%N)" % (e[1], e[2])


def coq_fexpr(e):
    return "(%s %d %s)" % ({"addc": "FAddC", "mulc": "FMulC", "addp": "FAddP"}[e[0]], e[1], ("%d%%N" % e[2]) if e[0] != "addp" else str(e[2]))


def coq_stmts(ss):
    out = []
    for s in ss:
        k = s[0]
        if k == "write":
            out.append("SWrite %d %s" % (s[1], coq_expr(s[2])))
        elif k == "assign":
            out.append("SAssign %d %s" % (s[1], coq_expr(s[2])))
        elif k == "call":
            out.append("SCall %d %d %s" % (s[1], s[2], cq_list([coq_expr(x) for x in s[3]])))
        elif k == "inc":
            out.append("SInc %d" % s[1])
        elif k == "dec":
            out.append("SDec %d" % s[1])
        elif k == "if":
            out.append("SIf %s %s %s" % ("true" if s[1] else "false", coq_stmts(s[2]), coq_stmts(s[3] or [])))
        elif k == "break":
            out.append("SBreak")
        elif k == "continue":
            out.append("SContinue")
        elif k == "for":
            init = "None" if s[1] is None else "(Some (%d, %d%%N))" % (s[1][0], s[1][1])
            post = "None" if s[2] is None else "(Some (%d, %s))" % (s[2][0], "true" if s[2][1] else "false")
            out.append("SFor %s %s %s" % (init, post, coq_stmts(s[3])))
    return cq_list(out)


def render_coq(p):
    funs = []
    for f in p["funcs"]:
        b = f["body"]
        if b[0] == "plain":
            funs.append("FPlain %s" % coq_fexpr(b[1]))
        else:
            funs.append("FIf %s %s %s %s" % ("true" if b[1] else "false", coq_fexpr(b[2]), coq_fexpr(b[3]), "None" if b[4] is None else "(Some %d)" % b[4]))
    return "program_writes (2 ^ %d)%%N %s 60 2500 %d %s" % (p["rsize"], cq_list(funs), p["nv"], coq_stmts(p["main"]))
