"""C01 — generated processor HDL executes programs exactly as the ISA simulator does."""
import json
import random

import common as C
import simlib
import vsim

import os
import sys
sys.path.insert(0, os.path.join(C.VERIF, "translators"))
import layout as LT  # noqa: E402

TWO = ["add", "sub", "mult", "cpy", "and", "or", "xor", "not", "nand", "nor", "xnor"]
ONE = ["clr", "inc", "dec"]
# second tier: opcodes both back-ends implement whose operands are generated from the layout table.
# Not compared: clc cset jcmpl ro2r saj (Simulate is a stub), div mod (a zero divisor panics the simulator and is
# undefined in hardware), float / pipelined / shared-object / handshaking opcodes (C04, C02), RAM opcodes (see DESIGN.md)
# The carry- and compare-flag families (adc sbc mulc incc cilc rsc clc cset jc jo cmpr cmprlt jcmp*) are not compared either: the
# simulator keeps no flags at all, so these opcodes are only half implemented there; ro2rri reads ROM data the simulator does not load.
# addi, incc, mod keep the 8/16-bit-only stub pattern.
EXT = ["cil", "cir", "cirn", "je", "jri", "jrio", "dpc"]
_LAYOUTS = {}


def layouts():
    if not _LAYOUTS:
        for l in LT.translate(C.REPO)[0]:
            _LAYOUTS[l["name"]] = l
    return _LAYOUTS


def ext_line(rnd, op, nreg, n):
    args = []
    for kind, width in layouts()[op]["fields"]:
        if kind == "KReg":
            args.append("r%d" % rnd.randrange(nreg))
        elif kind == "KNum":
            args.append(str(rnd.randrange(n) if "AO" in str(width) or "AMaxOL" in str(width) else rnd.choice([0, 1, 2, 3, 5])))
        else:
            return None
    return " ".join([op] + args)


def gen_case(rnd, tier):
    rsize = rnd.choice([8, 8, 16, 32] + ([64] if tier == "thorough" else []))
    R = rnd.choice([1, 2, 3])
    N, M = rnd.choice([0, 1, 2, 3, 4]), rnd.choice([0, 1, 2, 3, 4])
    nreg = 1 << R
    n = rnd.randint(3, 14)
    # the ROM address width is a parameter of the architecture, not of the program: in a third of the machines it is wider than the
    # program needs, so that jumps (R+O bits) and not rset (R+rsize bits) decide the word width and the other opcodes carry padding
    O = max(2, (n + 3).bit_length()) + rnd.choice([0, 0, 0, 0, 2, 5, 8])
    prog = []
    tier_ext = rnd.random() < 0.5
    for k in range(n):
        r1, r2 = rnd.randrange(nreg), rnd.randrange(nreg)
        c = rnd.randrange(100)
        if c < 12 and tier_ext:
            op = rnd.choice([o for o in EXT if o in layouts()])
            line = ext_line(rnd, op, nreg, n) or "nop"
            if op in ("jri", "jrio"):
                # a register jump is compared only for targets inside the program (the hardware truncates the register to O bits, the
                # simulator falls through on an out-of-range value)
                prog.append("rset %s %d" % (line.split()[1], rnd.randrange(n)))
            prog.append(line)
        elif c < 40:
            prog.append("%s r%d r%d" % (rnd.choice(TWO), r1, r2))
        elif c < 52:
            prog.append("%s r%d" % (rnd.choice(ONE), r1))
        elif c < 66:
            prog.append("rset r%d %d" % (r1, rnd.choice([0, 1, 2, 3, 127, 128, 255, rnd.randrange(256)])))
        elif c < 74 and N:
            prog.append("i2r r%d i%d" % (r1, rnd.randrange(N)))
        elif c < 84 and M:
            prog.append("r2o r%d o%d" % (r1, rnd.randrange(M)))
        elif c < 91:
            prog.append("jz r%d %d" % (r1, rnd.randrange(n)))
        elif c < 95:
            prog.append("j %d" % rnd.randrange(n))
        else:
            prog.append("nop")
    prog = prog[:1 << O] if len(prog) <= (1 << O) else prog[:1 << O]
    ops = sorted(set(l.split()[0] for l in prog) | set(rnd.sample(TWO + ONE + ["rset", "j", "jz", "nop"], rnd.randint(0, 4))) | {"nop", "j"})
    if N:
        ops = sorted(set(ops) | {"i2r"})
    if M:
        ops = sorted(set(ops) | {"r2o"})
    spec = {"rsize": rsize, "procs": [{"arch": {"R": R, "N": N, "M": M, "L": 0, "O": O, "ops": ops, "mode": "ha", "rsize": rsize}, "prog": prog}],
            "inputs": N, "outputs": M, "bonds": [["p0i%d" % i, "i%d" % i] for i in range(N)] + [["o%d" % i, "p0o%d" % i] for i in range(M)]}
    ins = [rnd.randrange(1 << min(rsize, 16)) for _ in range(N)]
    return spec, ins


def directed_cases(tier):
    """every two- and one-operand opcode on every register size with asymmetric operands (9 and 5, then 200 and 77)"""
    out = []
    groups = [TWO[0:4], TWO[4:8], TWO[8:], ONE]
    for rsize in [8, 16, 32] + ([64] if tier == "thorough" else []):
        for gi, grp in enumerate(groups):
            prog = []
            for op in grp:
                a, b = ((9, 5) if (gi + len(prog)) % 2 == 0 else (200, 77))
                if op in ONE:
                    prog += ["rset r1 %d" % a, "%s r1" % op, "rset r2 0", "%s r2" % op]
                else:
                    prog += ["rset r2 %d" % a, "rset r3 %d" % b, "%s r2 r3" % op]
            prog.append("j %d" % len(prog))
            ops = sorted(set(l.split()[0] for l in prog) | {"nop", "j"})
            spec = {"rsize": rsize, "procs": [{"arch": {"R": 2, "N": 0, "M": 0, "L": 0, "O": 5, "ops": ops, "mode": "ha", "rsize": rsize}, "prog": prog}],
                    "inputs": 0, "outputs": 0, "bonds": []}
            out.append((spec, []))
    # two registers only (R = 1: register fields of one bit): every two-operand opcode in both directions
    for rsize in (8, 16):
        for grp in (TWO[0:6], TWO[6:]):
            prog = []
            for op in grp:
                prog += ["rset r0 9", "rset r1 5", "%s r1 r0" % op, "rset r0 200", "rset r1 77", "%s r0 r1" % op]
            prog.append("j %d" % len(prog))
            ops = sorted(set(l.split()[0] for l in prog) | {"nop", "j"})
            spec = {"rsize": rsize, "procs": [{"arch": {"R": 1, "N": 0, "M": 0, "L": 0, "O": 6, "ops": ops, "mode": "ha", "rsize": rsize}, "prog": prog}],
                    "inputs": 0, "outputs": 0, "bonds": []}
            out.append((spec, []))
    # word width decided by the jumps (O > register size): immediates and register fields of the other opcodes sit above padding;
    # forward and backward jumps to the first, a middle and the last instruction
    for O in (10, 12):
        prog = ["rset r1 90", "rset r2 0", "jz r2 5", "rset r1 1", "inc r1", "inc r1", "cpy r3 r1", "dec r3", "jz r0 10", "rset r3 7", "add r3 r1", "j 13", "rset r3 9", "j 13"]
        ops = sorted(set(l.split()[0] for l in prog) | {"nop", "j"})
        spec = {"rsize": 8, "procs": [{"arch": {"R": 2, "N": 0, "M": 0, "L": 0, "O": O, "ops": ops, "mode": "ha", "rsize": 8}, "prog": prog}],
                "inputs": 0, "outputs": 0, "bonds": []}
        out.append((spec, []))
    return out


def retire_points(seq, nprog):
    """retire trace of a raw per-tick / per-clock sequence: cut where the program counter leaves the program (the leaving itself is kept
    as a marker state), consecutive duplicates removed; also returns for how many raw rows the last state was held"""
    out, held = [], 0
    for s in seq:
        if s[0] >= nprog:
            s = ("left",) + tuple(s[1:])
        if out and out[-1] == s:
            held += 1
        else:
            out.append(s)
            held = 1
        if s[0] == "left":
            break
    return out, held


def first_difference(gseq, hseq, nprog):
    """index and the two states of the first differing retire point; a side that sits in one state for the rest of its run (at least 12 raw
    rows) while the other side goes on to a different state differs from it at that point"""
    (gd, gheld), (hd, hheld) = retire_points(gseq, nprog), retire_points(hseq, nprog)
    m = min(len(gd), len(hd))
    for k in range(m):
        if gd[k] != hd[k]:
            return k, gd[k], hd[k], m
    if len(gd) > m and hd and hd[-1][0] != "left" and hheld >= 12:
        return m, gd[m], hd[-1], m
    if len(hd) > m and gd and gd[-1][0] != "left" and gheld >= 12:
        return m, gd[-1], hd[m], m
    return None, None, None, m


def dedupe(seq):
    out = []
    for s in seq:
        if not out or out[-1] != s:
            out.append(s)
    return out


def go_trace(spec, ins, ticks):
    env = [{"in": [[v, 1] for v in ins], "outrecv": [-1] * spec["outputs"]}] * ticks
    return {"bm": spec, "env": env, "ticks": ticks}


def gen_basm(rnd):
    """one processor assembled from BASM (so that the requirement tree exists), constant inputs"""
    rsize = rnd.choice([8, 16])
    nreg = rnd.choice([2, 3, 4])
    lines = ["%section code .romtext iomode:async", "  entry _start", "_start:"]
    n = rnd.randint(4, 10)
    for k in range(n):
        r1, r2 = rnd.randrange(nreg), rnd.randrange(nreg)
        c = rnd.randrange(10)
        if c < 3:
            lines.append("  mov r%d, %d" % (r1, rnd.choice([1, 2, 3, 7, 100])))
        elif c < 5:
            lines.append("  rset r%d, %d" % (r1, rnd.choice([1, 2, 3, 7, 100])))
        elif c < 7:
            lines.append("  %s r%d, r%d" % (rnd.choice(["add", "sub", "mult", "cpy"]), r1, r2))
        elif c < 8:
            lines.append("  mov r%d, r%d" % (r1, r2))
        elif c < 9:
            lines.append("  %s r%d" % (rnd.choice(["inc", "dec", "clr"]), r1))
        else:
            lines.append("  mov r%d, i0" % r1)
    lines += ["  mov o0, r%d" % rnd.randrange(nreg), "  mov o0, r0", "  j _start", "%endsection", "%meta cpdef cpu romcode:code",
              "%meta iodef a type:io", "%meta ioatt a cp:bm, type:input, index:0", "%meta ioatt a cp:cpu, type:input, index:0",
              "%meta iodef b type:io", "%meta ioatt b cp:cpu, type:output, index:0", "%meta ioatt b cp:bm, type:output, index:0",
              "%%meta bmdef global registersize:%d" % rsize]
    if not any("i0" in l for l in lines[:n + 3]):
        lines.insert(3, "  mov r0, i0")
    return "\n".join(lines) + "\n", rsize


def directed_hwopt(rnd):
    """every opcode whose hardware is pruned by onlydestregs (rset, inc, dec, jz, and cpy/rset through mov) with a destination
    register of its own, so that an arm pruned with another opcode's register set shows"""
    regs = [0, 1, 2, 3]
    rnd.shuffle(regs)
    a_, b_, c_, d_ = regs
    lines = ["%section code .romtext iomode:async", "  entry _start", "_start:",
             "  mov r%d, i0" % d_, "  rset r%d, %d" % (a_, rnd.choice([5, 9, 100])), "  inc r%d" % b_, "  dec r%d" % c_, "  inc r%d" % b_,
             "  jz r%d, _skip" % d_, "  mov o0, r%d" % b_, "_skip:", "  mov o0, r%d" % c_, "  mov o0, r%d" % a_, "  add r%d, r%d" % (b_, a_),
             "  mov o0, r%d" % b_, "  j _start", "%endsection", "%meta cpdef cpu romcode:code",
             "%meta iodef a type:io", "%meta ioatt a cp:bm, type:input, index:0", "%meta ioatt a cp:cpu, type:input, index:0",
             "%meta iodef b type:io", "%meta ioatt b cp:cpu, type:output, index:0", "%meta ioatt b cp:bm, type:output, index:0",
             "%%meta bmdef global registersize:%d" % 8]
    return "\n".join(lines) + "\n", 8


def directed_romdata(rnd):
    """a program that reads words of its ROM data section (they lie behind the program in the ROM module)"""
    vals = [rnd.randrange(1, 250) for _ in range(3)]
    lines = ["%section code .romtext iomode:async", "  entry _start", "_start:", "  mov r3, i0",
             "  mov r1, rom:b", "  mov r0, rom:[r1]", "  mov o0, r0", "  mov r1, rom:c", "  mov r2, rom:[r1]", "  add r0, r2", "  mov o0, r0", "  j _start", "%endsection",
             "%section consts .romdata", "  a db %s" % hex(vals[0]), "  b db %s" % hex(vals[1]), "  c db %s" % hex(vals[2]), "%endsection",
             "%meta cpdef cpu romcode:code, romdata:consts",
             "%meta iodef a type:io", "%meta ioatt a cp:bm, type:input, index:0", "%meta ioatt a cp:cpu, type:input, index:0",
             "%meta iodef b type:io", "%meta ioatt b cp:cpu, type:output, index:0", "%meta ioatt b cp:bm, type:output, index:0",
             "%meta bmdef global registersize:8"]
    return "\n".join(lines) + "\n", 8


def hwopt_part(res, rnd, a):
    """enabling a hardware optimisation derived from the program never changes the behaviour: the same BASM source rendered
    plainly and with onlydestregs, both run under Vlog.Sem and compared with the simulator at retire points"""
    n = 6 if a.tier == "quick" else 60
    srcs = [directed_hwopt(rnd), directed_hwopt(rnd), directed_romdata(rnd)] + [gen_basm(rnd) for _ in range(n)]
    ticks = 40
    inval = [rnd.randrange(1, 200) for _ in srcs]
    go = simlib.run_sims([{"bm": {"basm": s, "nodyn": True}, "env": [{"in": [[v, 1]], "outrecv": [-1]}] * ticks, "ticks": ticks}
                          for (s, _), v in zip(srcs, inval)])
    viol = []
    prep = []
    for flags in ([], ["onlydestregs"]):
        vl = C.jsonl(C.sh([C.BMH, "vlog"], input="".join(json.dumps({"kind": "bm", "bm": {"basm": s, "nodyn": True}, "hwopt": flags}) + "\n"
                                                          for s, _ in srcs), timeout=1800).stdout)
        for (s, rsize), v, g, iv in zip(srcs, vl, go, inval):
            meta = {"source": s, "hwopt": flags, "input": iv}
            if g.get("err") or v.get("err"):
                viol.append(("the machine cannot be simulated or rendered (hardware optimisations %s): %s" % (flags, g.get("err") or v.get("err")), meta))
                continue
            try:
                em, term, flat = vsim.flat_design(v["files"], "bondmachine")
            except Exception as e:
                viol.append(("the generated Verilog does not parse (hardware optimisations %s): %s" % (flags, e), meta))
                continue
            nreg = 1 << g["procinfo"][0][1]
            pre = "a0_inst/p0_instance/"
            known_names = set(em.I.names)
            obs = [pre + "_pc"] + [pre + "_r%d" % i for i in range(nreg) if pre + "_r%d" % i in known_names] + ["o0"]
            row = {"clk": 0, "reset": 0, "i0": iv, "i0_valid": 1, "o0_received": 0}
            rst = dict(row)
            rst["reset"] = 1
            prep.append((em, term, [rst] * 2 + [row] * (3 * ticks), obs, meta, g, nreg))
    outs = C.eval_cases_parallel("C01h", [vsim.sim_body(em, term, rows, obs) for em, term, rows, obs, _, _, _ in prep], timeout=3000)
    done = 0
    for (em, term, rows, obs, meta, g, nreg), o in zip(prep, outs):
        res.count_case(meta, nontrivial=True)
        try:
            hrows = vsim.check_rows(o["M"])
        except vsim.VsimError as e:
            viol.append(("the generated Verilog cannot be executed (hardware optimisations %s): %s" % (meta["hwopt"], e), meta))
            continue
        prog = g["progs"][0]
        regnames = [x.split("/")[-1] for x in obs[1:-1]]        # registers the (possibly pruned) hardware still has
        ridx = [int(x[2:]) for x in regnames]
        gseq = [(0, tuple(0 for _ in ridx), (0,))] + [(t["procs"][0]["pc"], tuple(t["procs"][0]["regs"][i] for i in ridx), tuple(t["procs"][0]["out"]))
                                                       for t in g["ticks"]]
        hseq = [(r[0], tuple(r[1:1 + len(ridx)]), tuple(r[1 + len(ridx):2 + len(ridx)])) for r in hrows[1:]]
        k, gs, hs, m = first_difference(gseq, hseq, len(prog))
        done += 1
        if k is not None:
            gd = retire_points(gseq, len(prog))[0]
            prev_pc = gd[k - 1][0] if 0 < k <= len(gd) and gd[k - 1][0] != "left" else 0
            viol.append(("with hardware optimisations %s, after retiring '%s' the simulator has pc=%s regs=%s out=%s, the generated hardware pc=%s regs=%s out=%s"
                         % (meta["hwopt"] or "off", prog[prev_pc] if prev_pc < len(prog) else "?", gs[0], list(gs[1]), list(gs[2]),
                            hs[0], list(hs[1]), list(hs[2])), meta))
    return viol, done


def run(res, a):
    failed = C.proof_part(res, "C01", trusted=[
        "Vlog/Sem.v as the meaning of the emitted Verilog (cycle-based, trusted); lib/vparse.py + lib/vcoq.py front-end",
        "the comparison is between the real generated Verilog run under Vlog.Sem and the Go simulator, at instruction-retire points"])
    C.build_harness()
    rnd = random.Random(a.seed)
    n = 24 if a.tier == "quick" else 300
    cases = directed_cases(a.tier) + [gen_case(rnd, a.tier) for _ in range(n)]
    if a.replay:
        rp = json.load(open(a.replay))["replay"]
        cases = [(rp["machine"], rp["inputs"])]
    ticks = 40
    reqs = [go_trace(spec, ins, ticks) for spec, ins in cases]
    go = simlib.run_sims(reqs)
    vl = C.jsonl(C.sh([C.BMH, "vlog"], input="".join(json.dumps({"kind": "bm", "bm": spec}) + "\n" for spec, _ in cases), timeout=1800).stdout)
    known = {k["key"]: k for k in C.known_findings("C01")}
    viol = []
    prep = []
    for (spec, ins), g, v in zip(cases, go, vl):
        meta = {"machine": spec, "inputs": ins}
        res.count_case(meta, nontrivial=True)
        if g.get("err") or v.get("err"):
            viol.append(("the machine cannot be simulated or rendered: %s" % (g.get("err") or v.get("err")), meta))
            continue
        try:
            em, term, flat = vsim.flat_design(v["files"], "bondmachine")
        except Exception as e:   # parse errors are C18's business; report and go on
            viol.append(("the generated Verilog does not parse: %s" % e, meta))
            continue
        nreg = 1 << spec["procs"][0]["arch"]["R"]
        pre = "a0_inst/p0_instance/"
        obs = [pre + "_pc"] + [pre + "_r%d" % i for i in range(nreg)] + ["o%d" % i for i in range(spec["outputs"])]
        ncyc = 3 * ticks
        row = {"clk": 0, "reset": 0}
        for i, val in enumerate(ins):
            row["i%d" % i] = val
            row["i%d_valid" % i] = 1
        for o in range(spec["outputs"]):
            row["o%d_received" % o] = 0
        rst = dict(row)
        rst["reset"] = 1
        prep.append((em, term, [rst] * 2 + [row] * ncyc, obs, meta, g))
    outs = C.eval_cases_parallel("C01", [vsim.sim_body(em, term, rows, obs) for em, term, rows, obs, _, _ in prep], timeout=3000)
    hist = {"opcodes": {}, "compared_retire_points": 0}
    for (em, term, rows, obs, meta, g), o in zip(prep, outs):
        try:
            hrows = vsim.check_rows(o["M"])
        except vsim.VsimError as e:
            viol.append(("the generated Verilog cannot be executed by the Verilog semantics: %s" % e, meta))
            continue
        spec = meta["machine"]
        prog = spec["procs"][0]["prog"]
        for l in prog:
            hist["opcodes"][l.split()[0]] = hist["opcodes"].get(l.split()[0], 0) + 1
        nreg = 1 << spec["procs"][0]["arch"]["R"]
        M = spec["outputs"]
        gseq = [(0, tuple([0] * nreg), tuple([0] * M))] + [(t["procs"][0]["pc"], tuple(t["procs"][0]["regs"]), tuple(t["procs"][0]["out"])) for t in g["ticks"]]
        hseq = [(r[0], tuple(r[1:1 + nreg]), tuple(r[1 + nreg:1 + nreg + M])) for r in hrows[1:]]
        k, gs, hs, m = first_difference(gseq, hseq, len(prog))
        hist["compared_retire_points"] += m
        if k is not None:
            gd = retire_points(gseq, len(prog))[0]
            prev_pc = gd[k - 1][0] if 0 < k <= len(gd) and gd[k - 1][0] != "left" else 0
            instr = prog[prev_pc] if prev_pc < len(prog) else "?"
            op = instr.split()[0]
            text = ("after retiring '%s' (retire point %d) the simulator has pc=%s regs=%s out=%s, the generated hardware pc=%s regs=%s out=%s"
                    % (instr, k, gs[0], list(gs[1]), list(gs[2]), hs[0], list(hs[1]), list(hs[2])))
            key = "c01_opcode_%s_rsize%d" % (op, spec["rsize"]) if ("c01_opcode_%s_rsize%d" % (op, spec["rsize"])) in known else "c01_opcode_%s" % op
            if key in known:
                res.known_finding("%s %s" % (key, text))
            else:
                viol.append((text, meta))
    hw_viol, hw_n = hwopt_part(res, rnd, a)
    viol += hw_viol
    hist["hw_optimised_machines_compared"] = hw_n
    cov = res.coverage
    cov["rule"] = ("single-processor machines: register size 8/16/32 (64 thorough), R 1-3, 0-2 inputs and outputs bonded to the machine's ports, programs of "
                   "3-14 instructions over add sub mult cpy and or xor not nand nor xnor clr inc dec rset j jz nop i2r r2o with random extra opcodes in the "
                   "architecture; the Go simulator runs 40 ticks, the generated Verilog 120 clocks under Vlog.Sem with the same constant inputs; program "
                   "counter, register file and outputs are compared at every retire point until either leaves the program (the leaving itself is a retire point; a side that stays in one state while the other moves on differs)")
    cov["input_distribution"] = hist
    cov["traces_validated_against_impl"] = len(prep)
    cov["programs"] = len(prep)
    cov["disagreements_checked"] = hist["compared_retire_points"]
    cov["samples"] = [{"machine": cases[0][0]}]
    for text, meta in viol[:4]:
        res.violation("C01 " + text, meta)
    if failed and not viol:
        res.violation("C01 proof obligation no longer checks: %s" % (failed[:2],), {"obligation": [list(f) for f in failed][:3]}, nofail=True)
    return res.finish("translation_validation")
