"""C13 — generated stacks and queues never lose, duplicate or reorder an element."""
import json
import random

import common as C
import vcoq
import vparse


def emit_stack(cfgd):
    """-> (coq module term, names record term, cfg term) for one configuration"""
    st = {"ModuleName": "bmstk", "DataSize": cfgd["dsize"], "Depth": cfgd["depth"],
          "Senders": ["s%d" % k for k in range(cfgd["snd"])], "Receivers": ["r%d" % k for k in range(cfgd["rcv"])],
          "MemType": cfgd["mt"]}
    r = C.jsonl(C.sh([C.BMH, "vlog"], input=json.dumps({"kind": "stack", "stack": st}) + "\n").stdout)[0]
    if r.get("err"):
        raise C.Broken("WriteHDL failed: " + r["err"])
    text = r["files"]["bmstk.v"]
    mods = vparse.parse_file(text)
    em = vcoq.Emitter()
    term = em.module(vcoq.flat_module(mods, "bmstk"))
    P = em.P

    def ids(fmt, n):
        return "[" + "; ".join(P(fmt % k) for k in range(n)) + "]"
    dummy = P("__unused")
    names = "(mkNames %s %s %s %s %s %s %s %s %s %s %s %s %s)" % (
        P("reset"), P("memory"), P("sp"), P("readsp") if cfgd["mt"] == "FIFO" else dummy,
        P("writesp") if cfgd["mt"] == "FIFO" else dummy, P("sendSM"), P("recvSM"),
        ids("s%dWrite", cfgd["snd"]), ids("s%dData", cfgd["snd"]), ids("s%dAck", cfgd["snd"]),
        ids("r%dRead", cfgd["rcv"]), ids("r%dData", cfgd["rcv"]), ids("r%dAck", cfgd["rcv"]))
    cfg = "(mkCfg %s %d %d %d %d)" % (cfgd["mt"], cfgd["depth"], cfgd["dsize"], cfgd["snd"], cfgd["rcv"])
    return term, names, cfg, text


HEADER = ("From Coq Require Import List NArith PArith Bool.\nFrom BM Require Import Vlog.Syntax Vlog.Sem Gen.StackModel Gen.StackCheck.\n"
          "Import ListNotations.\nLocal Open Scope N_scope.\n")


def exhaustive_body(cfgd):
    term, names, cfg, _ = emit_stack(cfgd)
    return (HEADER + "Definition m : module := %s.\nDefinition nm := %s.\nDefinition c := %s.\n"
            "Definition M := Eval vm_compute in match elaborate m with Ok E => let r := exhaustive E nm c in [fst r; snd r] "
            "| Err _ => [999999; 0] end.\n" % (term, names, cfg))


def inp_term(i):
    return "(mkInp %s %s %s %s)" % (C.cq_bool(i["reset"]), C.cq_list([C.cq_bool(b) for b in i["write"]]),
                                    C.cq_list([str(v) for v in i["data"]]), C.cq_list([C.cq_bool(b) for b in i["read"]]))


def random_inputs(rnd, cfgd, n, abiding):
    """input sequences: protocol-abiding agents (hold request until ack, then drop) or arbitrary toggling"""
    seq = [{"reset": True, "write": [False] * cfgd["snd"], "data": [0] * cfgd["snd"], "read": [False] * cfgd["rcv"]}]
    w = [False] * cfgd["snd"]
    d = [0] * cfgd["snd"]
    r = [False] * cfgd["rcv"]
    for _ in range(n):
        for k in range(cfgd["snd"]):
            if abiding:
                if not w[k] and rnd.random() < 0.4:
                    w[k], d[k] = True, rnd.randrange(1 << cfgd["dsize"])
                elif w[k] and rnd.random() < 0.3:
                    w[k] = False      # may be early (not abiding) only in the non-abiding stream
            else:
                w[k] = rnd.random() < 0.5
                d[k] = rnd.randrange(1 << cfgd["dsize"])
        for k in range(cfgd["rcv"]):
            r[k] = (rnd.random() < 0.5) if not abiding else (r[k] if rnd.random() < 0.6 else not r[k])
        seq.append({"reset": rnd.random() < 0.02, "write": list(w), "data": list(d), "read": list(r)})
    return seq


def lockstep_body(cfgd, seqs):
    term, names, cfg, _ = emit_stack(cfgd)
    return (HEADER + "Definition m : module := %s.\nDefinition nm := %s.\nDefinition c := %s.\n"
            "Definition runs : list (list inp) := %s.\n"
            "Definition M := Eval vm_compute in match elaborate m with\n"
            "  | Ok E => match init_state E with Ok h0 => map (fun ins => match lockstep E nm c 0 h0 (reset_state c) ins with Some k => [N.of_nat k] | None => [] end) runs\n"
            "            | Err _ => [[999998]] end\n  | Err _ => [[999999]] end.\n" % (
                term, names, cfg, C.cq_list([C.cq_list([inp_term(i) for i in s]) for s in seqs])))


SMALL = [dict(mt=mt, depth=d, dsize=1, snd=s, rcv=r) for mt in ("LIFO", "FIFO") for d in (1, 2) for s in (1, 2) for r in (1, 2)]


def run(res, a):
    failed = C.proof_part(res, "C13", trusted=[
        "Vlog.Sem (cycle semantics of the emitted Verilog) and lib/vparse.py + lib/vcoq.py (front-end)",
        "Gen/StackModel.v is a hand-written transcription of the template; tied to the emitted module by "
        "exhaustive state x input comparison for small configurations and lock-step runs for larger ones"])
    C.build_harness()
    rnd = random.Random(a.seed)
    cov = res.coverage
    viol = []
    # exhaustive equality of circuit and model for the small configurations
    small = [c for c in SMALL if (a.tier == "thorough" or (c["depth"] == 1 and c["snd"] + c["rcv"] <= 3) or
                                  (c["depth"] == 2 and c["snd"] == 1 and c["rcv"] == 1 and c["mt"] == "LIFO"))]
    outs = C.eval_cases_parallel("C13", [exhaustive_body(c) for c in small], timeout=3000)
    pairs = 0
    for c, o in zip(small, outs):
        bad, total = o["M"]
        pairs += total
        res.count_case({"exhaustive": c})
        if bad:
            viol.append(("circuit and model differ on %d of %d (state, input) pairs of configuration %s" % (bad, total, c), c))
    cov["exhaustive_configurations"] = small
    cov["exhaustive_state_input_pairs"] = pairs
    # lock-step runs on larger configurations, protocol-abiding and arbitrary stimulus
    big = []
    for _ in range(10 if a.tier == "quick" else 80):
        big.append(dict(mt=rnd.choice(["LIFO", "FIFO"]), depth=rnd.randint(1, 5), dsize=rnd.randint(1, 4),
                        snd=rnd.randint(1, 3), rcv=rnd.randint(1, 3)))
    bodies, meta = [], []
    for c in big:
        seqs = [random_inputs(rnd, c, 60, abiding=(k % 2 == 0)) for k in range(6)]
        bodies.append(lockstep_body(c, seqs))
        meta.append((c, seqs))
    for (c, seqs), o in zip(meta, C.eval_cases_parallel("C13", ["\n" + b for b in bodies], timeout=3000)):
        for s, r in zip(seqs, o["M"]):
            res.count_case({"c": c, "s": s}, nontrivial=True)
            if r:
                viol.append(("circuit and model diverge at cycle %d in configuration %s" % (r[0], c), {"cfg": c, "inputs": s[:r[0] + 1]}))
    cov["lockstep_runs"] = sum(len(s) for _, s in meta)
    cov["rule"] = ("(1) every state x every input of each small configuration (dsize 1, depth <= 2, <= 2+2 agents), compared inside Coq; "
                   "(2) lock-step runs of 60 cycles from reset on random configurations (depth 1-5, dsize 1-4, 1-3 senders, 1-3 receivers), "
                   "half with handshake-abiding agents and half with arbitrary stimulus; distinct by hash")
    cov["traces_validated_against_impl"] = cov["lockstep_runs"] - len([v for v in viol if "diverge" in v[0]])
    cov["samples"] = [{"cfg": meta[0][0], "inputs": meta[0][1][0][:4]}] if meta else []
    for text, rp in viol[:3]:
        res.violation("C13 " + text + " (the theorems are about the model; the circuit no longer refines it)", rp, nofail=True)
    if failed and not viol:
        res.violation("C13 proof obligation no longer checks: %s" % failed, {"obligation": failed}, nofail=True)
    return res.finish("proof")
