"""C13 — generated stacks and queues never lose, duplicate or reorder an element."""
import json
import random

import common as C
import vcoq
import vparse


def instance_spec(cfgd):
    """a machine whose processors share one stack:<depth> or queue:<depth>; roles[k] in send/recv/both"""
    kind = cfgd["so"]
    wr, rd = ("r2t", "t2r") if kind == "stack" else ("r2q", "q2r")
    sostr = "%s:%d" % (kind, cfgd["depth"])
    procs = []
    for role in cfgd["roles"]:
        ops = {"j", "nop", "rset"} | ({wr} if role in ("send", "both") else set()) | ({rd} if role in ("recv", "both") else set())
        procs.append({"arch": {"R": 1, "N": 0, "M": 0, "L": 0, "O": 3, "ops": sorted(ops), "mode": "ha", "rsize": cfgd["dsize"], "shared": sostr},
                      "prog": ["rset r0 3", "j 0"]})
    return {"rsize": cfgd["dsize"], "procs": procs, "inputs": 0, "outputs": 0, "bonds": [], "shared": [sostr],
            "sharedlinks": [[k, 0] for k in range(len(procs))]}


def emit_stack(cfgd):
    """-> (coq module term, names record term, cfg term) for one configuration: a module written by BmStack.WriteHDL, or
    (cfgd['so'] set) the module the bondmachine generator writes for a stack/queue shared object of a machine"""
    if cfgd.get("so"):
        kind = cfgd["so"]
        r = C.jsonl(C.sh([C.BMH, "vlog"], input=json.dumps({"kind": "bm", "bm": instance_spec(cfgd)}) + "\n").stdout)[0]
        if r.get("err"):
            raise C.Broken("Write_verilog failed: " + r["err"])
        modname = "st0" if kind == "stack" else "q0"
        if modname + ".v" not in r["files"]:
            raise C.Broken("the machine's file set has no %s.v: %s" % (modname, sorted(r["files"])))
        text = r["files"][modname + ".v"]
        snd = ["p%d%s_send" % (k, kind) for k, role in enumerate(cfgd["roles"]) if role in ("send", "both")]
        rcv = ["p%d%s_recv" % (k, kind) for k, role in enumerate(cfgd["roles"]) if role in ("recv", "both")]
    else:
        modname = "bmstk"
        snd = ["s%d" % k for k in range(cfgd["snd"])]
        rcv = ["r%d" % k for k in range(cfgd["rcv"])]
        st = {"ModuleName": modname, "DataSize": cfgd["dsize"], "Depth": cfgd["depth"], "Senders": snd, "Receivers": rcv, "MemType": cfgd["mt"]}
        r = C.jsonl(C.sh([C.BMH, "vlog"], input=json.dumps({"kind": "stack", "stack": st}) + "\n").stdout)[0]
        if r.get("err"):
            raise C.Broken("WriteHDL failed: " + r["err"])
        text = r["files"]["bmstk.v"]
    mods = vparse.parse_file(text)
    em = vcoq.Emitter()
    term = em.module(vcoq.flat_module(mods, modname))
    P = em.P

    def ids(base, suffix):
        return "[" + "; ".join(P(b + suffix) for b in base) + "]"
    dummy = P("__unused")
    names = "(mkNames %s %s %s %s %s %s %s %s %s %s %s %s %s)" % (
        P("reset"), P("memory"), P("sp"), P("readsp") if cfgd["mt"] == "FIFO" else dummy,
        P("writesp") if cfgd["mt"] == "FIFO" else dummy, P("sendSM"), P("recvSM"),
        ids(snd, "Write"), ids(snd, "Data"), ids(snd, "Ack"), ids(rcv, "Read"), ids(rcv, "Data"), ids(rcv, "Ack"))
    cfg = "(mkCfg %s %d %d %d %d)" % (cfgd["mt"], cfgd["depth"], cfgd["dsize"], len(snd), len(rcv))
    return term, names, cfg, text


HEADER = ("From Coq Require Import List NArith PArith Bool.\nFrom BM Require Import Vlog.Syntax Vlog.Sem Gen.StackModel Gen.StackCheck.\n"
          "Import ListNotations.\nLocal Open Scope N_scope.\n")


def exhaustive_body(cfgd):
    term, names, cfg, _ = emit_stack(cfgd)
    return (HEADER + "Definition m : module := %s.\nDefinition nm := %s.\nDefinition c := %s.\n"
            "Definition M := Eval vm_compute in match elaborate m with Ok E => let r := exhaustive E nm c in [fst r; snd r] "
            "| Err _ => [999999; 0] end.\n" % (term, names, cfg))


def inp_term(i):
    return "(mkInp %s %s %s %s)" % (C.cq_bool(i["reset"]), C.cq_list([C.cq_bool(b) for b in i["write"]]),
                                    C.cq_list([str(v) for v in i["data"]]), C.cq_list([C.cq_bool(b) for b in i["read"]]))


def random_inputs(rnd, cfgd, n, abiding):
    """input sequences: protocol-abiding agents (hold request until ack, then drop) or arbitrary toggling"""
    seq = [{"reset": True, "write": [False] * cfgd["snd"], "data": [0] * cfgd["snd"], "read": [False] * cfgd["rcv"]}]
    w = [False] * cfgd["snd"]
    d = [0] * cfgd["snd"]
    r = [False] * cfgd["rcv"]
    for _ in range(n):
        for k in range(cfgd["snd"]):
            if abiding:
                if not w[k] and rnd.random() < 0.4:
                    w[k], d[k] = True, rnd.randrange(1 << cfgd["dsize"])
                elif w[k] and rnd.random() < 0.3:
                    w[k] = False      # may be early (not abiding) only in the non-abiding stream
            else:
                w[k] = rnd.random() < 0.5
                d[k] = rnd.randrange(1 << cfgd["dsize"])
        for k in range(cfgd["rcv"]):
            r[k] = (rnd.random() < 0.5) if not abiding else (r[k] if rnd.random() < 0.6 else not r[k])
        seq.append({"reset": rnd.random() < 0.02, "write": list(w), "data": list(d), "read": list(r)})
    return seq


def lockstep_body(cfgd, seqs):
    term, names, cfg, _ = emit_stack(cfgd)
    return (HEADER + "Definition m : module := %s.\nDefinition nm := %s.\nDefinition c := %s.\n"
            "Definition runs : list (list inp) := %s.\n"
            "Definition M := Eval vm_compute in match elaborate m with\n"
            "  | Ok E => match init_state E with Ok h0 => map (fun ins => match lockstep E nm c 0 h0 (reset_state c) ins with Some k => [N.of_nat k] | None => [] end) runs\n"
            "            | Err _ => [[999998]] end\n  | Err _ => [[999999]] end.\n"
            "Definition D := Eval vm_compute in match elaborate m with\n"
            "  | Ok E => match init_state E with Ok h0 => map (fun ins => match discipline E nm c 0 h0 [] ins with Some (k, e) => [N.of_nat k; e] | None => [] end) runs\n"
            "            | Err _ => [[999998; 9]] end\n  | Err _ => [[999999; 9]] end.\n" % (
                term, names, cfg, C.cq_list([C.cq_list([inp_term(i) for i in s]) for s in seqs])))


SMALL = [dict(mt=mt, depth=d, dsize=1, snd=s, rcv=r) for mt in ("LIFO", "FIFO") for d in (1, 2) for s in (1, 2) for r in (1, 2)]


def run(res, a):
    failed = C.proof_part(res, "C13", trusted=[
        "Vlog.Sem (cycle semantics of the emitted Verilog) and lib/vparse.py + lib/vcoq.py (front-end)",
        "Gen/StackModel.v is a hand-written transcription of the template; tied to the emitted module by "
        "exhaustive state x input comparison for small configurations and lock-step runs for larger ones"])
    C.build_harness()
    rnd = random.Random(a.seed)
    cov = res.coverage
    viol = []
    # exhaustive equality of circuit and model for the small configurations
    # (the depth-2 FIFO with two senders and two receivers has too many states for one exhaustive evaluation within the time limit of a
    # check; it is covered by the lock-step runs below)
    small = [c for c in SMALL if ((a.tier == "thorough" and not (c["mt"] == "FIFO" and c["depth"] == 2 and c["snd"] + c["rcv"] == 4)) or
                                  (c["depth"] == 1 and c["snd"] + c["rcv"] <= 3) or
                                  (c["depth"] == 2 and c["snd"] == 1 and c["rcv"] == 1 and c["mt"] == "LIFO"))]
    outs = C.eval_cases_parallel("C13", [exhaustive_body(c) for c in small], timeout=3000)
    pairs = 0
    for c, o in zip(small, outs):
        bad, total = o["M"]
        pairs += total
        res.count_case({"exhaustive": c})
        if bad:
            viol.append(("circuit and model differ on %d of %d (state, input) pairs of configuration %s" % (bad, total, c), c))
    cov["exhaustive_configurations"] = small
    cov["exhaustive_state_input_pairs"] = pairs
    # lock-step runs on larger configurations, protocol-abiding and arbitrary stimulus
    big = []
    for _ in range(10 if a.tier == "quick" else 80):
        big.append(dict(mt=rnd.choice(["LIFO", "FIFO"]), depth=rnd.randint(1, 5), dsize=rnd.randint(1, 4),
                        snd=rnd.randint(1, 3), rcv=rnd.randint(1, 3)))
    # the modules the machine generator writes for stack:<d> and queue:<d> shared objects (discipline, depth, width and
    # the sender/receiver lists are chosen there): stack must behave as the LIFO model, queue as the FIFO model
    for _ in range(4 if a.tier == "quick" else 24):
        so = rnd.choice(["stack", "queue"])
        roles = [rnd.choice(["send", "recv", "both"]) for _ in range(rnd.randint(1, 3))]
        if not any(r in ("send", "both") for r in roles):
            roles[0] = "both"
        if not any(r in ("recv", "both") for r in roles):
            roles[-1] = "both"
        big.append(dict(so=so, mt="LIFO" if so == "stack" else "FIFO", depth=rnd.randint(1, 5), dsize=rnd.choice([8, 16]), roles=roles,
                        snd=sum(r in ("send", "both") for r in roles), rcv=sum(r in ("recv", "both") for r in roles)))
    cov["shared_object_instances"] = sum(1 for c in big if c.get("so"))
    bodies, meta = [], []
    for c in big:
        seqs = [random_inputs(rnd, c, 60, abiding=(k % 2 == 0)) for k in range(6)]
        bodies.append(lockstep_body(c, seqs))
        meta.append((c, seqs))
    DISC = {2: "a read is acknowledged although nothing is stored", 3: "an acknowledged read returns another element than the discipline prescribes",
            4: "a write is acknowledged although the module is full", 5: "sp differs from the number of stored elements", 9: "the circuit cannot be executed"}
    concrete = []
    for (c, seqs), o in zip(meta, C.eval_cases_parallel("C13", ["\n" + b for b in bodies], names=("M", "D"), timeout=3000)):
        for k, (s, r, d) in enumerate(zip(seqs, o["M"], o["D"])):
            res.count_case({"c": c, "s": s}, nontrivial=True)
            # the discipline read off the circuit's own acknowledgements (handshake-following stimulus only)
            if d and k % 2 == 0:
                concrete.append(("%s module (%s): at cycle %d %s" % (c["mt"], c.get("so") or "WriteHDL", d[0], DISC.get(d[1], d[1])),
                                 {"cfg": c, "inputs": s[:d[0] + 1]}))
            if r:
                viol.append(("circuit and model diverge at cycle %d in configuration %s" % (r[0], c), {"cfg": c, "inputs": s[:r[0] + 1]}))
    cov["lockstep_runs"] = sum(len(s) for _, s in meta)
    cov["rule"] = ("(1) every state x every input of each small configuration (dsize 1, depth <= 2, <= 2+2 agents), compared inside Coq; "
                   "(2) lock-step runs of 60 cycles from reset on random configurations (depth 1-5, dsize 1-4, 1-3 senders, 1-3 receivers), "
                   "half with handshake-abiding agents and half with arbitrary stimulus; distinct by hash")
    cov["traces_validated_against_impl"] = cov["lockstep_runs"] - len([v for v in viol if "diverge" in v[0]])
    cov["samples"] = [{"cfg": meta[0][0], "inputs": meta[0][1][0][:4]}] if meta else []
    for text, rp in concrete[:3]:
        res.violation("C13 " + text, rp)
    for text, rp in ([] if concrete else viol[:3]):
        res.violation("C13 " + text + " (the theorems are about the model; the circuit no longer refines it)", rp, nofail=True)
    if failed and not viol and not concrete:
        res.violation("C13 proof obligation no longer checks: %s" % failed, {"obligation": failed}, nofail=True)
    return res.finish("proof")
