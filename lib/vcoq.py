"""Python Verilog AST (lib/vparse.py) -> Coq terms of BM.Vlog.Syntax, identifier interning,
and the flattener that inlines module instances for the interpreter (Vlog.Sem)."""
import vparse

UNOPS = {"!": "UNot", "~": "UBNot", "-": "UNeg", "+": "UPlus", "&": "URAnd", "|": "UROr", "^": "URXor",
         "~&": "URNand", "~|": "URNor", "~^": "URXnor", "^~": "URXnor"}
BINOPS = {"+": "BAdd", "-": "BSub", "*": "BMul", "/": "BDiv", "%": "BMod", "**": "BPow", "==": "BEq", "!=": "BNe",
          "===": "BEq", "!==": "BNe", "<": "BLt", "<=": "BLe", ">": "BGt", ">=": "BGe", "&&": "BLAnd", "||": "BLOr",
          "&": "BAnd", "|": "BOr", "^": "BXor", "~^": "BXnor", "^~": "BXnor", "<<": "BShl", ">>": "BShr",
          "<<<": "BShl", ">>>": "BShr"}
DKINDS = {"input": "DInput", "output": "DOutput", "inout": "DInout", "wire": "DWire", "reg": "DReg",
          "integer": "DInteger", "genvar": "DGenvar", "signed": "DSigned", "real": "DReal", "time": "DInteger"}


class Interner:
    def __init__(self):
        self.ids = {}
        self.names = []

    def __call__(self, name):
        if name not in self.ids:
            self.names.append(name)
            self.ids[name] = len(self.names)
        return self.ids[name]


def lst(items):
    return "[" + "; ".join(items) + "]"


def opt(x):
    return "None" if x is None else "(Some %s)" % x


class Emitter:
    def __init__(self, interner=None):
        self.I = interner or Interner()

    def P(self, name):
        return "%d%%positive" % self.I(name)

    def expr(self, e):
        t = e[0]
        if t == "num":
            return "(ENum %s %d)" % ("None" if e[1] is None else "(Some %d)" % e[1], e[2])
        if t == "id":
            if "." in e[1]:
                return "(EOther [])"
            return "(EId %s)" % self.P(e[1])
        if t == "index":
            if e[1][0] != "id" or "." in e[1][1]:
                return "(EOther %s)" % lst([self.expr(e[1]), self.expr(e[2])])
            return "(EIndex %s %s)" % (self.P(e[1][1]), self.expr(e[2]))
        if t == "part":
            if e[1][0] != "id" or "." in e[1][1]:
                return "(EOther %s)" % lst([self.expr(e[1]), self.expr(e[2]), self.expr(e[3])])
            return "(EPart %s %s %s)" % (self.P(e[1][1]), self.expr(e[2]), self.expr(e[3]))
        if t == "ipart":
            return "(EOther %s)" % lst([self.expr(e[1]), self.expr(e[2]), self.expr(e[4])])
        if t == "un":
            return "(EUn %s %s)" % (UNOPS[e[1]], self.expr(e[2]))
        if t == "bin":
            return "(EBin %s %s %s)" % (BINOPS[e[1]], self.expr(e[2]), self.expr(e[3]))
        if t == "cond":
            return "(ECond %s %s %s)" % (self.expr(e[1]), self.expr(e[2]), self.expr(e[3]))
        if t == "concat":
            return "(EConcat %s)" % lst([self.expr(x) for x in e[1]])
        if t == "repl":
            return "(ERepl %s %s)" % (self.expr(e[1]), self.expr(e[2]))
        if t == "str":
            return "(EOther [])"
        if t in ("call", "syscall"):
            return "(EOther %s)" % lst([self.expr(x) for x in e[2]])
        raise ValueError("expr " + t)

    def stmt(self, s):
        t = s[0]
        if t == "nop" or t == "systask":
            return "SNop"
        if t == "block":
            if s[2]:
                return "(SOther %s [])" % lst([self.stmt(x) for x in s[1]])
            return "(SBlock %s)" % lst([self.stmt(x) for x in s[1]])
        if t == "nba":
            return "(SNba %s %s)" % (self.expr(s[1]), self.expr(s[2]))
        if t == "ba":
            return "(SBa %s %s)" % (self.expr(s[1]), self.expr(s[2]))
        if t == "if":
            return "(SIf %s %s %s)" % (self.expr(s[1]), self.stmt(s[2]), opt(self.stmt(s[3]) if s[3] else None))
        if t == "case":
            arms = lst(["(%s, %s)" % (lst([self.expr(l) for l in labels]), self.stmt(body)) for labels, body in s[3]])
            if s[1] != "case":
                return "(SOther %s %s)" % (lst([self.stmt(b) for _, b in s[3]] + ([self.stmt(s[4])] if s[4] else [])),
                                           lst([self.expr(s[2])]))
            return "(SCase %s %s %s)" % (self.expr(s[2]), arms, opt(self.stmt(s[4]) if s[4] else None))
        if t == "for":
            return "(SFor %s %s %s %s)" % (self.stmt(s[1]), self.expr(s[2]), self.stmt(s[3]), self.stmt(s[4]))
        if t == "unsupported":
            return "(SOther %s %s)" % (lst([self.stmt(x) for x in s[2]]), lst([self.expr(x) for x in s[3]]))
        if t == "taskcall":
            return "(SOther [] %s)" % lst([self.expr(x) for x in s[2]])
        raise ValueError("stmt " + t)

    def rng(self, r):
        return "None" if r is None else "(Some (%s, %s))" % (self.expr(r[0]), self.expr(r[1]))

    def decl(self, d):
        _, kinds, rng, name, dims, init = d
        return "(mkDecl %s %s %s %s %s)" % (lst([DKINDS[k] for k in kinds]), self.rng(rng), self.P(name),
                                            lst(["(%s, %s)" % (self.expr(a), self.expr(b)) for a, b in dims]),
                                            opt(self.expr(init) if init is not None else None))

    def conns(self, c):
        if c[0] == "pos":
            return "(CPos %s)" % lst([opt(self.expr(e) if e is not None else None) for e in c[1]])
        return "(CNamed %s)" % lst(["(%s, %s)" % (self.P(p), opt(self.expr(e) if e is not None else None)) for p, e in c[1]])

    def sens(self, s):
        if s == "star":
            return "SStar"
        if s == "delay":
            return "SDelay"
        return "(SEdges %s)" % lst(["(%s, %s)" % ({"posedge": "Posedge", "negedge": "Negedge", "level": "Level"}[e], self.expr(x))
                                    for e, x in s])

    def item(self, it):
        t = it[0]
        if t == "decl":
            return "(IDecl %s)" % self.decl(it)
        if t == "param":
            return "(IParam %s %s %s %s)" % ("true" if it[1] == "localparam" else "false", self.rng(it[2]), self.P(it[3]), self.expr(it[4]))
        if t == "assign":
            return "(IAssign %s %s)" % (self.expr(it[1]), self.expr(it[2]))
        if t == "always":
            return "(IAlways %s %s)" % (self.sens(it[1]), self.stmt(it[2]))
        if t == "initial":
            return "(IInitial %s)" % self.stmt(it[1])
        if t == "inst":
            return "(IInst %s %s %s %s)" % (self.P(it[1]), self.P(it[2]), self.conns(it[3]),
                                            opt(self.conns(it[4]) if it[4] is not None else None))
        if t == "generate" or t == "genblock":
            return "(IGen %s)" % lst([self.item(x) for x in it[1]])
        if t == "genif":
            return "(IGen %s)" % lst([self.item(x) for x in it[2] + it[3]])
        if t == "genfor":
            var = it[1][1][1] if it[1][1][0] == "id" else "?"
            es = [self.expr(it[1][2]), self.expr(it[2]), self.expr(it[3][2])]
            return "(IGenFor %s %s %s)" % (self.P(var), lst(es), lst([self.item(x) for x in it[4]]))
        if t == "function":
            return "(IFunc %s %s %s)" % (self.P(it[1]), lst([self.decl(d) for d in it[3]]), lst([self.stmt(s) for s in it[4]]))
        return "IOther"

    def module(self, m):
        _, name, ports, items = m
        return "(mkModule %s %s %s)" % (self.P(name), lst([self.P(p) for p in ports]),
                                        "[\n  " + ";\n  ".join(self.item(i) for i in items) + "]")


# ------------------------------------------------------------------------------------------------
# flattening: inline every instance of `top`, renaming the child's identifiers to "<inst>/<name>"

class FlattenError(Exception):
    pass


def _ren_expr(e, f):
    t = e[0]
    if t == "id":
        return ("id", f(e[1]))
    if t in ("num", "str"):
        return e
    if t == "index":
        return ("index", _ren_expr(e[1], f), _ren_expr(e[2], f))
    if t == "part":
        return ("part", _ren_expr(e[1], f), _ren_expr(e[2], f), _ren_expr(e[3], f))
    if t == "ipart":
        return ("ipart", _ren_expr(e[1], f), _ren_expr(e[2], f), e[3], _ren_expr(e[4], f))
    if t == "un":
        return ("un", e[1], _ren_expr(e[2], f))
    if t == "bin":
        return ("bin", e[1], _ren_expr(e[2], f), _ren_expr(e[3], f))
    if t == "cond":
        return ("cond", _ren_expr(e[1], f), _ren_expr(e[2], f), _ren_expr(e[3], f))
    if t == "concat":
        return ("concat", [_ren_expr(x, f) for x in e[1]])
    if t == "repl":
        return ("repl", _ren_expr(e[1], f), _ren_expr(e[2], f))
    if t in ("call", "syscall"):
        return (t, e[1], [_ren_expr(x, f) for x in e[2]])
    raise FlattenError("expr " + t)


def _ren_stmt(s, f):
    t = s[0]
    if t in ("nop",):
        return s
    if t == "systask":
        return ("nop",)
    if t == "block":
        return ("block", [_ren_stmt(x, f) for x in s[1]], s[2])
    if t in ("nba", "ba"):
        return (t, _ren_expr(s[1], f), _ren_expr(s[2], f))
    if t == "if":
        return ("if", _ren_expr(s[1], f), _ren_stmt(s[2], f), _ren_stmt(s[3], f) if s[3] else None)
    if t == "case":
        return ("case", s[1], _ren_expr(s[2], f), [([_ren_expr(l, f) for l in ls], _ren_stmt(b, f)) for ls, b in s[3]],
                _ren_stmt(s[4], f) if s[4] else None)
    if t == "for":
        return ("for", _ren_stmt(s[1], f), _ren_expr(s[2], f), _ren_stmt(s[3], f), _ren_stmt(s[4], f))
    raise FlattenError("statement " + t)


def flatten(mods, top, prefix=""):
    """-> (ports of the top module, flat item list)"""
    by_name = {m[1]: m for m in mods}
    if top not in by_name:
        raise FlattenError("module %s not found" % top)
    _, name, ports, items = by_name[top]

    def f(n):
        return prefix + n
    out = []
    for it in items:
        t = it[0]
        if t == "decl":
            _, kinds, rng, nm, dims, init = it
            k2 = [k for k in kinds if k not in ("input", "output", "inout")] if prefix else kinds
            if not [k for k in k2 if k in ("wire", "reg", "integer", "input", "output")]:
                k2 = k2 + ["wire"]
            out.append(("decl", k2, None if rng is None else (_ren_expr(rng[0], f), _ren_expr(rng[1], f)), f(nm),
                        [(_ren_expr(a, f), _ren_expr(b, f)) for a, b in dims], None if init is None else _ren_expr(init, f)))
        elif t == "param":
            out.append(("param", it[1], None if it[2] is None else (_ren_expr(it[2][0], f), _ren_expr(it[2][1], f)), f(it[3]),
                        _ren_expr(it[4], f)))
        elif t == "assign":
            out.append(("assign", _ren_expr(it[1], f), _ren_expr(it[2], f)))
        elif t == "always":
            sens = it[1] if isinstance(it[1], str) else [(e, _ren_expr(x, f)) for e, x in it[1]]
            out.append(("always", sens, _ren_stmt(it[2], f)))
        elif t == "initial":
            out.append(("initial", _ren_stmt(it[1], f)))
        elif t == "inst":
            _, modname, inst, conns, params = it
            if params is not None:
                raise FlattenError("parameterised instance " + inst)
            if modname not in by_name:
                raise FlattenError("instance of undefined module " + modname)
            child = by_name[modname]
            cports, citems = flatten(mods, modname, prefix + inst + "/")
            dirs = {}
            for d in child[3]:
                if d[0] == "decl":
                    for k in d[1]:
                        if k in ("input", "output", "inout"):
                            dirs[d[3]] = k
            if conns[0] == "pos":
                if len(conns[1]) != len(child[2]):
                    raise FlattenError("port count mismatch on " + inst)
                pairs = list(zip(child[2], conns[1]))
            else:
                pairs = conns[1]
            out += citems
            for p, e in pairs:
                if e is None:
                    continue
                e2 = _ren_expr(e, f)
                pn = ("id", prefix + inst + "/" + p)
                if dirs.get(p) == "input":
                    out.append(("assign", pn, e2))
                elif dirs.get(p) == "output":
                    out.append(("assign", e2, pn))
                else:
                    raise FlattenError("port %s of %s has no direction" % (p, modname))
        else:
            raise FlattenError("item " + t)
    return ports, out


def flat_module(mods, top):
    ports, items = flatten(mods, top)
    return ("module", top, ports, items)
