"""C09 — simulation results do not depend on scheduling or on other simulations."""
import json
import random

import common as C
import simlib


def gen_req(rnd, tier):
    spec = simlib.gen_machine(rnd, nproc=rnd.choice([2, 3, 4]), io_style=rnd.choice(["hs", "plain"]))
    # sprinkle the pipelined opcodes (their phase used to be process-wide state)
    for p in spec["procs"]:
        if rnd.random() < 0.6:
            nreg = 1 << p["arch"]["R"]
            extra = ["%s r%d r%d" % (rnd.choice(["addp", "multp"]), rnd.randrange(nreg), rnd.randrange(nreg)) for _ in range(rnd.randint(1, 3))]
            room = (1 << p["arch"]["O"]) - len(extra)
            p["prog"] = (extra + p["prog"])[:max(room + len(extra), len(extra))][:1 << p["arch"]["O"]]
            p["arch"]["ops"] = simlib.ops_for(p["prog"], ["j"])
    ticks = 40
    # half of the simulations also ask for the per-processor report (config:show_pc): the text VM.Step returns is then compared too
    return {"sim": {"bm": spec, "ticks": ticks, "env": simlib.gen_env(rnd, spec, ticks, spec["rsize"]), "showpc": rnd.random() < 0.5},
            "perms": 8 if tier == "quick" else 60, "conc": 4 if tier == "quick" else 8, "seed": rnd.randrange(1 << 30),
            "gomaxprocs": [1, 2, 4, 16]}


def gen_div_req(rnd, tier):
    """processors that divide with the pipelined divp (two ticks per division; never by zero): outside the Coq simulator model, so only
    the comparisons between runs apply"""
    nproc = rnd.choice([2, 3])
    rsize = rnd.choice([8, 16])
    procs = []
    for p in range(nproc):
        prog = ["rset r0 %d" % rnd.randrange(100, 250), "rset r1 %d" % rnd.randrange(2, 9), "divp r0 r1", "r2o r0 o0", "inc r0", "inc r1", "divp r0 r1",
                "r2o r0 o0", "j 2"]
        procs.append({"arch": {"R": 1, "N": 0, "M": 1, "L": 0, "O": 4, "ops": ["divp", "inc", "j", "nop", "r2o", "rset"], "mode": "ha", "rsize": rsize}, "prog": prog})
    spec = {"rsize": rsize, "procs": procs, "inputs": 0, "outputs": nproc, "bonds": [["o%d" % p, "p%do0" % p] for p in range(nproc)]}
    return {"sim": {"bm": spec, "ticks": 40, "env": [], "showpc": False}, "perms": 8 if tier == "quick" else 40, "conc": 4 if tier == "quick" else 8,
            "seed": rnd.randrange(1 << 30), "gomaxprocs": [1, 2, 4, 16], "nomodel": True}


def cold_start_race(rb, dl_reqs):
    """fresh processes whose very first calls are concurrent single-shot simulations with literal stimuli (nothing the library initialises
    lazily has been touched yet), under the race detector"""
    viol = []
    for k in range(3):
        prog = ["i2rw r0 i0", "i2rw r1 i1", "add r0 r1", "r2owa r0 o0", "nop", "nop", "j 0"]    # no literal in the program
        spec = {"rsize": 8, "procs": [{"arch": {"R": 1, "N": 2, "M": 1, "L": 0, "O": 4, "ops": ["add", "i2rw", "j", "nop", "r2owa"], "mode": "ha", "rsize": 8},
                                        "prog": prog}], "inputs": 2, "outputs": 1, "bonds": [["p0i0", "i0"], ["p0i1", "i1"], ["o0", "p0o0"]]}
        q = {"bm": spec, "call": "single", "n": 32, "conc": 8, "cold": True, "input": ["0x%x" % (k + 3), "0b1%d1" % (k % 2)]}
        p = C.sh([rb, "c17"], input=json.dumps(q) + "\n", timeout=1200, check=False)
        if "DATA RACE" in p.stderr or "concurrent map" in p.stderr:
            at = p.stderr.find("DATA RACE") if "DATA RACE" in p.stderr else p.stderr.find("concurrent map")
            viol.append(("the race detector reports a data race between the first concurrent single-shot simulations of a fresh process: %s"
                         % p.stderr[at:][:600], {"sim": q}))
            return True, viol
    return False, viol


def run(res, a):
    failed = C.proof_part(res, "C09", trusted=[
        "Isa/Sim.v + Net/Tick.v: hand-written model of procbuilder.VM.Step / bondmachine.VM.Step, tied by per-tick full-state comparison",
        "verif-tagged yield hook in Processor_execute (forces start orders); harness/c09.go",
        "data-race freedom is NOT proved (Go memory model); the race detector run in the thorough tier is supporting evidence only"])
    C.build_harness()
    rnd = random.Random(a.seed)
    n = 12 if a.tier == "quick" else 80
    reqs = [gen_req(rnd, a.tier) for _ in range(n)] + [gen_div_req(rnd, a.tier) for _ in range(2 if a.tier == "quick" else 10)]
    if a.replay:
        reqs = [json.load(open(a.replay))["replay"]["request"]]
    out = C.jsonl(C.sh([C.BMH, "c09"], input="".join(json.dumps(r) + "\n" for r in reqs), timeout=3000).stdout)
    viol = []
    orders = 0
    pairs = []
    for q, r in zip(reqs, out):
        if r.get("err"):
            res.count_case(q, nontrivial=False)
            continue
        res.count_case(q, nontrivial=r["nprocs"] >= 2)
        orders += len(r.get("permbad") or [])
        for k, t in enumerate(r.get("permbad") or []):
            if t >= 0:
                viol.append(("state or step report after tick %d differs when the processors are started in another order (forced schedule %d)" % (t, k), q))
                break
        for k, t in enumerate(r.get("concbad") or []):
            if t >= 0:
                viol.append(("state or step report after tick %d differs when %d simulations of the machine run concurrently" % (t, q["conc"]), q))
                break
        if not q.get("nomodel"):
            pairs.append((q["sim"], r["base"]))
    # the report of a complete single-shot simulation must not depend on the run either (output order, values)
    rep_reqs = []
    for k in range(3 if a.tier == "quick" else 12):
        nout = rnd.choice([3, 4, 5])
        prog = []
        for o in range(nout):
            prog += ["rset r0 %d" % rnd.randrange(1, 200), "r2owa r0 o%d" % o, "nop", "nop"]   # the run ends when the last output is valid
        prog.append("j %d" % len(prog))
        spec = {"rsize": 8, "procs": [{"arch": {"R": 1, "N": 0, "M": nout, "L": 0, "O": 6, "ops": ["rset", "r2owa", "j", "nop"], "mode": "ha", "rsize": 8},
                                        "prog": prog}], "inputs": 0, "outputs": nout, "bonds": [["o%d" % o, "p0o%d" % o] for o in range(nout)]}
        rep_reqs.append({"bm": spec, "call": "single", "n": 25, "conc": 0, "input": []})
    rep = C.jsonl(C.sh([C.BMH, "c17"], input="".join(json.dumps(r) + "\n" for r in rep_reqs), timeout=1800).stdout)
    for q, r in zip(rep_reqs, rep):
        res.count_case(q, nontrivial=True)
        if r.get("err"):
            viol.append(("SinglePipelineSimulate fails: %s" % r["err"], {"sim": q}))
        elif len(r.get("distinct") or []) > 1:
            viol.append(("25 runs of SinglePipelineSimulate on one machine give different reports: %s" % r["distinct"][:3], {"sim": q}))
    # single-shot simulations with opcode delays (one SimDelays object, degenerate distributions so that the result is a function
    # of the machine), sequentially and as sixteen concurrent callers sharing that object: one report, the same in both
    dl_reqs = []
    for q in rep_reqs[:2 if a.tier == "quick" else 6]:
        # every distribution has a single possible delay (forty entries, one non-zero weight that is not 1)
        def dist(dv):
            d_ = {str(k_): 0.0 for k_ in range(1, 41)}
            d_[str(dv)] = rnd.choice([0.5, 2.0, 3.0])
            return d_
        delays = {"rset": dist(rnd.choice([1, 2, 3])), "r2owa": dist(rnd.choice([1, 2, 4])), "nop": dist(1), "j": dist(rnd.choice([1, 2]))}
        dl_reqs.append(dict(q, n=4, conc=0, delays=delays))
        dl_reqs.append(dict(q, n=160, conc=16, delays=delays))
    # the same with the outputs shown in a dynamically created number type (registered by the first, sequential, call)
    for q in rep_reqs[:1 if a.tier == "quick" else 3]:
        dl_reqs.append(dict(q, n=4, conc=0, datatype="fps8f4"))
        dl_reqs.append(dict(q, n=160, conc=16, datatype="fps8f4"))
    pdl = C.sh([C.BMH, "c17"], input="".join(json.dumps(r) + "\n" for r in dl_reqs), timeout=1800, check=False)
    dl = C.jsonl(pdl.stdout) if pdl.stdout.strip() else []
    if pdl.returncode != 0 or len(dl) != len(dl_reqs):
        k = min(len(dl), len(dl_reqs) - 1)
        why = [l for l in pdl.stderr.splitlines() if l.startswith("fatal error") or l.startswith("panic")]
        viol.append(("the process running single-shot simulations (shared opcode delays, dynamic number type; four in sequence, then 160 from sixteen "
                     "concurrent callers) dies: %s" % (why or [pdl.stderr[-300:]])[0], {"sim": dl_reqs[min(k | 1, len(dl_reqs) - 1)]}))
    else:
        for j in range(0, len(dl_reqs), 2):
            sq, cq = dl[j], dl[j + 1]
            res.count_case(dl_reqs[j + 1], nontrivial=True)
            if sq.get("err") or cq.get("err"):
                viol.append(("SinglePipelineSimulate with opcode delays fails: %s" % (sq.get("err") or cq.get("err")), {"sim": dl_reqs[j + 1]}))
            elif len(sq.get("distinct") or []) != 1 or (cq.get("distinct") or []) != sq["distinct"]:
                viol.append(("single-shot simulations with the same opcode delays give different reports: sequential %s, sixteen concurrent callers %s"
                             % (sq.get("distinct"), (cq.get("distinct") or [])[:3]), {"sim": dl_reqs[j + 1]}))
    # stimuli that collide: two periodic set rules on one input; whatever order the tool gives them, it must be the same on every run
    import os, shutil, subprocess, tempfile
    import c07
    c07.build_tools()
    work = tempfile.mkdtemp(prefix="verif-c09-")
    try:
        for k in range(2 if a.tier == "quick" else 8):
            p1, p2 = rnd.sample([2, 3, 4, 5], 2)
            v1, v2 = rnd.sample(range(1, 200), 2)
            spec = {"rsize": 8, "procs": [{"arch": {"R": 1, "N": 1, "M": 1, "L": 0, "O": 2, "ops": ["i2r", "j", "nop", "r2o"], "mode": "ha", "rsize": 8},
                                            "prog": ["i2r r0 i0", "r2o r0 o0", "j 0"]}], "inputs": 1, "outputs": 1, "bonds": [["p0i0", "i0"], ["o0", "p0o0"]]}
            saved = C.jsonl(C.sh([C.BMH, "c11", "save"], input=json.dumps({"bm": spec}) + "\n").stdout)[0]
            d = os.path.join(work, "m%d" % k)
            os.mkdir(d)
            open(os.path.join(d, "bm.json"), "w").write(saved["json"])
            sb = {"Rules": [{"Timec": 2, "Tick": p1, "Action": 0, "Object": "i0", "Extra": str(v1), "Suspended": False},
                            {"Timec": 2, "Tick": p2, "Action": 0, "Object": "i0", "Extra": str(v2), "Suspended": False},
                            {"Timec": 1, "Tick": 0, "Action": 3, "Object": "show_io_post", "Extra": "", "Suspended": False}]}
            open(os.path.join(d, "sb.json"), "w").write(json.dumps(sb))
            outs = set()
            for rep_ in range(10):
                pr = subprocess.run([c07.tool("bondmachine"), "-bondmachine-file", "bm.json", "-sim", "-simbox-file", "sb.json", "-sim-interactions", "14"],
                                    cwd=d, env=dict(C.GOENV, GOMAXPROCS=str([1, 2, 4, 16][rep_ % 4])), stdout=subprocess.PIPE, stderr=subprocess.STDOUT, text=True, timeout=120)
                outs.add(pr.stdout)
            res.count_case({"periodic": [p1, v1, p2, v2]}, nontrivial=True)
            if len(outs) > 1:
                viol.append(("ten runs of one simulation with the rules relative:%d:set:i0:%d and relative:%d:set:i0:%d print %d different traces"
                             % (p1, v1, p2, v2, len(outs)), {"sim": {"bm": spec, "rules": sb}}))
    finally:
        shutil.rmtree(work, ignore_errors=True)
    bad, compared = simlib.model_mismatches("C09", pairs)
    race = None
    if a.tier == "quick" and not viol:
        # the race detector on the shared-delay scenario only (an incremental build; the thorough tier runs everything under it)
        rb = C.build_harness(race=True)
        small = [dict(q, n=min(q["n"], 32), conc=min(q["conc"], 8)) for q in dl_reqs[:2] + dl_reqs[-2:]]
        p = C.sh([rb, "c17"], input="".join(json.dumps(r) + "\n" for r in small), timeout=1200, check=False)
        race = "DATA RACE" in p.stderr
        if race:
            viol.append(("the race detector reports a data race between concurrent single-shot simulations (shared opcode delays / dynamic number type): %s"
                         % p.stderr[p.stderr.find("DATA RACE"):][:600], {"sim": small[-1]}))
        else:
            race, cold_viol = cold_start_race(rb, dl_reqs)
            viol += cold_viol
    if a.tier == "thorough":
        rb = C.build_harness(race=True)
        p = C.sh([rb, "c09"], input="".join(json.dumps(r) + "\n" for r in reqs[:20]), timeout=3000, check=False)
        race = "DATA RACE" in p.stderr
        if not race:
            p = C.sh([rb, "c17"], input="".join(json.dumps(r) + "\n" for r in dl_reqs), timeout=3000, check=False)
            race = "DATA RACE" in p.stderr
        if not race:
            race, cold_viol = cold_start_race(rb, dl_reqs)
            viol += cold_viol
        if race:
            viol.append(("the race detector reports a data race: %s" % p.stderr[p.stderr.find("DATA RACE"):][:600], reqs[0]))
    cov = res.coverage
    cov["rule"] = ("random machines of 2-4 processors over the modelled instruction set (incl. addp/multp), random bonds, 40 ticks under a "
                   "seeded open-loop environment; each simulated once plainly, under forced per-tick start orders of the processor workers "
                   "(verif hook) with GOMAXPROCS in {1,2,4,16}, and as several concurrent simulations in one process; per-tick digests of the "
                   "full VM state compared; the plain run is also compared with the Coq model; non-trivial = at least 2 processors")
    cov["forced_schedules"] = orders
    cov["concurrent_runs"] = sum(len(r.get("concbad") or []) for r in out)
    cov["traces_validated_against_impl"] = compared - len(bad)
    cov["race_detector_reported_race"] = race
    cov["samples"] = [{"machine": reqs[0]["sim"]["bm"], "orders": out[0].get("orders")}] if out else []
    for text, q in viol[:3]:
        res.violation("C09 " + text, {"request": q})
    if not viol:
        for k, t in list(bad.items())[:2]:
            res.violation("C09 model and simulator disagree at tick %d" % t, {"request": {"sim": pairs[k][0], "perms": 0, "conc": 0, "seed": 0}}, nofail=True)
    if failed and not viol and not bad:
        res.violation("C09 proof obligation no longer checks: %s" % failed, {"obligation": failed}, nofail=True)
    return res.finish("proof")
