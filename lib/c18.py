"""C18 — every generated HDL file set is self-consistent and synthesizable Verilog."""
import json
import random
import re

import common as C
import vcoq
import vparse

CLASSES = {1: "undeclared", 2: "port-undeclared", 3: "undefined-module", 4: "port-count", 5: "port-name",
           6: "procedural-assignment-to-net", 7: "continuous-assignment-to-register", 8: "multiple-drivers",
           9: "declared-twice", 10: "implicit-one-bit-net-on-a-vector-port"}

# opcodes usable without shared objects / external tools, grouped
BASIC = ["add", "and", "clr", "cpy", "dec", "inc", "j", "jz", "mult", "nop", "not", "or", "rset", "sub", "xor", "nand", "nor", "xnor",
         "div", "mod", "mulc", "adc", "sbc", "cil", "cir", "cilc", "cirn", "incc", "clc", "cset", "rsc", "saj", "hlt", "dpc", "je",
         "jc", "jo", "cmpr", "cmprlt", "jcmpl", "jcmpo", "jri", "jrio", "jcmprio", "ro2r", "ro2rri", "addi", "expf"]
IO_IN = ["i2r", "i2rw", "sic", "sicv2", "sicv3", "cmpv"]
IO_OUT = ["r2o", "r2owa", "r2owaa"]
RAM = ["m2r", "r2m", "m2rri", "r2mri", "ja", "jcmpa", "jria", "jcmpria"]
PIPE = ["addp", "multp", "divp"]
FLOAT = ["addf", "multf", "divf", "addf16", "multf16", "divf16", "jgt0f"]
SHARED = {"channel": ["wrd", "wwr", "chc", "chw"], "sharedmem": ["s2r", "r2s"], "barrier": ["hit"], "lfsr8": ["lfsr82r"],
          "stack": ["r2t", "t2r"], "queue": ["r2q", "q2r"], "vtextmem": ["r2v", "r2vri"], "uart": ["r2u", "u2r"], "kbd": ["k2r"]}
SHARED_STR = {"channel": "channel:", "sharedmem": "sharedmem:8", "barrier": "barrier:100", "lfsr8": "lfsr8:7", "stack": "stack:4",
              "queue": "queue:4", "vtextmem": "vtextmem:0:3:3:16:16", "uart": "uart:9600:4", "kbd": "kbd:4"}


def gen_machine(rnd, k):
    """a machine description for the vlog harness command (explicit processors)"""
    nproc = rnd.choice([1, 1, 2, 3])
    rsize = rnd.choice([8, 16, 32])
    procs = []
    shared_kinds = []
    if k % 3 == 2:
        shared_kinds = rnd.sample(sorted(SHARED), rnd.choice([1, 1, 2]))
    for p in range(nproc):
        N, M = rnd.choice([0, 1, 2, 3]), rnd.choice([0, 1, 2, 3])
        ops = set(rnd.sample(BASIC, rnd.randint(2, 10)))
        style = rnd.randrange(6)
        if N and style != 0:
            ops |= set(rnd.sample(IO_IN, rnd.randint(1, 2)))
        if M and style != 0:
            ops |= set(rnd.sample(IO_OUT, rnd.randint(1, 2)))
        L = rnd.choice([0, 0, 2, 3])
        if L:
            ops |= set(rnd.sample(RAM, rnd.randint(1, 3)))
        if style == 4:
            ops |= set(rnd.sample(PIPE, 1))
        if style == 5 and rsize in (16, 32):
            ops |= set(rnd.sample([f for f in FLOAT if ("16" in f) == (rsize == 16) or f == "jgt0f"], 1))
        linked = [si for si in range(len(shared_kinds)) if p == 0 or rnd.random() < 0.7]
        for si in linked:
            ops |= set(rnd.sample(SHARED[shared_kinds[si]], 1))
        ops |= {"nop"}
        mode = rnd.choice(["ha", "ha", "ha", "vn", "hy"]) if L else "ha"
        procs.append({"arch": {"R": rnd.choice([1, 2, 3]), "N": N, "M": M, "L": L, "O": rnd.choice([2, 3, 4]), "ops": sorted(ops),
                               "mode": mode, "rsize": rsize}, "prog": ["nop", "nop"], "threaded": 0, "linked": linked})
    spec = {"rsize": rsize, "procs": procs, "inputs": rnd.choice([0, 1, 2]), "outputs": rnd.choice([0, 1, 2]), "bonds": []}
    ins = ["p%di%d" % (p, i) for p, pr in enumerate(procs) for i in range(pr["arch"]["N"])] + ["o%d" % i for i in range(spec["outputs"])]
    outs = ["p%do%d" % (p, i) for p, pr in enumerate(procs) for i in range(pr["arch"]["M"])] + ["i%d" % i for i in range(spec["inputs"])]
    rnd.shuffle(ins)
    for e in ins:
        if outs and rnd.random() < 0.7:
            spec["bonds"].append([e, rnd.choice(outs)])
    if shared_kinds:
        spec["shared"] = [SHARED_STR[sk] for sk in shared_kinds]
        spec["sharedlinks"] = [[p, si] for p, pr in enumerate(procs) for si in pr["linked"]]
    for pr in procs:
        pr.pop("linked", None)
    return {"kind": "bm", "bm": spec, "hwopt": []}


def syntax_key(name, text, msg):
    """narrow class of a syntax error: file kind, enclosing opcode arm, offending line"""
    import re
    m = re.search(r"line (\d+)", msg)
    kind = re.sub(r"[0-9]+", "", name.replace(".v", ""))
    if not m:
        return "syntax:%s:%s" % (kind, re.sub(r"[^a-z]+", "-", msg.lower())[:40])
    lines = text.split("\n")
    n = int(m.group(1))
    if "assign ram_addr" in lines[n - 1]:
        return "syntax:%s:ram_addr" % kind
    for j in range(n - 1, 0, -1):
        mm = re.match(r"\t{5}([A-Z0-9]+): begin", lines[j])
        if mm:
            return "syntax:%s:opcode-%s" % (kind, mm.group(1).lower())
    return "syntax:%s:%s" % (kind, re.sub(r"[0-9]+", "N", lines[n - 1].strip())[:40])


def lint_files(files, externals=()):
    """parse every file, lint the design in Coq -> (syntax errors, lint errors as dicts, implicit...)"""
    syntax = []
    mods = []
    for name in sorted(files):
        if not name.endswith(".v"):
            continue
        try:
            mods += vparse.parse_file(files[name])
        except vparse.VerilogSyntaxError as e:
            syntax.append((name, str(e), syntax_key(name, files[name], str(e))))
    em = vcoq.Emitter()
    terms = [em.module(m) for m in mods]
    ext = [em.P(x) for x in externals]
    return syntax, mods, em, terms, ext


def gen_hwopt_request(rnd):
    """a processor assembled from BASM (so that the requirement tree exists) and rendered with the opt-in hardware optimisations, which
    prune the arms of the per-opcode state machines down to the registers the program uses as destination / source of that opcode"""
    nreg = rnd.choice([3, 4])
    lines = ["%%meta bmdef global registersize:%d" % rnd.choice([8, 16]), "%section code .romtext iomode:async", "  entry _start", "_start:"]
    two = ["add", "mult", "addp", "multp", "divp", "cpy"]
    for _ in range(rnd.randint(4, 10)):
        c = rnd.randrange(10)
        d, s_ = rnd.sample(range(nreg), 2)         # destination and source differ: the two requirement sets of an opcode differ
        if c < 5:
            lines.append("  %s r%d, r%d" % (rnd.choice(two), d, s_))
        elif c < 7:
            lines.append("  %s r%d" % (rnd.choice(["inc", "dec", "clr"]), d))
        elif c < 9:
            lines.append("  rset r%d, %d" % (d, rnd.randrange(1, 100)))
        else:
            lines.append("  jz r%d, _start" % d)
    lines += ["  r2o r0, o0", "  j _start", "%endsection", "%meta cpdef cpu romcode:code, ramsize:0", "%meta iodef x type:io",
              "%meta ioatt x cp:cpu, type:output, index:0", "%meta ioatt x cp:bm, type:output, index:0", ""]
    flags = rnd.choice([["onlysrcregs"], ["onlydestregs"], ["onlysrcregs", "onlydestregs"]])
    return {"kind": "bm", "bm": {"basm": "\n".join(lines), "nodyn": True}, "hwopt": flags}


def run(res, a):
    failed = C.proof_part(res, "C18", trusted=[
        "lib/vparse.py + lib/vcoq.py (Verilog front-end; a file it cannot parse is reported as broken machinery unless the "
        "construct is outside Verilog-2001)", "Vlog/Lint.v evaluated by vm_compute"])
    C.build_harness()
    rnd = random.Random(a.seed)
    n = 40 if a.tier == "quick" else 600
    reqs = [gen_machine(rnd, k) for k in range(n)]
    hrnd = random.Random(a.seed + 5)
    reqs += [gen_hwopt_request(hrnd) for _ in range(8 if a.tier == "quick" else 80)]
    if a.replay:
        reqs = [json.load(open(a.replay))["replay"]["machine"]]
    out = C.jsonl(C.sh([C.BMH, "vlog"], input="".join(json.dumps(r) + "\n" for r in reqs), timeout=1800).stdout)
    known = {k["key"]: k for k in C.known_findings("C18")}
    viol = []
    bodies, metas = [], []
    build_errs = 0
    classes = {}
    for q, r in zip(reqs, out):
        if r.get("err") and not r.get("files"):
            build_errs += 1
            res.count_case(q, nontrivial=False)
            continue
        files = {k: v for k, v in (r.get("files") or {}).items() if k != "bondmachine_tb.v"}
        syntax, mods, em, terms, ext = lint_files(files)
        res.count_case(q, nontrivial=True)
        for fname, msg, gen in syntax:
            classes[gen] = classes.get(gen, 0) + 1
            kk = next((k for k in known if re.search(known[k].get("regex", "^$"), gen)), None)
            text = "syntax error in %s: %s" % (fname, msg)
            if kk:
                res.known_finding("%s %s" % (kk, text))
            else:
                viol.append((text, q, gen))
        if r.get("err"):
            gen = "write-error:" + ("vtextmem" if any("vtextmem" in x for x in (q["bm"].get("shared") or [])) else "other")
            classes[gen] = classes.get(gen, 0) + 1
            kk = next((k for k in known if re.search(known[k].get("regex", "^$"), gen)), None)
            if kk:
                res.known_finding("%s generator panics while writing files: %s" % (kk, r["err"]))
            else:
                viol.append(("generator failed while writing files: %s" % r["err"], q, gen))
        if syntax:
            continue
        body = ("From Coq Require Import List NArith PArith.\nFrom BM Require Import Vlog.Syntax Vlog.Lint.\nImport ListNotations.\n"
                "Local Open Scope N_scope.\nDefinition d : design := %s.\n"
                "Definition M := Eval vm_compute in map code (lint d %s).\n" % (C.cq_list(["\n" + t for t in terms]), C.cq_list(ext)))
        bodies.append(body)
        metas.append((q, em))
    for (q, em), o in zip(metas, C.eval_cases_parallel("C18", bodies, timeout=1800)):
        names = em.I.names
        for cls, m, x, a1, a2 in o["M"]:
            mod, ident = names[m - 1], names[x - 1]
            extra = names[a1 - 1] if cls in (3, 5) else ""
            key = "c18_%s_%s" % (CLASSES[cls], extra or ident)
            gen = "%s:%s:%s" % (CLASSES[cls], mod.rstrip("0123456789") or mod, extra or ident)
            classes[gen] = classes.get(gen, 0) + 1
            text = "%s in module %s: %s %s" % (CLASSES[cls], mod, ident, ("(%s)" % extra) if extra else
                                                ("expected %d ports, got %d" % (a1, a2)) if cls == 4 else "")
            kk = next((k for k in known if re.search(known[k].get("regex", "^$"), gen)), None)
            if kk:
                res.known_finding("%s %s" % (kk, text))
            else:
                viol.append((text, q, gen))
    cov = res.coverage
    cov["rule"] = ("random machines: 1-3 processors, register size 8/16/32, opcode subsets drawn from arithmetic/IO/RAM/pipelined/float/"
                   "shared-object families, modes ha/vn/hy, 0-3 inputs/outputs per processor, random bonds, shared objects attached to "
                   "processors, hw-optimisation flag; every emitted file except the test bench is parsed and linted in Coq; "
                   "non-trivial = file set produced; distinct by hash")
    cov["machines"] = len(reqs)
    cov["machines_rejected_by_the_generator"] = build_errs
    cov["error_class_histogram"] = classes
    cov["programs"] = len(reqs) - build_errs
    cov["disagreements_checked"] = sum(classes.values())
    cov["samples"] = reqs[:1]
    seen = set()
    for text, q, gen in viol:
        if gen in seen:
            continue
        seen.add(gen)
        if len(seen) > 5:
            break
        res.violation("C18 " + text, {"machine": q, "class": gen})
    if failed and not viol:
        res.violation("C18 proof obligation no longer checks: %s" % failed, {"obligation": failed}, nofail=True)
    return res.finish("translation_validation")
