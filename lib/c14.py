"""C14 — compiled quantum circuits implement the circuit's unitary."""
import cmath
import json
import math
import random

import common as C

# name -> (Coq constructor, arity, parameter: None | "half" (k*pi/2) | "quarter" (k*pi/4) | "ignored")
GATES = {
    "h": ("GH", 1, None), "x": ("GX", 1, None), "y": ("GY", 1, None), "z": ("GZ", 1, None), "s": ("GS", 1, None), "t": ("GT", 1, None),
    "sx": ("GSX", 1, None), "cx": ("GCX", 2, None), "cz": ("GCZ", 2, None), "swap": ("GSWAP", 2, None), "iswap": ("GISWAP", 2, None),
    "dcnot": ("GDCNOT", 2, None), "rx": ("GRX", 1, "half"), "ry": ("GRY", 1, "half"), "rz": ("GRZ", 1, "half"), "p": ("GP", 1, "ignored"),
    "r": ("GR", 1, "quarter"),
}
ZETA = cmath.exp(1j * math.pi / 4)
TOL = 2e-5


def gen_circuit(rnd, n, style):
    """style: 'any' arbitrary distinct arguments; 'single' at most one two-qubit gate per layer (by construction: every two-qubit
    gate is followed by a line reusing one of its qubits); 'adjacent' two-qubit gates only on neighbouring qubits"""
    lines = []
    for _ in range(rnd.randint(1, 7)):
        g = rnd.choice(list(GATES))
        if style == "dense" and rnd.random() < 0.7:
            g = rnd.choice(["cx", "cz", "swap", "iswap", "dcnot"])
        ctor, ar, par = GATES[g]
        if ar > n:
            continue
        if ar == 2 and style == "adjacent":
            a = rnd.randrange(n - 1)
            qs = [a, a + 1] if rnd.random() < 0.5 else [a + 1, a]
        else:
            qs = rnd.sample(range(n), ar)
        k = rnd.randrange(8) if par else None
        lines.append((g, qs, k))
        if ar == 2 and style == "single":
            lines.append((rnd.choice(["h", "x", "t"]), [rnd.choice(qs)], None))
    return lines or [("h", [0], None)]


def go_lines(lines):
    out = []
    for g, qs, k in lines:
        l = [g] + ["q%d" % q for q in qs]
        par = GATES[g][2]
        if par == "half":
            l.append("%.8f" % (k * math.pi / 2))
        elif par in ("quarter", "ignored"):
            l.append("%.8f" % (k * math.pi / 4))
        out.append(l)
    return out


def coq_lines(lines):
    out = []
    for g, qs, k in lines:
        ctor, ar, par = GATES[g]
        c = "(%s %d)" % (ctor, k) if par in ("half", "quarter") else ctor
        out.append("(%s, %s)" % (c, C.cq_list([str(q) for q in qs])))
    return C.cq_list(out)


def c8(v):
    a, b, c, d, e = v
    return (a + b * ZETA + c * ZETA ** 2 + d * ZETA ** 3) / (2 ** e)


def mat_close(goM, modM):
    """first differing entry or None"""
    if len(goM) != len(modM):
        return "dimension %d vs %d" % (len(goM), len(modM))
    for i, (gr, mr) in enumerate(zip(goM, modM)):
        for j, (g, m) in enumerate(zip(gr, mr)):
            if abs(complex(g[0], g[1]) - m) > TOL:
                return "entry [%d][%d]: implementation %s, model %s" % (i, j, complex(g[0], g[1]), m)
    return None


def mmul(a, b):
    n = len(a)
    return [[sum(a[i][k] * b[k][j] for k in range(n)) for j in range(n)] for i in range(n)]


def cplx(M):
    return [[complex(x[0], x[1]) for x in row] for row in M]


def unitary_defect(M):
    n = len(M)
    worst = 0.0
    for i in range(n):
        for j in range(n):
            s = sum(M[i][k] * M[j][k].conjugate() for k in range(n))
            worst = max(worst, abs(s - (1 if i == j else 0)))
    return worst


def run(res, a):
    failed = C.proof_part(res, "C14", trusted=[
        "Front/Quantum.v: hand transcription of QasmToBmMatrices / BmMatrixFromOperation / swaps2baseSwaps on bit-list indices; the correspondence "
        "between bit lists and Go's numeric indices (tensor product, row/column swaps) is what the entrywise comparison checks",
        "Front/Cyclo8.v: exact arithmetic in Z[1/2][zeta8]; gate table transcribed from static2x2.go, static4x4.go, identity.go",
        "the comparison with float32 entries uses tolerance 2e-5 against exact values (never float against float)"])
    C.build_harness()
    rnd = random.Random(a.seed)
    N = 60 if a.tier == "quick" else 900
    cases = []
    for k in range(N):
        n = rnd.choice([1, 2, 2, 3, 3, 3, 4, 4, 5] if a.tier == "thorough" else [1, 2, 2, 3, 3, 3, 4, 4])
        style = ["any", "single", "adjacent", "dense"][k % 4]
        if style == "dense":
            n = rnd.choice([4, 4, 5])
        cases.append((n, gen_circuit(rnd, n, style), style))
    if a.replay:
        rp = json.load(open(a.replay))["replay"]
        cases = [(rp["n"], [(g, qs, k) for g, qs, k in rp["lines"]], rp.get("style", "any"))]
    reqs = [{"n": n, "lines": go_lines(ls), "sim": True} for n, ls, _ in cases]
    out = C.jsonl(C.sh([C.BMH, "c14"], input="".join(json.dumps(r) + "\n" for r in reqs), timeout=3000).stdout)
    if len(out) != len(reqs):
        raise C.Broken("c14 harness answered %d of %d" % (len(out), len(reqs)))
    shard = 6
    bodies = []
    for i in range(0, len(cases), shard):
        bodies.append("From Coq Require Import List Arith ZArith.\nFrom BM Require Import Front.Quantum Front.Cyclo8 Front.QuantumCheck.\nImport ListNotations.\n"
                      "Definition M := Eval vm_compute in %s.\n"
                      "Definition U := Eval vm_compute in (gate_table_unitary, %s).\n"
                      % (C.cq_list(["\nrun_circuit %d %s" % (n, coq_lines(ls)) for n, ls, _ in cases[i:i + shard]]),
                         C.cq_list(["\ncircuit_unitary_and_sim %d %s" % ((n, coq_lines(ls)) if n <= 4 else (1, "[(GH, [0])]")) for n, ls, _ in cases[i:i + shard]])))
    model, exact = [], []
    table_ok = True
    for o in C.eval_cases_parallel("C14", bodies, names=("M", "U"), timeout=3000):
        model += o["M"]
        table_ok = table_ok and o["U"][0]
        exact += o["U"][1]
    if not table_ok:
        res.violation("C14 the gate table of the model (Front/QuantumCheck.v) is not unitary: the premise of every_emitted_matrix_is_unitary fails", {"obligation": "gate_table_unitary"}, nofail=True)
    known = {k["key"] for k in C.known_findings("C14")}
    viol, mism = [], []
    hist = {"safe": 0, "unsafe": 0, "unsafe_wrong_or_panic": 0, "panics": 0, "layers": 0, "by_qubits": {}}
    for (n, ls, style), g, m, ex in zip(cases, out, model, exact):
        wf, safe, ok, tables, prod_is_ref, layers_are_par = m
        meta = {"n": n, "lines": ls, "style": style}
        res.count_case(meta, nontrivial=len(ls) >= 2)
        hist["by_qubits"][str(n)] = hist["by_qubits"].get(str(n), 0) + 1
        hist["safe" if safe else "unsafe"] += 1
        go_failed = bool(g.get("panic") or g.get("err") or g.get("timeout"))
        if go_failed:
            hist["panics"] += 1
        # --- tie: the model reproduces the implementation
        if ok == go_failed:
            mism.append(("model %s but implementation %s" % ("compiles" if ok else "panics", g.get("panic") or g.get("err") or "returns matrices"), meta))
        elif ok:
            if len(tables) != len(g.get("matrices") or []):
                mism.append(("model emits %d matrices, implementation %d" % (len(tables), len(g.get("matrices") or [])), meta))
            else:
                hist["layers"] += len(tables)
                for li, (gm, tm) in enumerate(zip(g["matrices"], tables)):
                    d = mat_close(gm, [[c8(v) for v in row] for row in tm])
                    if d:
                        mism.append(("matrix %d differs: %s" % (li, d), meta))
                        break
        # --- property on the implementation itself
        wrong = None
        if go_failed:
            wrong = "the compiler fails: %s" % (g.get("panic") or g.get("err") or "timeout")
        else:
            gms = [cplx(M) for M in g["matrices"]]
            for li, M in enumerate(gms):
                if unitary_defect(M) > 1e-4:
                    wrong = "emitted matrix %d is not unitary" % li
            # reference unitary, computed exactly by the model (u_ref) is compared through the model's own product when the tie holds;
            # independently: python product of the implementation's matrices against python reference
            U = ref_unitary(n, ls)
            P = None
            for M in gms:
                P = M if P is None else mmul(M, P)
            if P is not None and wrong is None:
                d = mat_close([[(z.real, z.imag) for z in row] for row in P], U)
                if d:
                    wrong = "the product of the emitted matrices is not the circuit's unitary (%s)" % d
            if wrong is None and g.get("simout"):
                for b, col in enumerate(g["simout"]):
                    for i, v in enumerate(col):
                        if abs(complex(v[0], v[1]) - U[i][b]) > TOL * 4:
                            wrong = "software simulation of basis state %d gives %s at %d, the unitary's column has %s" % (b, complex(v[0], v[1]), i, U[i][b])
                            break
                    if wrong:
                        break
        if wrong:
            if not safe:
                hist["unsafe_wrong_or_panic"] += 1
                if "c14_two_multiqubit_gates_in_one_layer" in known:
                    res.known_finding("c14_two_multiqubit_gates_in_one_layer %s (n=%d, %s)" % (wrong.split("(")[0].strip(), n, " ; ".join(" ".join(l) for l in go_lines(ls))))
                else:
                    viol.append((wrong, meta))
            else:
                viol.append((wrong, meta))
        elif ok and safe and not (prod_is_ref and layers_are_par):
            mism.append(("the model's own product differs from its reference on a circuit satisfying circuit_safe", meta))
        elif ok and wf and not (ex[0] and ex[1]):
            mism.append(("the model's matrices are not exactly unitary / its simulated basis states are not the reference columns (%s)" % (ex,), meta))
    cov = res.coverage
    cov["rule"] = ("random circuits over {h,x,y,z,s,t,sx,cx,cz,swap,iswap,dcnot,rx,ry,rz,p,r} on 1-4 (quick) / 1-5 qubits, 1-7 lines, three styles: arbitrary "
                   "distinct arguments, at most one two-qubit gate per layer, two-qubit gates on neighbours in either order; rotation angles k*pi/2, "
                   "phases k*pi/4; compared: every emitted matrix entry with the exact model entry, unitarity of every emitted matrix, product of "
                   "emitted matrices and every software-simulated basis state with the reference unitary; in Coq, exactly: the gate table is unitary, every matrix of "
                   "the model's compilation is unitary and the model's simulated basis states are the reference columns (circuits of up to 4 qubits)")
    cov["input_distribution"] = hist
    cov["traces_validated_against_impl"] = len(cases) - len(mism)
    cov["samples"] = [{"n": cases[0][0], "lines": go_lines(cases[0][1])}]
    for text, meta in viol[:3]:
        res.violation("C14 " + text, meta)
    if not viol:
        for text, meta in mism[:2]:
            res.violation("C14 model and implementation disagree: " + text, meta, nofail=True)
        if failed and not mism:
            res.violation("C14 proof obligation no longer checks: %s" % (failed[:2],), {"obligation": [list(f) for f in failed][:3]}, nofail=True)
    return res.finish("proof")


# ------------------------------------------------------------------ an independent reference in Python (exact gate table, numeric product)

def gate_matrix(g, k):
    s2 = 1 / math.sqrt(2)
    if g == "h":
        return [[s2, s2], [s2, -s2]]
    if g == "x":
        return [[0, 1], [1, 0]]
    if g == "y":
        return [[0, -1j], [1j, 0]]
    if g == "z":
        return [[1, 0], [0, -1]]
    if g in ("s", "p"):
        return [[1, 0], [0, 1j]]
    if g == "t":
        return [[1, 0], [0, ZETA]]
    if g == "sx":
        return [[0.5 + 0.5j, 0.5 - 0.5j], [0.5 - 0.5j, 0.5 + 0.5j]]
    if g == "rx":
        t = k * math.pi / 4
        return [[math.cos(t), -1j * math.sin(t)], [-1j * math.sin(t), math.cos(t)]]
    if g == "ry":
        t = k * math.pi / 4
        return [[math.cos(t), -math.sin(t)], [math.sin(t), math.cos(t)]]
    if g == "rz":
        t = k * math.pi / 4
        return [[cmath.exp(-1j * t), 0], [0, cmath.exp(1j * t)]]
    if g == "r":
        return [[1, 0], [0, cmath.exp(1j * k * math.pi / 4)]]
    if g == "cx":
        return [[1, 0, 0, 0], [0, 1, 0, 0], [0, 0, 0, 1], [0, 0, 1, 0]]
    if g == "cz":
        return [[1, 0, 0, 0], [0, 1, 0, 0], [0, 0, 1, 0], [0, 0, 0, -1]]
    if g == "swap":
        return [[1, 0, 0, 0], [0, 0, 1, 0], [0, 1, 0, 0], [0, 0, 0, 1]]
    if g == "iswap":
        return [[1, 0, 0, 0], [0, 0, 1j, 0], [0, 1j, 0, 0], [0, 0, 0, 1]]
    if g == "dcnot":
        return [[1, 0, 0, 0], [0, 0, 1, 0], [0, 0, 0, 1], [0, 1, 0, 0]]
    raise KeyError(g)


def embed(n, G, qs):
    dim = 1 << n
    M = [[0j] * dim for _ in range(dim)]
    for i in range(dim):
        for j in range(dim):
            same = all(((i >> (n - 1 - p)) & 1) == ((j >> (n - 1 - p)) & 1) for p in range(n) if p not in qs)
            if same:
                gi = 0
                gj = 0
                for q in qs:
                    gi = gi * 2 + ((i >> (n - 1 - q)) & 1)
                    gj = gj * 2 + ((j >> (n - 1 - q)) & 1)
                M[i][j] = complex(G[gi][gj])
    return M


def ref_unitary(n, lines):
    dim = 1 << n
    U = [[1 + 0j if i == j else 0j for j in range(dim)] for i in range(dim)]
    for g, qs, k in lines:
        U = mmul(embed(n, gate_matrix(g, k), qs), U)
    return U
