"""C10 — editing a machine's topology never corrupts the bonds it does not touch."""
import json
import re
import common as C

KIND = {0: "BI", 1: "BO", 2: "PI", 3: "PO"}
NAT = r"(0|[1-9][0-9]{0,3})"
NAME_RES = [(re.compile(r"^i%s$" % NAT), "BI"), (re.compile(r"^o%s$" % NAT), "BO"),
            (re.compile(r"^p%si%s$" % (NAT, NAT)), "PI"), (re.compile(r"^p%so%s$" % (NAT, NAT)), "PO")]


def ep_term(t):
    k, r, e = t
    if k not in KIND or r < 0 or e < 0 or (k < 2 and e != 0):
        return None
    return "(%s %d)" % (KIND[k], r) if k < 2 else "(%s %d %d)" % (KIND[k], r, e)


def name_term(s):
    for rx, k in NAME_RES:
        m = rx.match(s)
        if m:
            return "(Name (%s %s))" % (k, " ".join(m.groups()))
    return "Junk"


def op_term(o):
    n = o["op"]
    if n in ("AddInput", "AddOutput"):
        return n
    if n in ("DelInput", "DelOutput", "AddProc", "DelBond"):
        return "(%s %s)" % (n, C.cq_Z(o.get("i", 0)))
    return "(%s %s %s)" % (n, name_term(o.get("a", "")), name_term(o.get("b", "")))


def state_term(s):
    eps_in = [ep_term(t) for t in (s["iin"] or [])]
    eps_out = [ep_term(t) for t in (s["iout"] or [])]
    if None in eps_in or None in eps_out or any(l < -1 for l in s["links"] or []):
        return None
    links = ["None" if l == -1 else "(Some %d)" % l for l in (s["links"] or [])]
    oc = {"done": "Done", "err": "Err", "panic": "Panic"}[s["outcome"]]
    doms = ["(%d, %d)" % tuple(d) for d in (s["doms"] or [])]
    return "(%s, mkBM %d %d %s %s %s %s %s)" % (
        oc, s["inputs"], s["outputs"], C.cq_list(doms), C.cq_list([str(p) for p in s["procs"] or []]),
        C.cq_list(eps_in), C.cq_list(eps_out), C.cq_list(links))


def py_name(t):
    k, r, e = t
    return {0: "i%d" % r, 1: "o%d" % r, 2: "p%di%d" % (r, e), 3: "p%do%d" % (r, e)}.get(k, "?")


def api_lists_consistent(s):
    """List_bonds / List_internal_* must agree with the raw fields (Go vs Go sanity)."""
    if s["bonds"] and s["bonds"][0][0] == "panic":
        return False
    if (s["lin"] or []) != [py_name(t) for t in (s["iin"] or [])]:
        return False
    if (s["lout"] or []) != [py_name(t) for t in (s["iout"] or [])]:
        return False
    want = []
    for i, l in enumerate(s["links"] or []):
        if l != -1:
            if l >= len(s["iout"] or []):
                return False
            want.append([str(i), py_name(s["iout"][l]) + "," + py_name(s["iin"][i])])
    return (s["bonds"] or []) == want


def case_term(c):
    sts = [state_term(s) for s in c["states"]]
    if None in sts:
        return None
    doms = ["(%d, %d)" % tuple(d) for d in c["doms"]]
    return "(%s, %s, %s)" % (C.cq_list(doms), C.cq_list([op_term(o) for o in c["ops"]]), C.cq_list(sts))


CODES = {1: "model and implementation disagree", 2: "observed state is not well formed",
         3: "observed edit does not refine the name-level bond specification", 9: "trace length mismatch"}


def evaluate(cases):
    """returns {case index: [(step, code)...]} for failing cases"""
    bad = {}
    terms = []
    idx = []
    for k, c in enumerate(cases):
        t = case_term(c)
        if t is None:
            bad[k] = [(0, 2)]
            continue
        for st_i, s in enumerate(c["states"]):
            if not api_lists_consistent(s):
                bad.setdefault(k, []).append((st_i, 4))
        terms.append(t)
        idx.append(k)
    shards = [(idx[i:i + 60], terms[i:i + 60]) for i in range(0, len(terms), 60)]
    bodies = []
    for ids, ts in shards:
        bodies.append("From Coq Require Import List ZArith. Import ListNotations.\n"
                      "From BM Require Import Net.Topo Net.TopoCheck.\n"
                      "Definition cases := %s.\n"
                      "Definition M := Eval vm_compute in map check_case cases.\n" % C.cq_list(["\n" + t for t in ts]))
    outs = C.eval_cases_parallel("C10", bodies)
    for (ids, _), o in zip(shards, outs):
        for k, fails in zip(ids, o["M"]):
            if fails:
                bad.setdefault(k, []).extend([tuple(f) for f in fails])
    return bad


def shrink(case, fails_fn):
    """drop ops while the case still fails"""
    ops = list(case["ops"])
    i = len(ops) - 1
    while i >= 0 and len(ops) > 1:
        trial = ops[:i] + ops[i + 1:]
        c2 = run_ops(case["doms"], trial)
        if fails_fn(c2):
            ops = trial
        i -= 1
    return run_ops(case["doms"], ops)


def run_ops(doms, ops):
    import os
    import tempfile
    fd, p = tempfile.mkstemp(suffix=".json")
    with os.fdopen(fd, "w") as f:
        json.dump({"doms": doms, "ops": ops}, f)
    try:
        out = C.run_harness(["c10", "-replay", p]).stdout
    finally:
        os.remove(p)
    return C.jsonl(out)[0]


def run(res, a):
    failed = C.proof_part(res, "C10", trusted=[
        "harness/c10.go + lib/c10.py (name parser, term printer) as the tie",
        "model: coq/theories/Net/Topo.v (hand-written transcription of the edit functions)"])
    C.build_harness()
    if a.replay:
        r = json.load(open(a.replay))["replay"]
        cases = [run_ops(r["doms"], r["ops"])]
    else:
        n, maxlen = (400, 40) if a.tier == "quick" else (6000, 80)
        out = C.run_harness(["c10", "-seed", a.seed, "-n", n, "-maxlen", maxlen]).stdout
        cases = C.jsonl(out)
    hist = {}
    outcomes = {}
    for c in cases:
        bonded = any(l != -1 for s in c["states"] for l in (s["links"] or []))
        res.count_case({"d": c["doms"], "o": c["ops"]}, nontrivial=bonded and len(c["ops"]) >= 3)
        for o, s in zip(c["ops"], c["states"]):
            hist[o["op"]] = hist.get(o["op"], 0) + 1
            outcomes[s["outcome"]] = outcomes.get(s["outcome"], 0) + 1
    bad = evaluate(cases)
    cov = res.coverage
    cov["rule"] = ("random edit histories (seeded; biased to deleting low/middle ports and to existing endpoint names, "
                   "with negative/too-large indices and junk names mixed in); non-trivial = at least 3 edits and "
                   "at least one bond present at some point; distinct by hash of (domains, ops)")
    cov["operation_histogram"] = hist
    cov["outcome_histogram"] = outcomes
    cov["history_length_max"] = max(len(c["ops"]) for c in cases)
    cov["traces_validated_against_impl"] = len(cases) - len(bad)
    cov["samples"] = [{"doms": c["doms"], "ops": c["ops"]} for c in cases[:2]]
    for k in sorted(bad)[:3]:
        c = cases[k]

        def still(c2):
            return bool(evaluate([c2]))
        small = shrink(c, still) if len(c["ops"]) > 1 else c
        fl = evaluate([small]).get(0, bad[k])
        fl = sorted(fl, key=lambda f: (0 if f[1] in (2, 3) else 1, f[0]))  # property failures before model mismatches
        step, code = fl[0]
        res.violation("C10 %s at edit %d of history %s" % (CODES.get(code, "API listing inconsistent with raw fields"),
                                                          step, json.dumps(small["ops"])),
                      {"doms": small["doms"], "ops": small["ops"], "failures": fl, "seed": c.get("seed")})
    if failed and not bad:
        res.violation("C10 proof obligation no longer checks: %s" % failed, {"obligation": failed}, nofail=True)
    return res.finish("proof")
