"""C10 — editing a machine's topology never corrupts the bonds it does not touch."""
import json
import random
import re
import common as C

KIND = {0: "BI", 1: "BO", 2: "PI", 3: "PO"}
NAT = r"(0|[1-9][0-9]{0,3})"
NAME_RES = [(re.compile(r"^i%s$" % NAT), "BI"), (re.compile(r"^o%s$" % NAT), "BO"),
            (re.compile(r"^p%si%s$" % (NAT, NAT)), "PI"), (re.compile(r"^p%so%s$" % (NAT, NAT)), "PO")]


def ep_term(t):
    k, r, e = t
    if k not in KIND or r < 0 or e < 0 or (k < 2 and e != 0):
        return None
    return "(%s %d)" % (KIND[k], r) if k < 2 else "(%s %d %d)" % (KIND[k], r, e)


def name_term(s):
    for rx, k in NAME_RES:
        m = rx.match(s)
        if m:
            return "(Name (%s %s))" % (k, " ".join(m.groups()))
    return "Junk"


def op_term(o):
    n = o["op"]
    if n in ("AddInput", "AddOutput"):
        return n
    if n in ("DelInput", "DelOutput", "AddProc", "DelBond"):
        return "(%s %s)" % (n, C.cq_Z(o.get("i", 0)))
    return "(%s %s %s)" % (n, name_term(o.get("a", "")), name_term(o.get("b", "")))


def state_term(s):
    eps_in = [ep_term(t) for t in (s["iin"] or [])]
    eps_out = [ep_term(t) for t in (s["iout"] or [])]
    if None in eps_in or None in eps_out or any(l < -1 for l in s["links"] or []):
        return None
    links = ["None" if l == -1 else "(Some %d)" % l for l in (s["links"] or [])]
    oc = {"done": "Done", "err": "Err", "panic": "Panic"}[s["outcome"]]
    doms = ["(%d, %d)" % tuple(d) for d in (s["doms"] or [])]
    return "(%s, mkBM %d %d %s %s %s %s %s)" % (
        oc, s["inputs"], s["outputs"], C.cq_list(doms), C.cq_list([str(p) for p in s["procs"] or []]),
        C.cq_list(eps_in), C.cq_list(eps_out), C.cq_list(links))


def py_name(t):
    k, r, e = t
    return {0: "i%d" % r, 1: "o%d" % r, 2: "p%di%d" % (r, e), 3: "p%do%d" % (r, e)}.get(k, "?")


def api_lists_consistent(s):
    """List_bonds / List_internal_* must agree with the raw fields (Go vs Go sanity)."""
    if s["bonds"] and s["bonds"][0][0] == "panic":
        return False
    if (s["lin"] or []) != [py_name(t) for t in (s["iin"] or [])]:
        return False
    if (s["lout"] or []) != [py_name(t) for t in (s["iout"] or [])]:
        return False
    want = []
    for i, l in enumerate(s["links"] or []):
        if l != -1:
            if l >= len(s["iout"] or []):
                return False
            want.append([str(i), py_name(s["iout"][l]) + "," + py_name(s["iin"][i])])
    return (s["bonds"] or []) == want


def case_term(c):
    sts = [state_term(s) for s in c["states"]]
    if None in sts:
        return None
    doms = ["(%d, %d)" % tuple(d) for d in c["doms"]]
    return "(%s, %s, %s)" % (C.cq_list(doms), C.cq_list([op_term(o) for o in c["ops"]]), C.cq_list(sts))


CODES = {1: "model and implementation disagree", 2: "observed state is not well formed",
         3: "observed edit does not refine the name-level bond specification", 9: "trace length mismatch"}


def evaluate(cases):
    """returns {case index: [(step, code)...]} for failing cases"""
    bad = {}
    terms = []
    idx = []
    for k, c in enumerate(cases):
        t = case_term(c)
        if t is None:
            bad[k] = [(0, 2)]
            continue
        for st_i, s in enumerate(c["states"]):
            if not api_lists_consistent(s):
                bad.setdefault(k, []).append((st_i, 4))
        terms.append(t)
        idx.append(k)
    shards = [(idx[i:i + 60], terms[i:i + 60]) for i in range(0, len(terms), 60)]
    bodies = []
    for ids, ts in shards:
        bodies.append("From Coq Require Import List ZArith. Import ListNotations.\n"
                      "From BM Require Import Net.Topo Net.TopoCheck.\n"
                      "Definition cases := %s.\n"
                      "Definition M := Eval vm_compute in map check_case cases.\n" % C.cq_list(["\n" + t for t in ts]))
    outs = C.eval_cases_parallel("C10", bodies)
    for (ids, _), o in zip(shards, outs):
        for k, fails in zip(ids, o["M"]):
            if fails:
                bad.setdefault(k, []).extend([tuple(f) for f in fails])
    return bad


def shrink(case, fails_fn):
    """drop ops while the case still fails"""
    ops = list(case["ops"])
    i = len(ops) - 1
    while i >= 0 and len(ops) > 1:
        trial = ops[:i] + ops[i + 1:]
        c2 = run_ops(case["doms"], trial)
        if fails_fn(c2):
            ops = trial
        i -= 1
    return run_ops(case["doms"], ops)


def run_ops(doms, ops):
    import os
    import tempfile
    fd, p = tempfile.mkstemp(suffix=".json")
    with os.fdopen(fd, "w") as f:
        json.dump({"doms": doms, "ops": ops}, f)
    try:
        out = C.run_harness(["c10", "-replay", p]).stdout
    finally:
        os.remove(p)
    return C.jsonl(out)[0]


def cli_part(res, rnd, a):
    """the edit flags of cmd/bondmachine applied to a machine file, against the same edits made through the API (which the model
    is tied to): deleting a list of inputs/outputs removes exactly the named ones whatever the order they are listed in"""
    import os, shutil, subprocess, tempfile
    import c07
    c07.build_tools()
    viol, done = [], 0
    hist = {}
    named_cases = []
    work = tempfile.mkdtemp(prefix="verif-c10-")
    try:
        for k in range(6 if a.tier == "quick" else 40):
            nproc = rnd.choice([1, 2, 3])
            procs = []
            for p in range(nproc):
                N, M = rnd.choice([1, 2, 3]), rnd.choice([1, 2, 3])
                procs.append({"arch": {"R": 1, "N": N, "M": M, "L": 0, "O": 2, "ops": ["i2r", "j", "nop", "r2o"], "mode": "ha", "rsize": 8}, "prog": ["nop", "j 0"]})
            nin, nout = rnd.randint(1, 4), rnd.randint(2, 5)
            ins = ["p%di%d" % (p, i) for p, pr in enumerate(procs) for i in range(pr["arch"]["N"])] + ["o%d" % i for i in range(nout)]
            outs = ["p%do%d" % (p, i) for p, pr in enumerate(procs) for i in range(pr["arch"]["M"])] + ["i%d" % i for i in range(nin)]
            bonds = []
            for e in ins:
                if rnd.random() < 0.75:
                    bonds.append([e, rnd.choice(outs)])
            spec = {"rsize": 8, "procs": procs, "inputs": nin, "outputs": nout, "bonds": bonds}
            saved = C.jsonl(C.sh([C.BMH, "c11", "save"], input=json.dumps({"bm": spec}) + "\n").stdout)[0]
            if saved.get("err") or not saved.get("json"):
                raise C.Broken("c11 save: %s" % saved.get("err"))
            d = os.path.join(work, "m%d" % k)
            os.mkdir(d)
            open(os.path.join(d, "bm.json"), "w").write(saved["json"])
            cur_in, cur_out, nlinks = nin, nout, len(ins)
            cli, ops = [], []
            for _ in range(rnd.randint(3, 7)):
                c = rnd.randrange(7)
                if c == 0:
                    n_ = rnd.randint(1, 2)
                    cli.append(["-add-inputs", str(n_)]); ops += [{"op": "AddInput"}] * n_; cur_in += n_
                elif c == 1:
                    n_ = rnd.randint(1, 2)
                    cli.append(["-add-outputs", str(n_)]); ops += [{"op": "AddOutput"}] * n_; cur_out += n_; nlinks += n_
                elif c in (2, 3) and (cur_in if c == 2 else cur_out) > 0:
                    cnt = cur_in if c == 2 else cur_out
                    lst = [rnd.randrange(cnt + 1) for _ in range(rnd.randint(1, 3))]      # any order, repeats, one past the end
                    cli.append(["-del-inputs" if c == 2 else "-del-outputs", ",".join(str(x) for x in lst)])
                    # the ids that exist, once each (Net/TopoCli.v `named`, evaluated in Coq below and compared with this reading)
                    keep = []
                    for x in lst:
                        if x not in keep and x < cnt:
                            keep.append(x)
                    named_cases.append((lst, cnt, sorted(keep)))
                    for x in sorted(keep, reverse=True):
                        ops.append({"op": "DelInput" if c == 2 else "DelOutput", "i": x})
                    if c == 2:
                        cur_in -= len(keep)
                    else:
                        cur_out -= len(keep); nlinks -= len(keep)
                elif c == 4:
                    e1 = rnd.choice(["p%di%d" % (rnd.randrange(nproc), rnd.randrange(3)), "o%d" % rnd.randrange(max(cur_out, 1))])
                    e2 = rnd.choice(["p%do%d" % (rnd.randrange(nproc), rnd.randrange(3)), "i%d" % rnd.randrange(max(cur_in, 1))])
                    pair = [e1, e2] if rnd.random() < 0.5 else [e2, e1]
                    cli.append(["-add-bond", ",".join(pair)]); ops.append({"op": "AddBond", "a": pair[0], "b": pair[1]})
                elif c == 5 and nlinks > 0:
                    lst = [rnd.randrange(nlinks) for _ in range(rnd.randint(1, 2))]
                    cli.append(["-del-bonds", ",".join(str(x) for x in lst)]); ops += [{"op": "DelBond", "i": x} for x in lst]
                else:
                    dom = rnd.randrange(nproc)
                    cli.append(["-add-processor", str(dom)]); ops.append({"op": "AddProc", "i": dom}); nlinks += procs[dom]["arch"]["N"]
            # every history ends with a list deletion given in descending order of at least two existing ids, when there are that many
            for flag, opn, cnt in (("-del-outputs", "DelOutput", cur_out), ("-del-inputs", "DelInput", cur_in)):
                if cnt >= 2:
                    lst = sorted(rnd.sample(range(cnt), rnd.randint(2, min(3, cnt))), reverse=True)
                    cli.append([flag, ",".join(str(x) for x in lst)])
                    named_cases.append((lst, cnt, sorted(lst)))
                    for x in lst:
                        ops.append({"op": opn, "i": x})
            meta = {"machine": spec, "commands": [" ".join(x) for x in cli]}
            res.count_case(meta, nontrivial=True)
            bad = None
            for args in cli:
                hist[args[0]] = hist.get(args[0], 0) + 1
                p = subprocess.run([c07.tool("bondmachine"), "-bondmachine-file", "bm.json"] + args, cwd=d, env=C.GOENV,
                                   stdout=subprocess.PIPE, stderr=subprocess.STDOUT, text=True, timeout=120)
                if p.returncode != 0:
                    bad = "bondmachine %s fails: %s" % (" ".join(args), p.stdout[-300:])
                    break
            if bad:
                viol.append((bad, meta))
                continue
            final = open(os.path.join(d, "bm.json")).read()
            got, want = C.jsonl(C.sh([C.BMH, "c10json"], input=json.dumps({"json": final, "ops": []}) + "\n" +
                                     json.dumps({"json": saved["json"], "ops": ops}) + "\n").stdout)
            done += 1
            keys = ("inputs", "outputs", "procs", "iin", "iout", "links", "bonds")
            diff = [x for x in keys if got.get(x) != want.get(x)]
            if diff:
                viol.append(("after the commands %s the machine file has %s = %s; the same edits through the API give %s"
                             % (meta["commands"], diff[0], got.get(diff[0]), want.get(diff[0])), meta))
    finally:
        shutil.rmtree(work, ignore_errors=True)
    if named_cases:
        body = ("From Coq Require Import List Arith.\nFrom BM Require Import Net.TopoCli.\nImport ListNotations.\n"
                "Definition M := Eval vm_compute in %s.\n" % C.cq_list(["named %s %d" % (C.cq_list([str(x) for x in l]), n) for l, n, _ in named_cases]))
        for (l, n, keep), m in zip(named_cases, C.eval_cases("C10", "cli", body)["M"]):
            if list(m) != keep:
                viol.append(("the model's reading of the id list %s over %d ports is %s, the driver's %s" % (l, n, list(m), keep), {"ids": l, "ports": n}))
    return viol, done, hist


def run(res, a):
    failed = C.proof_part(res, "C10", trusted=[
        "harness/c10.go + lib/c10.py (name parser, term printer) as the tie",
        "model: coq/theories/Net/Topo.v (hand-written transcription of the edit functions)"])
    C.build_harness()
    if a.replay:
        r = json.load(open(a.replay))["replay"]
        cases = [run_ops(r["doms"], r["ops"])]
    else:
        n, maxlen = (400, 40) if a.tier == "quick" else (6000, 80)
        out = C.run_harness(["c10", "-seed", a.seed, "-n", n, "-maxlen", maxlen]).stdout
        cases = C.jsonl(out)
    hist = {}
    outcomes = {}
    for c in cases:
        bonded = any(l != -1 for s in c["states"] for l in (s["links"] or []))
        res.count_case({"d": c["doms"], "o": c["ops"]}, nontrivial=bonded and len(c["ops"]) >= 3)
        for o, s in zip(c["ops"], c["states"]):
            hist[o["op"]] = hist.get(o["op"], 0) + 1
            outcomes[s["outcome"]] = outcomes.get(s["outcome"], 0) + 1
    bad = evaluate(cases)
    cov = res.coverage
    cov["rule"] = ("random edit histories (seeded; biased to deleting low/middle ports and to existing endpoint names, "
                   "with negative/too-large indices and junk names mixed in); non-trivial = at least 3 edits and "
                   "at least one bond present at some point; distinct by hash of (domains, ops)")
    cov["operation_histogram"] = hist
    cov["outcome_histogram"] = outcomes
    cov["history_length_max"] = max(len(c["ops"]) for c in cases)
    cov["traces_validated_against_impl"] = len(cases) - len(bad)
    cov["samples"] = [{"doms": c["doms"], "ops": c["ops"]} for c in cases[:2]]
    for k in sorted(bad)[:3]:
        c = cases[k]

        def still(c2):
            return bool(evaluate([c2]))
        small = shrink(c, still) if len(c["ops"]) > 1 else c
        fl = evaluate([small]).get(0, bad[k])
        fl = sorted(fl, key=lambda f: (0 if f[1] in (2, 3) else 1, f[0]))  # property failures before model mismatches
        step, code = fl[0]
        res.violation("C10 %s at edit %d of history %s" % (CODES.get(code, "API listing inconsistent with raw fields"),
                                                          step, json.dumps(small["ops"])),
                      {"doms": small["doms"], "ops": small["ops"], "failures": fl, "seed": c.get("seed")})
    cli_viol, cli_done, cli_hist = cli_part(res, random.Random(a.seed), a)
    cov["command_line_histories_compared"] = cli_done
    cov["command_line_flag_histogram"] = cli_hist
    for text, meta in cli_viol[:3]:
        res.violation("C10 " + text, meta)
    if failed and not bad and not cli_viol:
        res.violation("C10 proof obligation no longer checks: %s" % failed, {"obligation": failed}, nofail=True)
    return res.finish("proof")
