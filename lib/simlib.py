"""Shared helpers for the properties that run the Go simulator against Isa.Sim / Net.Tick:
random machines over the modelled instruction set, open-loop environments, Coq term printers."""
import json

import common as C
import c10

TWO_REG = {"add": "IAdd", "sub": "ISub", "mult": "IMult", "cpy": "ICpy", "and": "IAnd", "or": "IOr", "xor": "IXor", "not": "INot",
           "nand": "INand", "nor": "INor", "xnor": "IXnor"}
ONE_REG = {"clr": "IClr", "inc": "IInc", "dec": "IDec"}
MODELLED = sorted(list(TWO_REG) + list(ONE_REG) + ["rset", "j", "jz", "nop", "i2r", "r2o", "i2rw", "r2owa"])


def reg(tok):
    assert tok[0] == "r"
    return int(tok[1:])


def instr_term(line):
    """disassembled line -> Isa.Sim.instr term, or None if the opcode is outside the model"""
    w = line.split()
    if not w:
        return None
    op = w[0]
    try:
        if op in TWO_REG:
            return "(%s %d %d)" % (TWO_REG[op], reg(w[1]), reg(w[2]))
        if op in ONE_REG:
            return "(%s %d)" % (ONE_REG[op], reg(w[1]))
        if op == "rset":
            return "(IRset %d %s%%N)" % (reg(w[1]), w[2])
        if op == "j":
            return "(IJ %s%%N)" % w[1]
        if op == "jz":
            return "(IJz %d %s%%N)" % (reg(w[1]), w[2])
        if op == "nop":
            return "INop"
        if op == "i2r":
            return "(II2r %d %d)" % (reg(w[1]), int(w[2][1:]))
        if op == "i2rw":
            return "(II2rw %d %d)" % (reg(w[1]), int(w[2][1:]))
        if op == "r2o":
            return "(IR2o %d %d)" % (reg(w[1]), int(w[2][1:]))
        if op == "r2owa":
            return "(IR2owa %d %d)" % (reg(w[1]), int(w[2][1:]))
    except (IndexError, ValueError, AssertionError):
        return None
    return None


def topo_term(t):
    eps_in = [c10.ep_term(x) for x in (t["iin"] or [])]
    eps_out = [c10.ep_term(x) for x in (t["iout"] or [])]
    links = ["None" if l == -1 else "(Some %d)" % l for l in (t["links"] or [])]
    doms = ["(%d, %d)" % tuple(d) for d in (t["doms"] or [])]
    return "(mkBM %d %d %s %s %s %s %s)" % (t["inputs"], t["outputs"], C.cq_list(doms), C.cq_list([str(p) for p in t["procs"] or []]),
                                            C.cq_list(eps_in), C.cq_list(eps_out), C.cq_list(links))


def bl(l):
    return "(%s : list bool)" % C.cq_list([C.cq_bool(b) for b in (l or [])])


def nl(l):
    return "(%s : list N)" % C.cq_list(["%d%%N" % v for v in (l or [])])


def vobs_term(t):
    procs = ["(%d%%N, %s, %s, %s, %s, %s, %s, %s)" % (p["pc"], nl(p["regs"]), nl(p["in"]), bl(p["inv"]), bl(p["inr"]), nl(p["out"]),
                                                    bl(p["outv"]), bl(p["outr"])) for p in t.get("procs") or []]
    return "(mkVobs %s %s %s %s %s %s %s %s %s %s %s %s %s)" % (
        C.cq_list(procs), nl(t["in"]), bl(t["inv"]), bl(t["inr"]), nl(t["out"]), bl(t["outv"]), bl(t["outr"]),
        nl(t.get("iin")), bl(t.get("iinv")), bl(t.get("iinr")), nl(t.get("iout")), bl(t.get("ioutv")), bl(t.get("ioutr")))


def env_term(e):
    ins = ["(%d%%N, %s)" % (v, C.cq_bool(bool(b))) for v, b in e.get("in", [])]
    outs = ["None" if r < 0 else "(Some %s)" % C.cq_bool(bool(r)) for r in e.get("outrecv", [])]
    return "((%s : list (N * bool)), (%s : list (option bool)))" % (C.cq_list(ins), C.cq_list(outs))


def cfg_term(res):
    """list proc + rbits from the harness answer (programs as disassembled by the implementation)"""
    procs, rbits = [], []
    for info, prog in zip(res["procinfo"], res["progs"]):
        terms = [instr_term(l) for l in prog]
        if None in terms:
            return None, None
        procs.append("(mkProc %d%%N %s)" % (info[0], C.cq_list(terms)))
        rbits.append(str(info[1]))
    return C.cq_list(procs), C.cq_list(rbits)


HEADER = ("From Coq Require Import List NArith Bool.\nFrom BM Require Import Net.Topo Isa.Sim Net.Tick Net.TickCheck.\n"
          "Import ListNotations.\n")


def case_term(req, res):
    cfg, rbits = cfg_term(res)
    if cfg is None:
        return None
    envs = [env_term(e) for e in req["env"][:req["ticks"]]]
    return "(%s, %s, %s, %s, %s)" % (topo_term(res["topo"]), cfg, rbits, C.cq_list(envs), C.cq_list([vobs_term(t) for t in res["ticks"]]))


def model_mismatches(pid, pairs, shard=12):
    """pairs: [(req, res)] -> {index: first differing tick}"""
    terms, idxs = [], []
    for k, (q, r) in enumerate(pairs):
        if r.get("err"):
            continue
        t = case_term(q, r)
        if t is not None:
            terms.append(t)
            idxs.append(k)
    bodies = []
    groups = [list(range(i, min(i + shard, len(terms)))) for i in range(0, len(terms), shard)]
    for g in groups:
        bodies.append(HEADER + "Definition cases := %s.\nDefinition M := Eval vm_compute in map (fun c => match c with (t, cfg, rb, envs, obs) => "
                      "match check_sim t cfg rb envs obs with Some k => [N.of_nat k] | None => [] end end) cases.\n"
                      % C.cq_list(["\n" + terms[i] for i in g]))
    bad = {}
    for g, o in zip(groups, C.eval_cases_parallel(pid, bodies, timeout=3000)):
        for i, r in zip(g, o["M"]):
            if r:
                bad[idxs[i]] = r[0]
    return bad, len(terms)


# ------------------------------------------------------------------------------------------------ generators

def gen_program(rnd, R, N, M, O, n, io_style):
    """a program over the modelled set; io_style: 'plain' (i2r/r2o) or 'hs' (i2rw/r2owa)"""
    nreg = 1 << R
    lines = []
    maxlen = min(n, 1 << O)
    for _ in range(maxlen):
        k = rnd.randrange(100)
        r1, r2 = rnd.randrange(nreg), rnd.randrange(nreg)
        if k < 30:
            lines.append("%s r%d r%d" % (rnd.choice(list(TWO_REG)), r1, r2))
        elif k < 45:
            lines.append("%s r%d" % (rnd.choice(list(ONE_REG)), r1))
        elif k < 58:
            lines.append("rset r%d %d" % (r1, rnd.choice([0, 1, 2, 5, 127, 255, rnd.randrange(256)])))
        elif k < 66 and N:
            lines.append("%s r%d i%d" % ("i2rw" if io_style == "hs" else "i2r", r1, rnd.randrange(N)))
        elif k < 78 and M:
            lines.append("%s r%d o%d" % ("r2owa" if io_style == "hs" else "r2o", r1, rnd.randrange(M)))
        elif k < 86:
            lines.append("jz r%d %d" % (r1, rnd.randrange(maxlen)))
        elif k < 92:
            lines.append("j %d" % rnd.randrange(maxlen + (1 if rnd.random() < 0.1 else 0)))
        else:
            lines.append("nop")
    return lines


def ops_for(prog, extra=()):
    return sorted(set(l.split()[0] for l in prog) | set(extra) | {"nop"})


def gen_machine(rnd, nproc=None, io_style=None, rsize=None):
    rsize = rsize or rnd.choice([8, 8, 16, 32, 64])
    nproc = nproc or rnd.choice([1, 1, 2, 3])
    io_style = io_style or rnd.choice(["plain", "hs"])
    procs = []
    for _ in range(nproc):
        R, N, M, O = rnd.choice([1, 2, 3]), rnd.choice([0, 1, 2]), rnd.choice([0, 1, 2]), rnd.choice([2, 3, 4])
        prog = gen_program(rnd, R, N, M, O, rnd.randint(2, 14), io_style)
        procs.append({"arch": {"R": R, "N": N, "M": M, "L": 0, "O": O, "ops": ops_for(prog, ["j"]), "mode": "ha", "rsize": rsize},
                      "prog": prog})
    spec = {"rsize": rsize, "procs": procs, "inputs": rnd.choice([0, 1, 2]), "outputs": rnd.choice([0, 1, 2]), "bonds": []}
    ins = ["p%di%d" % (p, i) for p, pr in enumerate(procs) for i in range(pr["arch"]["N"])] + ["o%d" % i for i in range(spec["outputs"])]
    outs = ["p%do%d" % (p, i) for p, pr in enumerate(procs) for i in range(pr["arch"]["M"])] + ["i%d" % i for i in range(spec["inputs"])]
    for e in ins:
        if outs and rnd.random() < 0.85:
            spec["bonds"].append([e, rnd.choice(outs)])
    return spec


def gen_env(rnd, spec, ticks, rsize):
    """open-loop external environment: input values/valid toggling, output received flags"""
    env = []
    vals = [[rnd.randrange(1 << min(rsize, 16)), 0] for _ in range(spec["inputs"])]
    for _ in range(ticks):
        for v in vals:
            if rnd.random() < 0.3:
                v[1] ^= 1
            if rnd.random() < 0.2:
                v[0] = rnd.randrange(1 << min(rsize, 16))
        env.append({"in": [list(v) for v in vals], "outrecv": [rnd.choice([-1, -1, 0, 1]) for _ in range(spec["outputs"])]})
    return env


def run_sims(reqs, timeout=1800):
    """simulate every request in one harness process; when that process dies (a panic in a simulator goroutine cannot be recovered),
    the requests are run one by one so that the one that kills it is known: its answer is {"err": "the simulator process dies: ..."}"""
    p = C.sh([C.BMH, "sim"], input="".join(json.dumps(r) + "\n" for r in reqs), timeout=timeout, check=False)
    out = C.jsonl(p.stdout) if p.returncode == 0 else []
    if p.returncode == 0 and len(out) == len(reqs):
        return out
    if len(reqs) == 1:
        why = [l for l in p.stderr.splitlines() if l.startswith("panic") or l.startswith("fatal error")]
        return [{"err": "the simulator process dies: %s" % (why or [p.stderr.strip()[-300:] or "exit %d" % p.returncode])[0]}]
    out = []
    for r in reqs:
        out += run_sims([r], timeout=timeout)
    return out
