"""C07 — every build step is a function of its inputs."""
import glob
import hashlib
import json
import os
import random
import shutil
import subprocess
import tempfile
from concurrent.futures import ThreadPoolExecutor

import common as C
import c08
import c12

TOOLS = ["basm", "bondgo", "neuralbond", "bmqsim", "bondmachine"]
SITE_DIRS = ("pkg/basm pkg/bmreqs pkg/bmnumbers pkg/bondgo pkg/neuralbond pkg/bondmachine pkg/bmqsim pkg/procbuilder pkg/bmline pkg/bmmeta "
             "pkg/bmbuilder pkg/bmmatrix cmd/basm cmd/bondgo cmd/neuralbond cmd/bmqsim cmd/bondmachine").split()
SITE_TABLE = os.path.join(C.VERIF, "translators", "c07_sites.json")
HARMLESS = {"display", "commuting", "sorted-after", "not-a-build-step"}
# which theorem carries each harmless class
CLASS_THEOREM = {"commuting": "commuting_visits_are_order_free / keyed_writes_are_order_free / max_requirement_is_order_free",
                 "sorted-after": "sorted_emission_is_order_free / opcode_list_is_order_free",
                 "display": "(not on the path to an artefact)", "not-a-build-step": "(outside the five build tools)"}


def tool(name):
    return os.path.join(C.BUILD, name)


def build_tools():
    def one(t):
        p = C.sh(["go", "build", "-tags", "verif", "-o", tool(t), "./cmd/" + t], cwd=C.REPO, check=False, timeout=1800)
        return t, p
    with ThreadPoolExecutor(max_workers=5) as ex:
        for t, p in ex.map(one, TOOLS):
            if p.returncode != 0:
                raise C.Broken("cmd/%s does not build:\n%s" % (t, p.stderr[-2000:]))


def run_tool(args, cwd, gomaxprocs, timeout=120):
    env = dict(C.GOENV)
    env["GOMAXPROCS"] = str(gomaxprocs)
    try:
        p = subprocess.run(args, cwd=cwd, env=env, stdout=subprocess.PIPE, stderr=subprocess.STDOUT, text=True, timeout=timeout)
        return p.returncode, p.stdout
    except subprocess.TimeoutExpired:
        return 124, "timeout"


def h(b):
    return hashlib.sha256(b if isinstance(b, bytes) else b.encode()).hexdigest()[:20]


def read(path):
    try:
        return open(path, "rb").read()
    except OSError:
        return None


# ------------------------------------------------------------------ pipelines: each returns {artefact: bytes}

def pipe_basm(work, gmp, srcs, flags):
    rc, out = run_tool([tool("basm")] + flags + ["-o", "out.json", "-dump-requirements", "req.json"] + srcs, work, gmp)
    return {"rc": str(rc).encode(), "bondmachine.json": read(os.path.join(work, "out.json")) or b"",
            "requirements.json": read(os.path.join(work, "req.json")) or b""}


def pipe_bondgo_mpm(work, gmp, srcfile):
    shutil.copy(srcfile, os.path.join(work, "p.go"))
    rc, out = run_tool([tool("bondgo"), "-input-file", "p.go", "-register-size", "8", "-mpm", "-save-assembly", "out.asm", "-save-bondmachine", "bm.json"], work, gmp)
    res = {"rc": str(rc).encode(), "bondmachine.json": read(os.path.join(work, "bm.json")) or b""}
    for f in sorted(glob.glob(os.path.join(work, "out.asm_*"))):
        res[os.path.basename(f)] = read(f) or b""
    return res


def pipe_bondgo(work, gmp, src, rsize):
    open(os.path.join(work, "p.go"), "w").write(src)
    rc, out = run_tool([tool("bondgo"), "-input-file", "p.go", "-register-size", str(rsize), "-save-assembly", "out.asm", "-show-requirements"], work, gmp)
    return {"rc": str(rc).encode(), "assembly": read(os.path.join(work, "out.asm")) or b"", "requirements": out.encode()}


def pipe_neuralbond(work, gmp, net, mode):
    open(os.path.join(work, "cfg.json"), "w").write('{"Params":{"expprec":"8"}}')
    rc, out = run_tool([tool("neuralbond"), "-net-file", net, "-config-file", "cfg.json", "-neuron-lib-path", os.path.join(C.REPO, "library/neurons"),
                        "-operating-mode", mode, "-save-basm", "net.basm"], work, gmp)
    res = {"rc": str(rc).encode(), "net.basm": read(os.path.join(work, "net.basm")) or b""}
    lib = sorted(glob.glob(os.path.join(C.REPO, "library/neurons", ("frag-" if mode == "fragment" else "rom-") + "*.basm")))
    rc2, _ = run_tool([tool("basm"), "-disable-dynamical-matching", "-o", "out.json"] + lib + ["net.basm"], work, gmp)
    res["rc-basm"] = str(rc2).encode()
    res["bondmachine.json"] = read(os.path.join(work, "out.json")) or b""
    return res


def pipe_bmqsim(work, gmp, bmq, flavor):
    open(os.path.join(work, "c.bmq"), "w").write(bmq)
    rc, out = run_tool([tool("bmqsim"), "-build-matrix-seq-hardcoded", "-hw-flavor", flavor, "-save-basm", "c.basm", "c.bmq"], work, gmp)
    res = {"rc": str(rc).encode(), "c.basm": read(os.path.join(work, "c.basm")) or b""}
    rc2, _ = run_tool([tool("basm"), "-disable-dynamical-matching", "-o", "out.json", "c.basm"], work, gmp)
    res["rc-basm"] = str(rc2).encode()
    res["bondmachine.json"] = read(os.path.join(work, "out.json")) or b""
    return res


def pipe_verilog(work, gmp, bmjson):
    open(os.path.join(work, "bm.json"), "wb").write(bmjson)
    vd = os.path.join(work, "v")
    os.mkdir(vd)
    rc, out = run_tool([tool("bondmachine"), "-bondmachine-file", "../bm.json", "-create-verilog"], vd, gmp)
    res = {"rc": str(rc).encode()}
    for f in sorted(os.listdir(vd)):
        res[f] = read(os.path.join(vd, f)) or b""
    return res


def pipe_verilog_bmapi(work, gmp, bmjson, flavor="aximm"):
    """HDL generation with the BMAPI interface (AXI memory mapped or AXI stream): every input and output of the machine is mapped"""
    import json as _json
    open(os.path.join(work, "bm.json"), "wb").write(bmjson)
    bm = _json.loads(bmjson)
    assoc = {"i%d" % i: str(i) for i in range(bm.get("Inputs", 0))}
    assoc.update({"o%d" % i: str(i) for i in range(bm.get("Outputs", 0))})
    open(os.path.join(work, "map.json"), "w").write(_json.dumps({"Assoc": assoc}, sort_keys=True))
    vd = os.path.join(work, "v")
    os.mkdir(vd)
    rc, out = run_tool([tool("bondmachine"), "-bondmachine-file", "../bm.json", "-create-verilog", "-verilog-flavor", "zedboard", "-use-bmapi",
                        "-bmapi-flavor", flavor, "-bmapi-mapfile", "../map.json", "-bmapi-liboutdir", "lib", "-bmapi-modoutdir", "mod",
                        "-bmapi-auxoutdir", "aux"] +
                       (["-bmapi-flavor-version", "basic", "-bmapi-language", "python", "-bmapi-framework", "pynq", "-bmapi-packagename", "p",
                         "-bmapi-modulename", "m"] if flavor == "axist" else []), vd, gmp)
    res = {"rc": str(rc).encode()}
    for root, _, files in os.walk(vd):
        for f in sorted(files):
            res[os.path.relpath(os.path.join(root, f), vd)] = read(os.path.join(root, f)) or b""
    return res


def pipe_verilog_etherbond(work, gmp, bmjson):
    """HDL generation for a board with the etherbond transceiver: the machine's inputs and outputs are mapped on cluster-wide ids"""
    import json as _json
    open(os.path.join(work, "bm.json"), "wb").write(bmjson)
    bm = _json.loads(bmjson)
    ni, no = bm.get("Inputs", 0), bm.get("Outputs", 0)
    assoc = {"i%d" % i: str(10 + i) for i in range(ni)}
    assoc.update({"o%d" % i: str(20 + i) for i in range(no)})
    open(os.path.join(work, "ethmap.json"), "w").write(_json.dumps({"Assoc": assoc}, sort_keys=True))
    cluster = {"ClusterId": 1, "Peers": [
        {"PeerId": 1, "PeerName": "", "Channels": [], "Inputs": [10 + i for i in range(ni)], "Outputs": [20 + i for i in range(no)]},
        {"PeerId": 2, "PeerName": "", "Channels": [], "Inputs": [20 + i for i in range(no)], "Outputs": [10 + i for i in range(ni)]}]}
    open(os.path.join(work, "cluster.json"), "w").write(_json.dumps(cluster))
    vd = os.path.join(work, "v")
    os.mkdir(vd)
    rc, out = run_tool([tool("bondmachine"), "-bondmachine-file", "../bm.json", "-register-size", "8", "-create-verilog", "-verilog-flavor", "basys3",
                        "-use-etherbond", "-cluster-spec", "../cluster.json", "-etherbond-mapfile", "../ethmap.json", "-peer-id", "1"], vd, gmp)
    res = {"rc": str(rc).encode()}
    for root, _, files in os.walk(vd):
        for f in sorted(files):
            res[os.path.relpath(os.path.join(root, f), vd)] = read(os.path.join(root, f)) or b""
    return res


def gen_bmq(rnd):
    n = rnd.choice([1, 2, 2, 3])
    qs = ["q%d" % i for i in range(n)]
    lines = ["%block code1 .sequential", "\tqbits\t" + ",".join(qs), "\tzero\t" + ",".join(qs)]
    for _ in range(rnd.randint(1, 4)):
        if n >= 2 and rnd.random() < 0.4:
            a, b = rnd.sample(qs, 2)
            lines.append("\t%s\t%s,%s" % (rnd.choice(["cx", "cz", "swap"]), a, b))
        else:
            lines.append("\t%s\t%s" % (rnd.choice(["h", "x", "y", "z", "s", "t"]), rnd.choice(qs)))
    lines += ["%endblock", "", "%meta bmdef global main:code1", ""]
    return "\n".join(lines)


def flavor_for(rnd, bmq):
    """the real-number flavor only accepts circuits whose matrices are real"""
    ops = [l.split()[0] for l in bmq.splitlines() if l.startswith("\t")]
    if any(o in ("y", "s", "t") for o in ops):
        return "seq_hardcoded_complex"
    return rnd.choice(["seq_hardcoded_real", "seq_hardcoded_complex"])


def jobs_for(rnd, tier):
    """(name, function(work, gmp) -> artefacts)"""
    jobs = []
    corpus = sorted(glob.glob(os.path.join(C.VERIF, "corpus/basm/*.basm")))
    for src in corpus:
        jobs.append(("basm:" + os.path.basename(src), lambda w, g, s=src: pipe_basm(w, g, [s], ["-disable-dynamical-matching"])))
        jobs.append(("basm-chooser:" + os.path.basename(src), lambda w, g, s=src: pipe_basm(w, g, [s], ["-chooser-min-word-size"])))
    for k in range(3 if tier == "quick" else 12):
        nouts, stmts = c12.gen_prog(rnd)
        stmts = [(s[0], s[1], c12.normalise(s[2])) if s[0] in ("assign", "write") else s for s in stmts]
        rs = rnd.choice([8, 16, 32])
        jobs.append(("bondgo:prog%d" % k, lambda w, g, s=c12.go_source(nouts, stmts, rs), r=rs: pipe_bondgo(w, g, s, r)))
    for src in sorted(glob.glob(os.path.join(C.VERIF, "corpus/bondgo/*.go"))):
        jobs.append(("bondgo-mpm:" + os.path.basename(src), lambda w, g, s=src: pipe_bondgo_mpm(w, g, s)))
    nets = [os.path.join(C.REPO, "cmd/neuralbond", n) for n in ("net-testsmall.json", "net-testnormal.json")]
    for net in nets[:1 if tier == "quick" else 2]:
        for mode in ("romcode", "fragment"):
            jobs.append(("neuralbond:%s:%s" % (os.path.basename(net), mode), lambda w, g, n=net, m=mode: pipe_neuralbond(w, g, n, m)))
    for k in range(2 if tier == "quick" else 8):
        bmq = gen_bmq(rnd)
        fl = flavor_for(rnd, bmq)
        jobs.append(("bmqsim:circ%d:%s" % (k, fl), lambda w, g, b=bmq, f=fl: pipe_bmqsim(w, g, b, f)))
    return jobs


def repeat(job, runs):
    """run a pipeline `runs` times in fresh processes with varied GOMAXPROCS -> list of {artefact: hash}, first artefacts"""
    name, fn = job
    outs, first = [], None
    for r in range(runs):
        work = tempfile.mkdtemp(prefix="verif-c07-")
        try:
            arts = fn(work, [1, 2, 4, 16][r % 4])
        finally:
            shutil.rmtree(work, ignore_errors=True)
        if first is None:
            first = arts
        outs.append(({k: h(v) for k, v in arts.items()}, arts))
    return name, outs


def first_difference(a, b):
    la, lb = a.decode(errors="replace").split("\n"), b.decode(errors="replace").split("\n")
    for i, (x, y) in enumerate(zip(la, lb)):
        if x != y:
            return "line %d: %r vs %r" % (i + 1, x[:160], y[:160])
    return "length %d vs %d lines" % (len(la), len(lb))


def site_inventory():
    # the inventory is a function of the source text: reuse it while no file of the listed packages changed
    hh = hashlib.sha256()
    for d in SITE_DIRS:
        for f in sorted(glob.glob(os.path.join(C.REPO, d, "*.go"))):
            if not f.endswith("_test.go"):
                hh.update(f.encode())
                hh.update(open(f, "rb").read())
    cache = os.path.join(C.BUILD, "sites-%s.jsonl" % hh.hexdigest()[:24])
    if os.path.exists(cache):
        return C.jsonl(open(cache).read())
    for old in glob.glob(os.path.join(C.BUILD, "sites-*.jsonl")):
        os.remove(old)
    p = subprocess.run([C.BMH, "sites"] + SITE_DIRS, cwd=C.REPO, env=C.GOENV, stdout=subprocess.PIPE, stderr=subprocess.PIPE, text=True, timeout=900)
    if p.returncode != 0:
        raise C.Broken("site inventory failed: " + p.stderr[-1000:])
    open(cache, "w").write(p.stdout)
    return C.jsonl(p.stdout)


def classify(sites):
    table = json.load(open(SITE_TABLE)) if os.path.exists(SITE_TABLE) else []
    idx = {}
    for e in table:
        idx.setdefault((e["pkg"], e["file"], e["func"], e["expr"]), []).append(e)
    unknown, reaching, counts = [], [], {}
    for s in sites:
        if s["kind"] == "clock":
            fn = s["func"]
            if fn.endswith(".Generate") or fn.endswith("Program_generate") or fn == "RandStringBytes" or (fn == "init" and s["expr"] in ("time.Now", "math/rand.Seed")):
                counts["random-program-generation-only"] = counts.get("random-program-generation-only", 0) + 1
            else:
                unknown.append(s)
            continue
        es = idx.get((s["pkg"], s["file"], s["func"], s["expr"]))
        if not es:
            unknown.append(s)
            continue
        # the class was given to the loop as it was written when it was read: a loop whose text changed is not covered by that review
        reviewed = set(h for x in es for h in x.get("loops", []))
        if reviewed and s.get("hash") and s["hash"] not in reviewed:
            unknown.append(dict(s, changed=True))
            continue
        # several loops of one function over the same map may be classed differently: the worst class decides
        e = next((x for x in es if x["class"] not in HARMLESS), es[0])
        counts[e["class"]] = counts.get(e["class"], 0) + 1
        if e["class"] not in HARMLESS:
            reaching.append((s, e))
    return unknown, reaching, counts


def run(res, a):
    C.build_harness()
    # the import-order theorem is about the matcher table of the current tree
    extra = [os.path.join(C.COQ, "theories", "Properties", "C07sort.v")]
    try:
        matchers = c08.dump_matchers()
        c08.gen_matchers_v(matchers)
        C.coq_make()
        C.coqc(os.path.join(C.GEN, "GenMatchers.v"))
        obl = os.path.join(C.GEN, "C07_obligations.v")
        open(obl, "w").write(c08.OBLIGATIONS.replace("(* GENERATED on every run *)", "(* GENERATED on every run (C07: order independence of ImportString) *)"))
        extra.append(obl)
        tr_broken = None
    except Exception as e:  # translation failure is reported, not fatal
        tr_broken = str(e)
    failed = C.proof_part(res, "C07", extra_files=extra, trusted=[
        "Front/Order.v, Front/SortedEmit.v: the loop shapes of the build tools with the visiting order as an argument (hand-written)",
        "translators/c07_sites.json: the class of every map-range site, assigned by reading the code (trusted review); harness/sites.go finds the sites "
        "with go/types on every run and an unlisted site fails the check",
        "the tie between the order argument and Go's runtime is statistical: repeated fresh processes with GOMAXPROCS in {1,2,4,16}"])
    if tr_broken:
        failed = list(failed) + [("matcher translation", tr_broken)]
    sites = site_inventory()
    unknown, reaching, counts = classify(sites)
    known = {k["key"]: k for k in C.known_findings("C07")}
    build_tools()
    rnd = random.Random(a.seed)
    jobs = jobs_for(rnd, a.tier)
    runs = 6 if a.tier == "quick" else 24
    if a.replay:
        rp = json.load(open(a.replay))["replay"]
        jobs = [j for j in jobs if j[0] == rp.get("job")] or jobs
        runs = max(runs, 12)
    with ThreadPoolExecutor(max_workers=14) as ex:
        # the compiler pipelines are cheap: twice the runs (an order that depends on a four-entry map shows in 5 of 8 runs only)
        results = list(ex.map(lambda j: repeat(j, 2 * runs if j[0].startswith("bondgo") else runs), jobs))
    viol = []
    verilog_inputs = []
    stats = {}
    for name, outs in results:
        res.count_case({"job": name}, nontrivial=True)
        hashes = [o[0] for o in outs]
        arts0 = outs[0][1]
        stats[name] = {"runs": len(outs), "artefacts": len(arts0), "ok": arts0.get("rc") == b"0"}
        for k in arts0:
            distinct = sorted(set(hh.get(k) for hh in hashes))
            if len(distinct) > 1:
                other = next(o[1] for o in outs if o[0].get(k) != hashes[0].get(k))
                viol.append(("%s: artefact %s differs between runs of the same input (%d distinct in %d runs); %s"
                             % (name, k, len(distinct), len(outs), first_difference(arts0[k], other.get(k, b""))), {"job": name, "artefact": k}))
                break
        else:
            if arts0.get("bondmachine.json"):
                verilog_inputs.append((name, arts0["bondmachine.json"]))
    vjobs = [("verilog:" + n, (lambda w, g, b=b: pipe_verilog(w, g, b))) for n, b in verilog_inputs[:6 if a.tier == "quick" else 40]]
    vjobs += [("verilog-bmapi-%s:%s" % (fl, n), (lambda w, g, b=b, fl=fl: pipe_verilog_bmapi(w, g, b, fl)))
              for n, b in verilog_inputs if n == "basm:threeio.basm" for fl in ("aximm", "axist")]
    vjobs += [("verilog-etherbond:" + n, (lambda w, g, b=b: pipe_verilog_etherbond(w, g, b))) for n, b in verilog_inputs if n == "basm:threeio.basm"]
    with ThreadPoolExecutor(max_workers=14) as ex:
        vres = list(ex.map(lambda j: repeat(j, runs if j[0].startswith("verilog-bmapi") or j[0].startswith("verilog-etherbond") else max(3, runs // 2)), vjobs))
    for name, outs in vres:
        res.count_case({"job": name}, nontrivial=True)
        hashes = [o[0] for o in outs]
        arts0 = outs[0][1]
        stats[name] = {"runs": len(outs), "artefacts": len(arts0), "ok": arts0.get("rc") == b"0"}
        for k in arts0:
            if len(set(hh.get(k) for hh in hashes)) > 1:
                other = next(o[1] for o in outs if o[0].get(k) != hashes[0].get(k))
                viol.append(("%s: generated file %s differs between runs; %s" % (name, k, first_difference(arts0[k], other.get(k, b""))),
                             {"job": name, "artefact": k}))
                break
    # in-process repetition (Go re-randomises every map range)
    corpus = sorted(glob.glob(os.path.join(C.VERIF, "corpus/basm/*.basm")))
    reqs = [{"basm": open(f).read(), "n": 12 if a.tier == "quick" else 60, "nodyn": True} for f in corpus]
    out = C.jsonl(C.sh([C.BMH, "c07"], input="".join(json.dumps(r) + "\n" for r in reqs), timeout=1800).stdout)
    for f, o in zip(corpus, out):
        res.count_case({"inproc": f}, nontrivial=True)
        if o.get("distinct", 1) > 1:
            viol.append(("assembling %s %d times in one process gives %d different machines" % (os.path.basename(f), o["n"], o["distinct"]),
                         {"source": f}))
    cov = res.coverage
    cov["rule"] = ("each tool chain (basm on the corpus with and without the chooser, bondgo on generated programs, neuralbond romcode/fragment -> basm, "
                   "bmqsim -> basm, bondmachine -create-verilog on the resulting machines) is run %d times per input in fresh processes with GOMAXPROCS "
                   "1/2/4/16 and every artefact byte-compared; the assembler is also repeated in-process; every map range and clock/random use in the "
                   "tool packages is found with go/types and must be classified in translators/c07_sites.json" % runs)
    cov["site_classes"] = counts
    cov["sites_total"] = len(sites)
    cov["jobs"] = stats
    cov["samples"] = [{"job": jobs[0][0]}]
    for text, rp in viol[:4]:
        res.violation("C07 " + text, rp)
    if not viol:
        for s, e in reaching:
            key = "c07_site_%s_%s_%s" % (s["file"].replace(".go", ""), s["func"].split(".")[-1], "".join(ch for ch in s["expr"] if ch.isalnum()))
            if key in known:
                res.known_finding("%s %s:%s ranges over %s: %s" % (key, s["pkg"], s["func"], s["expr"], (e.get("detail") or e.get("why"))[:160]))
            else:
                res.violation("C07 the visiting order of %s in %s/%s %s can reach an artefact: %s" % (s["expr"], s["pkg"], s["file"], s["func"],
                              e.get("detail") or e.get("why")), {"site": s, "class": e}, nofail=True)
        for s in unknown[:5]:
            res.violation("C07 %s %s site %s/%s:%d %s %s — not covered by any order-independence theorem"
                          % ("the loop was rewritten since it was classified:" if s.get("changed") else "unclassified", s["kind"], s["pkg"], s["file"],
                             s["line"], s["func"], s["expr"]), {"site": s}, nofail=True)
        if failed and not unknown and not reaching:
            res.violation("C07 proof obligation no longer checks: %s" % (failed[:2],), {"obligation": [list(f) for f in failed][:3]}, nofail=True)
    return res.finish("proof")
