"""C08 — a numeric literal has one meaning; printing then parsing returns it."""
import json
import os
import random
import re
import sys

import common as C

sys.path.insert(0, os.path.join(C.VERIF, "translators"))
import regex as RX  # noqa: E402

DYN_TYPES = "flpe5f10,lqs16t1,fps16f8,fxps16f8,fps32f16"

# matcher text -> notation constructor of Front.Numbers (both spellings of the decimal-point forms)
TAGS = {
    "^(?P<uint>[0-9]+)$": "NPlain", "^0u(?P<uint>[0-9]+)$": "N0u", "^0d(?P<uint>[0-9]+)$": "N0d",
    "^0u(?P<uint>[0-9]+)\\.0+$": "N0uDot", "^0d(?P<uint>[0-9]+)\\.0+$": "N0dDot",
    "^0u<(?P<size>[0-9]+)>(?P<uint>[0-9]+)$": "N0uSized", "^0d<(?P<size>[0-9]+)>(?P<uint>[0-9]+)$": "N0dSized",
    "^0x(?P<hex>[0-9a-fA-F]+)$": "NHex", "^0x<(?P<bits>[0-9]+)>(?P<hex>[0-9a-fA-F]+)$": "NHexSized",
    "^0b(?P<bin>[0-1]+)$": "NBin", "^0b<(?P<bits>[0-9]+)>(?P<bin>[0-1]+)$": "NBinSized",
}


def dump_matchers():
    out = C.run_harness(["c08", "-regexes", "-types", DYN_TYPES]).stdout
    return C.jsonl(out)[0]["matchers"]


def gen_matchers_v(matchers):
    asts = []
    rows = []
    for m in matchers:
        ast = RX.parse(m)
        asts.append(ast)
        rows.append("  (%s, %s, %s)" % (C.cq_string(m), RX.coq(ast), TAGS.get(m, "NOther")))
    os.makedirs(C.GEN, exist_ok=True)
    with open(os.path.join(C.GEN, "GenMatchers.v"), "w") as f:
        f.write("(* GENERATED on every run from the keys of bmnumbers.AllMatchers (after creating dynamic types) *)\n"
                "From Coq Require Import List String NArith.\nFrom BM Require Import Front.Regex Front.Numbers.\n"
                "Import ListNotations.\nLocal Open Scope N_scope.\nLocal Open Scope string_scope.\n\n"
                "Definition matchers : list (string * re * notation) := [\n" + ";\n".join(rows) + "\n].\n")
    return asts


OBLIGATIONS = """(* GENERATED on every run *)
From Coq Require Import List String NArith Bool.
From BM Require Import Front.Regex Front.Numbers Proofs.RegexProofs Proofs.NumbersProofs.
From BMGen Require Import GenMatchers.
Import ListNotations.
Definition res : list re := map (fun m => snd (fst m)) matchers.
(* no string is claimed by two notations: decided on the regular languages themselves *)
Theorem matchers_pairwise_disjoint :
  forall i j ri rj, i <> j -> nth_error res i = Some ri -> nth_error res j = Some rj ->
  forall s, matches ri s && matches rj s = false.
Proof. apply (all_pairs_disjoint_sound 4000). vm_compute. reflexivity. Qed.
Print Assumptions matchers_pairwise_disjoint.
(* hence ImportString does not depend on the order in which the matcher map is visited *)
Theorem import_order_independent_current_tree :
  forall (o1 o2 : list ((list sym -> bool) * notation)) s,
    o1 = map (fun m => (matches (snd (fst m)), snd m)) matchers ->
    Permutation.Permutation o1 o2 ->
    option_map snd (find (fun m => fst m s) o1) = option_map snd (find (fun m => fst m s) o2).
Proof.
  intros o1 o2 s E P. apply find_unique_perm; auto. subst o1.
  intros i j a b Hij Ha Hb. rewrite nth_error_map in Ha, Hb.
  destruct (nth_error matchers i) as [mi|] eqn:Ei; [|discriminate].
  destruct (nth_error matchers j) as [mj|] eqn:Ej; [|discriminate].
  inversion Ha; inversion Hb; subst; simpl.
  apply (matchers_pairwise_disjoint i j (snd (fst mi)) (snd (fst mj)) Hij).
  - unfold res. rewrite nth_error_map, Ei. reflexivity.
  - unfold res. rewrite nth_error_map, Ej. reflexivity.
Qed.
Print Assumptions import_order_independent_current_tree.
"""


def witness_search(matchers, asts):
    """when disjointness no longer checks: ask the (verified-sound) explorer for a common word"""
    body = ("From Coq Require Import List String NArith Bool.\nFrom BM Require Import Front.Regex.\n"
            "From BMGen Require Import GenMatchers.\nImport ListNotations.\n"
            "Definition res : list re := map (fun m => snd (fst m)) matchers.\n"
            "Fixpoint pairs (k : nat) (l : list re) : list (nat * nat * list N) :=\n"
            "  match l with [] => [] | r :: t =>\n"
            "    (fix go (j : nat) (u : list re) := match u with [] => [] | r' :: u' =>\n"
            "       match common_word r r' 4000 with Some w => [(k, j, w)] | None => [] end ++ go (S j) u' end) (S k) t\n"
            "    ++ pairs (S k) t end.\n"
            "Definition M := Eval vm_compute in pairs 0 res.\n")
    out = C.eval_cases("C08", "witness", body)
    return out["M"]


def literal_pool(rnd, tier):
    lits = []
    widths = list(range(1, 65))
    for w in widths:
        top = 1 << w
        for v in (0, 1, top - 1, top, top >> 1):
            lits += ["0u<%d>%d" % (w, v), "0b<%d>%s" % (w, bin(v)[2:])]
            if w % 8 == 0:
                lits += ["0x<%d>%x" % (w, v)]
        lits += ["0b" + bin(top - 1)[2:], "0x%x" % (top - 1), "0x%X" % (top >> 1), str(top - 1), "0u%d" % (top - 1), "0d%d" % top]
    lits += ["010", "0010", "0d0100", "0u010", "09", "0d08", "0u0019", "0100", "0d010.0", "0u<8>010", "0u<16>0100",
             "0", "00", "007", "0u0", "0d007", "0u5.0", "0d5.000", "0u100", "0d100", "0u1000", "0u5.00", "0u.0", "0u5.", "0u5x0",
             "0u<8>256", "0u<0>1", "0u<65>1", "0u<64>18446744073709551615", "0u<64>18446744073709551616", "0u<08>5",
             "18446744073709551615", "18446744073709551616", "99999999999999999999999", "0x", "0b", "0x<12>1f", "0x<8>1ff",
             "0x<16>1f", "0b<2>101", "0b<3>101", "0b<0>", "0b<99999999999999999999>1", "0x<99999999999999999999>1", "0xg", "0b2",
             "", " 5", "5 ", "+5", "-5", "0s-5", "0s5", "0f1.5", "0f<32>1.5", "0f<16>1.5", "0f1e-30", "0fp<8.4>1.5", "0fxp<8.4>1.5",
             "0fp<16.8>-3.25", "0f0.1", "0f3.4e38", "0f-0", "0f<16>65504", "abc", "0y1"]
    n = 400 if tier == "quick" else 6000
    for _ in range(n):
        w = rnd.choice(widths)
        v = rnd.randrange(1 << w)
        k = rnd.randrange(9)
        lits.append([str(v), "0u%d" % v, "0d%d" % v, "0x%x" % v, "0b" + bin(v)[2:], "0u<%d>%d" % (w, v), "0b<%d>%s" % (w + rnd.randrange(3), bin(v)[2:]),
                     "0x<%d>%x" % (8 * ((w + 7) // 8), v), "0u%d.%s" % (v, "0" * rnd.randint(1, 3))][k])
    return lits


def float_pool(rnd, tier):
    out = []
    for _ in range(60 if tier == "quick" else 1500):
        e = rnd.randint(-12, 12)
        m = rnd.random() * 10
        out.append("0f%.*g" % (rnd.randint(1, 9), m * 10 ** e))
    return out


def run(res, a):
    C.build_harness()
    matchers = dump_matchers()
    broken_translation = None
    try:
        asts = gen_matchers_v(matchers)
    except RX.Unsupported as e:
        broken_translation = str(e)
    obl = os.path.join(C.GEN, "C08_obligations.v")
    extra = []
    if not broken_translation:
        C.coq_make()
        C.coqc(os.path.join(C.GEN, "GenMatchers.v"))
        with open(obl, "w") as f:
            f.write(OBLIGATIONS)
        extra = [obl]
    failed = C.proof_part(res, "C08", extra_files=extra, trusted=[
        "translators/regex.py (Go regex -> Front.Regex.re), validated against regexp.MatchString on generated strings",
        "harness/c08.go + lib/c08.py as the tie; Front/Numbers.v models unsigned/hex/bin only",
        "floats: strconv decimal conversion is not modelled (Go-side round-trip predicate only)"])
    rnd = random.Random(a.seed)
    known = {k["key"] for k in C.known_findings("C08")}
    viol = []
    # ---------------- regex tie: Coq matches vs Go MatchString
    mism_rx = []
    if not broken_translation:
        reqs, rows = [], []
        per = 25 if a.tier == "quick" else 200
        for i, (m, ast) in enumerate(zip(matchers, asts)):
            strs = set()
            for _ in range(per):
                s = RX.sample(ast, rnd)
                strs.add(s)
                strs.add(RX.mutate(s, rnd))
            for j, ast2 in enumerate(asts):      # strings of the other notations
                if j != i:
                    strs.add(RX.sample(ast2, rnd))
            for s in sorted(strs):
                reqs.append({"op": "match", "regex": m, "s": s})
                rows.append((i, s))
        out = C.jsonl(C.sh([C.BMH, "c08", "-types", DYN_TYPES], input="".join(json.dumps(r) + "\n" for r in reqs)).stdout)
        items = ["(%d, %s, %s)" % (i, C.cq_list([str(c) + "%N" for c in RX.syms(s)]), C.cq_bool(o.get("match", False)))
                 for (i, s), o in zip(rows, out)]
        shards = [items[k:k + 1500] for k in range(0, len(items), 1500)]
        bodies = ["From Coq Require Import List String NArith.\nFrom BM Require Import Front.Regex Front.NumbersCheck.\n"
                  "From BMGen Require Import GenMatchers.\nImport ListNotations.\n"
                  "Definition M := Eval vm_compute in check_matches matchers 0 %s.\n" % C.cq_list(sh) for sh in shards]
        base = 0
        for sh, o in zip(shards, C.eval_cases_parallel("C08", bodies)):
            for k in o["M"]:
                mism_rx.append(rows[base + k])
            base += len(sh)
        res.coverage["regex_tie_strings"] = len(rows)
    # ---------------- numbers: Go behaviour, spec predicates, model comparison
    lits = literal_pool(rnd, a.tier) + float_pool(rnd, a.tier)
    if a.replay:
        lits = [json.load(open(a.replay))["replay"]["literal"]]
    reqs = [{"op": "import", "s": s, "n": rnd.choice([1, 4, 8, 12, 16, 32, 64, 70])} for s in lits]
    out = C.jsonl(C.sh([C.BMH, "c08", "-types", DYN_TYPES], input="".join(json.dumps(r) + "\n" for r in reqs), timeout=1800).stdout)
    kinds = {}
    for q, o in zip(reqs, out):
        s = o["s"]
        t = o.get("type", "") or ("error" if o.get("err") else "?")
        kinds[t] = kinds.get(t, 0) + 1
        res.count_case({"s": s}, nontrivial=not o.get("err"))
        if len(o.get("matches") or []) > 1:
            viol.append(("ambiguous", "literal %r is claimed by %d notations: %s" % (s, len(o["matches"]), o["matches"]), s))
        if len(o.get("variants") or []) > 1:
            viol.append(("unstable", "literal %r imports differently on repeated calls: %s" % (s, o["variants"]), s))
        if o.get("err"):
            continue
        if o["type"] == "signed":
            continue  # not among the property's types (it has no text export at all)
        # round trip of the exported text
        if o.get("strerr"):
            viol.append(("export", "ExportString fails for %r" % s, s))
        elif o.get("reerr") or (o.get("retype"), o.get("rebits"), o.get("re")) != (o["type"], o.get("bits", 0), o.get("bin", "")):
            key = None
            if o["type"] == "unsigned" and o.get("bits", 0) != 64 and o.get("retype") == "unsigned" and o.get("re") == o.get("bin", ""):
                key = "c08_sized_unsigned_export_drops_width"
            if o["type"] == "float32" and o.get("retype") == "float32":
                key = "c08_float32_export_20_decimals"
            text = "import(export(%r)) = %s/%s/%s, expected %s/%s/%s (exported text %r)" % (
                s, o.get("retype"), o.get("rebits"), o.get("re") or o.get("reerr"), o["type"], o.get("bits", 0), o.get("bin", ""), o.get("str"))
            if key in known:
                res.known_finding("%s %s" % (key, text))
            else:
                viol.append(("roundtrip", text, s))
        if not o.get("nerr") and len(o.get("nbits", "")) != q["n"]:
            viol.append(("nbits", "ExportBinaryNBits(%d) of %r has %d digits" % (q["n"], s, len(o.get("nbits", ""))), s))
        vb = o.get("vbin", "")
        mm = re.fullmatch(r"([0-9]+)'b([01]+)", vb)
        if not mm or int(mm.group(1)) != o.get("bits", 0) or len(mm.group(2)) != o.get("bits", 0):
            viol.append(("verilog", "ExportVerilogBinary of %r is %r for a %d-bit number" % (s, vb, o.get("bits", 0)), s))
    # fixed point literals against an independent reading: 0fp<s.f>v with v = k / 2^f denotes the s-bit pattern of k
    fx = []
    for (sb, fb) in [(6, 2), (8, 4), (12, 4), (16, 8), (24, 8), (32, 16)]:
        for _ in range(6 if a.tier == "quick" else 60):
            k = rnd.randrange(1 << (sb - 1))
            fx.append((sb, fb, k, "0fp<%d.%d>%s" % (sb, fb, repr(k / (1 << fb)))))
    fout = C.jsonl(C.sh([C.BMH, "c08", "-types", DYN_TYPES + ",fps6f2,fps8f4,fps12f4,fps24f8"],
                        input="".join(json.dumps({"op": "import", "s": t[3], "n": t[0]}) + "\n" for t in fx), timeout=600).stdout)
    for (sb, fb, k, lit), o in zip(fx, fout):
        res.count_case({"s": lit}, nontrivial=True)
        want = format(k, "0%db" % sb)
        if o.get("err"):
            viol.append(("fixedpoint", "fixed point literal %r is rejected: %s" % (lit, o["err"]), lit))
        elif o.get("bin", "").zfill(sb)[-sb:] != want or (o.get("bits") not in (sb, None)):
            viol.append(("fixedpoint", "fixed point literal %r (= %d / 2^%d) imports as %s bits %s, expected %s" % (lit, k, fb, o.get("bits"), o.get("bin"), want), lit))
        elif o.get("reerr") or (o.get("retype"), o.get("rebits"), o.get("re")) != (o.get("type"), o.get("bits"), o.get("bin", "")):
            viol.append(("roundtrip", "import(export(%r)) = %s/%s/%s, expected %s/%s/%s (exported text %r)" % (
                lit, o.get("retype"), o.get("rebits"), o.get("re") or o.get("reerr"), o.get("type"), o.get("bits"), o.get("bin"), o.get("str")), lit))
    # linear quantizer literals (range 1 loaded from corpus/lqrange1.txt: largest magnitude 8, so the step of an s-bit word is
    # 8 / 2^(s-1) and every k * step is exact): 0lq<s.1>v denotes the s-bit two's complement pattern of k, and prints back as itself
    lq = []
    for sb in (5, 8, 12, 16):
        for _ in range(4 if a.tier == "quick" else 40):
            k = rnd.randrange(-(1 << (sb - 1)) + 1, 1 << (sb - 1))
            lq.append((sb, k, "0lq<%d.1>%s" % (sb, repr(k * 8 / (1 << (sb - 1))))))
    # the ends of the range: the largest magnitude itself (one band beyond the last pattern) and its neighbours.  Such a literal may be
    # rejected; when it is accepted the number must print back as the value that was written
    edge = []
    for sb in (5, 8, 12):
        top = 1 << (sb - 1)
        for k in (top, -top, top + 1, -top - 1, top - 1, -top + 1):
            edge.append((sb, k, "0lq<%d.1>%s" % (sb, repr(k * 8 / top))))
    lout = C.jsonl(C.sh([C.BMH, "c08", "-types", DYN_TYPES, "-ranges", "1," + os.path.join(C.VERIF, "corpus/lqrange1.txt")],
                        input="".join(json.dumps({"op": "import", "s": t[2], "n": t[0]}) + "\n" for t in lq + edge), timeout=600).stdout)
    for (sb, k, lit), o in zip(edge, lout[len(lq):]):
        res.count_case({"s": lit}, nontrivial=True)
        if o.get("err"):
            continue
        shown = (o.get("str") or "").split(">")[-1]
        try:
            ok = abs(float(shown) - k * 8 / (1 << (sb - 1))) < 4 / (1 << (sb - 1))
        except ValueError:
            ok = False
        if not ok:
            viol.append(("quantizer", "linear quantizer literal %r (range maximum 8) is accepted as bits %s and prints back as %r" % (lit, o.get("bin"), o.get("str")), lit))
    for (sb, k, lit), o in zip(lq, lout):
        res.count_case({"s": lit}, nontrivial=True)
        want = format(k % (1 << sb), "0%db" % sb)
        if o.get("err"):
            viol.append(("quantizer", "linear quantizer literal %r is rejected: %s" % (lit, o["err"]), lit))
        elif o.get("bin", "").zfill(sb)[-sb:] != want or (o.get("bits") not in (sb, None)):
            viol.append(("quantizer", "linear quantizer literal %r (= %d steps) imports as %s bits %s, expected %s" % (lit, k, o.get("bits"), o.get("bin"), want), lit))
        elif o.get("reerr") or (o.get("retype"), o.get("rebits"), o.get("re")) != (o.get("type"), o.get("bits"), o.get("bin", "")):
            viol.append(("roundtrip", "import(export(%r)) = %s/%s/%s, expected %s/%s/%s (exported text %r)" % (
                lit, o.get("retype"), o.get("rebits"), o.get("re") or o.get("reerr"), o.get("type"), o.get("bits"), o.get("bin"), o.get("str")), lit))
    # signed fixed point (0fxp<s.f>v): negative values at widths that fill whole bytes; the s-bit two's complement pattern of v * 2^f,
    # a Verilog literal of exactly s digits, an n-digit binary export
    fxn = []
    for (sb, fb) in [(8, 4), (16, 8), (32, 16), (12, 4)]:
        for _ in range(3 if a.tier == "quick" else 30):
            kk = -rnd.randrange(1, 1 << (sb - 2))
            fxn.append((sb, fb, kk, "0fxp<%d.%d>%s" % (sb, fb, repr(kk / (1 << fb)))))
    nout = C.jsonl(C.sh([C.BMH, "c08", "-types", DYN_TYPES + ",fxps8f4,fxps32f16,fxps12f4"],
                        input="".join(json.dumps({"op": "import", "s": t[3], "n": t[0]}) + "\n" for t in fxn), timeout=600).stdout)
    for (sb, fb, kk, lit), o in zip(fxn, nout):
        res.count_case({"s": lit}, nontrivial=True)
        want = format(kk % (1 << sb), "0%db" % sb)
        vb = re.fullmatch(r"([0-9]+)'b([01]+)", o.get("vbin", ""))
        if o.get("err"):
            viol.append(("fixedpoint", "signed fixed point literal %r is rejected: %s" % (lit, o["err"]), lit))
        elif o.get("bin", "").zfill(sb) != want:
            viol.append(("fixedpoint", "signed fixed point literal %r (= %d / 2^%d) imports as bits %s, expected %s" % (lit, kk, fb, o.get("bin"), want), lit))
        elif not vb or int(vb.group(1)) != sb or len(vb.group(2)) != sb:
            viol.append(("verilog", "ExportVerilogBinary of %r is %r for a %d-bit number" % (lit, o.get("vbin"), sb), lit))
        elif o.get("nerr") or len(o.get("nbits", "")) != sb:
            viol.append(("nbits", "ExportBinaryNBits(%d) of %r gives %r (%s)" % (sb, lit, o.get("nbits"), o.get("nerr")), lit))
    mism_num = []
    if not broken_translation:
        rows = []
        for q, o in zip(reqs, out):
            s = o["s"]
            if not all(32 <= ord(ch) < 127 for ch in s):
                continue
            rows.append((s, "(%s, %s, %s, %s, %s, %s, %s, %d, %s)" % (
                C.cq_string(s), C.cq_bool(bool(o.get("err"))), C.cq_string(o.get("type", "")), C.cq_N(o.get("bits", 0)),
                C.cq_string(o.get("bin", "")), C.cq_string(o.get("str", "")), C.cq_string(o.get("nbits", "")), q["n"],
                C.cq_string(o.get("vbin", "")))))
        shards = [rows[k:k + 400] for k in range(0, len(rows), 400)]
        bodies = ["From Coq Require Import List String NArith.\nFrom BM Require Import Front.Numbers Front.NumbersCheck.\n"
                  "From BMGen Require Import GenMatchers.\nImport ListNotations.\nLocal Open Scope string_scope.\n"
                  "Definition M := Eval vm_compute in check_nums matchers 0 %s.\n" % C.cq_list(["\n" + r[1] for r in sh]) for sh in shards]
        for sh, o in zip(shards, C.eval_cases_parallel("C08", bodies)):
            for k, code in o["M"]:
                mism_num.append((code, sh[k][0]))
        res.coverage["traces_validated_against_impl"] = len(rows) - len(mism_num)
    cov = res.coverage
    cov["rule"] = ("literals: every width 1..64 at boundary values in every unsigned/hex/bin notation, malformed and overflowing forms, "
                   "random values, float/fixed-point forms (Go-side predicates only); non-trivial = accepted literal; distinct by hash. "
                   "Regex tie: per matcher strings sampled from its own AST, one-edit mutants, samples of every other matcher")
    cov["matchers"] = len(matchers)
    cov["type_histogram"] = kinds
    cov["regex_tie_mismatches"] = len(mism_rx)
    cov["number_model_mismatches"] = len(mism_num)
    cov["samples"] = [{"literal": o["s"], "type": o.get("type"), "bits": o.get("bits"), "bin": o.get("bin"), "export": o.get("str")}
                      for o in out[:3]]
    for code, text, s in viol[:3]:
        res.violation("C08 %s: %s" % (code, text), {"literal": s})
    if broken_translation and not viol:
        res.violation("C08 a registered matcher is outside the translated regex subset: %s" % broken_translation,
                      {"translator": broken_translation}, nofail=True)
    if failed and not viol:
        # the disjointness obligation broke: ask the explorer for a concrete common word and replay it on Go
        found = []
        try:
            for i, j, w in witness_search(matchers, asts):
                s = "".join(chr(c) if c < 128 else "é" for c in w)
                o = C.jsonl(C.sh([C.BMH, "c08", "-types", DYN_TYPES], input=json.dumps({"op": "import", "s": s}) + "\n").stdout)[0]
                if len(o.get("matches") or []) > 1:
                    found.append((s, o["matches"], o.get("variants")))
        except C.Broken:
            pass
        if found:
            s, ms, var = found[0]
            res.violation("C08 literal %r is claimed by %d notations %s; readings: %s" % (s, len(ms), ms, var), {"literal": s})
        else:
            res.violation("C08 proof obligation no longer checks: %s" % failed, {"obligation": failed}, nofail=True)
    if not viol and not failed:
        for i, s in mism_rx[:2]:
            res.violation("C08 regex model and regexp.MatchString disagree on %r for %s" % (s, matchers[i]),
                          {"regex": matchers[i], "s": s}, nofail=True)
        for code, s in mism_num[:2]:
            res.violation("C08 number model and implementation disagree (code %d) on %r" % (code, s), {"literal": s}, nofail=True)
    return res.finish("proof")
