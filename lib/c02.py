"""C02 — a whole BondMachine behaves the same in generated HDL as in simulation."""
import json
import random
import re

import common as C
import simlib
import vparse
import vsim


def gen_machine(rnd):
    """a DAG of 1-3 processors that talk only through i2rw / r2owa; every input has a producer and every output a consumer"""
    nproc = rnd.choice([1, 2, 2, 3])
    rsize = rnd.choice([8, 16])
    procs = []
    for p in range(nproc):
        procs.append({"N": rnd.choice([1, 1, 2]), "M": rnd.choice([1, 1, 2])})
    bonds = []
    ext_in = ext_out = 0
    consumed = set()
    for p in range(nproc):
        for k in range(procs[p]["N"]):
            cands = [(q, o) for q in range(p) for o in range(procs[q]["M"])]
            if cands and rnd.random() < 0.6:
                q, o = rnd.choice(cands)
                bonds.append(["p%di%d" % (p, k), "p%do%d" % (q, o)])
                consumed.add((q, o))
            else:
                bonds.append(["p%di%d" % (p, k), "i%d" % ext_in])
                ext_in += 1
    for p in range(nproc):
        for o in range(procs[p]["M"]):
            if (p, o) not in consumed or rnd.random() < 0.6:     # fan-out: a processor consumer and the (fast) environment
                bonds.append(["o%d" % ext_out, "p%do%d" % (p, o)])
                ext_out += 1
    specs = []
    for p in range(nproc):
        N, M = procs[p]["N"], procs[p]["M"]
        prog = []
        # well spaced (C04): at least two instructions between handshakes on one port.  Every processor pads with an identity instruction of
        # its own, so that an opcode latency table can slow down one processor and not its neighbours
        filler = rnd.choice(["nop", "nop", "cpy r3 r3", "or r3 r3", "and r3 r3"])
        pad = lambda: [filler] * rnd.randint(3, 5)
        inregs = rnd.sample(range(4), N)           # the register an input is read into is not tied to the input's number
        tight = rnd.random() < 0.5                 # handshakes on different ports may follow each other directly
        for k in range(N):
            prog.append("i2rw r%d i%d" % (inregs[k], k))
            if not tight or k == N - 1:
                prog += pad()
        for _ in range(rnd.randint(0, 3)):
            a, b = rnd.randrange(3), rnd.randrange(max(N, 1))
            prog.append(rnd.choice(["add r%d r%d" % (a, b), "inc r%d" % a, "cpy r%d r%d" % (a, b), "xor r%d r%d" % (a, b)]))
        tight_out = rnd.random() < 0.5             # writes to different outputs may follow each other directly
        for o in range(M):
            prog.append("r2owa r%d o%d" % (rnd.randrange(4), o))
            if not tight_out or o == M - 1:
                prog += pad()
        prog += ["nop"] * rnd.choice([0, 0, 4, 9])        # consumers of one producer run at different speeds
        prog.append("j 0")
        O = max(3, (len(prog)).bit_length())
        ops = sorted(set(l.split()[0] for l in prog) | {"nop", "j"})
        specs.append({"arch": {"R": 2, "N": N, "M": M, "L": 0, "O": O, "ops": ops, "mode": "ha", "rsize": rsize}, "prog": prog})
    spec = {"rsize": rsize, "procs": specs, "inputs": ext_in, "outputs": ext_out, "bonds": bonds}
    if nproc > 1 and rnd.random() < 0.5:
        # the domains are stored in another order than the processors that run them
        perm = list(range(nproc))
        rnd.shuffle(perm)                          # domain slot d holds the program of processor perm[d]
        spec["procs"] = [specs[perm[d]] for d in range(nproc)]
        spec["procorder"] = [perm.index(p) for p in range(nproc)]
    streams = [[rnd.randrange(1, 1 << rsize) for _ in range(rnd.randint(3, 5))] for _ in range(ext_in)]
    return spec, streams


def directed_fanout(rnd, with_env):
    """one producer whose output is read by a fast and a slow processor (and, optionally, by the environment too): the producer may
    only go on when every consumer has received the value"""
    rsize = rnd.choice([8, 16])
    pad = ["nop"] * 3
    prod = ["i2rw r0 i0"] + pad + ["inc r0", "r2owa r0 o0"] + pad + ["j 0"]
    fast = ["i2rw r0 i0"] + pad + ["r2owa r0 o0"] + pad + ["j 0"]
    slow = ["i2rw r0 i0"] + pad + ["add r0 r0", "r2owa r0 o0"] + pad + ["nop"] * 9 + ["j 0"]
    specs = []
    for prog in (prod, fast, slow):
        ops = sorted(set(l.split()[0] for l in prog) | {"nop", "j"})
        specs.append({"arch": {"R": 2, "N": 1, "M": 1, "L": 0, "O": max(3, len(prog).bit_length()), "ops": ops, "mode": "ha", "rsize": rsize}, "prog": prog})
    bonds = [["p0i0", "i0"], ["p1i0", "p0o0"], ["p2i0", "p0o0"], ["o0", "p1o0"], ["o1", "p2o0"]]
    nout = 2
    if with_env:
        bonds.append(["o2", "p0o0"])
        nout = 3
    spec = {"rsize": rsize, "procs": specs, "inputs": 1, "outputs": nout, "bonds": bonds}
    return spec, [[rnd.randrange(1, 1 << (rsize - 1)) for _ in range(5)]]


def directed_two_outputs(rnd, k, slow_second=False):
    """a producer with exactly k outputs written back to back.  Its first output is read by a processor, the others by the environment;
    with slow_second the second output is read by a much slower processor, so that the reader of the first output is back at its read
    while the producer still waits on the second"""
    rsize = rnd.choice([8, 16])
    pad = ["nop"] * 3
    prod = ["i2rw r0 i0"] + pad + ["cpy r1 r0", "inc r1"] + ["r2owa r%d o%d" % (o % 2, o) for o in range(k)] + pad + ["j 0"]
    first = ["i2rw r0 i0"] + pad + (["nop"] * 7 if not slow_second else []) + ["r2owa r0 o0"] + pad + ["j 0"]
    progs = [(prod, 1, k), (first, 1, 1)]
    bonds = [["p0i0", "i0"], ["p1i0", "p0o0"], ["o0", "p1o0"]]
    if slow_second:
        progs.append((["i2rw r0 i0"] + pad + ["nop"] * 24 + ["r2owa r0 o0"] + pad + ["j 0"], 1, 1))
        bonds += [["p2i0", "p0o1"], ["o1", "p2o0"]] + [["o%d" % o, "p0o%d" % o] for o in range(2, k)]
    else:
        bonds += [["o%d" % o, "p0o%d" % o] for o in range(1, k)]
    specs = []
    for prog, N, M in progs:
        ops = sorted(set(l.split()[0] for l in prog) | {"nop", "j"})
        specs.append({"arch": {"R": 2, "N": N, "M": M, "L": 0, "O": max(3, len(prog).bit_length()), "ops": ops, "mode": "ha", "rsize": rsize}, "prog": prog})
    spec = {"rsize": rsize, "procs": specs, "inputs": 1, "outputs": k, "bonds": bonds}
    return spec, [[rnd.randrange(1, 1 << (rsize - 1)) for _ in range(5)]]


def directed_stalled_reader(rnd):
    """the reader pays a long latency on the instruction that follows its read (an opcode only it uses) while the writer runs freely"""
    rsize = rnd.choice([8, 16])
    pad = ["nop"] * 3
    prod = ["i2rw r0 i0"] + pad + ["inc r0", "r2owa r0 o0"] + pad + ["j 0"]
    cons = ["i2rw r0 i0", "xor r1 r1"] + pad + ["r2owa r0 o0"] + pad + ["j 0"]
    specs = []
    for prog in (prod, cons):
        ops = sorted(set(l.split()[0] for l in prog) | {"nop", "j"})
        specs.append({"arch": {"R": 2, "N": 1, "M": 1, "L": 0, "O": max(3, len(prog).bit_length()), "ops": ops, "mode": "ha", "rsize": rsize}, "prog": prog})
    spec = {"rsize": rsize, "procs": specs, "inputs": 1, "outputs": 1, "bonds": [["p0i0", "i0"], ["p1i0", "p0o0"], ["o0", "p1o0"]]}
    return spec, [[rnd.randrange(1, 1 << (rsize - 1)) for _ in range(5)]]


def directed_two_inputs(rnd):
    """one processor reading two external inputs and forwarding each: the valid line of every external input must reach its reader"""
    rsize = rnd.choice([8, 16])
    pad = ["nop"] * 3
    prog = ["i2rw r0 i0"] + pad + ["i2rw r1 i1"] + pad + ["r2owa r0 o0"] + pad + ["r2owa r1 o1"] + pad + ["j 0"]
    ops = sorted(set(l.split()[0] for l in prog) | {"nop", "j"})
    spec = {"rsize": rsize, "procs": [{"arch": {"R": 2, "N": 2, "M": 2, "L": 0, "O": 5, "ops": ops, "mode": "ha", "rsize": rsize}, "prog": prog}],
            "inputs": 2, "outputs": 2, "bonds": [["p0i0", "i0"], ["p0i1", "i1"], ["o0", "p0o0"], ["o1", "p0o1"]]}
    return spec, [[rnd.randrange(1, 100) for _ in range(5)], [rnd.randrange(100, 200) for _ in range(2)]]


def go_streams(ticks, nout):
    outs = [[] for _ in range(nout)]
    prev = [False] * nout
    for t in ticks:
        for o in range(nout):
            if t["outv"][o] and not prev[o]:
                outs[o].append(t["out"][o])
            prev[o] = t["outv"][o]
    return outs


def netlist_connections(top_text, nproc, procs):
    """connections of the generated top level, read off its AST: which net feeds every processor input / external output,
    and the conjunction that drives every received line"""
    mods = vparse.parse_file(top_text)
    top = next(m for m in mods if m.name == "bondmachine")
    assigns = {}
    for it in top.items:
        if it[0] == "assign":
            assigns[vparse.expr_text(it[1])] = it[2]
    insts = [it for it in top.items if it[0] == "inst"]
    return top, assigns, insts


def closed_body(em, term, spec, streams):
    """the Coq file that runs the flattened design for 700 clocks against the reactive environment of Vlog.Closed and prints, per external
    output, the values it accepted"""
    ins = ["mkIn %s %s %s" % (em.P("i%d" % i), em.P("i%d_valid" % i), em.P("i%d_received" % i)) for i in range(spec["inputs"])]
    outs = ["mkOut %s %s %s" % (em.P("o%d" % o), em.P("o%d_valid" % o), em.P("o%d_received" % o)) for o in range(spec["outputs"])]
    ist = ["mkIS %s false" % simlib.nl(st) for st in streams]
    ost = ["mkOS [] false" for _ in range(spec["outputs"])]
    body = (vsim.HEADER + "From BM Require Import Vlog.Closed.\nDefinition m : module := %s.\n"
            "Definition errcode (e : err) : N := match e with Unsupported n => N.of_nat n | CombLoop => 100 | FuelOut => 101 | BadDecl _ => 102 | BadLhs => 103 end.\n"
            "Definition M := Eval vm_compute in\n  match elaborate m with\n  | Ok E => match init_state E with\n"
            "    | Ok s0 => match run E s0 [[(%s, 0); (%s, 1)]; [(%s, 0); (%s, 1)]] with\n"
            "      | Ok (_ :: s1 :: _) => match run_closed E [(%s, 0); (%s, 0)] %s %s 700 s1 %s %s with\n"
            "                            | Ok os => map os_seen os | Err e => [[777001; errcode e]] end\n"
            "      | Ok _ => [[777004]] | Err e => [[777001; errcode e]] end\n"
            "    | Err e => [[777002; errcode e]] end\n  | Err e => [[777003; errcode e]] end.\n"
            % (term, em.P("clk"), em.P("reset"), em.P("clk"), em.P("reset"), em.P("clk"), em.P("reset"),
               C.cq_list(ins), C.cq_list(outs), C.cq_list(ist), C.cq_list(ost)))
    return body


def hdl_streams(cases, pid):
    """per (machine, input streams): the value streams the generated Verilog delivers on every external output (or an error text)"""
    vl = C.jsonl(C.sh([C.BMH, "vlog"], input="".join(json.dumps({"kind": "bm", "bm": spec}) + "\n" for spec, _ in cases), timeout=1800).stdout)
    bodies, idx, out = [], [], [None] * len(cases)
    for k, ((spec, streams), v) in enumerate(zip(cases, vl)):
        if v.get("err"):
            out[k] = (None, "the machine cannot be rendered: %s" % v["err"])
            continue
        try:
            em, term, flat = vsim.flat_design(v["files"], "bondmachine")
        except Exception as e:
            out[k] = (None, "the generated Verilog does not parse: %s" % e)
            continue
        bodies.append(closed_body(em, term, spec, streams))
        idx.append(k)
    for k, o in zip(idx, C.eval_cases_parallel(pid, bodies, timeout=3000)):
        try:
            out[k] = (vsim.check_rows(o["M"]), None)
        except vsim.VsimError as e:
            out[k] = (None, "the generated Verilog cannot be executed by the Verilog semantics: %s" % e)
    return out


def run(res, a):
    failed = C.proof_part(res, "C02", trusted=[
        "Vlog/Sem.v and Vlog/Closed.v (reactive environment) as the meaning of the emitted Verilog and of a protocol-abiding environment",
        "harness/sim.go applies the same environment protocol to bondmachine.VM",
        "stream comparison is prefix-wise up to the explored horizon (400 simulator ticks, 700 clocks)"])
    C.build_harness()
    rnd = random.Random(a.seed)
    n = 10 if a.tier == "quick" else 120
    cases = [directed_fanout(rnd, False), directed_fanout(rnd, True), directed_two_inputs(rnd), directed_two_outputs(rnd, 2), directed_two_outputs(rnd, 3),
             directed_two_outputs(rnd, 2, True), directed_two_outputs(rnd, 3, True), directed_stalled_reader(rnd)] \
        + [gen_machine(rnd) for _ in range(n)]
    if a.replay:
        rp = json.load(open(a.replay))["replay"]
        cases = [(rp["machine"], rp["streams"])]
    ticks = 400
    # "regardless of how many clock cycles either takes": four in ten simulations run with opcode latencies (stalls), with ten times the ticks
    drnd = random.Random(a.seed + 77)
    delays = []
    for k in range(len(cases)):
        c = drnd.randrange(10)
        delays.append(None if c < 6 or a.replay else
                      {drnd.choice(["nop", "nop", "cpy", "or", "and"]): {str(drnd.choice([3, 10, 25])): 1.0}} if c < 8 else
                      {"i2rw": {str(drnd.choice([2, 7])): 1.0}, "r2owa": {str(drnd.choice([2, 6])): 1.0}} if c < 9 else
                      {"nop": {"5": 1.0}, "inc": {"4": 1.0}, "add": {"3": 1.0}, "cpy": {"2": 1.0}})
    if not a.replay:
        delays[7] = {"xor": {"30": 1.0}}        # directed_stalled_reader
    if a.replay and rp.get("delays"):
        delays = [rp["delays"]]
    go = simlib.run_sims([dict({"bm": spec, "env": [], "ticks": ticks * (10 if dl else 1), "dump": "ext", "streams": st}, **({"delays": dl} if dl else {}))
                          for (spec, st), dl in zip(cases, delays)])
    vl = C.jsonl(C.sh([C.BMH, "vlog"], input="".join(json.dumps({"kind": "bm", "bm": spec}) + "\n" for spec, _ in cases), timeout=1800).stdout)
    viol = []
    bodies, metas = [], []
    hist = {"machines": n, "processors": {}, "bonds_checked": 0, "values_compared": 0}
    for (spec, streams), g, v, dl in zip(cases, go, vl, delays):
        meta = {"machine": spec, "streams": streams, "delays": dl}
        res.count_case(meta, nontrivial=True)
        hist["processors"][str(len(spec["procs"]))] = hist["processors"].get(str(len(spec["procs"])), 0) + 1
        if g.get("err") or v.get("err"):
            viol.append(("the machine cannot be simulated or rendered: %s" % (g.get("err") or v.get("err")), meta))
            continue
        # ---- netlist: exactly the bonds, received = conjunction of the consumers
        bad = check_netlist(v["files"]["bondmachine.v"], spec)
        hist["bonds_checked"] += len(spec["bonds"])
        if bad:
            viol.append(("the top-level netlist does not match the bonds: %s" % bad, meta))
            continue
        try:
            em, term, flat = vsim.flat_design(v["files"], "bondmachine")
        except Exception as e:
            viol.append(("the generated Verilog does not parse: %s" % e, meta))
            continue
        body = closed_body(em, term, spec, streams)
        bodies.append(body)
        metas.append((meta, g))
    for (meta, g), o in zip(metas, C.eval_cases_parallel("C02", bodies, timeout=3000)):
        spec = meta["machine"]
        try:
            hs = vsim.check_rows(o["M"])
        except vsim.VsimError as e:
            viol.append(("the generated Verilog cannot be executed by the Verilog semantics: %s" % e, meta))
            continue
        gs = go_streams(g["ticks"], spec["outputs"])
        # the tick of the simulator's last delivery: when it is early, the (slower) hardware has had the time to deliver everything too
        last = 0
        prevv = [False] * spec["outputs"]
        for ti, t in enumerate(g["ticks"]):
            for oo in range(spec["outputs"]):
                if t["outv"][oo] and not prevv[oo]:
                    last = ti
                prevv[oo] = t["outv"][oo]
        for oidx, (x, y) in enumerate(zip(gs, hs)):
            m = min(len(x), len(y))
            hist["values_compared"] += m
            if x[:m] != y[:m]:
                viol.append(("external output %d: the simulator%s delivers %s, the generated hardware %s"
                             % (oidx, " (opcode latencies %s)" % meta["delays"] if meta.get("delays") else "", x, y), meta))
                break
            if len(y) > len(x) or (last <= 180 * (10 if meta.get("delays") else 1) and len(y) < len(x)):
                viol.append(("external output %d: the simulator delivers %s (last delivery at tick %d of %d), the generated hardware %s within 700 clocks"
                             % (oidx, x, last, len(g["ticks"]), y), meta))
                break
            if m < 2:
                if len(x) < 2 and len(y) < 2:
                    # neither world delivers: the generated machine waits on itself (a reader of two outputs in the opposite order of their
                    # writer); equal streams, nothing to compare
                    hist["machines_stuck_in_both_worlds"] = hist.get("machines_stuck_in_both_worlds", 0) + 1
                    break
                viol.append(("external output %d makes no progress within the horizon (simulator %s, hardware %s)" % (oidx, x, y), meta))
                break
    cov = res.coverage
    cov["rule"] = ("random DAGs of 1-3 processors communicating only through i2rw/r2owa with at least three instructions between handshakes, fan-out "
                   "across processors and to external outputs, external input streams of 3-5 values offered by a protocol-abiding reactive environment "
                   "in both worlds; the simulator runs 400 ticks, the generated Verilog 700 clocks under Vlog.Sem; for each external output the two "
                   "delivered streams are compared prefix-wise and must both progress; the top-level netlist is compared with the bond list; four in ten "
                   "simulations run with opcode latencies (stalls on nop, on the handshakes or on the arithmetic) and ten times the ticks; writes to "
                   "different outputs may follow each other directly (directed: producers with exactly two and three outputs)")
    cov["input_distribution"] = hist
    cov["traces_validated_against_impl"] = len(metas)
    cov["programs"] = len(metas)
    cov["disagreements_checked"] = hist["values_compared"] + hist["bonds_checked"]
    cov["samples"] = [{"machine": cases[0][0]}]
    for text, meta in viol[:3]:
        res.violation("C02 " + text, meta)
    if failed and not viol:
        res.violation("C02 proof obligation no longer checks: %s" % (failed[:2],), {"obligation": [list(f) for f in failed][:3]}, nofail=True)
    return res.finish("translation_validation")


def check_netlist(text, spec):
    """the generated top level connects exactly the endpoints named by the bonds, and an output's received line is the conjunction of
    the received lines of all inputs bonded to it.  Works on the text of bondmachine.v: instance port lists and assign statements."""
    text = re.sub(r"//[^\n]*", "", text)
    # processor instances: aK aK_inst(clk, reset, <per input: data, valid, received>, <per output: data, valid, received>)
    actual = {}    # consumer endpoint -> producer net name
    recv_of = {}   # producer endpoint -> set of consumer received nets
    insts = dict((int(m.group(1)), [x.strip() for x in m.group(2).split(",")]) for m in re.finditer(r"\ba(\d+)\s+a\d+_inst\s*\(([^;]*?)\)\s*;", text, re.S))
    assigns = dict((m.group(1).strip(), m.group(2).strip()) for m in re.finditer(r"assign\s+([\w\[\]:]+)\s*=\s*([^;]+);", text))
    order = spec.get("procorder") or list(range(len(spec["procs"])))
    for p in range(len(order)):
        pr = spec["procs"][order[p]]
        if p not in insts:
            return "processor %d is not instantiated" % p
        args = insts[p][2:]
        N, M = pr["arch"]["N"], pr["arch"]["M"]
        if len(args) != 3 * (N + M):
            return "processor %d has %d port connections, expected %d" % (p, len(args), 3 * (N + M))
        for k in range(N):
            data, valid, recv = args[3 * k:3 * k + 3]
            actual["p%di%d" % (p, k)] = (data, valid, recv)
        for o in range(M):
            data, valid, recv = args[3 * (N + o):3 * (N + o) + 3]
            if data != "p%do%d" % (p, o) or valid != "p%do%d_valid" % (p, o) or recv != "p%do%d_received" % (p, o):
                return "processor %d output %d is tied to %s/%s/%s" % (p, o, data, valid, recv)
    want_consumers = {}
    for sink, src in spec["bonds"]:
        want_consumers.setdefault(src, []).append(sink)
        if sink.startswith("o"):
            if assigns.get(sink) != src or assigns.get(sink + "_valid") != src + "_valid":
                return "external output %s is driven by %s / %s, expected %s" % (sink, assigns.get(sink), assigns.get(sink + "_valid"), src)
        else:
            data, valid, recv = actual[sink]
            if data != src or valid != src + "_valid" or recv != sink + "_received":
                return "input %s is tied to %s/%s/%s, expected producer %s" % (sink, data, valid, recv, src)
    # every processor input that no bond names must not be tied to some producer
    bonded = {sink for sink, _ in spec["bonds"]}
    for ep, (data, valid, recv) in actual.items():
        if ep not in bonded and re.match(r"^(p\d+o\d+|i\d+)$", data):
            return "input %s has no bond but is tied to %s" % (ep, data)
    for src, sinks in want_consumers.items():
        rhs = assigns.get(src + "_received")
        if rhs is None:
            return "no driver for %s_received" % src
        terms = sorted(t for t in (re.sub(r"[()\s]", "", t) for t in rhs.split("&")) if t not in ("1'b1", ""))
        if terms != sorted(s + "_received" for s in sinks):
            return "%s_received = %s, expected the conjunction over %s" % (src, rhs, sinks)
    return None
