"""C17 — finished simulations leave no workers behind."""
import json
import os
import random
import re

import common as C
import simlib

PIPE = {"arch": {"R": 2, "N": 1, "M": 1, "L": 0, "O": 3, "ops": ["i2rw", "inc", "r2owa", "j", "nop"], "mode": "ha"},
        "prog": ["i2rw r0 i0", "inc r0", "r2owa r0 o0", "j 0"]}
BASM = ("%meta bmdef global registersize:8\n%section code .romtext\n  entry _start\n_start:\n  rset r0, 5\n  r2o r0, o0\n  j _start\n"
        "%endsection\n%meta cpdef cp0 romcode: code\n%meta ioatt bmo0 cp: cp0, index: 0, type: output\n"
        "%meta ioatt bmo0 cp: bm, index: 0, type: output\n")


def pipeline(nproc, rsize):
    procs = [json.loads(json.dumps(PIPE)) for _ in range(nproc)]
    bonds = [["p0i0", "i0"]] + [["p%di0" % (k + 1), "p%do0" % k] for k in range(nproc - 1)] + [["o0", "p%do0" % (nproc - 1)]]
    return {"rsize": rsize, "procs": procs, "inputs": 1, "outputs": 1, "bonds": bonds}


def two_outputs(rsize):
    """one processor, two outputs: the first is shown in the caller's data type, the last (which ends the run) as unsigned"""
    prog = ["i2rw r0 i0", "nop", "nop", "r2owa r0 o0", "nop", "nop", "r2owa r0 o1", "nop", "nop", "j 0"]
    proc = {"arch": {"R": 1, "N": 1, "M": 2, "L": 0, "O": 4, "ops": ["i2rw", "j", "nop", "r2owa"], "mode": "ha", "rsize": rsize}, "prog": prog}
    return {"rsize": rsize, "procs": [proc], "inputs": 1, "outputs": 2, "bonds": [["p0i0", "i0"], ["o0", "p0o0"], ["o1", "p0o1"]]}


def tuning_tool_part(res):
    """cmd/simfinetune: its fitness function starts -workers goroutines per evaluation and must stop them all, for every value of the flag.
    The function lives in package main, so it is reached through the hook test cmd/simfinetune/verif_hook_test.go (build tag verif), whose
    binary is started without -test flags (the tool parses its flags in init)."""
    import tempfile
    import shutil
    import subprocess
    viol = []
    work = tempfile.mkdtemp(prefix="c17sft")
    try:
        env = dict(os.environ, GOFLAGS="-mod=mod", GOPROXY="off", GOSUMDB="off", GOTOOLCHAIN="local")
        for args in (["go", "test", "-tags", "verif", "-c", "-o", os.path.join(work, "sft.test"), "./cmd/simfinetune"],
                     ["go", "build", "-o", os.path.join(work, "basm"), "./cmd/basm"]):
            p = subprocess.run(args, cwd=C.REPO, env=env, capture_output=True, text=True, timeout=1800)
            if p.returncode != 0:
                raise C.Broken("cannot build %s: %s" % (args[-1], (p.stdout + p.stderr)[-400:]))
        p = subprocess.run([os.path.join(work, "basm"), "-disable-dynamical-matching", "-o", "bm.json", os.path.join(C.VERIF, "corpus/basm/pipe.basm")],
                           cwd=work, capture_output=True, text=True, timeout=300)
        if not os.path.exists(os.path.join(work, "bm.json")):
            raise C.Broken("basm does not assemble corpus/basm/pipe.basm: %s" % (p.stdout + p.stderr)[-300:])
        open(os.path.join(work, "in.csv"), "w").write("0f1.5\n0f2.0\n0f7.25\n0f0.5\n")
        try:
            p = subprocess.run([os.path.join(work, "sft.test"), "-bondmachine-file", "bm.json", "-inputs-file", "in.csv", "-outputs-file", "in.csv"],
                               cwd=work, capture_output=True, text=True, timeout=300)
            out = p.stdout
        except subprocess.TimeoutExpired as e:
            out = (e.stdout or b"").decode() if isinstance(e.stdout, bytes) else (e.stdout or "")
            out += "\nTIMEOUT"
        rows = re.findall(r"VERIF_FITNESS workers=(-?\d+) evaluations=(\d+) before=(\d+) after=(\d+)", out)
        res.coverage["tuning_tool_batches"] = len(rows)
        for w, n, b, af in rows:
            res.count_case({"call": "simfinetune.FitnessFunction", "workers": int(w), "n": int(n)}, nontrivial=True)
            if int(af) > int(b):
                viol.append(("%d goroutines left by %s evaluations of the fitness function of cmd/simfinetune with -workers %s"
                             % (int(af) - int(b), n, w), {"call": "simfinetune", "workers": int(w), "evaluations": int(n), "machine": "corpus/basm/pipe.basm"}))
        if len(rows) < 4:
            viol.append(("the fitness function of cmd/simfinetune does not complete its batches (%d of 4 reported): %s" % (len(rows), out[-300:]),
                         {"call": "simfinetune", "machine": "corpus/basm/pipe.basm"}))
    finally:
        shutil.rmtree(work, ignore_errors=True)
    return viol


def run(res, a):
    failed = C.proof_part(res, "C17", trusted=[
        "Front/Barrier.v (worker protocol LTS) and Front/Leak.v (bookkeeping) are hand-written models; the tie is the goroutine "
        "count and the goroutine profile grouped by function before/after batches of calls (harness/c17.go)",
        "retained heap is measured and reported, not proved"])
    C.build_harness()
    rnd = random.Random(a.seed)
    reqs = []
    ns = [1, 10, 60] if a.tier == "quick" else [1, 10, 100, 400]
    for call in ("single", "fitness"):
        for n in ns:
            for conc in (0, 4):
                nproc = rnd.choice([1, 2, 3, 5])
                reqs.append({"bm": pipeline(nproc, rnd.choice([8, 16, 32])), "call": call, "n": n, "conc": conc,
                             "input": [str(rnd.randrange(100))], "nproc": nproc})
    # calls that fail before the simulation starts (the expectation names an output the machine does not have) must release
    # whatever they had started as well
    for n, conc in ((10, 0), (40, 4)):
        nproc = rnd.choice([1, 2, 3])
        reqs.append({"bm": pipeline(nproc, 8), "call": "fitness", "n": n, "conc": conc, "input": [str(rnd.randrange(100))], "nproc": nproc,
                     "expobj": "o7", "fails": True})
    for n, conc in ((10, 0), (40, 4)):
        nproc = rnd.choice([1, 2, 3])
        reqs.append({"bm": two_outputs(8), "call": "single", "n": n, "conc": conc, "input": [str(rnd.randrange(100))], "nproc": 1,
                     "datatype": "nosuchtype", "fails": True})
    reqs.append({"bm": {}, "call": "reqroot", "n": 20, "conc": 0, "nproc": 0})
    reqs.append({"bm": {}, "call": "assemble", "n": 10, "conc": 0, "basm": BASM, "nproc": 0})
    if a.replay:
        reqs = [json.load(open(a.replay))["replay"]["request"]]
    known = {k["key"]: k for k in C.known_findings("C17")}
    viol = []
    heap = []
    for q in reqs:
        r = C.jsonl(C.sh([C.BMH, "c17"], input=json.dumps(q) + "\n", timeout=1800).stdout)[0]
        res.count_case({k: q[k] for k in ("call", "n", "conc", "nproc")}, nontrivial=q["n"] >= 10)
        if r.get("err"):
            raise C.Broken("c17 harness: " + r["err"])
        if q.get("fails"):
            if not all(x.startswith("err:") for x in r.get("results") or ["?"]):
                viol.append(("a %s call that must fail (missing output / unknown data type) succeeds: %s" % (q["call"], r.get("results")), q))
                continue
        elif any(x.startswith("err:") for x in r.get("results") or []):
            viol.append(("call %s failed: %s" % (q["call"], r["results"]), q))
            continue
        heap.append({"call": q["call"], "n": q["n"], "heap_growth_bytes": r["heapafter"] - r["heapbefore"]})
        growth = r["after"] - r["before"]
        # model: complete single-shot simulations leave nothing; each assembler instance leaves one ReqRoot server
        for fn, d in (r.get("growth") or {}).items():
            key = next((k for k in known if known[k].get("function") and known[k]["function"] in fn), None)
            if d > 0 and key and q["call"] in known[key].get("calls", []):
                res.known_finding("%s %d goroutines in %s after %d %s calls" % (key, d, fn, q["n"], q["call"]))
                growth -= d
            elif d > 0:
                viol.append(("%d goroutines left in %s after %d %s calls (%d at a time) on a %d-processor machine" % (
                    d, fn, q["n"], q["call"], max(q["conc"], 1), q["nproc"]), q))
                growth -= d
        if growth > 0:
            viol.append(("%d more goroutines after %d %s calls" % (growth, q["n"], q["call"]), q))
    if not a.replay:
        viol += tuning_tool_part(res)
    cov = res.coverage
    cov["rule"] = ("batches of n in {1,10,60(,100,400)} calls of SinglePipelineSimulate and Fitness_default on pipelines of 1-5 processors, "
                   "sequential and from 4 concurrent callers, plus 10 assembler runs; goroutine count and goroutine profile grouped by "
                   "function before/after each batch (after a warm-up call, GC and a settle delay); non-trivial = batches of >= 10 calls; "
                   "the fitness function of the tuning tool cmd/simfinetune (8 evaluations for each of -workers 4, 1, 0, -1) through the hook test "
                   "cmd/simfinetune/verif_hook_test.go")
    cov["heap_trend"] = heap
    cov["samples"] = [{k: reqs[0][k] for k in ("call", "n", "conc", "nproc")}]
    cov["traces_validated_against_impl"] = len(reqs)
    for text, q in viol[:3]:
        res.violation("C17 " + text, {"request": q})
    if failed and not viol:
        res.violation("C17 proof obligation no longer checks: %s" % failed, {"obligation": failed}, nofail=True)
    return res.finish("proof")
