"""C12 — compiled Go programs do what the source does; compilation always terminates."""
import json
import os
import random
import re
import shutil
import subprocess
import tempfile

import common as C
import simlib

BONDGO = os.path.join(C.BUILD, "bondgo")


def build_bondgo():
    p = C.sh(["go", "build", "-tags", "verif", "-o", BONDGO, "./cmd/bondgo"], cwd=C.REPO, check=False, timeout=1200)
    if p.returncode != 0:
        raise C.Broken("cmd/bondgo does not build:\n" + p.stderr[-3000:])


# ---------------------------------------------------------------- program generator (the modelled subset)

def gen_expr(rnd, nvars, depth):
    k = rnd.randrange(10)
    if depth == 0 or k < 3:
        if nvars and rnd.random() < 0.6:
            return ("var", rnd.randrange(nvars))
        return ("lit", rnd.choice([0, 1, 2, 3, 5, 7, 200, 255, rnd.randrange(256)]))
    return (rnd.choice(["add", "mul"]), gen_expr(rnd, nvars, depth - 1), gen_expr(rnd, nvars, depth - 1))


def gen_prog(rnd):
    nouts = rnd.randint(1, 3)
    stmts = []
    nvars = 0
    for _ in range(rnd.randint(2, 10)):
        k = rnd.randrange(10)
        if nvars == 0 or (k < 2 and nvars < 4):
            stmts.append(("decl",))
            nvars += 1
        elif k < 6:
            stmts.append(("assign", rnd.randrange(nvars), gen_expr(rnd, nvars, rnd.randint(0, 3))))
        else:
            stmts.append(("write", rnd.randrange(nouts), gen_expr(rnd, nvars, rnd.randint(0, 2))))
    return nouts, stmts


def go_expr(e):
    """render without parentheses: the subset has no ParenExpr, so only trees that Go's precedence yields are generated"""
    t = e[0]
    if t == "var":
        return "reg_v%d" % e[1]
    if t == "lit":
        return str(e[1])
    return None


def flatten_ok(e):
    """can the tree be written without parentheses? + is left associative, * binds tighter"""
    t = e[0]
    if t in ("var", "lit"):
        return True
    if t == "mul":
        # operands of * : left may be a product, right must be atomic
        return flatten_ok(e[1]) and e[1][0] != "add" and e[2][0] in ("var", "lit")
    # add: right operand must not be an add (left assoc); products are fine
    return flatten_ok(e[1]) and flatten_ok(e[2]) and e[2][0] != "add"


def render(e):
    t = e[0]
    if t == "var":
        return "reg_v%d" % e[1]
    if t == "lit":
        return str(e[1])
    op = "+" if t == "add" else "*"
    return "%s %s %s" % (render(e[1]), op, render(e[2]))


def normalise(e):
    """rewrite a random tree into one expressible without parentheses (re-associating to the left)"""
    t = e[0]
    if t in ("var", "lit"):
        return e
    a, b = normalise(e[1]), normalise(e[2])
    if t == "mul":
        if a[0] == "add":
            a = ("lit", 3)
        if b[0] not in ("var", "lit"):
            b = ("var", 0) if False else ("lit", 2)
        return ("mul", a, b)
    if b[0] == "add":
        # a + (x + y)  ->  (a + x) + y
        return normalise(("add", ("add", a, b[1]), b[2]))
    return ("add", a, b)


def go_source(nouts, stmts, rsize):
    ty = "uint%d" % rsize
    lines = ["package main", "", "import (", "\t\"bondgo\"", ")", "", "func main() {"]
    for o in range(nouts):
        lines.append("\tvar out%d bondgo.Output" % o)
    nv = 0
    body = []
    for s in stmts:
        if s[0] == "decl":
            lines.append("\tvar reg_v%d %s" % (nv, ty))
            nv += 1
    for o in range(nouts):
        body.append("\tout%d = bondgo.Make(bondgo.Output, %d)" % (o, o + 3))
    for s in stmts:
        if s[0] == "assign":
            body.append("\treg_v%d = %s" % (s[1], render(s[2])))
        elif s[0] == "write":
            body.append("\tbondgo.IOWrite(out%d, %s)" % (s[1], render(s[2])))
    return "\n".join(lines + body + ["}", ""])


def coq_expr(e):
    t = e[0]
    if t == "var":
        return "(EVar %d)" % e[1]
    if t == "lit":
        return "(ELit %d%%N)" % e[1]
    return "(%s %s %s)" % ("EAdd" if t == "add" else "EMul", coq_expr(e[1]), coq_expr(e[2]))


def coq_prog(stmts):
    """all declarations come first in the rendered source, then the statements in order"""
    out = ["SDecl" for s in stmts if s[0] == "decl"]
    for s in stmts:
        if s[0] == "assign":
            out.append("(SAssign %d %s)" % (s[1], coq_expr(s[2])))
        elif s[0] == "write":
            out.append("(SWrite %d %s)" % (s[1], coq_expr(s[2])))
    return C.cq_list(out)


def run_bondgo(src, rsize, workdir, delay_ms=0, deadline=20):
    path = os.path.join(workdir, "p.go")
    open(path, "w").write(src)
    asm = os.path.join(workdir, "out.asm")
    if os.path.exists(asm):
        os.remove(asm)
    env = dict(C.GOENV)
    if delay_ms:
        env["VERIF_BONDGO_DELAY_MS"] = str(delay_ms)
    try:
        p = subprocess.run([BONDGO, "-input-file", path, "-register-size", str(rsize), "-save-assembly", asm, "-show-requirements"],
                           cwd=workdir, env=env, timeout=deadline, stdout=subprocess.PIPE, stderr=subprocess.PIPE, text=True)
    except subprocess.TimeoutExpired:
        return None, None, "timeout"
    text = open(asm).read() if os.path.exists(asm) else None
    return text, p.stdout, ("error" if "Error:" in p.stdout else "")


def run_mpm(args, cwd, timeout=60):
    """-> stdout, or None when the compiler does not finish within the deadline"""
    try:
        return subprocess.run(args, cwd=cwd, env=C.GOENV, timeout=timeout, stdout=subprocess.PIPE, stderr=subprocess.STDOUT, text=True).stdout
    except subprocess.TimeoutExpired:
        return None


# ---------------------------------------------------------------- control flow (differential: no Coq source semantics yet)

def goroutine_part(res, rnd, a, work):
    """goroutines without arguments: every goroutine becomes a processor of the machine the compiler requests; each source output
    must appear as one machine output carrying exactly the values written to it, and the machine must not vary between compiles"""
    viol, done = [], 0
    for k in range(4 if a.tier == "quick" else 30):
        rsize = rnd.choice([8, 16])
        ty = "uint%d" % rsize
        nw = rnd.randint(1, 3)
        ids = rnd.sample(range(2, 12), nw + 2)
        lines = ["package main", "", "import (", "\t\"bondgo\"", ")", ""]
        want = {}
        for w in range(nw):
            vals = [rnd.randrange(1, 200) for _ in range(rnd.randint(1, 2))]
            lines += ["func worker%d() {" % w, "\tvar reg_w %s" % ty, "\tvar outw bondgo.Output", "\toutw = bondgo.Make(bondgo.Output, %d)" % ids[w]]
            for v in vals:
                lines += ["\treg_w = %d" % v, "\tbondgo.IOWrite(outw, reg_w)"]
            lines += ["\tfor {", "\t}", "}", ""]
            want[ids[w]] = vals
        a_, b_ = rnd.randrange(1, 200), rnd.randrange(1, 200)
        # half of the programs also have a goroutine that reads an output of main (same id: an internal bond) next to an external input
        linked = k % 2 == 1
        ext_val = rnd.randrange(1, 50)
        lid, eid, oid = 20, 21, 22
        if linked:
            lines += ["func adder() {", "\tvar in_e bondgo.Input", "\tvar in_l bondgo.Input", "\tvar out_s bondgo.Output",
                      "\tin_e = bondgo.Make(bondgo.Input, %d)" % eid, "\tin_l = bondgo.Make(bondgo.Input, %d)" % lid,
                      "\tout_s = bondgo.Make(bondgo.Output, %d)" % oid, "\tfor {", "\t\tbondgo.IOWrite(out_s, bondgo.IORead(in_l)+bondgo.IORead(in_e))", "\t}", "}", ""]
        lines += ["func main() {", "\tvar reg_a %s" % ty, "\tvar outa bondgo.Output", "\tvar outb bondgo.Output"] + (["\tvar outl bondgo.Output"] if linked else [])
        lines += ["\touta = bondgo.Make(bondgo.Output, %d)" % ids[nw], "\toutb = bondgo.Make(bondgo.Output, %d)" % ids[nw + 1]]
        if linked:
            lines += ["\toutl = bondgo.Make(bondgo.Output, %d)" % lid, "\tgo adder()"]
        lines += ["\tgo worker%d()" % w for w in range(nw)]
        lines += ["\treg_a = %d" % a_, "\tbondgo.IOWrite(outa, reg_a)", "\treg_a = %d" % b_, "\tbondgo.IOWrite(outb, reg_a)", "\tbondgo.IOWrite(outa, reg_a)"]
        if linked:
            lines += ["\tbondgo.IOWrite(outl, reg_a)"]
        lines += ["\tfor {", "\t}", "}", ""]
        want[ids[nw]] = [a_, b_]
        want[ids[nw + 1]] = [b_]
        src = "\n".join(lines)
        meta = {"source": src}
        res.count_case({"src": src}, nontrivial=True)
        open(os.path.join(work, "g.go"), "w").write(src)
        mj = os.path.join(work, "g.json")
        texts = []
        out = ""
        for rep in range(8):
            if os.path.exists(mj):
                os.remove(mj)
            out = run_mpm([BONDGO, "-input-file", os.path.join(work, "g.go"), "-register-size", str(rsize), "-mpm", "-save-bondmachine", mj], work)
            if out is None:
                break
            texts.append(open(mj).read() if os.path.exists(mj) else None)
        if out is None:
            viol.append(("the compiler does not terminate (deadline 60 s) on a program with %d goroutines" % nw, meta))
            continue
        if texts[0] is None:
            viol.append(("a program with %d goroutines (no arguments) is not compiled: %s" % (nw, out[-300:]), meta))
            continue
        if len(set(texts)) > 1:
            viol.append(("compiling a program with %d goroutines 8 times gives %d different machines" % (nw, len(set(texts))), meta))
            continue
        r = simlib.run_sims([{"bm": {"json": texts[0]}, "env": [{"in": [[ext_val, 1]], "outrecv": []}] * 160 if linked else [], "ticks": 160, "dump": "ext"}])[0]
        if r.get("err"):
            viol.append(("the machine the compiler requests for a program with goroutines cannot be simulated: %s" % r["err"], meta))
            continue
        done += 1
        if linked:
            # the adder's output settles on (value main wrote to the linked output + the external input); it is compared by its
            # settled value, the other outputs by their whole sequences
            final = sorted(t for t in r["ticks"][-1]["out"])
            expect = sorted([v[-1] for v in want.values()] + [(b_ + ext_val) % (1 << rsize)])
            if final != expect:
                viol.append(("the machine's outputs settle on %s; the source (a goroutine adds external input %d to the value %d main writes to the output "
                             "it reads) says %s" % (final, ext_val, b_, expect), meta))
            continue
        seqs = []
        for o in range(len(r["ticks"][-1]["out"])):
            seq = []
            for t in r["ticks"]:
                if not seq or seq[-1] != t["out"][o]:
                    seq.append(t["out"][o])
            seqs.append(seq)

        def merged(vals):
            m = [0]
            for v in vals:
                if m[-1] != v:
                    m.append(v)
            return m
        wanted = sorted(merged(v) for v in want.values())
        if sorted(seqs) != wanted:
            viol.append(("the machine's outputs show the value sequences %s; the source's outputs are written %s" % (sorted(seqs), wanted), meta))
    return viol, done


def directed_part(res, rnd, a, work):
    """fixed shapes with known outputs: comparison of unequal operands (the simulator's je never jumps, so only conditions that are
    false at run time can be executed), a variable shadowed in an inner block, a function called twice with different arguments"""
    viol, done = [], 0
    progs = []
    for _ in range(2 if a.tier == "quick" else 10):
        x, y = rnd.sample(range(1, 100), 2)
        v1, v2 = rnd.sample(range(100, 200), 2)
        progs.append(("reg_a = %d; reg_b = %d; if reg_a == reg_b { write %d } else { write %d }" % (x, y, v1, v2),
                      ["\tvar reg_a uint8", "\tvar reg_b uint8", "\treg_a = %d" % x, "\treg_b = %d" % y, "\tif reg_a == reg_b {",
                       "\t\tbondgo.IOWrite(out0, %d)" % v1, "\t} else {", "\t\tbondgo.IOWrite(out0, %d)" % v2, "\t}"], [v2]))
        progs.append(("an inner block declares reg_x again and assigns it",
                      ["\tvar reg_x uint8", "\treg_x = %d" % x, "\tif true {", "\t\tvar reg_x uint8", "\t\treg_x = %d" % v1,
                       "\t\tbondgo.IOWrite(out0, reg_x)", "\t}", "\tbondgo.IOWrite(out0, reg_x)"], [v1, x]))
    for what, body, want in progs:
        src = "\n".join(["package main", "", "import (", "\t\"bondgo\"", ")", "", "func main() {", "\tvar out0 bondgo.Output",
                          "\tout0 = bondgo.Make(bondgo.Output, 3)"] + body + ["\tfor {", "\t}", "}", ""])
        meta = {"source": src}
        res.count_case({"src": src}, nontrivial=True)
        asm, log, st = run_bondgo(src, 8, work)
        if st == "timeout" or asm is None or st == "error":
            viol.append(("the compiler does not compile (%s): %s" % (what, (log or "")[-200:]), meta))
            continue
        prog = [l.strip() for l in asm.splitlines() if l.strip()]
        m = re.search(r"Registersize: (\d+)", log or "")
        nregs = int(m.group(1)) if m else 4
        ops = sorted(set(l.split()[0] for l in prog) | {"nop", "j"})
        spec = {"rsize": 8, "procs": [{"arch": {"R": max(1, (nregs - 1).bit_length()), "N": 0, "M": 1, "L": 0, "O": max(2, len(prog).bit_length()),
                                        "ops": ops, "mode": "ha", "rsize": 8}, "prog": prog}], "inputs": 0, "outputs": 1, "bonds": [["o0", "p0o0"]]}
        r = simlib.run_sims([{"bm": spec, "env": [], "ticks": 80}])[0]
        if r.get("err"):
            viol.append(("the emitted assembly cannot be assembled or simulated (%s): %s" % (what, r["err"]), meta))
            continue
        got, pc = [], 0
        for t in r["ticks"]:
            if pc < len(prog) and prog[pc].startswith("r2o "):
                got.append(t["procs"][0]["regs"][int(prog[pc].split()[1][1:])])
            pc = t["procs"][0]["pc"]
        done += 1
        if got[:len(want)] != want:
            viol.append(("%s: the compiled program writes %s, the source says %s" % (what, got[:4], want), meta))
    return viol, done


FLOW_MISMATCH = []
FLOW_COUNT = [0]


def asm_codes(prog):
    """the numeric rendering of Front/BondgoFlow.icode for an assembly listing"""
    out = []
    for l in prog:
        w = l.replace(",", " ").split()
        rg = lambda x: int(x[1:])
        op = w[0]
        if op == "clr":
            out.append([1, rg(w[1])])
        elif op == "rset":
            out.append([2, rg(w[1]), int(w[2])])
        elif op in ("cpy", "add", "mult"):
            out.append([{"cpy": 3, "add": 4, "mult": 5}[op], rg(w[1]), rg(w[2])])
        elif op in ("inc", "dec"):
            out.append([6 if op == "inc" else 7, rg(w[1])])
        elif op == "j":
            out.append([8, int(w[1])])
        elif op == "jz":
            out.append([9, rg(w[1]), int(w[2])])
        elif op == "r2o":
            out.append([10, rg(w[1]), rg(w[2])])
        else:
            out.append([0])
    return out


def control_flow_part(res, rnd, a, work):
    import c12cf
    viol = []
    n = 30 if a.tier == "quick" else 160
    done = 0
    asts = [c12cf.gen_cf_ast(rnd) for _ in range(n)]
    # the reference meaning: Front/BondgoCF.v evaluated in Coq (at most 60 writes, fuel 2500)
    body = ("From Coq Require Import List NArith Bool.\nFrom BM Require Import Front.BondgoCF.\nImport ListNotations.\n"
            "Definition M := Eval vm_compute in %s.\n"
            % C.cq_list(["\n map (fun w => [N.of_nat (fst w); snd w]) (%s)" % c12cf.render_coq(p_) for p_ in asts]))
    # the model of the lowering (Front/BondgoFlow.v: allocation of Front/Bondgo.v + flatten) on the same trees; programs with calls are not lowered
    body += ("From BM Require Import Front.BondgoFlow.\nDefinition A := Eval vm_compute in %s.\n"
             % C.cq_list(["\n (if lower_wf %d %s then compile_codes %d %s else [[99%%N]])" % (p_["nv"], c12cf.coq_stmts(p_["main"]), p_["nv"], c12cf.coq_stmts(p_["main"])) for p_ in asts]))
    ev = C.eval_cases("C12", "cf", body, names=("M", "A"), timeout=1800)
    wants, models = ev["M"], ev["A"]
    flow_compared = 0
    for k, (ast_, want) in enumerate(zip(asts, wants)):
        src, rsize, nouts = c12cf.render_go(ast_), ast_["rsize"], ast_["nouts"]
        meta = {"source": src}
        res.count_case({"src": src}, nontrivial=True)
        asm, log, st = run_bondgo(src, rsize, work)
        if st == "timeout":
            viol.append(("the compiler does not terminate on a program with loops", meta))
            continue
        if st == "error" or asm is None:
            viol.append(("the compiler rejects a program of the accepted subset: %s" % (log or "")[-300:], meta))
            continue
        prog = [l.strip() for l in asm.splitlines() if l.strip()]
        if models[k]:
            flow_compared += 1
            codes = asm_codes(prog)
            if codes != [list(x) for x in models[k]]:
                first = next((i for i, (x, y) in enumerate(zip(codes, models[k])) if x != list(y)), min(len(codes), len(models[k])))
                FLOW_MISMATCH.append(("the emitted assembly differs from the lowering model (Front/BondgoFlow.v) at line %d: compiler %s, model %s"
                                      % (first, prog[first] if first < len(prog) else "<end>", list(models[k][first]) if first < len(models[k]) else "<end>"), meta))
        m = re.search(r"Registersize: (\d+)", log or "")
        nregs = int(m.group(1)) if m else 4
        R = max(1, (nregs - 1).bit_length())
        O = max(2, len(prog).bit_length())
        ops = sorted(set(l.split()[0] for l in prog) | {"nop", "j"})
        spec = {"rsize": rsize, "procs": [{"arch": {"R": R, "N": 0, "M": nouts, "L": 0, "O": O, "ops": ops, "mode": "ha", "rsize": rsize}, "prog": prog}],
                "inputs": 0, "outputs": nouts, "bonds": [["o%d" % o, "p0o%d" % o] for o in range(nouts)]}
        ticks = 600
        r = simlib.run_sims([{"bm": spec, "env": [], "ticks": ticks}])[0]
        if r.get("err"):
            viol.append(("the emitted assembly cannot be assembled or simulated: %s" % r["err"], meta))
            continue
        got = []
        pc = 0
        for t in r["ticks"]:
            if pc < len(prog) and prog[pc].startswith("r2o "):
                w = prog[pc].split()
                got.append((int(w[2][1:]), t["procs"][0]["regs"][int(w[1][1:])]))
            pc = t["procs"][0]["pc"]
        done += 1
        want = [tuple(x) for x in want]
        mlen = min(len(got), len(want))
        if got[:mlen] != want[:mlen] or (mlen == 0 and (got or want)):
            viol.append(("the compiled program writes %s, Go semantics gives %s" % (got[:12], want[:12]), meta))
            continue
        # the machine the compiler itself requests (multi-processor mode writes it): the value sequence on each machine output
        # must be the sequence the source writes to the output with that rank (outputs are numbered in the order of their ids)
        if k % 2 == 0 or nouts > 1:
            mj = os.path.join(work, "bm.json")
            if os.path.exists(mj):
                os.remove(mj)
            texts = []
            for rep in range(6 if nouts > 1 else 1):
                if os.path.exists(mj):
                    os.remove(mj)
                if run_mpm([BONDGO, "-input-file", os.path.join(work, "p.go"), "-register-size", str(rsize), "-mpm", "-save-bondmachine", mj], work) is None:
                    texts = ["timeout"]
                    break
                texts.append(open(mj).read() if os.path.exists(mj) else None)
            if texts == ["timeout"]:
                viol.append(("the compiler does not terminate (deadline 60 s) in multi-processor mode", meta))
                continue
            if texts[0] is None:
                viol.append(("the compiler writes no machine in multi-processor mode for a program it compiles in single-processor mode", meta))
                continue
            if len(set(texts)) > 1:
                viol.append(("compiling the same source %d times gives %d different machines (the numbering of the machine's outputs varies)"
                             % (len(texts), len(set(texts))), meta))
                continue
            open(mj, "w").write(texts[0])
            r2 = simlib.run_sims([{"bm": {"json": open(mj).read()}, "env": [], "ticks": ticks, "dump": "ext"}])[0]
            if r2.get("err"):
                viol.append(("the machine the compiler requests cannot be simulated: %s" % r2["err"], meta))
                continue
            for o in range(nouts):
                seq = []
                for t in r2["ticks"]:
                    v = t["out"][o] if o < len(t["out"]) else None
                    if not seq or seq[-1] != v:
                        seq.append(v)
                wo = [0]
                for (oo, v) in want:
                    if oo == o and wo[-1] != v:
                        wo.append(v)
                seq = seq[:len(wo)] if len(seq) > len(wo) else seq
                # the simulated prefix must be a prefix of what the source writes (consecutive duplicates merged on both sides)
                if seq != wo[:len(seq)] or (len(wo) > 1 and len(seq) < 2):
                    viol.append(("on the machine the compiler requests, output %d shows the value sequence %s; the source writes %s to that output"
                                 % (o, seq[:10], wo[:10]), meta))
                    break
    FLOW_COUNT[0] = flow_compared
    return viol, done


def run(res, a):
    failed = C.proof_part(res, "C12", extra_files=[os.path.join(C.COQ, "theories", "Properties", "C12cf.v"), os.path.join(C.COQ, "theories", "Properties", "C12flow.v")], trusted=[
        "Front/BondgoCF.v: source-level meaning of the control-flow subset (hand-written, cross-checked against an independent interpreter "
        "while it was written); it is the oracle of the control-flow comparison",
        "Front/BondgoProto.v (worker protocol LTS) and Front/Bondgo.v (code generation for the register-variable subset) are "
        "hand-written models; ties: the real cmd/bondgo binary (built with -tags verif) is run under forced delays before the "
        "allocator's notifications and under a deadline, and its assembly output is compared instruction by instruction with the "
        "model's compile", "Isa/Sim.v as the meaning of the emitted assembly (tied to the Go simulator by C09's per-tick comparison)"])
    build_bondgo()
    C.build_harness()
    rnd = random.Random(a.seed)
    n = 30 if a.tier == "quick" else 400
    work = tempfile.mkdtemp(prefix="verif-c12-")
    viol, mism = [], []
    rows, metas = [], []
    try:
        progs = []
        for _ in range(n):
            nouts, stmts = gen_prog(rnd)
            stmts = [(s[0], s[1], normalise(s[2])) if s[0] in ("assign", "write") else s for s in stmts]
            progs.append((nouts, stmts, rnd.choice([8, 16, 32])))
        if a.replay:
            rp = json.load(open(a.replay))["replay"]
            progs = [(rp["nouts"], [tuple(s) for s in json.loads(json.dumps(rp["stmts"]))], rp["rsize"])]

            def tup(x):
                return tuple(tup(y) for y in x) if isinstance(x, list) else x
            progs = [(rp["nouts"], [tup(s) for s in rp["stmts"]], rp["rsize"])]
        for nouts, stmts, rsize in progs:
            src = go_source(nouts, stmts, rsize)
            meta = {"nouts": nouts, "stmts": stmts, "rsize": rsize, "source": src}
            res.count_case({"src": src}, nontrivial=len(stmts) >= 3)
            outs = {}
            for d in ((0, 25) if a.tier == "quick" else (0, 5, 25, 60)):
                asm, log, st = run_bondgo(src, rsize, work, delay_ms=d)
                if st == "timeout":
                    viol.append(("the compiler does not terminate (deadline 20 s) when the allocator's notification is delayed by %d ms" % d, meta))
                    break
                reqs = "\n".join(l for l in (log or "").splitlines() if re.match(r"^(Registersize|Inputs|Outputs|Romsize|Ramsize):", l))
                outs[d] = (asm, reqs, st)
            else:
                vals = set((v[0], v[1]) for v in outs.values())
                if len(vals) > 1:
                    viol.append(("the compiler's output depends on the timing of its internal workers: %s" % {k: v[1] for k, v in outs.items()}, meta))
                    continue
                asm, reqs, st = outs[0]
                if st == "error" or asm is None:
                    mism.append(("the compiler rejects a program of the modelled subset", meta))
                    continue
                terms = [simlib.instr_term(l) for l in asm.splitlines() if l.strip()]
                if None in terms:
                    mism.append(("emitted assembly contains an instruction outside the model: %s" % asm, meta))
                    continue
                m = re.search(r"Registersize: (\d+)", reqs)
                rows.append("(%s, %s, %d, %d%%N)" % (coq_prog(stmts), C.cq_list(terms), int(m.group(1)) if m else 0, rsize))
                metas.append(meta)
        # goroutines with arguments (corpus/bondgo): each goroutine becomes a processor and its arguments travel over a channel
        import glob
        known = {k["key"] for k in C.known_findings("C12")}
        for f in sorted(glob.glob(os.path.join(C.VERIF, "corpus/bondgo/*.go"))):
            text = open(f).read()
            if "go " not in text:
                continue
            d = tempfile.mkdtemp(dir=work)
            open(os.path.join(d, "p.go"), "w").write(text)
            pout = run_mpm([BONDGO, "-input-file", "p.go", "-register-size", "8", "-save-bondmachine", "bm.json", "-mpm"], d, timeout=120)
            res.count_case({"src": text}, nontrivial=True)
            if pout is None:
                viol.append(("the compiler does not terminate (deadline 120 s) on %s" % os.path.basename(f), {"source": text}))
            elif not os.path.exists(os.path.join(d, "bm.json")):
                why = [l for l in pout.splitlines() if "error" in l.lower()][:1]
                msg = "%s (goroutines with arguments) is not compiled: %s" % (os.path.basename(f), (why or [pout[-200:]])[0])
                if "error processing chw" in pout and "c12_goroutine_arguments_rejected" in known:
                    res.known_finding("c12_goroutine_arguments_rejected " + msg)
                else:
                    viol.append((msg, {"source": text}))
        del FLOW_MISMATCH[:]
        cf_viol, cf_done = control_flow_part(res, rnd, a, work)
        viol += cf_viol
        res.coverage["control_flow_programs_lowering_compared_with_model"] = FLOW_COUNT[0]
        di_viol, di_done = directed_part(res, rnd, a, work)
        viol += di_viol
        res.coverage["directed_programs_compared"] = di_done
        go_viol, go_done = goroutine_part(res, rnd, a, work)
        viol += go_viol
        res.coverage["goroutine_programs_compared"] = go_done
        res.coverage["control_flow_programs_compared"] = cf_done
    finally:
        shutil.rmtree(work, ignore_errors=True)
    if rows:
        body = ("From Coq Require Import List NArith Bool.\nFrom BM Require Import Isa.Sim Front.Bondgo Front.BondgoCheck.\nImport ListNotations.\n"
                "Definition cases : list (list stmt * list instr * nat * N) := %s.\n"
                "Definition M := Eval vm_compute in map check_case cases.\n" % C.cq_list(["\n" + r for r in rows]))
        for meta, codes in zip(metas, C.eval_cases("C12", "0", body, timeout=3000)["M"]):
            for code in codes:
                mism.append(({1: "the compiler's assembly differs from the model's compile", 2: "the reported register requirement differs from the model's",
                              3: "running the emitted code on the simulator model does not produce the Go semantics' output sequence"}[code], meta))
    cov = res.coverage
    cov["rule"] = ("random programs of the modelled subset (1-3 outputs, up to 4 reg_ variables, assignments and IOWrite with expression "
                   "trees over + and * that need no parentheses), register sizes 8/16/32; each compiled by the real cmd/bondgo under 2 (quick) or 4 "
                   "forced delays of the allocator's notifications; non-trivial = at least 3 statements; distinct by hash of the source")
    cov["traces_validated_against_impl"] = len(rows) - len(mism)
    cov["samples"] = [{"source": metas[0]["source"]}] if metas else []
    for text, meta in viol[:3]:
        res.violation("C12 " + text, meta)
    if not viol:
        for text, meta in (mism + FLOW_MISMATCH)[:3]:
            res.violation("C12 " + text, meta, nofail=("simulator model" not in text))
    if failed and not viol and not mism and not FLOW_MISMATCH:
        res.violation("C12 proof obligation no longer checks: %s" % failed, {"obligation": failed}, nofail=True)
    return res.finish("proof")
