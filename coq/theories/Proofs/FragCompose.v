(* Proofs/FragCompose.v — one pass over the section fragmentComposer builds for a processor computes, at
   the processor's outputs, the values the graph's direct evaluation gives, provided its inputs carry the
   values of their sources.  Part 1: sequences of assignments. *)
From Coq Require Import List NArith Bool Arith Lia.
From BM Require Import Isa.Sim Front.Frag Front.FragWf Proofs.BondgoProofs Proofs.FragProofs Proofs.FragExec.
Import ListNotations.

(* ---------- lists of (place, value) assignments ---------- *)
Definition assign_all (asg : list (nat * N)) (r : list N) : list N := fold_left (fun r a => upd (fst a) (snd a) r) asg r.

Lemma assign_all_length : forall asg r, length (assign_all asg r) = length r.
Proof. induction asg as [|a asg IH]; intros r; simpl; auto. unfold assign_all in *. simpl. rewrite IH. apply upd_length. Qed.

Lemma assign_all_other : forall asg r x, ~ In x (map fst asg) -> nthN (assign_all asg r) x = nthN r x.
Proof.
  induction asg as [|a asg IH]; intros r x Hx; simpl; auto. unfold assign_all in *. simpl.
  rewrite IH by (intros H; apply Hx; right; exact H). apply nthN_upd_other. intros E. apply Hx. left. exact E.
Qed.

Lemma assign_all_in : forall asg r k v, NoDup (map fst asg) -> In (k, v) asg -> k < length r -> nthN (assign_all asg r) k = v.
Proof.
  induction asg as [|a asg IH]; intros r k v Hnd Hin Hk; [contradiction|]. unfold assign_all in *. simpl in *.
  inversion Hnd as [|x l Hx Hnd']; subst. destruct Hin as [->|Hin].
  - simpl. fold (assign_all asg (upd k v r)). rewrite assign_all_other by exact Hx. apply nthN_upd_same. exact Hk.
  - apply IH; auto. rewrite upd_length. exact Hk.
Qed.

Lemma assign_all_app a b r : assign_all (a ++ b) r = assign_all b (assign_all a r).
Proof. unfold assign_all. apply fold_left_app. Qed.

(* ---------- running a piece of code ---------- *)
Definition runc (rs : N) (code : list instr) (p : pstate) : pstate := fold_left (fun p i => exec rs 0 p i) code p.
Lemma runc_app rs a b p : runc rs (a ++ b) p = runc rs b (runc rs a p).
Proof. unfold runc. apply fold_left_app. Qed.

(* a block of input loads: registers receive input values *)
Lemma run_i2r_block rs : forall (l : list (nat * nat)) p,
  let p' := runc rs (map (fun a => II2r (fst a) (snd a)) l) p in
  regs p' = assign_all (map (fun a => (fst a, nthN (inputs p) (snd a))) l) (regs p) /\ inputs p' = inputs p /\ outputs p' = outputs p.
Proof.
  induction l as [|a l IH]; intros p; simpl; auto.
  destruct (IH (exec rs 0 p (II2r (fst a) (snd a)))) as [E1 [E2 E3]]. simpl in *.
  unfold runc in *. simpl. rewrite E1, E2, E3. auto.
Qed.

(* a block of register copies whose sources are not among the destinations: the values are those before the block *)
Lemma run_cpy_block rs : forall (l : list (nat * nat)) p,
  (forall a b, In a l -> In b l -> fst a <> snd b) ->
  let p' := runc rs (map (fun a => ICpy (fst a) (snd a)) l) p in
  regs p' = assign_all (map (fun a => (fst a, nthN (regs p) (snd a))) l) (regs p) /\ inputs p' = inputs p /\ outputs p' = outputs p.
Proof.
  induction l as [|a l IH]; intros p Hd; simpl; auto.
  destruct (IH (exec rs 0 p (ICpy (fst a) (snd a)))) as [E1 [E2 E3]].
  { intros x y Hx Hy. apply Hd; right; assumption. }
  simpl in *. unfold runc in *. simpl. rewrite E1, E2, E3. split; [|auto].
  unfold assign_all. simpl. f_equal.
  apply map_ext_in. intros b Hb. f_equal. apply nthN_upd_other. apply Hd; [left; reflexivity|right; exact Hb].
Qed.

(* a block of output writes *)
Lemma run_r2o_block rs : forall (l : list (nat * nat)) p,
  let p' := runc rs (map (fun a => IR2o (fst a) (snd a)) l) p in
  regs p' = regs p /\ inputs p' = inputs p /\ outputs p' = assign_all (map (fun a => (snd a, nthN (regs p) (fst a))) l) (outputs p).
Proof.
  induction l as [|a l IH]; intros p; simpl; auto.
  destruct (IH (exec rs 0 p (IR2o (fst a) (snd a)))) as [E1 [E2 E3]]. simpl in *.
  unfold runc in *. simpl. rewrite E1, E2, E3. auto.
Qed.

(* ---------- positions in duplicate-free port lists ---------- *)
Lemma index_of2_some : forall l x k, index_of2 x l = Some k -> nth_error l k = Some x.
Proof.
  induction l as [|y l IH]; intros x k H; simpl in H; [discriminate|].
  destruct (Nat.eqb (fst x) (fst y) && Nat.eqb (snd x) (snd y)) eqn:E.
  - inversion H; subst. apply andb_true_iff in E. destruct E as [E1 E2]. apply Nat.eqb_eq in E1. apply Nat.eqb_eq in E2.
    destruct x, y; simpl in *; subst. reflexivity.
  - destruct (index_of2 x l) as [k'|] eqn:Ei; simpl in H; [|discriminate]. inversion H; subst. simpl. auto.
Qed.

Lemma index_of2_in : forall l x, In x l -> exists k, index_of2 x l = Some k.
Proof.
  induction l as [|y l IH]; intros x H; [contradiction|]. simpl.
  destruct (Nat.eqb (fst x) (fst y) && Nat.eqb (snd x) (snd y)) eqn:E; [eauto|].
  destruct H as [->|H].
  - rewrite !Nat.eqb_refl in E. discriminate.
  - destruct (IH x H) as [k Hk]. rewrite Hk. simpl. eauto.
Qed.

Lemma index_of2_inj l x y k : index_of2 x l = Some k -> index_of2 y l = Some k -> x = y.
Proof. intros Hx Hy. apply index_of2_some in Hx. apply index_of2_some in Hy. congruence. Qed.

Lemma index_of2_lt l x k : index_of2 x l = Some k -> k < length l.
Proof. intros H. apply index_of2_some in H. apply nth_error_Some. congruence. Qed.

Lemma index_of2_none l x : index_of2 x l = None -> ~ In x l.
Proof. intros H Hin. destruct (index_of2_in l x Hin) as [k Hk]. congruence. Qed.

(* ---------- optional maps ---------- *)
Definition fmap {A B} (f : A -> option B) (l : list A) : list B := flat_map (fun x => match f x with Some y => [y] | None => [] end) l.

Lemma flat_map_fmap {A B C} (f : A -> option B) (g : B -> C) (h : A -> list C) l :
  (forall x, In x l -> h x = match f x with Some y => [g y] | None => [] end) -> flat_map h l = map g (fmap f l).
Proof.
  induction l as [|x l IH]; intros H; simpl; auto. rewrite (H x (or_introl eq_refl)).
  unfold fmap in *. simpl. rewrite map_app. rewrite IH by (intros y Hy; apply H; right; exact Hy).
  destruct (f x); reflexivity.
Qed.

Lemma in_fmap {A B} (f : A -> option B) l y : In y (fmap f l) <-> exists x, In x l /\ f x = Some y.
Proof.
  unfold fmap. rewrite in_flat_map. split.
  - intros [x [Hx Hy]]. exists x. split; auto. destruct (f x); simpl in Hy; [destruct Hy as [->|[]]; reflexivity|contradiction].
  - intros [x [Hx E]]. exists x. split; auto. rewrite E. simpl. auto.
Qed.

(* if the keys of the source list are distinct and f keeps the key, the keys of the result are distinct *)
Lemma fmap_nodup {A} (key : A -> nat) (f : A -> option (nat * N)) l :
  NoDup (map key l) -> (forall x y, f x = Some y -> fst y = key x) -> NoDup (map fst (fmap f l)).
Proof.
  induction l as [|x l IH]; intros Hnd Hk; simpl; [constructor|].
  inversion Hnd as [|k ks Hx Hnd']; subst. unfold fmap in *. simpl. rewrite map_app.
  destruct (f x) as [y|] eqn:E; simpl; [|apply IH; auto].
  constructor; [|apply IH; auto].
  intros Hin. apply in_map_iff in Hin. destruct Hin as [z [Ez Hz]]. apply in_fmap in Hz. destruct Hz as [w [Hw Ew]].
  apply Hx. rewrite <- (Hk x y E), <- Ez, (Hk w z Ew). apply in_map. exact Hw.
Qed.

Lemma alloc_tmps_length : forall n used, length (alloc_tmps n used) = n.
Proof. induction n as [|n IH]; intros used; simpl; auto. Qed.

Lemma writes_in_regs i : incl (writes i) (Frag.instr_regs i).
Proof. destruct i; simpl; intros x Hx; simpl in *; tauto. Qed.

Lemma in_ports_where g cl pred cnt p q :
  In (p, q) (ports_where g cl pred cnt) <-> In p cl /\ q < cnt (inst_at g p) /\ pred p q = true.
Proof.
  unfold ports_where. rewrite in_flat_map. split.
  - intros [p' [Hp' H]]. apply filter_In in H. destruct H as [H1 H2]. apply in_map_iff in H1. destruct H1 as [q' [E Hq']].
    inversion E; subst. apply in_seq in Hq'. simpl in H2. repeat split; auto. lia.
  - intros [Hp [Hq Hpr]]. exists p. split; auto. apply filter_In. split; [|exact Hpr].
    apply in_map_iff. exists q. split; auto. apply in_seq. lia.
Qed.

(* ---------- one processor ---------- *)
Section Pass.
Variables (rs : N) (nregs nouts : nat) (ins xs : list N) (g : graph) (cl : list nat).
(* the instances whose inputs can be trusted: the claim is made for these only *)
Variable good : nat -> bool.

Let vals := eval_insts rs nregs xs (insts g) [].
Definition V (p q : nat) : N := nthN (nth p vals []) q.
Let T := alloc_tmps (length (tmp_ports g cl)) (frag_regs g cl).
Definition tmp (t : nat) : nat := nth t T 0.
Let nm := numbering_of g cl.

Hypothesis H_nd : NoDup cl.
Hypothesis H_frag : forall p, In p cl ->
  frag_ok (ifrag (inst_at g p)) = true /\ NoDup (resin (ifrag (inst_at g p))) /\
  length (isrc (inst_at g p)) = length (resin (ifrag (inst_at g p))).
Hypothesis H_regs : forall x, In x (frag_regs g cl) -> x < nregs.
Hypothesis H_tmps : forall t, In t T -> t < nregs.
Hypothesis H_ins : forall p j k, In p cl -> good p = true -> index_of2 (p, j) (in_ports g cl) = Some k ->
  nthN ins k = src_val xs vals (nth j (isrc (inst_at g p)) (SExt 0)).
Hypothesis H_nouts : length (out_ports g cl) <= nouts.
Hypothesis H_eval : forall p, In p cl ->
  nth p vals [] = frag_fun rs nregs (ifrag (inst_at g p)) (map (src_val xs vals) (isrc (inst_at g p))).
Hypothesis H_ports : forall p j p' q', In p cl -> nth_error (isrc (inst_at g p)) j = Some (SOut p' q') ->
  q' < length (resout (ifrag (inst_at g p'))).
Hypothesis H_good : forall p j p' q', In p cl -> good p = true ->
  nth_error (isrc (inst_at g p)) j = Some (SOut p' q') -> inside cl p' = true -> good p' = true.
(* internal producers come earlier in the collapse list *)
Hypothesis H_order : forall done p todo j p' q', cl = done ++ p :: todo ->
  nth_error (isrc (inst_at g p)) j = Some (SOut p' q') -> inside cl p' = true -> In p' done.

(* temporaries *)
Lemma T_fresh : NoDup T /\ forall t, In t T -> ~ In t (frag_regs g cl).
Proof. apply temporaries_are_fresh. Qed.

Lemma T_length : length T = length (tmp_ports g cl).
Proof. apply alloc_tmps_length. Qed.

Lemma tmp_in t : t < length (tmp_ports g cl) -> In (tmp t) T.
Proof. intros H. unfold tmp. apply nth_In. rewrite T_length. exact H. Qed.

Lemma tmp_inj t1 t2 : t1 < length (tmp_ports g cl) -> t2 < length (tmp_ports g cl) -> tmp t1 = tmp t2 -> t1 = t2.
Proof. intros H1 H2 E. destruct T_fresh as [Hnd _]. apply (proj1 (NoDup_nth T 0) Hnd); rewrite ?T_length; auto. Qed.

Lemma frag_regs_in p x : In p cl ->
  In x (resin (ifrag (inst_at g p)) ++ resout (ifrag (inst_at g p)) ++ flat_map Frag.instr_regs (fbody (ifrag (inst_at g p)))) ->
  In x (frag_regs g cl).
Proof. intros Hp Hx. unfold frag_regs. apply in_flat_map. exists p. split; [exact Hp|exact Hx]. Qed.

Lemma tmp_not_frag t p x : t < length (tmp_ports g cl) -> In p cl ->
  In x (resin (ifrag (inst_at g p)) ++ resout (ifrag (inst_at g p)) ++ flat_map Frag.instr_regs (fbody (ifrag (inst_at g p)))) ->
  tmp t <> x.
Proof. intros Ht Hp Hx E. destruct T_fresh as [_ Hf]. apply (Hf (tmp t) (tmp_in t Ht)). rewrite E. eapply frag_regs_in; eauto. Qed.

Definition Inv (done : list nat) (ps : pstate) : Prop :=
  length (regs ps) = nregs /\ inputs ps = ins /\ length (outputs ps) = nouts /\
  (forall p' q' t, In p' done -> good p' = true -> index_of2 (p', q') (tmp_ports g cl) = Some t -> nthN (regs ps) (tmp t) = V p' q') /\
  (forall p' q' k, In p' done -> good p' = true -> index_of2 (p', q') (out_ports g cl) = Some k -> nthN (outputs ps) k = V p' q').

(* the port list of an instance *)
Definition ports_of (p : nat) : list (nat * (nat * source)) :=
  combine (seq 0 (length (isrc (inst_at g p)))) (combine (resin (ifrag (inst_at g p))) (isrc (inst_at g p))).

Lemma ports_of_nth p j : In p cl -> j < length (isrc (inst_at g p)) ->
  nth_error (ports_of p) j = Some (j, (nth j (resin (ifrag (inst_at g p))) 0, nth j (isrc (inst_at g p)) (SExt 0))).
Proof.
  intros Hp Hj. destruct (H_frag p Hp) as [_ [_ Hl]]. unfold ports_of.
  assert (Hlen : length (combine (resin (ifrag (inst_at g p))) (isrc (inst_at g p))) = length (isrc (inst_at g p))).
  { rewrite combine_length, Hl. apply Nat.min_id. }
  rewrite (nth_error_nth' _ (0, (0, SExt 0))) by (rewrite combine_length, seq_length, Hlen, Nat.min_id; exact Hj).
  rewrite combine_nth by (rewrite seq_length, Hlen; reflexivity).
  rewrite seq_nth by exact Hj. rewrite combine_nth by (symmetry; exact Hl). reflexivity.
Qed.

Lemma ports_of_in p x : In p cl -> In x (ports_of p) ->
  fst x < length (isrc (inst_at g p)) /\ fst (snd x) = nth (fst x) (resin (ifrag (inst_at g p))) 0 /\
  nth_error (isrc (inst_at g p)) (fst x) = Some (snd (snd x)).
Proof.
  intros Hp Hx. apply In_nth_error in Hx. destruct Hx as [j Hj].
  assert (Hjl : j < length (ports_of p)) by (apply nth_error_Some; congruence).
  destruct (H_frag p Hp) as [_ [_ Hl]].
  assert (Hj' : j < length (isrc (inst_at g p))).
  { unfold ports_of in Hjl. rewrite !combine_length, seq_length, Hl in Hjl. lia. }
  rewrite (ports_of_nth p j Hp Hj') in Hj. inversion Hj; subst. simpl. split; [exact Hj'|]. split; [reflexivity|].
  apply nth_error_nth'. exact Hj'.
Qed.

Lemma ports_keys_nodup p : In p cl -> NoDup (map (fun x : nat * (nat * source) => fst (snd x)) (ports_of p)).
Proof.
  intros Hp. destruct (H_frag p Hp) as [_ [Hnd Hl]]. unfold ports_of.
  assert (E : map (fun x : nat * (nat * source) => fst (snd x))
                  (combine (seq 0 (length (isrc (inst_at g p)))) (combine (resin (ifrag (inst_at g p))) (isrc (inst_at g p))))
              = resin (ifrag (inst_at g p))).
  { generalize (resin (ifrag (inst_at g p))) (isrc (inst_at g p)) Hl 0. clear.
    induction l as [|a l IH]; intros [|s ss] Hl n; simpl in *; try discriminate; auto. f_equal. apply IH. lia. }
  rewrite E. exact Hnd.
Qed.

(* ---- stage 1: the glue in front of the body loads every input register with the value of its source ---- *)
Definition A1f (p : nat) (x : nat * (nat * source)) : option (nat * nat) :=
  option_map (fun k => (fst (snd x), k)) (lookup3 (n_in nm) p (fst x)).
Definition A2f (x : nat * (nat * source)) : option (nat * nat) :=
  match snd (snd x) with
  | SOut p' q' => if inside cl p' then option_map (fun t => (fst (snd x), tmp t)) (lookup3 (n_tmp nm) p' q') else None
  | SExt _ => None
  end.
Definition c1 (p : nat) := flat_map (fun x => match lookup3 (n_in nm) p (fst x) with Some k => [II2r (fst (snd x)) k] | None => [] end) (ports_of p).
Definition c2 (p : nat) := flat_map (fun x : nat * (nat * source) => match snd (snd x) with
                     | SOut p' q' => if inside cl p' then match lookup3 (n_tmp nm) p' q' with Some t => [ICpy (fst (snd x)) (tmp t)] | None => [] end else []
                     | SExt _ => [] end) (ports_of p).

Lemma c1_map p : c1 p = map (fun a => II2r (fst a) (snd a)) (fmap (A1f p) (ports_of p)).
Proof. unfold c1. apply flat_map_fmap. intros x _. unfold A1f. destruct (lookup3 (n_in nm) p (fst x)); reflexivity. Qed.

Lemma c2_map p : c2 p = map (fun a => ICpy (fst a) (snd a)) (fmap A2f (ports_of p)).
Proof.
  unfold c2. apply flat_map_fmap. intros x _. unfold A2f. destruct (snd (snd x)) as [e|p' q']; [reflexivity|].
  destruct (inside cl p'); [|reflexivity]. destruct (lookup3 (n_tmp nm) p' q'); reflexivity.
Qed.

Lemma map_fmap {A B C} (f : A -> option B) (h : B -> C) l : map h (fmap f l) = fmap (fun x => option_map h (f x)) l.
Proof.
  induction l as [|x l IH]; simpl; auto. unfold fmap in *. simpl. rewrite map_app, IH. destruct (f x); reflexivity.
Qed.

(* the same lists with the values filled in *)
Definition A1v (p : nat) (x : nat * (nat * source)) : option (nat * N) :=
  option_map (fun a : nat * nat => (fst a, nthN ins (snd a))) (A1f p x).
Definition A2v (r : list N) (x : nat * (nat * source)) : option (nat * N) :=
  option_map (fun a : nat * nat => (fst a, nthN r (snd a))) (A2f x).

Lemma A1v_key p x y : A1v p x = Some y -> fst y = fst (snd x).
Proof. unfold A1v, A1f. destruct (lookup3 _ p (fst x)); simpl; intros H; inversion H; reflexivity. Qed.
Lemma A2v_key r x y : A2v r x = Some y -> fst y = fst (snd x).
Proof.
  unfold A2v, A2f. destruct (snd (snd x)) as [|p' q']; simpl; [discriminate|].
  destruct (inside cl p'); simpl; [|discriminate]. destruct (lookup3 _ p' q'); simpl; intros H; inversion H; reflexivity.
Qed.

Lemma key_in_resin p x : In p cl -> In x (ports_of p) -> In (fst (snd x)) (resin (ifrag (inst_at g p))).
Proof.
  intros Hp Hx. destruct (ports_of_in p x Hp Hx) as [Hj [Er _]]. destruct (H_frag p Hp) as [_ [_ Hl]]. rewrite Er. apply nth_In. lia.
Qed.

Lemma stage_loads done p todo ps : cl = done ++ p :: todo -> Inv done ps ->
  let s2 := runc rs (c1 p ++ c2 p) ps in
  length (regs s2) = nregs /\ inputs s2 = ins /\ outputs s2 = outputs ps /\
  (good p = true -> forall j, j < length (isrc (inst_at g p)) ->
     nthN (regs s2) (nth j (resin (ifrag (inst_at g p))) 0) = src_val xs vals (nth j (isrc (inst_at g p)) (SExt 0))) /\
  (forall x, ~ In x (resin (ifrag (inst_at g p))) -> nthN (regs s2) x = nthN (regs ps) x).
Proof.
  intros Hcl [Hlen [Hins [Hol [Htmp Hout]]]].
  assert (Hp : In p cl) by (rewrite Hcl; apply in_or_app; right; left; reflexivity).
  destruct (H_frag p Hp) as [Hok [Hndr Hl]].
  cbv zeta. rewrite runc_app, c1_map, c2_map.
  destruct (run_i2r_block rs (fmap (A1f p) (ports_of p)) ps) as [R1 [I1 O1]]. cbv zeta in R1, I1, O1.
  set (s1 := runc rs (map (fun a => II2r (fst a) (snd a)) (fmap (A1f p) (ports_of p))) ps) in *.
  rewrite map_fmap in R1. rewrite Hins in R1. fold (A1v p) in R1.
  assert (Hdisj : forall a b, In a (fmap A2f (ports_of p)) -> In b (fmap A2f (ports_of p)) -> fst a <> snd b).
  { intros a b Ha Hb. apply in_fmap in Ha. destruct Ha as [x [Hx Ex]]. apply in_fmap in Hb. destruct Hb as [y [Hy Ey]].
    assert (Ka : fst a = fst (snd x)).
    { unfold A2f in Ex. destruct (snd (snd x)) as [|px qx]; [discriminate|]. destruct (inside cl px); [|discriminate].
      destruct (lookup3 (n_tmp nm) px qx); [|discriminate]. inversion Ex; reflexivity. }
    unfold A2f in Ey. destruct (snd (snd y)) as [|py qy]; [discriminate|]. destruct (inside cl py); [|discriminate].
    destruct (lookup3 (n_tmp nm) py qy) as [ty|] eqn:Ety; [|discriminate]. inversion Ey; subst b. simpl.
    rewrite Ka. intros E. symmetry in E. revert E. apply (tmp_not_frag ty p); auto.
    - eapply index_of2_lt; eauto.
    - apply in_or_app. left. apply key_in_resin; auto. }
  destruct (run_cpy_block rs (fmap A2f (ports_of p)) s1 Hdisj) as [R2 [I2 O2]]. cbv zeta in R2, I2, O2.
  set (s2 := runc rs (map (fun a => ICpy (fst a) (snd a)) (fmap A2f (ports_of p))) s1) in *.
  rewrite map_fmap in R2. fold (A2v (regs s1)) in R2.
  assert (Hnd1 : NoDup (map fst (fmap (A1v p) (ports_of p)))).
  { apply (fmap_nodup (fun x : nat * (nat * source) => fst (snd x))); [apply ports_keys_nodup; exact Hp|apply A1v_key]. }
  assert (Hnd2 : NoDup (map fst (fmap (A2v (regs s1)) (ports_of p)))).
  { apply (fmap_nodup (fun x : nat * (nat * source) => fst (snd x))); [apply ports_keys_nodup; exact Hp|apply A2v_key]. }
  assert (Hk1 : forall k, In k (map fst (fmap (A1v p) (ports_of p))) -> In k (resin (ifrag (inst_at g p)))).
  { intros k Hk. apply in_map_iff in Hk. destruct Hk as [y [Ey Hy]]. apply in_fmap in Hy. destruct Hy as [x [Hx Ex]].
    subst k. rewrite (A1v_key p x y Ex). apply key_in_resin; auto. }
  assert (Hk2 : forall k, In k (map fst (fmap (A2v (regs s1)) (ports_of p))) -> In k (resin (ifrag (inst_at g p)))).
  { intros k Hk. apply in_map_iff in Hk. destruct Hk as [y [Ey Hy]]. apply in_fmap in Hy. destruct Hy as [x [Hx Ex]].
    subst k. rewrite (A2v_key _ x y Ex). apply key_in_resin; auto. }
  assert (Hl1 : length (regs s1) = nregs) by (rewrite R1, assign_all_length; exact Hlen).
  split; [rewrite R2, assign_all_length; exact Hl1|].
  split; [rewrite I2, I1; exact Hins|]. split; [rewrite O2, O1; reflexivity|]. split.
  - intros Hgp j Hj.
    pose proof (ports_of_nth p j Hp Hj) as Hnth. apply nth_error_In in Hnth.
    set (x := (j, (nth j (resin (ifrag (inst_at g p))) 0, nth j (isrc (inst_at g p)) (SExt 0)))) in *.
    assert (Hreg : nth j (resin (ifrag (inst_at g p))) 0 < nregs).
    { apply H_regs. apply (frag_regs_in p); auto. apply in_or_app. left. apply nth_In. lia. }
    assert (Hsrc : nth_error (isrc (inst_at g p)) j = Some (nth j (isrc (inst_at g p)) (SExt 0))) by (apply nth_error_nth'; exact Hj).
    destruct (nth j (isrc (inst_at g p)) (SExt 0)) as [e|p' q'] eqn:Es.
    + (* fed by an external input *)
      assert (Hin : In (p, j) (in_ports g cl)).
      { apply in_ports_where. split; [exact Hp|]. split; [exact Hj|]. unfold fed_from_outside. rewrite Hsrc. reflexivity. }
      destruct (index_of2_in _ _ Hin) as [k Hk].
      assert (Ha1 : In (nth j (resin (ifrag (inst_at g p))) 0, nthN ins k) (fmap (A1v p) (ports_of p))).
      { apply in_fmap. exists x. split; [exact Hnth|]. unfold A1v, A1f, lookup3, x. simpl. unfold nm, numbering_of. simpl. rewrite Hk. reflexivity. }
      rewrite R2. rewrite assign_all_other.
      * rewrite R1. rewrite (assign_all_in _ _ _ _ Hnd1 Ha1) by (rewrite Hlen; exact Hreg).
        rewrite (H_ins p j k Hp Hgp Hk), Es. reflexivity.
      * intros Hc. apply in_map_iff in Hc. destruct Hc as [y [Ey Hy]]. apply in_fmap in Hy. destruct Hy as [x' [Hx' Ex']].
        pose proof (A2v_key _ x' y Ex') as Ky. rewrite Ey in Ky.
        (* x' has the same input register as port j, hence is port j, whose source is external *)
        destruct (ports_of_in p x' Hp Hx') as [Hj' [Er' Hs']].
        assert (fst x' = j).
        { apply (proj1 (NoDup_nth (resin (ifrag (inst_at g p))) 0) Hndr); lia. }
        unfold A2v, A2f in Ex'. rewrite H in Hs'. rewrite Hsrc in Hs'. inversion Hs' as [Hs'']. rewrite <- Hs'' in Ex'. discriminate.
    + destruct (inside cl p') eqn:Ei.
      * (* produced inside the list: read from the temporary *)
        assert (Hdone : In p' done) by (eapply H_order; eauto).
        assert (Hp' : In p' cl) by (unfold inside in Ei; apply existsb_exists in Ei; destruct Ei as [z [Hz E]]; apply Nat.eqb_eq in E; subst; exact Hz).
        assert (Hint : In (p', q') (tmp_ports g cl)).
        { apply in_ports_where. split; [exact Hp'|]. split; [exact (H_ports p j p' q' Hp Hsrc)|].
          unfold has_internal. apply existsb_exists. exists p. split; [exact Hp|]. unfold reads. fold (inst_at g p).
          apply existsb_exists. exists (SOut p' q'). split; [rewrite <- Es; apply nth_In; exact Hj|]. rewrite !Nat.eqb_refl. reflexivity. }
        destruct (index_of2_in _ _ Hint) as [t Ht].
        assert (Ha2 : In (nth j (resin (ifrag (inst_at g p))) 0, nthN (regs s1) (tmp t)) (fmap (A2v (regs s1)) (ports_of p))).
        { apply in_fmap. exists x. split; [exact Hnth|]. unfold A2v, A2f, lookup3, x. simpl. rewrite Ei. unfold nm, numbering_of. simpl. rewrite Ht. reflexivity. }
        rewrite R2. rewrite (assign_all_in _ _ _ _ Hnd2 Ha2) by (rewrite Hl1; exact Hreg).
        rewrite R1. rewrite assign_all_other.
        -- rewrite (Htmp p' q' t Hdone (H_good p j p' q' Hp Hgp Hsrc Ei) Ht). reflexivity.
        -- intros Hc. apply Hk1 in Hc. revert Hc. apply (fun H => tmp_not_frag t p _ (index_of2_lt _ _ _ Ht) Hp H eq_refl) || idtac.
           intros Hc. eapply (tmp_not_frag t p (tmp t)); eauto; [eapply index_of2_lt; eauto|apply in_or_app; left; exact Hc].
      * (* produced by another processor: arrives on a processor input *)
        assert (Hin : In (p, j) (in_ports g cl)).
        { apply in_ports_where. split; [exact Hp|]. split; [exact Hj|]. unfold fed_from_outside. rewrite Hsrc, Ei. reflexivity. }
        destruct (index_of2_in _ _ Hin) as [k Hk].
        assert (Ha1 : In (nth j (resin (ifrag (inst_at g p))) 0, nthN ins k) (fmap (A1v p) (ports_of p))).
        { apply in_fmap. exists x. split; [exact Hnth|]. unfold A1v, A1f, lookup3, x. simpl. unfold nm, numbering_of. simpl. rewrite Hk. reflexivity. }
        rewrite R2. rewrite assign_all_other.
        -- rewrite R1. rewrite (assign_all_in _ _ _ _ Hnd1 Ha1) by (rewrite Hlen; exact Hreg).
           rewrite (H_ins p j k Hp Hgp Hk), Es. reflexivity.
        -- intros Hc. apply in_map_iff in Hc. destruct Hc as [y [Ey Hy]]. apply in_fmap in Hy. destruct Hy as [x' [Hx' Ex']].
           pose proof (A2v_key _ x' y Ex') as Ky. rewrite Ey in Ky.
           destruct (ports_of_in p x' Hp Hx') as [Hj' [Er' Hs']].
           assert (fst x' = j).
           { apply (proj1 (NoDup_nth (resin (ifrag (inst_at g p))) 0) Hndr); lia. }
           unfold A2v, A2f in Ex'. rewrite H in Hs'. rewrite Hsrc in Hs'. inversion Hs' as [Hs'']. rewrite <- Hs'' in Ex'. rewrite Ei in Ex'. discriminate.
  - intros y Hy. rewrite R2, assign_all_other by (intros Hc; apply Hy; apply Hk2; exact Hc).
    rewrite R1, assign_all_other by (intros Hc; apply Hy; apply Hk1; exact Hc). reflexivity.
Qed.


(* ---- stage 2: the body computes the instance's outputs from the loaded inputs ---- *)
Lemma stage_body p s2 : In p cl -> length (regs s2) = nregs ->
  (good p = true -> forall j, j < length (isrc (inst_at g p)) ->
     nthN (regs s2) (nth j (resin (ifrag (inst_at g p))) 0) = src_val xs vals (nth j (isrc (inst_at g p)) (SExt 0))) ->
  let s3 := runc rs (fbody (ifrag (inst_at g p))) s2 in
  length (regs s3) = nregs /\ inputs s3 = inputs s2 /\ outputs s3 = outputs s2 /\
  (good p = true -> forall q, q < length (resout (ifrag (inst_at g p))) -> nthN (regs s3) (nth q (resout (ifrag (inst_at g p))) 0) = V p q) /\
  (forall t, t < length (tmp_ports g cl) -> nthN (regs s3) (tmp t) = nthN (regs s2) (tmp t)).
Proof.
  intros Hp Hlen Hin. destruct (H_frag p Hp) as [Hok [Hndr Hl]].
  pose proof (frag_ok_reg_only _ Hok) as Hro.
  destruct (exec_body rs 0 (fbody (ifrag (inst_at g p))) s2 Hro) as [R [I O]]. cbv zeta in *. unfold runc.
  split; [rewrite R, run_body_length by exact Hro; exact Hlen|]. split; [exact I|]. split; [exact O|]. split.
  - intros Hgp q Hq. specialize (Hin Hgp). rewrite R.
    set (f := ifrag (inst_at g p)) in *. set (invals := map (src_val xs vals) (isrc (inst_at g p))).
    assert (Hrange : forall x, In x (resin f) -> x < length (repeat 0%N nregs)).
    { intros x Hx. rewrite repeat_length. apply H_regs. apply (frag_regs_in p); auto. apply in_or_app. left. exact Hx. }
    destruct (load_spec (resin f) invals (repeat 0%N nregs) Hndr) as [LL [LG LO]]; auto.
    { unfold invals. rewrite map_length. symmetry. exact Hl. }
    assert (Hcl : map (nthN (run_body rs (fbody f) (regs s2))) (resout f) =
                  map (nthN (run_body rs (fbody f) (load (resin f) invals (repeat 0%N nregs)))) (resout f)).
    { apply frag_ok_closed; auto.
      - rewrite LL, repeat_length. exact Hlen.
      - intros x Hx. apply (In_nth _ _ 0) in Hx. destruct Hx as [j [Hj Ej]]. subst x.
        rewrite Hin by lia. rewrite LG by exact Hj. unfold invals, nthN.
        rewrite (nth_indep _ 0%N (src_val xs vals (SExt 0))) by (rewrite map_length; lia).
        rewrite map_nth. reflexivity. }
    unfold V. rewrite (H_eval p Hp). unfold frag_fun. fold f. fold invals. rewrite <- Hcl.
    unfold nthN at 2. rewrite (nth_indep _ 0%N (nthN (run_body rs (fbody f) (regs s2)) 0)) by (rewrite map_length; exact Hq).
    rewrite map_nth. reflexivity.
  - intros t Ht. rewrite R. apply run_body_other; auto.
    intros Hc. apply in_flat_map in Hc. destruct Hc as [i [Hi Hw]].
    apply (tmp_not_frag t p (tmp t) Ht Hp); auto. apply in_or_app. right. apply in_or_app. right.
    apply in_flat_map. exists i. split; [exact Hi|]. apply writes_in_regs. exact Hw.
Qed.

(* ---- stage 3: outputs and temporaries receive the instance's results ---- *)
Definition oports (p : nat) : list (nat * nat) := combine (seq 0 (length (resout (ifrag (inst_at g p))))) (resout (ifrag (inst_at g p))).
Definition A3f (p : nat) (x : nat * nat) : option (nat * nat) := option_map (fun k => (snd x, k)) (lookup3 (n_out nm) p (fst x)).
Definition A4f (p : nat) (x : nat * nat) : option (nat * nat) := option_map (fun t => (tmp t, snd x)) (lookup3 (n_tmp nm) p (fst x)).
Definition c3 (p : nat) := flat_map (fun x => match lookup3 (n_out nm) p (fst x) with Some k => [IR2o (snd x) k] | None => [] end) (oports p).
Definition c4 (p : nat) := flat_map (fun x => match lookup3 (n_tmp nm) p (fst x) with Some t => [ICpy (tmp t) (snd x)] | None => [] end) (oports p).

Lemma c3_map p : c3 p = map (fun a => IR2o (fst a) (snd a)) (fmap (A3f p) (oports p)).
Proof. unfold c3. apply flat_map_fmap. intros x _. unfold A3f. destruct (lookup3 _ p (fst x)); reflexivity. Qed.
Lemma c4_map p : c4 p = map (fun a => ICpy (fst a) (snd a)) (fmap (A4f p) (oports p)).
Proof. unfold c4. apply flat_map_fmap. intros x _. unfold A4f. destruct (lookup3 _ p (fst x)); reflexivity. Qed.

Lemma oports_in p x : In x (oports p) -> fst x < length (resout (ifrag (inst_at g p))) /\ snd x = nth (fst x) (resout (ifrag (inst_at g p))) 0.
Proof.
  unfold oports. intros H. apply In_nth_error in H. destruct H as [j Hj].
  assert (Hjl : j < length (resout (ifrag (inst_at g p)))).
  { assert (j < length (combine (seq 0 (length (resout (ifrag (inst_at g p))))) (resout (ifrag (inst_at g p))))) by (apply nth_error_Some; congruence).
    rewrite combine_length, seq_length, Nat.min_id in H. exact H. }
  rewrite (nth_error_nth' _ (0, 0)) in Hj by (rewrite combine_length, seq_length, Nat.min_id; exact Hjl).
  rewrite combine_nth in Hj by (rewrite seq_length; reflexivity). rewrite seq_nth in Hj by exact Hjl.
  inversion Hj; subst. simpl. auto.
Qed.

Lemma oports_nth p q : q < length (resout (ifrag (inst_at g p))) -> In (q, nth q (resout (ifrag (inst_at g p))) 0) (oports p).
Proof.
  intros Hq. unfold oports. apply nth_error_In with (n := q).
  rewrite (nth_error_nth' _ (0, 0)) by (rewrite combine_length, seq_length, Nat.min_id; exact Hq).
  rewrite combine_nth by (rewrite seq_length; reflexivity). rewrite seq_nth by exact Hq. reflexivity.
Qed.

Lemma fmap_nodup_inj {A} (f : A -> option (nat * N)) l :
  (forall x x' y y', In x l -> In x' l -> f x = Some y -> f x' = Some y' -> fst y = fst y' -> x = x') ->
  NoDup l -> NoDup (map fst (fmap f l)).
Proof.
  induction l as [|x l IH]; intros Hinj Hnd; simpl; [constructor|].
  inversion Hnd as [|x0 l0 Hx Hnd']; subst. unfold fmap in *. simpl. rewrite map_app.
  assert (IHl : NoDup (map fst (flat_map (fun x => match f x with Some y => [y] | None => [] end) l))).
  { apply IH; auto. intros a a' y y' Ha Ha'. apply Hinj; right; assumption. }
  destruct (f x) as [y|] eqn:E; simpl; [|exact IHl]. constructor; [|exact IHl].
  intros Hin. apply in_map_iff in Hin. destruct Hin as [z [Ez Hz]]. apply in_fmap in Hz. destruct Hz as [w [Hw Ew]].
  assert (x = w) by (apply (Hinj x w y z); auto; [left; reflexivity|right; exact Hw]). subst w. contradiction.
Qed.

Lemma oports_nodup p : NoDup (oports p).
Proof.
  unfold oports. apply (NoDup_map_inv fst). 
  assert (E : map fst (combine (seq 0 (length (resout (ifrag (inst_at g p))))) (resout (ifrag (inst_at g p)))) = seq 0 (length (resout (ifrag (inst_at g p))))).
  { generalize (resout (ifrag (inst_at g p))) 0. induction l as [|a l IH]; intros n; simpl; auto. f_equal. apply IH. }
  rewrite E. apply seq_NoDup.
Qed.

Lemma stage_outs done p todo ps s3 : cl = done ++ p :: todo -> Inv done ps ->
  length (regs s3) = nregs -> inputs s3 = ins -> outputs s3 = outputs ps ->
  (good p = true -> forall q, q < length (resout (ifrag (inst_at g p))) -> nthN (regs s3) (nth q (resout (ifrag (inst_at g p))) 0) = V p q) ->
  (forall t, t < length (tmp_ports g cl) -> (forall q, index_of2 (p, q) (tmp_ports g cl) <> Some t) -> nthN (regs s3) (tmp t) = nthN (regs ps) (tmp t)) ->
  Inv (done ++ [p]) (runc rs (c3 p ++ c4 p) s3).
Proof.
  intros Hcl [Hlen [Hins [Hol [Htmp Hout]]]] Hl3 Hi3 Ho3 Hres Hkeep.
  assert (Hp : In p cl) by (rewrite Hcl; apply in_or_app; right; left; reflexivity).
  assert (Hpnd : ~ In p done).
  { rewrite Hcl in H_nd. apply NoDup_remove_2 in H_nd. intros H. apply H_nd. apply in_or_app. left. exact H. }
  rewrite runc_app, c3_map, c4_map.
  destruct (run_r2o_block rs (fmap (A3f p) (oports p)) s3) as [R4 [I4 O4]]. cbv zeta in R4, I4, O4.
  set (s4 := runc rs (map (fun a => IR2o (fst a) (snd a)) (fmap (A3f p) (oports p))) s3) in *.
  assert (Hdisj : forall a b, In a (fmap (A4f p) (oports p)) -> In b (fmap (A4f p) (oports p)) -> fst a <> snd b).
  { intros a b Ha Hb. apply in_fmap in Ha. destruct Ha as [x [Hx Ex]]. apply in_fmap in Hb. destruct Hb as [y [Hy Ey]].
    unfold A4f in Ex, Ey. destruct (lookup3 _ p (fst x)) as [tx|] eqn:Etx; [|discriminate]. inversion Ex; subst a.
    destruct (lookup3 _ p (fst y)) as [ty|]; [|discriminate]. inversion Ey; subst b. simpl.
    apply (tmp_not_frag tx p); auto; [eapply index_of2_lt; exact Etx|].
    apply in_or_app. right. apply in_or_app. left. destruct (oports_in p y Hy) as [Hq Es]. rewrite Es. apply nth_In. exact Hq. }
  destruct (run_cpy_block rs (fmap (A4f p) (oports p)) s4 Hdisj) as [R5 [I5 O5]]. cbv zeta in R5, I5, O5.
  set (s5 := runc rs (map (fun a => ICpy (fst a) (snd a)) (fmap (A4f p) (oports p))) s4) in *.
  rewrite map_fmap in O4, R5.
  set (A3 := fmap (fun x => option_map (fun a : nat * nat => (snd a, nthN (regs s3) (fst a))) (A3f p x)) (oports p)) in *.
  set (A4 := fmap (fun x => option_map (fun a : nat * nat => (fst a, nthN (regs s4) (snd a))) (A4f p x)) (oports p)) in *.
  (* keys *)
  assert (HA3 : forall k v, In (k, v) A3 <-> exists q, q < length (resout (ifrag (inst_at g p))) /\ index_of2 (p, q) (out_ports g cl) = Some k /\ v = nthN (regs s3) (nth q (resout (ifrag (inst_at g p))) 0)).
  { intros k v. unfold A3. rewrite in_fmap. split.
    - intros [x [Hx Ex]]. unfold A3f, lookup3 in Ex. destruct (oports_in p x Hx) as [Hq Es].
      destruct (index_of2 (p, fst x) (n_out nm)) as [k'|] eqn:Ek; simpl in Ex; [|discriminate]. inversion Ex; subst.
      exists (fst x). split; [exact Hq|]. split; [exact Ek|]. rewrite Es. reflexivity.
    - intros [q [Hq [Ek Ev]]]. exists (q, nth q (resout (ifrag (inst_at g p))) 0). split; [apply oports_nth; exact Hq|].
      unfold A3f, lookup3. simpl. unfold nm, numbering_of. simpl. rewrite Ek. simpl. rewrite Ev. reflexivity. }
  assert (HA4 : forall k v, In (k, v) A4 <-> exists q t, q < length (resout (ifrag (inst_at g p))) /\ index_of2 (p, q) (tmp_ports g cl) = Some t /\ k = tmp t /\ v = nthN (regs s4) (nth q (resout (ifrag (inst_at g p))) 0)).
  { intros k v. unfold A4. rewrite in_fmap. split.
    - intros [x [Hx Ex]]. unfold A4f, lookup3 in Ex. destruct (oports_in p x Hx) as [Hq Es].
      destruct (index_of2 (p, fst x) (n_tmp nm)) as [t|] eqn:Et; simpl in Ex; [|discriminate]. inversion Ex; subst.
      exists (fst x), t. split; [exact Hq|]. split; [exact Et|]. split; [reflexivity|]. rewrite Es. reflexivity.
    - intros [q [t [Hq [Et [Ek Ev]]]]]. exists (q, nth q (resout (ifrag (inst_at g p))) 0). split; [apply oports_nth; exact Hq|].
      unfold A4f, lookup3. simpl. unfold nm, numbering_of. simpl. rewrite Et. simpl. rewrite Ek, Ev. reflexivity. }
  assert (Hnd3 : NoDup (map fst A3)).
  { unfold A3. apply fmap_nodup_inj; [|apply oports_nodup].
    intros x x' y y' Hx Hx' Ey Ey' Ek. unfold A3f, lookup3 in Ey, Ey'.
    destruct (index_of2 (p, fst x) (n_out nm)) as [k|] eqn:E1; simpl in Ey; [|discriminate].
    destruct (index_of2 (p, fst x') (n_out nm)) as [k'|] eqn:E2; simpl in Ey'; [|discriminate].
    inversion Ey; inversion Ey'; subst. simpl in Ek. subst k'.
    pose proof (index_of2_inj _ _ _ _ E1 E2) as Epq. inversion Epq as [Eq].
    destruct (oports_in p x Hx) as [_ Sx]. destruct (oports_in p x' Hx') as [_ Sx']. destruct x, x'; simpl in *; subst. reflexivity. }
  assert (Hnd4 : NoDup (map fst A4)).
  { unfold A4. apply fmap_nodup_inj; [|apply oports_nodup].
    intros x x' y y' Hx Hx' Ey Ey' Ek. unfold A4f, lookup3 in Ey, Ey'.
    destruct (index_of2 (p, fst x) (n_tmp nm)) as [t|] eqn:E1; simpl in Ey; [|discriminate].
    destruct (index_of2 (p, fst x') (n_tmp nm)) as [t'|] eqn:E2; simpl in Ey'; [|discriminate].
    inversion Ey; inversion Ey'; subst. simpl in Ek.
    assert (t = t') by (apply tmp_inj; auto; eapply index_of2_lt; eauto). subst t'.
    pose proof (index_of2_inj _ _ _ _ E1 E2) as Epq. inversion Epq as [Eq].
    destruct (oports_in p x Hx) as [_ Sx]. destruct (oports_in p x' Hx') as [_ Sx']. destruct x, x'; simpl in *; subst. reflexivity. }
  unfold Inv. split; [rewrite R5, assign_all_length, R4; exact Hl3|]. split; [rewrite I5, I4; exact Hi3|].
  split; [rewrite O5, O4, assign_all_length, Ho3; exact Hol|]. split.
  - (* temporaries *)
    intros p' q' t Hin Hg' Ht. rewrite R5. apply in_app_or in Hin. destruct Hin as [Hd|[<-|[]]].
    + rewrite assign_all_other.
      * rewrite R4. rewrite Hkeep; [apply Htmp; auto|eapply index_of2_lt; eauto|].
        intros q Eq. pose proof (index_of2_inj _ _ _ _ Ht Eq) as E. inversion E; subst. contradiction.
      * intros Hc. apply in_map_iff in Hc. destruct Hc as [[k v] [Ek Hkv]]. simpl in Ek. subst k.
        apply HA4 in Hkv. destruct Hkv as [q [t2 [Hq [Et2 [Ek2 _]]]]].
        assert (t = t2) by (apply tmp_inj; auto; eapply index_of2_lt; eauto). subst t2.
        pose proof (index_of2_inj _ _ _ _ Ht Et2) as E. inversion E; subst. contradiction.
    + assert (Hq : q' < length (resout (ifrag (inst_at g p)))).
      { apply index_of2_some in Ht. apply nth_error_In in Ht. apply in_ports_where in Ht. tauto. }
      rewrite (assign_all_in A4 (regs s4) (tmp t) (nthN (regs s4) (nth q' (resout (ifrag (inst_at g p))) 0)) Hnd4).
      * rewrite R4. apply Hres; [exact Hg'|exact Hq].
      * apply HA4. exists q', t. auto.
      * rewrite R4, Hl3. apply H_tmps. apply tmp_in. eapply index_of2_lt; eauto.
  - (* outputs *)
    intros p' q' k Hin Hg' Hk. rewrite O5, O4. apply in_app_or in Hin. destruct Hin as [Hd|[<-|[]]].
    + rewrite assign_all_other; [rewrite Ho3; apply Hout; auto|].
      intros Hc. apply in_map_iff in Hc. destruct Hc as [[k2 v] [Ek Hkv]]. simpl in Ek. subst k2.
      apply HA3 in Hkv. destruct Hkv as [q [Hq [Ek2 _]]].
      pose proof (index_of2_inj _ _ _ _ Hk Ek2) as E. inversion E; subst. contradiction.
    + assert (Hq : q' < length (resout (ifrag (inst_at g p)))).
      { apply index_of2_some in Hk. apply nth_error_In in Hk. apply in_ports_where in Hk. tauto. }
      rewrite (assign_all_in A3 (outputs s3) k (nthN (regs s3) (nth q' (resout (ifrag (inst_at g p))) 0)) Hnd3).
      * apply Hres; [exact Hg'|exact Hq].
      * apply HA3. exists q'. auto.
      * rewrite Ho3, Hol. apply index_of2_lt in Hk. lia.
Qed.


(* ---- one instance, then the whole list ---- *)
Lemma inst_code_split p : inst_code g cl nm tmp p = (c1 p ++ c2 p) ++ fbody (ifrag (inst_at g p)) ++ (c3 p ++ c4 p).
Proof. unfold inst_code, c1, c2, c3, c4, ports_of, oports. cbv zeta. rewrite <- app_assoc. reflexivity. Qed.

Lemma inst_step done p todo ps : cl = done ++ p :: todo -> Inv done ps ->
  Inv (done ++ [p]) (runc rs (inst_code g cl nm tmp p) ps).
Proof.
  intros Hcl HI. assert (Hp : In p cl) by (rewrite Hcl; apply in_or_app; right; left; reflexivity).
  rewrite inst_code_split, runc_app, runc_app.
  destruct (stage_loads done p todo ps Hcl HI) as [L2 [I2 [O2 [G2 K2]]]]. cbv zeta in L2, I2, O2, G2, K2.
  set (s2 := runc rs (c1 p ++ c2 p) ps) in *.
  destruct (stage_body p s2 Hp L2 G2) as [L3 [I3 [O3 [G3 K3]]]]. cbv zeta in L3, I3, O3, G3, K3.
  set (s3 := runc rs (fbody (ifrag (inst_at g p))) s2) in *.
  apply (stage_outs done p todo ps s3 Hcl HI); auto.
  - rewrite I3. exact I2.
  - rewrite O3. exact O2.
  - intros t Ht _. rewrite K3 by exact Ht. apply K2. intros Hin.
    apply (tmp_not_frag t p (tmp t) Ht Hp); auto. apply in_or_app. left. exact Hin.
Qed.

Lemma pass_all : forall todo done ps, cl = done ++ todo -> Inv done ps ->
  Inv cl (runc rs (flat_map (inst_code g cl nm tmp) todo) ps).
Proof.
  induction todo as [|p todo IH]; intros done ps Hcl HI; simpl.
  - rewrite app_nil_r in Hcl. rewrite <- Hcl in HI. exact HI.
  - rewrite runc_app. apply (IH (done ++ [p])).
    + rewrite <- app_assoc. exact Hcl.
    + apply inst_step with todo; auto.
Qed.

Lemma pass_correct r : length r = nregs ->
  forall p q k, In p cl -> good p = true -> index_of2 (p, q) (out_ports g cl) = Some k ->
  nthN (snd (run_pass rs (flat_map (inst_code g cl nm tmp) cl) ins nouts r)) k = V p q.
Proof.
  intros Hr p q k Hp Hgp Hk. unfold run_pass. cbv zeta. simpl snd.
  match goal with |- nthN (outputs (fold_left _ _ ?p0)) _ = _ => set (p0' := p0) end.
  assert (HI : Inv [] p0').
  { unfold Inv, p0'. simpl. split; [exact Hr|]. split; [reflexivity|]. split; [apply repeat_length|].
    split; intros ? ? ? [] . }
  pose proof (pass_all cl [] p0' eq_refl HI) as [_ [_ [_ [_ Hout]]]].
  apply Hout; auto.
Qed.


Lemma pass_lengths r : length r = nregs ->
  length (fst (run_pass rs (flat_map (inst_code g cl nm tmp) cl) ins nouts r)) = nregs /\
  length (snd (run_pass rs (flat_map (inst_code g cl nm tmp) cl) ins nouts r)) = nouts.
Proof.
  intros Hr. unfold run_pass. cbv zeta. simpl fst. simpl snd.
  match goal with |- length (regs (fold_left _ _ ?p0)) = _ /\ _ => set (p0' := p0) end.
  assert (HI : Inv [] p0').
  { unfold Inv, p0'. simpl. split; [exact Hr|]. split; [reflexivity|]. split; [apply repeat_length|].
    split; intros ? ? ? [] . }
  pose proof (pass_all cl [] p0' eq_refl HI) as [Hl [_ [Ho _]]]. split; assumption.
Qed.

End Pass.
