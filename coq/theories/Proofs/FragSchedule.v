(* Proofs/FragSchedule.v — whatever order the processors of a partition take their passes in, once every
   processor has had a turn in each of as many rounds as the graph has instances, the links carry the
   values of the direct evaluation of the graph, and so do the external outputs. *)
From Coq Require Import List NArith Bool Arith Lia.
From BM Require Import Isa.Sim Front.Frag Front.FragWf Front.FragNet Proofs.BondgoProofs Proofs.FragProofs Proofs.FragExec Proofs.FragCompose Proofs.FragPass.
Import ListNotations.

(* ---------- reading published values ---------- *)
Lemma nth_map_seq {A} (f : nat -> A) d n p : p < n -> nth p (map f (seq 0 n)) d = f p.
Proof.
  intros H. rewrite (nth_indep _ d (f 0)) by (rewrite map_length, seq_length; exact H).
  rewrite map_nth. rewrite seq_nth by exact H. reflexivity.
Qed.

Lemma publish_read g ports outs w p q : p < length (insts g) -> q < length (resout (ifrag (inst_at g p))) ->
  wire (publish g ports outs w) p q = match index_of2 (p, q) ports with Some k => nthN outs k | None => wire w p q end.
Proof.
  intros Hp Hq. unfold wire at 1, publish. rewrite nth_map_seq by exact Hp. unfold nthN. rewrite nth_map_seq by exact Hq. reflexivity.
Qed.

(* ---------- partitions ---------- *)
Lemma nodup_app_disjoint {A} (a b : list A) x : NoDup (a ++ b) -> In x a -> In x b -> False.
Proof.
  induction a as [|y a IH]; simpl; intros Hnd Ha Hb; [contradiction|]. inversion Hnd as [|y' l Hy Hnd']; subst.
  destruct Ha as [->|Ha]; [apply Hy; apply in_or_app; right; exact Hb|auto].
Qed.

Lemma nodup_app_l {A} (a b : list A) : NoDup (a ++ b) -> NoDup b.
Proof. induction a as [|y a IH]; simpl; intros H; [exact H|]. inversion H; auto. Qed.

Lemma nodup_concat_owner {A} : forall (L : list (list A)) i j x, NoDup (concat L) -> i < length L -> j < length L ->
  In x (nth i L []) -> In x (nth j L []) -> i = j.
Proof.
  induction L as [|a L IH]; intros i j x Hnd Hi Hj Hxi Hxj; simpl in *; [lia|].
  destruct i as [|i], j as [|j]; auto.
  - exfalso. apply (nodup_app_disjoint a (concat L) x Hnd Hxi). apply in_concat. exists (nth j L []). split; [apply nth_In; lia|exact Hxj].
  - exfalso. apply (nodup_app_disjoint a (concat L) x Hnd Hxj). apply in_concat. exists (nth i L []). split; [apply nth_In; lia|exact Hxi].
  - f_equal. apply (IH i j x); auto; try lia. eapply nodup_app_l; eauto.
Qed.

Lemma Forall_upd {A} (P : A -> Prop) k v l : Forall P l -> P v -> Forall P (upd k v l).
Proof.
  revert k. induction l as [|x l IH]; intros k Hl Hv; [destruct k; constructor|]. inversion Hl; subst.
  destruct k; simpl; constructor; auto.
Qed.
Lemma Forall_nth_d {A} (P : A -> Prop) l d k : Forall P l -> P d -> P (nth k l d).
Proof. revert k. induction l as [|x l IH]; intros [|k] Hl Hd; simpl; auto; inversion Hl; auto. Qed.

Section Machine.
Variables (rs : N) (nregs : nat) (g : graph) (parts : list (list nat)) (xs : list N).
Hypothesis Hg : graph_ok g = true.
Hypothesis Hpart : partition_ok g parts nregs = true.

Let part (c : nat) : list nat := nth c parts [].
Let progs := map (compose g) parts.
Let step := step_cp rs nregs g parts progs xs.

(* the links leaving processor c carry the graph's values for every instance below n *)
Definition corr (n c : nat) (w : wires) : Prop :=
  forall p q, In (p, q) (out_ports g (part c)) -> p < n -> wire w p q = Vg rs nregs g xs p q.
Definition regs_ok (m : mstate) : Prop := Forall (fun r => length r = nregs) (mregs m).

Lemma part_facts : NoDup (concat parts) /\ (forall p, p < length (insts g) -> In p (concat parts)) /\
  (forall c, c < length parts -> pass_ok g (part c) nregs (length (out_ports g (part c))) = true).
Proof.
  unfold partition_ok in Hpart. apply andb_true_iff in Hpart. destruct Hpart as [H12 H3].
  apply andb_true_iff in H12. destruct H12 as [H1 H2]. split; [apply nodupn_NoDup; exact H1|]. split.
  - intros p Hp. rewrite forallb_forall in H2. apply inside_In. apply H2. apply in_seq. lia.
  - intros c Hc. rewrite forallb_forall in H3. apply H3. apply nth_In. exact Hc.
Qed.

Lemma owner p : p < length (insts g) -> exists c, c < length parts /\ In p (part c).
Proof.
  intros Hp. destruct part_facts as [_ [Hall _]]. specialize (Hall p Hp). apply in_concat in Hall.
  destruct Hall as [cl [Hcl Hin]]. apply (In_nth _ _ []) in Hcl. destruct Hcl as [c [Hc E]]. exists c. split; [exact Hc|].
  unfold part. rewrite E. exact Hin.
Qed.

Lemma one_owner p c c' : c < length parts -> c' < length parts -> In p (part c) -> In p (part c') -> c = c'.
Proof. intros Hc Hc'. destruct part_facts as [Hnd _]. apply nodup_concat_owner; auto. Qed.

Lemma part_lt c p : c < length parts -> In p (part c) -> p < length (insts g).
Proof.
  intros Hc Hp. destruct part_facts as [_ [_ Hok]]. specialize (Hok c Hc). unfold pass_ok in Hok.
  repeat (apply andb_true_iff in Hok; destruct Hok as [Hok ?]).
  match goal with H : forallb (fun p => p <? length (insts g)) _ = true |- _ => rewrite forallb_forall in H; apply Nat.ltb_lt; apply H; exact Hp end.
Qed.

Lemma src_facts p s : p < length (insts g) -> In s (isrc (inst_at g p)) ->
  match s with SOut p' q' => p' < p /\ q' < length (resout (ifrag (inst_at g p'))) | SExt _ => True end.
Proof.
  intros Hp Hs. unfold graph_ok in Hg. rewrite forallb_forall in Hg. specialize (Hg p ltac:(apply in_seq; lia)).
  rewrite forallb_forall in Hg. specialize (Hg s Hs). destruct s as [|p' q']; [exact I|]. simpl in Hg.
  apply andb_true_iff in Hg. destruct Hg as [H1 H2]. apply Nat.ltb_lt in H1. apply Nat.ltb_lt in H2. auto.
Qed.

(* a value read by an instance on another processor leaves its producer's processor *)
Lemma crossing_is_published c c' p j p' q' : c < length parts -> c' < length parts -> In p (part c) -> In p' (part c') ->
  nth_error (isrc (inst_at g p)) j = Some (SOut p' q') -> inside (part c) p' = false ->
  In (p', q') (out_ports g (part c')).
Proof.
  intros Hc Hc' Hp Hp' Hj Hout.
  assert (Hpl : p < length (insts g)) by (apply (part_lt c p Hc Hp)).
  pose proof (src_facts p (SOut p' q') Hpl (nth_error_In _ _ Hj)) as [Hlt Hq].
  unfold out_ports. apply in_ports_where. split; [exact Hp'|]. split; [exact Hq|].
  unfold has_external. apply orb_true_iff. right. apply existsb_exists. exists p. split; [apply in_seq; lia|].
  apply andb_true_iff. split.
  - apply negb_true_iff. destruct (inside (part c') p) eqn:E; [|reflexivity]. apply inside_In in E.
    assert (c = c') by (eapply one_owner; eauto). subst c'.
    assert (inside (part c) p' = true) by (apply inside_In; exact Hp'). congruence.
  - unfold Frag.reads. apply existsb_exists. exists (SOut p' q'). split; [exact (nth_error_In _ _ Hj)|]. rewrite !Nat.eqb_refl. reflexivity.
Qed.

Lemma inputs_from_right cl w p j k : index_of2 (p, j) (in_ports g cl) = Some k ->
  nthN (inputs_from g cl xs w) k = src_val xs w (nth j (isrc (inst_at g p)) (SExt 0)).
Proof.
  intros Hi. apply index_of2_some in Hi. unfold inputs_from, nthN.
  erewrite nth_error_nth; [reflexivity|]. rewrite nth_error_map, Hi. reflexivity.
Qed.

Lemma nth_progs c : c < length parts -> nth c progs [] = compose g (part c).
Proof.
  intros Hc. unfold progs, part. rewrite (nth_indep _ [] (compose g [])) by (rewrite map_length; exact Hc). apply map_nth.
Qed.

(* ---------- one turn ---------- *)
Lemma step_corr n c m : c < length parts -> regs_ok m ->
  (forall c', c' < length parts -> corr n c' (mw m)) ->
  regs_ok (step m c) /\ corr (S n) c (mw (step m c)) /\
  (forall c' k, c' <> c -> c' < length parts -> corr k c' (mw m) -> corr k c' (mw (step m c))).
Proof.
  intros Hc Hr Hall. destruct part_facts as [_ [_ Hok]].
  unfold step, step_cp. cbv zeta. rewrite (nth_progs c Hc). fold (part c). simpl mw. simpl mregs.
  set (r := nth c (mregs m) (repeat 0%N nregs)).
  assert (Hrl : length r = nregs) by (apply Forall_nth_d; [exact Hr|apply repeat_length]).
  destruct (compose_pass_good rs nregs (length (out_ports g (part c))) g (part c) xs r (inputs_from g (part c) xs (mw m)) (fun p => p <? S n) Hg (Hok c Hc) Hrl)
    as [L1 [L2 Hval]].
  { (* the inputs of the instances below S n are right *)
    intros p j k Hp Hgood Hi. apply Nat.ltb_lt in Hgood. rewrite (inputs_from_right _ _ p j k Hi).
    pose proof Hi as Hport. apply index_of2_some in Hport. apply nth_error_In in Hport. apply in_ports_where in Hport.
    destruct Hport as [_ [Hj Hfed]]. unfold fed_from_outside in Hfed.
    assert (Hsrc : nth_error (isrc (inst_at g p)) j = Some (nth j (isrc (inst_at g p)) (SExt 0))) by (apply nth_error_nth'; exact Hj).
    rewrite Hsrc in Hfed. destruct (nth j (isrc (inst_at g p)) (SExt 0)) as [e|p' q'] eqn:Es; [reflexivity|].
    apply negb_true_iff in Hfed. simpl.
    assert (Hpl : p < length (insts g)) by (apply (part_lt c p Hc Hp)).
    pose proof (src_facts p (SOut p' q') Hpl (nth_error_In _ _ Hsrc)) as [Hlt Hq].
    destruct (owner p' ltac:(lia)) as [c' [Hc' Hp']].
    apply (Hall c' Hc' p' q'); [|lia]. apply (crossing_is_published c c' p j p' q' Hc Hc' Hp Hp' Hsrc Hfed). }
  { intros p j p' q' Hp Hgood Hj _. apply Nat.ltb_lt in Hgood. apply Nat.ltb_lt.
    assert (Hpl : p < length (insts g)) by (apply (part_lt c p Hc Hp)).
    pose proof (src_facts p (SOut p' q') Hpl (nth_error_In _ _ Hj)) as [Hlt _]. lia. }
  cbv zeta in L1, L2, Hval.
  split; [|split].
  - unfold regs_ok. simpl. apply Forall_upd; [exact Hr|exact L1].
  - intros p q Hport Hp. pose proof Hport as Hpw. apply in_ports_where in Hpw. destruct Hpw as [Hin [Hq _]].
    rewrite publish_read; [|apply (part_lt c p Hc Hin)|exact Hq].
    destruct (index_of2_in _ _ Hport) as [k Hk]. rewrite Hk. apply Hval; auto. apply Nat.ltb_lt. exact Hp.
  - intros c' k Hne Hc' Hcorr p q Hport Hp. pose proof Hport as Hpw. apply in_ports_where in Hpw. destruct Hpw as [Hin [Hq _]].
    rewrite publish_read; [|apply (part_lt c' p Hc' Hin)|exact Hq].
    destruct (index_of2 (p, q) (out_ports g (part c))) as [k0|] eqn:Ek; [|apply Hcorr; auto].
    exfalso. apply index_of2_some in Ek. apply nth_error_In in Ek. apply in_ports_where in Ek. destruct Ek as [Hin2 _].
    apply Hne. eapply one_owner; eauto.
Qed.

Lemma corr_mono n k c w : k <= n -> corr n c w -> corr k c w.
Proof. intros Hk H p q Hport Hp. apply H; auto. lia. Qed.

(* ---------- a stretch of turns in which the processors of S have their pass ---------- *)
Lemma stretch n : forall s (seen : list nat) m, Forall (fun c => c < length parts) s -> regs_ok m ->
  (forall c, c < length parts -> corr n c (mw m)) ->
  (forall c, In c seen -> c < length parts -> corr (S n) c (mw m)) ->
  let m' := fold_left step s m in
  regs_ok m' /\ (forall c, c < length parts -> corr n c (mw m')) /\
  (forall c, In c seen \/ In c s -> c < length parts -> corr (S n) c (mw m')).
Proof.
  induction s as [|a s IH]; intros seen m Hs Hr Hn Hseen; simpl.
  - split; [exact Hr|]. split; [exact Hn|]. intros c [H|[]]. apply Hseen. exact H.
  - inversion Hs as [|a' s' Ha Hs']; subst.
    destruct (step_corr n a m Ha Hr Hn) as [Hr' [Hnew Hkeep]].
    destruct (IH (a :: seen) (step m a) Hs' Hr') as [R1 [R2 R3]].
    + intros c Hc. destruct (Nat.eq_dec c a) as [->|Hne]; [apply (corr_mono (S n)); [lia|exact Hnew]|apply Hkeep; auto].
    + intros c [<-|Hin] Hc; [exact Hnew|]. destruct (Nat.eq_dec c a) as [->|Hne]; [exact Hnew|apply Hkeep; auto].
    + cbv zeta in R1, R2, R3. split; [exact R1|]. split; [exact R2|].
      intros c [Hin|[<-|Hin]] Hc; apply R3; auto; [left; right; exact Hin|left; left; reflexivity].
Qed.

(* [covers s n]: the schedule s can be cut into n stretches in each of which every processor has a turn *)
Inductive covers : list nat -> nat -> Prop :=
| covers_0 : forall s, covers s 0
| covers_S : forall s1 s2 n, covers s1 n -> (forall c, c < length parts -> In c s2) -> covers (s1 ++ s2) (S n).

Theorem schedule_reaches_level : forall s n, covers s n -> Forall (fun c => c < length parts) s ->
  forall m, regs_ok m -> let m' := fold_left step s m in
  regs_ok m' /\ forall c, c < length parts -> corr n c (mw m').
Proof.
  intros s n Hcov. induction Hcov as [s|s1 s2 n Hcov IH Hall]; intros Hs m Hr; cbv zeta.
  - split.
    + revert m Hr. induction s as [|a s IHs]; intros m Hr; simpl; [exact Hr|]. inversion Hs; subst.
      apply IHs; auto. destruct (step_corr 0 a m) as [R _]; auto. intros c' _ p q _ Hp. lia.
    + intros c _ p q _ Hp. lia.
  - apply Forall_app in Hs. destruct Hs as [Hs1 Hs2]. rewrite fold_left_app.
    destruct (IH Hs1 m Hr) as [R1 R2]. cbv zeta in R1, R2.
    destruct (stretch n s2 [] (fold_left step s1 m) Hs2 R1 R2) as [Q1 [_ Q3]]; [intros c []|].
    cbv zeta in Q1, Q3. split; [exact Q1|]. intros c Hc. apply Q3; auto.
Qed.

(* ---------- the external outputs ---------- *)
Hypothesis Hext : ext_ok g = true.

Theorem schedule_reaches_the_evaluation s m : covers s (length (insts g)) -> Forall (fun c => c < length parts) s -> regs_ok m ->
  outputs_of g (mw (fold_left step s m)) = eval rs nregs g xs.
Proof.
  intros Hcov Hs Hr. destruct (schedule_reaches_level s _ Hcov Hs m Hr) as [_ Hcorr]. cbv zeta in Hcorr.
  unfold outputs_of, eval. cbv zeta. apply map_ext_in. intros [p q] Hpq. simpl.
  unfold ext_ok in Hext. rewrite forallb_forall in Hext. specialize (Hext _ Hpq). simpl in Hext.
  apply andb_true_iff in Hext. destruct Hext as [Hp Hq]. apply Nat.ltb_lt in Hp. apply Nat.ltb_lt in Hq.
  destruct (owner p Hp) as [c [Hc Hin]]. apply (Hcorr c Hc p q); [|exact Hp].
  unfold out_ports. apply in_ports_where. split; [exact Hin|]. split; [exact Hq|].
  unfold has_external. apply orb_true_iff. left. apply existsb_exists. exists (p, q). split; [exact Hpq|].
  simpl. rewrite !Nat.eqb_refl. reflexivity.
Qed.

End Machine.

(* round-robin is such a schedule *)
Lemma rounds_S k n : rounds k (S n) = rounds k n ++ seq 0 k.
Proof.
  unfold rounds. induction n as [|n IH]; simpl; [rewrite app_nil_r; reflexivity|].
  simpl in IH. rewrite IH at 1. rewrite app_assoc. reflexivity.
Qed.

Lemma rounds_cover parts n : covers parts (rounds (length parts) n) n /\ Forall (fun c => c < length parts) (rounds (length parts) n).
Proof.
  induction n as [|n [IH1 IH2]].
  - split; [constructor|]. unfold rounds. simpl. constructor.
  - rewrite rounds_S. split.
    + constructor; [exact IH1|]. intros c Hc. apply in_seq. lia.
    + apply Forall_app. split; [exact IH2|]. apply Forall_forall. intros c Hc. apply in_seq in Hc. lia.
Qed.

Corollary round_robin_reaches_the_evaluation rs nregs g parts xs m :
  graph_ok g = true -> partition_ok g parts nregs = true -> ext_ok g = true ->
  Forall (fun r => length r = nregs) (mregs m) ->
  outputs_of g (mw (run_sched rs nregs g parts (map (compose g) parts) xs (rounds (length parts) (length (insts g))) m)) = eval rs nregs g xs.
Proof.
  intros Hg Hp He Hr. destruct (rounds_cover parts (length (insts g))) as [H1 H2].
  apply (schedule_reaches_the_evaluation rs nregs g parts xs Hg Hp He _ m H1 H2 Hr).
Qed.
