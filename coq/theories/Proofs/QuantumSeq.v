(* Proofs/QuantumSeq.v — the simultaneous application of the gates of a layer is their application one
   after the other, matrix products are associative, and hence the product of the compiled layers is
   the unitary of the circuit (gates embedded on their qubits, multiplied in program order). *)
From Coq Require Import List Arith Bool Lia.
From BM Require Import Front.Quantum Proofs.QuantumProofs Proofs.QuantumPlace Proofs.QuantumLayer.
Import ListNotations.

(* ---------- all indices of a given length ---------- *)
Lemma all_idx_In : forall n i, In i (all_idx n) <-> length i = n.
Proof.
  induction n as [|n IH]; intros i; simpl.
  - split; [intros [<-|[]]; reflexivity|]. destruct i; [auto|discriminate].
  - rewrite in_app_iff, !in_map_iff. split.
    + intros [[x [<- Hx]]|[x [<- Hx]]]; simpl; f_equal; apply IH; exact Hx.
    + destruct i as [|b i]; [discriminate|]. simpl. intros H. injection H as H. apply IH in H.
      destruct b; [right|left]; exists i; auto.
Qed.

Lemma all_idx_NoDup : forall n, NoDup (all_idx n).
Proof.
  induction n as [|n IH]; simpl; [constructor; [intros []|constructor]|].
  assert (Hinj : forall b, NoDup (map (cons b) (all_idx n))).
  { intros b. apply FinFun.Injective_map_NoDup; [|exact IH]. intros x y E. injection E. auto. }
  assert (G : forall (a b : list idx), NoDup a -> NoDup b -> (forall x, In x a -> ~ In x b) -> NoDup (a ++ b)).
  { induction a as [|x a IHa]; intros b Ha Hb Hd; simpl; auto. inversion Ha; subst. constructor.
    - intros Hin. apply in_app_or in Hin. destruct Hin; [contradiction|]. eapply Hd; [left; reflexivity|eauto].
    - apply IHa; auto. intros y Hy. apply Hd. right. exact Hy. }
  apply G; auto. intros x Hx Hy. apply in_map_iff in Hx. apply in_map_iff in Hy.
  destruct Hx as [a [<- _]]. destruct Hy as [b [E _]]. discriminate.
Qed.

Lemma nth_map_seq0 {A} (f : nat -> A) d n p : p < n -> nth p (map f (seq 0 n)) d = f p.
Proof.
  intros H. rewrite (nth_indep _ d (f 0)) by (rewrite map_length, seq_length; exact H).
  rewrite map_nth. rewrite seq_nth by exact H. reflexivity.
Qed.

Section Seq.
Variable K : Type.
Variables (k0 k1 : K) (kadd kmul : K -> K -> K).
Notation mat := (mat K).
Notation qop := (qop K).

Hypothesis add0l : forall a, kadd k0 a = a.
Hypothesis add0r : forall a, kadd a k0 = a.
Hypothesis addA : forall a b c, kadd a (kadd b c) = kadd (kadd a b) c.
Hypothesis addC : forall a b, kadd a b = kadd b a.
Hypothesis mul1l : forall a, kmul k1 a = a.
Hypothesis mul1r : forall a, kmul a k1 = a.
Hypothesis mul0l : forall a, kmul k0 a = k0.
Hypothesis mul0r : forall a, kmul a k0 = k0.
Hypothesis mulA : forall a b c, kmul a (kmul b c) = kmul (kmul a b) c.
Hypothesis mulC : forall a b, kmul a b = kmul b a.
Hypothesis distl : forall a b c, kmul a (kadd b c) = kadd (kmul a b) (kmul a c).

(* ---------- finite sums ---------- *)
Definition sum {A} (f : A -> K) (l : list A) : K := fold_left (fun acc k => kadd acc (f k)) l k0.

Lemma fold_add_acc {A} (f : A -> K) : forall l a, fold_left (fun acc k => kadd acc (f k)) l a = kadd a (sum f l).
Proof.
  unfold sum. induction l as [|x l IH]; intros a; simpl; [rewrite add0r; reflexivity|].
  rewrite IH. rewrite (IH (kadd k0 (f x))). rewrite add0l, addA. reflexivity.
Qed.
Lemma sum_cons {A} (f : A -> K) x l : sum f (x :: l) = kadd (f x) (sum f l).
Proof. unfold sum at 1. simpl. rewrite fold_add_acc, add0l. reflexivity. Qed.
Lemma sum_nil {A} (f : A -> K) : sum f [] = k0.
Proof. reflexivity. Qed.

Lemma sum_ext {A} (f g : A -> K) l : (forall k, In k l -> f k = g k) -> sum f l = sum g l.
Proof.
  induction l as [|x l IH]; intros H; [reflexivity|]. rewrite !sum_cons, IH; [|intros k Hk; apply H; right; exact Hk].
  rewrite H by (left; reflexivity). reflexivity.
Qed.
Lemma sum_zero {A} (f : A -> K) l : (forall k, In k l -> f k = k0) -> sum f l = k0.
Proof.
  induction l as [|x l IH]; intros H; [reflexivity|]. rewrite sum_cons, IH, H; [apply add0l|left; reflexivity|intros k Hk; apply H; right; exact Hk].
Qed.
Lemma sum_single {A} (f : A -> K) l x : NoDup l -> In x l -> (forall k, In k l -> k <> x -> f k = k0) -> sum f l = f x.
Proof.
  induction l as [|y l IH]; intros Hnd Hin Hz; [contradiction|]. inversion Hnd as [|y' l' Hy Hnd']; subst.
  rewrite sum_cons. destruct Hin as [->|Hin].
  - rewrite sum_zero; [apply add0r|]. intros k Hk. apply Hz; [right; exact Hk|]. intros ->. contradiction.
  - rewrite IH; auto; [|intros k Hk; apply Hz; right; exact Hk]. rewrite Hz; [apply add0l|left; reflexivity|]. intros ->. contradiction.
Qed.
Lemma sum_add {A} (f g : A -> K) l : sum (fun k => kadd (f k) (g k)) l = kadd (sum f l) (sum g l).
Proof.
  induction l as [|x l IH]; [rewrite !sum_nil, add0l; reflexivity|]. rewrite !sum_cons, IH.
  rewrite <- !addA. f_equal. rewrite !addA. rewrite (addC (g x)). reflexivity.
Qed.
Lemma sum_mul_l {A} (f : A -> K) c l : kmul c (sum f l) = sum (fun k => kmul c (f k)) l.
Proof. induction l as [|x l IH]; [rewrite !sum_nil; apply mul0r|]. rewrite !sum_cons, distl, IH. reflexivity. Qed.
Lemma sum_mul_r {A} (f : A -> K) c l : kmul (sum f l) c = sum (fun k => kmul (f k) c) l.
Proof. rewrite mulC, sum_mul_l. apply sum_ext. intros k _. apply mulC. Qed.
Lemma sum_swap {A B} (f : A -> B -> K) l1 l2 :
  sum (fun k => sum (fun m => f k m) l2) l1 = sum (fun m => sum (fun k => f k m) l1) l2.
Proof.
  induction l1 as [|x l1 IH].
  - rewrite sum_nil. symmetry. apply sum_zero. intros k _. apply sum_nil.
  - rewrite sum_cons, IH, <- sum_add. apply sum_ext. intros m _. rewrite sum_cons. reflexivity.
Qed.

(* ---------- matrices up to their entries on indices of the right length ---------- *)
Definition meq (n : nat) (A B : mat) : Prop :=
  nq A = n /\ nq B = n /\ forall i j, length i = n -> length j = n -> ent A i j = ent B i j.

Lemma meq_refl n A : nq A = n -> meq n A A.
Proof. intros H. repeat split; auto. Qed.
Lemma meq_sym n A B : meq n A B -> meq n B A.
Proof. intros [H1 [H2 H3]]. repeat split; auto. intros i j Hi Hj. symmetry. auto. Qed.
Lemma meq_trans n A B C : meq n A B -> meq n B C -> meq n A C.
Proof. intros [H1 [H2 H3]] [H4 [H5 H6]]. repeat split; auto. intros i j Hi Hj. rewrite H3, H6; auto. Qed.

Notation mmul := (mmul K k0 kadd kmul).
Lemma mmul_ent a b i j : ent (mmul a b) i j = sum (fun k => kmul (ent a i k) (ent b k j)) (all_idx (nq a)).
Proof. reflexivity. Qed.

Lemma mmul_cong n A A' B B' : meq n A A' -> meq n B B' -> meq n (mmul A B) (mmul A' B').
Proof.
  intros [H1 [H2 H3]] [H4 [H5 H6]]. split; [exact H1|]. split; [exact H2|]. intros i j Hi Hj.
  rewrite !mmul_ent, H1, H2. apply sum_ext. intros k Hk. apply all_idx_In in Hk. rewrite H3, H6; auto.
Qed.

Lemma mmul_assoc n A B C : nq A = n -> nq B = n -> meq n (mmul (mmul A B) C) (mmul A (mmul B C)).
Proof.
  intros HA HB. split; [exact HA|]. split; [exact HA|]. intros i j _ _.
  rewrite !mmul_ent. simpl nq. rewrite HA.
  transitivity (sum (fun k => sum (fun m => kmul (kmul (ent A i m) (ent B m k)) (ent C k j)) (all_idx n)) (all_idx n)).
  { apply sum_ext. intros k _. rewrite mmul_ent, HA. apply sum_mul_r. }
  rewrite sum_swap. apply sum_ext. intros m _. rewrite mmul_ent, HB, sum_mul_l. apply sum_ext. intros k _. symmetry. apply mulA.
Qed.

(* ---------- indices ---------- *)
Lemma others_equal_spec n qs i j :
  others_equal n qs i j = true <-> forall p, p < n -> In p qs \/ nth p i false = nth p j false.
Proof.
  unfold others_equal. rewrite forallb_forall. split.
  - intros H p Hp. specialize (H p ltac:(apply in_seq; lia)). apply orb_true_iff in H. destruct H as [H|H].
    + left. apply existsb_exists in H. destruct H as [x [Hx E]]. apply Nat.eqb_eq in E. subst. exact Hx.
    + right. apply Bool.eqb_prop. exact H.
  - intros H p Hp. apply in_seq in Hp. destruct (H p ltac:(lia)) as [Hq|He]; apply orb_true_iff.
    + left. apply existsb_exists. exists p. split; [exact Hq|apply Nat.eqb_refl].
    + right. rewrite He. apply Bool.eqb_reflx.
Qed.

Lemma idx_ext n (i j : idx) : length i = n -> length j = n -> (forall p, p < n -> nth p i false = nth p j false) -> i = j.
Proof. intros Hi Hj H. apply (nth_ext i j false false); [congruence|]. intros p Hp. apply H. lia. Qed.

Definition inb (p : nat) (qs : list nat) : bool := existsb (Nat.eqb p) qs.
Lemma inb_In p qs : inb p qs = true <-> In p qs.
Proof.
  unfold inb. rewrite existsb_exists. split; [intros [x [Hx E]]; apply Nat.eqb_eq in E; subst; exact Hx|].
  intros H. exists p. split; [exact H|apply Nat.eqb_refl].
Qed.

(* the index that agrees with j on qs and with i elsewhere *)
Definition mix (n : nat) (qs : list nat) (i j : idx) : idx :=
  map (fun p => if inb p qs then nth p j false else nth p i false) (seq 0 n).
Lemma mix_length n qs i j : length (mix n qs i j) = n.
Proof. unfold mix. rewrite map_length, seq_length. reflexivity. Qed.
Lemma mix_nth n qs i j p : p < n -> nth p (mix n qs i j) false = if inb p qs then nth p j false else nth p i false.
Proof.
  intros Hp. unfold mix. apply nth_map_seq0. exact Hp.
Qed.

Lemma pick_ext qs (i j : idx) : (forall a, In a qs -> nth a i false = nth a j false) -> pick qs i = pick qs j.
Proof. intros H. unfold pick. apply map_ext_in. exact H. Qed.

Lemma fold_mul_ext (f g : qop -> K) l a : (forall o, In o l -> f o = g o) ->
  fold_left (fun acc o => kmul acc (f o)) l a = fold_left (fun acc o => kmul acc (g o)) l a.
Proof.
  revert a. induction l as [|x l IH]; intros a H; simpl; [reflexivity|].
  rewrite H by (left; reflexivity). apply IH. intros o Ho. apply H. right. exact Ho.
Qed.

Notation par_ref := (par_ref K k0 k1 kmul).
Notation embed := (embed K k0).

Lemma args_lt n (o : qop) a : op_wf K n o = true -> In a (args o) -> a < n.
Proof.
  unfold op_wf. rewrite !andb_true_iff. intros [[[H _] _] _] Ha. rewrite forallb_forall in H. apply Nat.ltb_lt. apply H. exact Ha.
Qed.

Lemma touched_snoc l (o : qop) : touched K (l ++ [o]) = touched K l ++ args o.
Proof. unfold touched. rewrite flat_map_app. simpl. rewrite app_nil_r. reflexivity. Qed.

(* ---------- one more gate ---------- *)
Lemma par_snoc n l o : Forall (fun o => op_wf K n o = true) (l ++ [o]) -> NoDup (touched K (l ++ [o])) ->
  meq n (par_ref n (l ++ [o])) (mmul (embed n o) (par_ref n l)).
Proof.
  intros Hwf Hnd. split; [reflexivity|]. split; [reflexivity|]. intros i j Hi Hj.
  rewrite touched_snoc in Hnd. destruct (nodup_app _ _ Hnd) as [_ [_ Hdis]].
  apply Forall_app in Hwf. destruct Hwf as [Hwl Hwo]. inversion Hwo as [|o' l' Ho _]; subst o' l'.
  rewrite mmul_ent. simpl nq.
  set (ks := mix n (args o) i j).
  rewrite (sum_single _ (all_idx n) ks (all_idx_NoDup n)); [|apply all_idx_In; apply mix_length|].
  - (* the one term *)
    assert (E1 : others_equal n (args o) i ks = true).
    { apply others_equal_spec. intros p Hp. unfold ks. rewrite mix_nth by exact Hp.
      destruct (inb p (args o)) eqn:E; [left; apply inb_In; exact E|right; reflexivity]. }
    assert (E2 : pick (args o) ks = pick (args o) j).
    { apply pick_ext. intros a Ha. unfold ks. rewrite mix_nth by (apply (args_lt n o a Ho Ha)).
      assert (inb a (args o) = true) by (apply inb_In; exact Ha). rewrite H. reflexivity. }
    assert (E3 : others_equal n (touched K l) ks j = others_equal n (touched K (l ++ [o])) i j).
    { apply eq_true_iff_eq. rewrite !others_equal_spec. rewrite touched_snoc. split.
      - intros H p Hp. specialize (H p Hp). unfold ks in H. rewrite mix_nth in H by exact Hp.
        destruct (inb p (args o)) eqn:E.
        + left. apply in_or_app. right. apply inb_In. exact E.
        + destruct H as [H|H]; [left; apply in_or_app; left; exact H|right; exact H].
      - intros H p Hp. unfold ks. rewrite mix_nth by exact Hp. destruct (inb p (args o)) eqn:E; [right; reflexivity|].
        destruct (H p Hp) as [Hin|He]; [|right; exact He]. apply in_app_or in Hin. destruct Hin as [Hin|Hin]; [left; exact Hin|].
        apply inb_In in Hin. congruence. }
    assert (E4 : forall p, In p l -> ent (gate p) (pick (args p) ks) (pick (args p) j) = ent (gate p) (pick (args p) i) (pick (args p) j)).
    { intros p Hp. f_equal. apply pick_ext. intros a Ha. unfold ks.
      rewrite Forall_forall in Hwl. rewrite mix_nth by (apply (args_lt n p a (Hwl p Hp) Ha)).
      destruct (inb a (args o)) eqn:E; [|reflexivity]. exfalso. apply inb_In in E.
      apply (Hdis a); [|exact E]. unfold touched. apply in_flat_map. exists p. auto. }
    simpl ent. rewrite E1, E2, E3. destruct (others_equal n (touched K (l ++ [o])) i j).
    + rewrite fold_left_app. simpl. rewrite mulC. f_equal. apply fold_mul_ext. intros p Hp. symmetry. apply E4. exact Hp.
    + symmetry. apply mul0r.
  - (* every other term vanishes *)
    intros k Hk Hne. apply all_idx_In in Hk. simpl ent.
    destruct (others_equal n (args o) i k) eqn:E1; [|apply mul0l].
    destruct (others_equal n (touched K l) k j) eqn:E2; [|apply mul0r].
    exfalso. apply Hne. apply (idx_ext n); auto; [apply mix_length|]. intros p Hp. unfold ks. rewrite mix_nth by exact Hp.
    rewrite others_equal_spec in E1, E2. destruct (inb p (args o)) eqn:E.
    + apply inb_In in E. destruct (E2 p Hp) as [Hin|He]; [|exact He]. exfalso. apply (Hdis p); auto.
    + destruct (E1 p Hp) as [Hin|He]; [apply inb_In in Hin; congruence|symmetry; exact He].
Qed.

(* ---------- no gate ---------- *)
Lemma others_equal_nil n i j : length i = n -> length j = n -> (others_equal n [] i j = true <-> i = j).
Proof.
  intros Hi Hj. rewrite others_equal_spec. split.
  - intros H. apply (idx_ext n); auto. intros p Hp. destruct (H p Hp) as [[]|E]; exact E.
  - intros -> p _. right. reflexivity.
Qed.

Lemma par_nil_l n X : nq X = n -> meq n (mmul (par_ref n []) X) X.
Proof.
  intros HX. split; [reflexivity|]. split; [exact HX|]. intros i j Hi Hj. rewrite mmul_ent. simpl nq.
  rewrite (sum_single _ (all_idx n) i (all_idx_NoDup n)); [|apply all_idx_In; exact Hi|].
  - simpl ent. assert (E : others_equal n [] i i = true) by (apply others_equal_nil; auto). rewrite E. apply mul1l.
  - intros k Hk Hne. apply all_idx_In in Hk. simpl ent. destruct (others_equal n [] i k) eqn:E; [|apply mul0l].
    exfalso. apply Hne. symmetry. apply (others_equal_nil n i k Hi Hk). exact E.
Qed.

(* ---------- a layer applied to anything = its gates applied one after the other ---------- *)
Notation apply_all n l Y := (fold_left (fun acc m => mmul m acc) (map (embed n) l) Y).

Lemma layer_is_sequential n : forall l, Forall (fun o => op_wf K n o = true) l -> NoDup (touched K l) ->
  forall X Y, meq n X Y -> meq n (mmul (par_ref n l) X) (apply_all n l Y).
Proof.
  induction l as [|o l IH] using rev_ind; intros Hwf Hnd X Y HXY.
  - simpl. eapply meq_trans; [apply par_nil_l; destruct HXY; assumption|exact HXY].
  - rewrite map_app, fold_left_app. simpl.
    assert (Hwl : Forall (fun o => op_wf K n o = true) l) by (apply Forall_app in Hwf; tauto).
    assert (Hndl : NoDup (touched K l)) by (rewrite touched_snoc in Hnd; apply nodup_app in Hnd; tauto).
    specialize (IH Hwl Hndl X Y HXY).
    eapply meq_trans; [apply mmul_cong; [apply par_snoc; assumption|apply meq_refl; destruct HXY; assumption]|].
    eapply meq_trans; [apply mmul_assoc; reflexivity|].
    apply mmul_cong; [apply meq_refl; reflexivity|exact IH].
Qed.

(* ---------- the whole circuit ---------- *)
Lemma layers_are_sequential n : forall ms ls,
  Forall2 (fun M l => nq M = n /\ forall i j, length i = n -> length j = n -> ent M i j = ent (par_ref n l) i j) ms ls ->
  Forall (fun l => Forall (fun o => op_wf K n o = true) l /\ NoDup (touched K l)) ls ->
  forall X Y, meq n X Y ->
  meq n (fold_left (fun acc m => mmul m acc) ms X) (apply_all n (concat ls) Y).
Proof.
  intros ms ls HF. induction HF as [|M l ms ls [HnM HM] HF IH]; intros Hls X Y HXY; simpl; [exact HXY|].
  inversion Hls as [|l' ls' [Hwl Hndl] Hls']; subst l' ls'.
  rewrite map_app, fold_left_app. apply IH; [exact Hls'|].
  eapply meq_trans; [|apply (layer_is_sequential n l Hwl Hndl X Y HXY)].
  apply mmul_cong; [|apply meq_refl; destruct HXY; assumption].
  split; [exact HnM|]. split; [reflexivity|exact HM].
Qed.

Lemma concat_layers (c : list qop) : concat (circuit_layers K c) = c.
Proof.
  unfold circuit_layers.
  assert (H : forall c cur acc, concat (layers K cur acc c) = acc ++ c).
  { induction c0 as [|o r IH]; intros cur acc; simpl.
    - destruct acc; simpl; rewrite ?app_nil_r; reflexivity.
    - destruct (uses K cur o); simpl; rewrite IH; simpl; rewrite <- ?app_assoc; reflexivity. }
  assert (F : forall l : list (list qop), concat (filter (fun l => negb (Nat.eqb (length l) 0)) l) = concat l).
  { induction l as [|x l IH]; simpl; auto. destruct x; simpl; auto. rewrite IH. reflexivity. }
  rewrite F, H. reflexivity.
Qed.

Lemma Forall_filter {A} (P : A -> Prop) f l : Forall P l -> Forall P (filter f l).
Proof. induction 1; simpl; [constructor|]. destruct (f x); [constructor|]; auto. Qed.

Theorem compiled_circuit_is_the_unitary n (c : list qop) : 0 < n -> Forall (fun o => op_wf K n o = true) c ->
  exists ms, compile K k0 k1 kmul n c = Some ms /\
    meq n (prod_left K k0 k1 kadd kmul n ms) (u_ref K k0 k1 kadd kmul n c).
Proof.
  intros Hn Hwf.
  destruct (circuit_compiles K k0 k1 kmul mul1l mul1r mul0l mul0r mulA mulC n c Hn Hwf) as [ms [Hc HF]].
  exists ms. split; [exact Hc|]. unfold u_ref, prod_left.
  replace (map (embed n) c) with (map (embed n) (concat (circuit_layers K c))) by (rewrite concat_layers; reflexivity).
  apply layers_are_sequential; [exact HF| |apply meq_refl; reflexivity].
  unfold circuit_layers. apply Forall_filter. apply (layers_ok K n c [] [] eq_refl (NoDup_nil _) Hwf).
Qed.

End Seq.
