(* Proofs/BondgoCFProofs.v — the fuelled source semantics is monotone: more fuel only extends the sequence of
   writes, and a run that ends without running out of fuel is the same with any larger fuel.  This is what
   makes comparing the machine's writes with a prefix of the source's writes meaningful. *)
From Coq Require Import List NArith Bool Arith Lia.
From BM Require Import Front.BondgoCF.
Import ListNotations.

Section Mono.
Variable M : N.
Variable funs : list fbody.
Variable max_writes : nat.
Notation run := (run M funs max_writes).
Notation loop_run := (loop_run M).

(* r2 is what r1 becomes with more fuel *)
Definition le_res (r1 r2 : cstate * signal) : Prop :=
  (snd r1 <> OutOfFuel -> r2 = r1) /\ (snd r1 = OutOfFuel -> exists l, writes (fst r2) = l ++ writes (fst r1)).
Definition grows (r : cstate * signal) (st : cstate) : Prop := exists l, writes (fst r) = l ++ writes st.

Lemma le_res_refl r : le_res r r.
Proof. split; [reflexivity|]. intros _. exists []. reflexivity. Qed.

Lemma le_res_trans r1 r2 r3 : le_res r1 r2 -> le_res r2 r3 -> le_res r1 r3.
Proof.
  intros [A1 A2] [B1 B2]. split.
  - intros H. rewrite <- (A1 H) in *. apply B1. rewrite (A1 H). exact H.
  - intros H. destruct (A2 H) as [l Hl]. destruct (snd r2) eqn:E.
    1-3: rewrite (B1 ltac:(discriminate)); exists l; exact Hl.
    destruct (B2 eq_refl) as [l' Hl']. exists (l' ++ l). rewrite Hl', Hl, app_assoc. reflexivity.
Qed.

Lemma grows_refl st sg : grows (st, sg) st.
Proof. exists []. reflexivity. Qed.
Lemma grows_trans r st st' : grows r st' -> (exists l, writes st' = l ++ writes st) -> grows r st.
Proof. intros [l Hl] [l' Hl']. exists (l ++ l'). rewrite Hl, Hl', app_assoc. reflexivity. Qed.

Lemma setv_writes st v x : writes (setv M st v x) = writes st.
Proof. reflexivity. Qed.
Lemma post_step_writes post st : writes (post_step M post st) = writes st.
Proof. destruct post as [[v [|]]|]; reflexivity. Qed.

(* ---------- loops ---------- *)
Lemma loop_grows rb post : (forall st, grows (rb st) st) -> forall k first st, grows (loop_run rb post k first st) st.
Proof.
  intros Hrb. induction k as [|k IH]; intros first st; simpl; [apply grows_refl|].
  set (st2 := if first then st else post_step M post st).
  assert (H2 : exists l, writes st2 = l ++ writes st).
  { exists []. unfold st2. destruct first; [reflexivity|apply post_step_writes]. }
  pose proof (Hrb st2) as Hg.
  destruct (snd (rb st2)) eqn:E.
  - eapply grows_trans; [apply IH|]. destruct Hg as [l Hl]. destruct H2 as [l' Hl']. exists (l ++ l'). rewrite Hl, Hl', app_assoc. reflexivity.
  - eapply grows_trans; [|exact H2]. destruct Hg as [l Hl]. exists l. exact Hl.
  - eapply grows_trans; [apply IH|]. destruct Hg as [l Hl]. destruct H2 as [l' Hl']. exists (l ++ l'). rewrite Hl, Hl', app_assoc. reflexivity.
  - eapply grows_trans; [|exact H2]. destruct Hg as [l Hl]. exists l. exact Hl.
Qed.

Lemma loop_mono rb1 rb2 post : (forall st, le_res (rb1 st) (rb2 st)) -> (forall st, grows (rb2 st) st) ->
  forall k1 k2 first st, k1 <= k2 -> le_res (loop_run rb1 post k1 first st) (loop_run rb2 post k2 first st).
Proof.
  intros Hle Hg. induction k1 as [|k1 IH]; intros k2 first st Hk.
  - simpl. split; [intros H; exfalso; apply H; reflexivity|]. intros _. apply (loop_grows rb2 post Hg).
  - destruct k2 as [|k2]; [lia|]. simpl.
    set (st2 := if first then st else post_step M post st).
    destruct (Hle st2) as [L1 L2].
    destruct (snd (rb1 st2)) eqn:E.
    + rewrite (L1 ltac:(discriminate)), E. apply IH. lia.
    + rewrite (L1 ltac:(discriminate)), E. apply le_res_refl.
    + rewrite (L1 ltac:(discriminate)), E. apply IH. lia.
    + split; [intros H; exfalso; apply H; reflexivity|]. intros _. cbn [fst].
      destruct (L2 eq_refl) as [l Hl].
      assert (G : grows (match snd (rb2 st2) with
                         | Break => (fst (rb2 st2), Normal)
                         | OutOfFuel => (fst (rb2 st2), OutOfFuel)
                         | _ => loop_run rb2 post k2 false (fst (rb2 st2)) end) (fst (rb2 st2))).
      { destruct (snd (rb2 st2)); try apply grows_refl; apply (loop_grows rb2 post Hg). }
      destruct G as [l' Hl']. exists (l' ++ l). rewrite Hl', Hl, app_assoc. reflexivity.
Qed.

(* ---------- statement lists ---------- *)
Lemma run_grows : forall f ss st, grows (run f ss st) st.
Proof.
  induction f as [|f IH]; intros ss st; simpl; [apply grows_refl|].
  destruct ss as [|s rest]; [apply grows_refl|].
  destruct s as [o e|v e|v g args|v|v|c th el| | |init post body].
  - destruct (full max_writes st); [apply grows_refl|]. eapply grows_trans; [apply IH|]. exists [(o, eval M st e)]. reflexivity.
  - eapply grows_trans; [apply IH|]. exists []. reflexivity.
  - eapply grows_trans; [apply IH|]. exists []. reflexivity.
  - eapply grows_trans; [apply IH|]. exists []. reflexivity.
  - eapply grows_trans; [apply IH|]. exists []. reflexivity.
  - pose proof (IH (if c then th else el) st) as G. destruct (snd (run f (if c then th else el) st)) eqn:E;
      try (destruct G as [l Hl]; exists l; exact Hl).
    eapply grows_trans; [apply IH|]. destruct G as [l Hl]. exists l. exact Hl.
  - apply grows_refl.
  - apply grows_refl.
  - set (st1 := match init with Some (v, c) => setv M st v c | None => st end).
    assert (H1 : exists l, writes st1 = l ++ writes st) by (exists []; unfold st1; destruct init as [[v c]|]; reflexivity).
    pose proof (loop_grows (run f body) post (fun s => IH body s) f true st1) as G.
    destruct (snd (loop_run (run f body) post f true st1)) eqn:E;
      try (eapply grows_trans; [|exact H1]; destruct G as [l Hl]; exists l; exact Hl).
    eapply grows_trans; [apply IH|]. destruct G as [l Hl]. destruct H1 as [l' Hl']. exists (l ++ l'). rewrite Hl, Hl', app_assoc. reflexivity.
Qed.

Lemma seq_mono f (r1 r2 : cstate * signal) rest :
  (forall st, le_res (run f rest st) (run (S f) rest st)) -> le_res r1 r2 ->
  le_res (match snd r1 with Normal => run f rest (fst r1) | sg => (fst r1, sg) end)
         (match snd r2 with Normal => run (S f) rest (fst r2) | sg => (fst r2, sg) end).
Proof.
  intros Hrest [L1 L2]. destruct (snd r1) eqn:E.
  - rewrite (L1 ltac:(discriminate)), E. apply Hrest.
  - rewrite (L1 ltac:(discriminate)), E. apply le_res_refl.
  - rewrite (L1 ltac:(discriminate)), E. apply le_res_refl.
  - split; [intros H; exfalso; apply H; reflexivity|]. intros _. cbn [fst]. destruct (L2 eq_refl) as [l Hl].
    assert (G : grows (match snd r2 with Normal => run (S f) rest (fst r2) | sg => (fst r2, sg) end) (fst r2)).
    { destruct (snd r2); try apply grows_refl. apply run_grows. }
    destruct G as [l' Hl']. exists (l' ++ l). rewrite Hl', Hl, app_assoc. reflexivity.
Qed.

Lemma run_step_mono : forall f ss st, le_res (run f ss st) (run (S f) ss st).
Proof.
  induction f as [|f IH]; intros ss st.
  - simpl. split; [intros H; exfalso; apply H; reflexivity|]. intros _. apply (run_grows 1 ss st).
  - change (run (S (S f)) ss st) with
      (match ss with
       | [] => (st, Normal)
       | s :: rest =>
           match s with
           | SWrite o e => if full max_writes st then (st, OutOfFuel) else run (S f) rest (mkCS (vars st) ((o, eval M st e) :: writes st))
           | SAssign v e => run (S f) rest (setv M st v (eval M st e))
           | SCall v g args => run (S f) rest (setv M st v (call M funs g (map (eval M st) args)))
           | SInc v => run (S f) rest (setv M st v (var st v + 1))
           | SDec v => run (S f) rest (setv M st v (var st v + M - 1))
           | SIf c th el => let r := run (S f) (if c then th else el) st in
                            match snd r with Normal => run (S f) rest (fst r) | sg => (fst r, sg) end
           | SBreak => (st, Break)
           | SContinue => (st, Continue)
           | SFor init post body =>
               let st1 := match init with Some (v, c) => setv M st v c | None => st end in
               let r := loop_run (run (S f) body) post (S f) true st1 in
               match snd r with Normal => run (S f) rest (fst r) | sg => (fst r, sg) end
           end
       end).
    change (run (S f) ss st) with
      (match ss with
       | [] => (st, Normal)
       | s :: rest =>
           match s with
           | SWrite o e => if full max_writes st then (st, OutOfFuel) else run f rest (mkCS (vars st) ((o, eval M st e) :: writes st))
           | SAssign v e => run f rest (setv M st v (eval M st e))
           | SCall v g args => run f rest (setv M st v (call M funs g (map (eval M st) args)))
           | SInc v => run f rest (setv M st v (var st v + 1))
           | SDec v => run f rest (setv M st v (var st v + M - 1))
           | SIf c th el => let r := run f (if c then th else el) st in
                            match snd r with Normal => run f rest (fst r) | sg => (fst r, sg) end
           | SBreak => (st, Break)
           | SContinue => (st, Continue)
           | SFor init post body =>
               let st1 := match init with Some (v, c) => setv M st v c | None => st end in
               let r := loop_run (run f body) post f true st1 in
               match snd r with Normal => run f rest (fst r) | sg => (fst r, sg) end
           end
       end).
    destruct ss as [|s rest]; [apply le_res_refl|].
    destruct s as [o e|v e|v g args|v|v|c th el| | |init post body]; try apply IH; try apply le_res_refl.
    + destruct (full max_writes st); [apply le_res_refl|apply IH].
    + cbv zeta. apply seq_mono; [intros; apply IH|apply IH].
    + cbv zeta. apply seq_mono; [intros; apply IH|].
      apply loop_mono; [intros; apply IH|intros; apply run_grows|lia].
Qed.

Theorem run_mono : forall f f' ss st, f <= f' -> le_res (run f ss st) (run f' ss st).
Proof.
  intros f f' ss st H. induction H as [|f' H IH]; [apply le_res_refl|].
  eapply le_res_trans; [exact IH|apply run_step_mono].
Qed.

(* the writes of a program computed with less fuel are a prefix of those computed with more fuel; when the
   smaller run ends by itself the two are equal *)
Theorem more_fuel_only_extends_the_writes : forall f f' nvars ss, f <= f' ->
  exists more, program_writes M funs max_writes f' nvars ss = program_writes M funs max_writes f nvars ss ++ more.
Proof.
  intros f f' nvars ss H. unfold program_writes.
  destruct (run_mono f f' ss (mkCS (repeat 0%N nvars) []) H) as [L1 L2].
  destruct (snd (run f ss (mkCS (repeat 0%N nvars) []))) eqn:E.
  1-3: rewrite (L1 ltac:(discriminate)); exists []; rewrite app_nil_r; reflexivity.
  destruct (L2 eq_refl) as [l Hl]. exists (rev l). rewrite Hl, rev_app_distr. reflexivity.
Qed.

Theorem a_run_that_ends_is_final : forall f f' ss st, f <= f' -> snd (run f ss st) <> OutOfFuel -> run f' ss st = run f ss st.
Proof. intros f f' ss st H E. apply (proj1 (run_mono f f' ss st H) E). Qed.

End Mono.
