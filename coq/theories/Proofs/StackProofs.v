(* Proofs/StackProofs.v — C13: the stack/queue step function refines an abstract sequence. *)
From Coq Require Import List NArith Bool Arith Lia.
From BM Require Import Gen.StackModel.
Import ListNotations.
Local Open Scope N_scope.

(* ------------------------------------------------------------------ widths *)

Lemma nb_from_spec fuel : forall b n, n <= 2 ^ N.of_nat (b + fuel) -> n <= 2 ^ N.of_nat (nb_from fuel b n).
Proof.
  induction fuel as [|f IH]; intros b n H; simpl.
  - rewrite Nat.add_0_r in H. exact H.
  - destruct (N.leb_spec n (2 ^ N.of_nat b)); auto. apply IH. rewrite <- Nat.add_succ_comm in H. exact H.
Qed.

Lemma nb_from_le fuel : forall b n m, (b <= m)%nat -> n <= 2 ^ N.of_nat m -> (nb_from fuel b n <= m)%nat.
Proof.
  induction fuel as [|f IH]; intros b n m Hb Hn; simpl; auto.
  destruct (N.leb_spec n (2 ^ N.of_nat b)) as [|Hgt]; auto.
  apply IH; auto. destruct (Nat.eq_dec b m); [subst; lia|lia].
Qed.

Lemma nbits_spec n : 1 <= n -> n <= 2 ^ 62 -> n <= 2 ^ nbits n.
Proof.
  intros H1 H2. unfold nbits. destruct (N.eqb_spec n 0); [lia|].
  apply nb_from_spec. eapply N.le_trans; [exact H2|]. apply N.pow_le_mono_r; [lia|]. change (N.of_nat (1 + 62)) with 63. lia.
Qed.

Lemma nbits_le32 n : n <= 2 ^ 32 -> nbits n <= 32.
Proof.
  intro H. unfold nbits. destruct (n =? 0); [lia|].
  assert ((nb_from 62 1 n <= 32)%nat) by (apply nb_from_le; [lia|exact H]). lia.
Qed.

(* a well-formed configuration *)
Record wf_cfg (c : cfg) : Prop := mkWfc {
  wf_depth : (1 <= c_depth c)%nat; wf_depth_hi : N.of_nat (c_depth c) + 1 <= 2 ^ 31;
  wf_snd : (1 <= c_snd c)%nat; wf_rcv : (1 <= c_rcv c)%nat }.

Lemma depth_fits c : wf_cfg c -> N.of_nat (c_depth c) < 2 ^ wsp c /\ wsp c <= 32.
Proof.
  intros [H1 H2 _ _]. unfold wsp. split.
  - assert (N.of_nat (c_depth c) + 1 <= 2 ^ nbits (N.of_nat (c_depth c) + 1)).
    { apply nbits_spec; [lia|]. eapply N.le_trans; [exact H2|]. apply N.pow_le_mono_r; lia. }
    lia.
  - apply nbits_le32. eapply N.le_trans; [exact H2|]. apply N.pow_le_mono_r; lia.
Qed.

Lemma msk_small w x : x < 2 ^ w -> msk w x = x.
Proof. intro H. unfold msk. apply N.mod_small; auto. Qed.

Lemma msk_add32 w x : w <= 32 -> msk w (x + 2 ^ 32) = msk w x.
Proof.
  intro H. unfold msk. replace (2 ^ 32) with (2 ^ (32 - w) * 2 ^ w).
  - rewrite N.mod_add; auto. apply N.pow_nonzero; lia.
  - rewrite <- N.pow_add_r. f_equal. lia.
Qed.

(* ------------------------------------------------------------------ lists *)

Lemma setn_length {A} k (v : A) l : length (setn k v l) = length l.
Proof. revert k; induction l; destruct k; simpl; auto. Qed.

Lemma nth_setn_eq {A} k (v d : A) l : (k < length l)%nat -> nth k (setn k v l) d = v.
Proof. revert k; induction l; destruct k; simpl; intros; try lia; auto. apply IHl; lia. Qed.

Lemma nth_setn_neq {A} k j (v d : A) l : k <> j -> nth j (setn k v l) d = nth j l d.
Proof. revert k j; induction l; destruct k, j; simpl; intros; auto; try lia. Qed.

Lemma firstn_setn_ge {A} k n (v : A) l : (n <= k)%nat -> firstn n (setn k v l) = firstn n l.
Proof.
  revert k n; induction l; destruct k, n; simpl; intros; auto; try lia. f_equal. apply IHl; lia.
Qed.

Lemma firstn_S_setn {A} n (v : A) l : (n < length l)%nat -> firstn (S n) (setn n v l) = firstn n l ++ [v].
Proof.
  revert n; induction l; destruct n; simpl; intros; try lia; auto. f_equal. apply IHl; lia.
Qed.

Lemma firstn_S_nth {A} n (d : A) l : (n < length l)%nat -> firstn (S n) l = firstn n l ++ [nth n l d].
Proof.
  revert n; induction l; destruct n; simpl; intros; try lia; auto. f_equal. apply IHl; lia.
Qed.

Lemma nth_map_seq {A} (f : nat -> A) n k d : (k < n)%nat -> nth k (map f (seq 0 n)) d = f k.
Proof.
  intro H. rewrite (nth_indep _ d (f 0%nat)) by (rewrite map_length, seq_length; auto).
  rewrite map_nth. rewrite seq_nth; auto.
Qed.

(* ------------------------------------------------------------------ invariant and abstraction *)

Definition D (c : cfg) : N := N.of_nat (c_depth c).

Record Inv (c : cfg) (s : st) : Prop := mkInv {
  inv_mem : length (mem s) = c_depth c;
  inv_words : Forall (fun x => x < 2 ^ c_dsize c) (mem s);
  inv_sp : sp s <= D c;
  inv_sack : length (sack s) = c_snd c;
  inv_rack : length (rack s) = c_rcv c;
  inv_rdata : length (rdata s) = c_rcv c;
  inv_send : sendSM s < N.of_nat (c_snd c);
  inv_recv : recvSM s < N.of_nat (c_rcv c);
  inv_fifo : c_mt c = FIFO ->
             readsp s < D c /\ writesp s < D c /\ (readsp s + sp s = writesp s \/ readsp s + sp s = writesp s + D c)
}.

(* circular index: position j after the read pointer *)
Definition cidx (c : cfg) (r j : N) : N := if r + j <? D c then r + j else r + j - D c.

(* the stored sequence; LIFO: top first, FIFO: oldest first *)
Definition abs (c : cfg) (s : st) : list N :=
  match c_mt c with
  | LIFO => rev (firstn (N.to_nat (sp s)) (mem s))
  | FIFO => map (fun j => nthn (mem s) (N.to_nat (cidx c (readsp s) (N.of_nat j)))) (seq 0 (N.to_nat (sp s)))
  end.

Definition wf_inp (c : cfg) (i : inp) : Prop :=
  length (i_write i) = c_snd c /\ length (i_wdata i) = c_snd c /\ length (i_read i) = c_rcv c.

Lemma inv_reset c : wf_cfg c -> Inv c (reset_state c).
Proof.
  intros [H1 H2 H3 H4]. unfold reset_state. constructor; simpl; rewrite ?repeat_length; auto; try lia.
  - apply Forall_forall. intros x Hx. apply repeat_spec in Hx. subst. assert (2 ^ c_dsize c <> 0) by (apply N.pow_nonzero; lia). lia.
  - unfold D. lia.
Qed.

Lemma abs_length c s : Inv c s -> length (abs c s) = N.to_nat (sp s).
Proof.
  intros I. unfold abs. destruct (c_mt c).
  - rewrite rev_length, firstn_length, (inv_mem _ _ I). pose proof (inv_sp _ _ I). unfold D in *. lia.
  - rewrite map_length, seq_length. reflexivity.
Qed.

(* the flags always reflect the number of stored elements *)
Theorem flags_reflect_contents c s :
  Inv c s -> (is_empty s = true <-> abs c s = []) /\ (is_full c s = true <-> length (abs c s) = c_depth c).
Proof.
  intro I. pose proof (abs_length c s I) as HL. unfold is_empty, is_full. split.
  - rewrite N.eqb_eq. split; intro H.
    + apply length_zero_iff_nil. rewrite HL, H. reflexivity.
    + rewrite H in HL. simpl in HL. lia.
  - rewrite N.eqb_eq, HL. pose proof (inv_sp _ _ I). unfold D in *. lia.
Qed.

(* ------------------------------------------------------------------ one clock edge *)

Lemma Forall_setn {A} (P : A -> Prop) k v l : Forall P l -> P v -> Forall P (setn k v l).
Proof. intros H Hv. revert k; induction H; destruct k; simpl; constructor; auto. Qed.

Lemma next_lt k n : (1 <= n)%nat -> (next k n < n)%nat.
Proof. intro H. unfold next. destruct (Nat.ltb_spec k (n - 1)); lia. Qed.

Lemma nthn_bound c s k : Inv c s -> nthn (mem s) k < 2 ^ c_dsize c.
Proof.
  intro I. unfold nthn. destruct (Nat.lt_ge_cases k (length (mem s))).
  - pose proof (inv_words _ _ I) as F. rewrite Forall_forall in F. apply F. apply nth_In; auto.
  - rewrite nth_overflow by auto. assert (2 ^ c_dsize c <> 0) by (apply N.pow_nonzero; lia). lia.
Qed.

Section Step.
Variable c : cfg.
Hypothesis WC : wf_cfg c.
Variable s : st.
Hypothesis I : Inv c s.
Variable i : inp.
Hypothesis WI : wf_inp c i.
Hypothesis NR : i_reset i = false.

Let rk := N.to_nat (recvSM s).
Let sk := N.to_nat (sendSM s).
Let reading := existsb (fun b => b) (i_read i) && negb (is_empty s).
Let writing := negb reading && existsb (fun b => b) (i_write i) && negb (is_full c s).
Let rd_hit := reading && nthb (i_read i) rk && negb (nthb (rack s) rk).
Let wr_hit := writing && nthb (i_write i) sk && negb (nthb (sack s) sk).

Lemma rk_lt : (rk <? c_rcv c)%nat = true.
Proof. apply Nat.ltb_lt. unfold rk. pose proof (inv_recv _ _ I). lia. Qed.
Lemma sk_lt : (sk <? c_snd c)%nat = true.
Proof. apply Nat.ltb_lt. unfold sk. pose proof (inv_send _ _ I). lia. Qed.

Lemma hits_exclusive : rd_hit = true -> wr_hit = true -> False.
Proof.
  unfold rd_hit, wr_hit, writing. intros H1 H2.
  destruct reading; simpl in *; discriminate.
Qed.

(* the firing conditions stated in the model are the hit conditions of the step function *)
Lemma read_fires_iff k : read_fires c s i k = true <-> (k = rk /\ rd_hit = true).
Proof.
  unfold read_fires, rd_hit, reading. rewrite !andb_true_iff, N.eqb_eq. split.
  - intros [[[[H1 H2] H3] H4] H5]. assert (k = rk) by (unfold rk; rewrite <- H3; lia). subst k. tauto.
  - intros [-> [[[H1 H2] H4] H5]]. repeat split; auto. unfold rk. lia.
Qed.
Lemma write_fires_iff k : write_fires c s i k = true <-> (k = sk /\ wr_hit = true).
Proof.
  unfold write_fires, wr_hit, writing, reading. rewrite !andb_true_iff, N.eqb_eq. split.
  - intros [[[[[H0 H1] H2] H3] H4] H5]. assert (k = sk) by (unfold sk; rewrite <- H3; lia). subst k. tauto.
  - intros [-> [[[[H0 H1] H2] H4] H5]]. repeat split; auto. unfold sk. lia.
Qed.

(* fields of the next state *)
Lemma step_unfold :
  step c s i =
  mkSt (if wr_hit then
          let idx := match c_mt c with LIFO => sp s | FIFO => writesp s end in
          if idx <? D c then setn (N.to_nat idx) (msk (c_dsize c) (nthn (i_wdata i) sk)) (mem s) else mem s
        else mem s)
       (if rd_hit then
          match c_mt c with
          | LIFO => msk (wsp c) (sp s + 2 ^ 32 - 1)
          | FIFO => if readsp s =? D c - 1 then msk (wsp c) (writesp s)
                    else if writesp s <? readsp s + 1 then msk (wsp c) (D c + 2 ^ 32 - readsp s - 1 + writesp s)
                         else msk (wsp c) (writesp s + 2 ^ 32 - readsp s - 1) end
        else if wr_hit then
          match c_mt c with
          | LIFO => msk (wsp c) (sp s + 1)
          | FIFO => if writesp s =? D c - 1 then msk (wsp c) (D c + 2 ^ 32 - readsp s)
                    else if readsp s <? writesp s + 1 then msk (wsp c) (writesp s + 2 ^ 32 - readsp s + 1)
                         else msk (wsp c) (D c + 2 ^ 32 - readsp s + writesp s + 1) end
        else sp s)
       (match c_mt c with
        | FIFO => if rd_hit then (if readsp s =? D c - 1 then 0 else msk (wsp c) (readsp s + 1)) else readsp s
        | LIFO => readsp s end)
       (match c_mt c with
        | FIFO => if wr_hit then (if writesp s =? D c - 1 then 0 else msk (wsp c) (writesp s + 1)) else writesp s
        | LIFO => writesp s end)
       (if writing then N.of_nat (next sk (c_snd c)) else sendSM s)
       (if reading then N.of_nat (next rk (c_rcv c)) else recvSM s)
       (map (fun k => if negb reading && nthb (i_write i) k && negb (nthb (sack s) k) && (sendSM s =? N.of_nat k) && negb (is_full c s)
                      then true else if negb (nthb (i_write i) k) then false else nthb (sack s) k) (seq 0 (c_snd c)))
       (map (fun k => if nthb (i_read i) k && negb (nthb (rack s) k) && (recvSM s =? N.of_nat k) && negb (is_empty s) then true
                      else if negb (nthb (i_read i) k) then false else nthb (rack s) k) (seq 0 (c_rcv c)))
       (if rd_hit then
          setn rk (msk (c_dsize c)
                       (match c_mt c with
                        | LIFO => let idx := msk 32 (sp s + 2 ^ 32 - 1) in
                                  if idx <? D c then nthn (mem s) (N.to_nat idx) else 0
                        | FIFO => if readsp s <? D c then nthn (mem s) (N.to_nat (readsp s)) else 0 end)) (rdata s)
        else rdata s).
Proof.
  unfold step. rewrite NR. cbv zeta. fold rk sk. fold (D c).
  pose proof rk_lt as Hr. pose proof sk_lt as Hs. fold rk in Hr. fold sk in Hs. rewrite Hr, Hs.
  unfold rd_hit, wr_hit, writing, reading. rewrite !andb_true_r. reflexivity.
Qed.

End Step.

(* ------------------------------------------------------------------ arithmetic of the pointers *)

Lemma msk_dec32 w x : w <= 32 -> 1 <= x -> x < 2 ^ w -> msk w (x + 2 ^ 32 - 1) = x - 1.
Proof.
  intros Hw H1 Hx. replace (x + 2 ^ 32 - 1) with ((x - 1) + 2 ^ 32) by lia.
  rewrite msk_add32 by auto. apply msk_small. lia.
Qed.

Lemma msk32_dec x : 1 <= x -> x < 2 ^ 32 -> msk 32 (x + 2 ^ 32 - 1) = x - 1.
Proof. intros. apply msk_dec32; auto. reflexivity. Qed.

Section Cases.
Variable c : cfg.
Hypothesis WC : wf_cfg c.
Variable s : st.
Hypothesis I : Inv c s.
Variable i : inp.
Hypothesis WI : wf_inp c i.
Hypothesis NR : i_reset i = false.

Let Hfit := depth_fits c WC.

Lemma D_pos : 1 <= D c.
Proof. unfold D. pose proof (wf_depth _ WC). lia. Qed.

Lemma D_lt32 : D c < 2 ^ 32.
Proof.
  unfold D. pose proof (wf_depth_hi _ WC).
  assert (2 ^ 31 < 2 ^ 32) by reflexivity. lia.
Qed.

(* ---- reading ---- *)
Theorem step_read k :
  read_fires c s i k = true ->
  exists x, abs c s = x :: abs c (step c s i) /\ nthn (rdata (step c s i)) k = x /\ (k < c_rcv c)%nat.
Proof.
  intro HF. apply (read_fires_iff c s i) in HF. destruct HF as [-> Hhit].
  pose proof (rk_lt c s I) as Hrk. apply Nat.ltb_lt in Hrk.
  pose proof Hhit as Hh. rewrite !andb_true_iff in Hh. destruct Hh as [[[Hh1 Hh2] Hh3] Hh4].
  assert (Hwr : (existsb (fun b => b) (i_read i) && negb (is_empty s)) = true) by (rewrite Hh1, Hh2; reflexivity).
  assert (Hne : sp s <> 0).
  { apply negb_true_iff in Hh2. unfold is_empty in Hh2. apply N.eqb_neq in Hh2. auto. }
  assert (Hnw : (negb (existsb (fun b => b) (i_read i) && negb (is_empty s)) && existsb (fun b => b) (i_write i) &&
                 negb (is_full c s) && nthb (i_write i) (N.to_nat (sendSM s)) && negb (nthb (sack s) (N.to_nat (sendSM s)))) = false).
  { rewrite Hwr. reflexivity. }
  rewrite (step_unfold c s I i NR). rewrite Hhit, Hnw. destruct Hfit as [HD Hw].
  pose proof (inv_sp _ _ I) as Hsp. pose proof D_lt32 as HD32. pose proof D_pos as HD1.
  assert (ED : D c = N.of_nat (c_depth c)) by reflexivity.
  unfold abs. cbn [mem sp readsp rdata]. destruct (c_mt c) eqn:Emt.
  - (* LIFO *)
    rewrite msk_dec32 by (try assumption; unfold D in *; lia). rewrite msk32_dec by (unfold D in *; lia).
    assert (Hlt : sp s - 1 <? D c = true) by (apply N.ltb_lt; lia). rewrite Hlt.
    exists (nthn (mem s) (N.to_nat (sp s - 1))). repeat split; auto.
    + replace (N.to_nat (sp s)) with (S (N.to_nat (sp s - 1))) by lia.
      rewrite (firstn_S_nth _ 0) by (rewrite (inv_mem _ _ I); unfold D in *; lia).
      rewrite rev_app_distr. reflexivity.
    + unfold nthn at 1. rewrite nth_setn_eq by (rewrite (inv_rdata _ _ I); auto).
      apply msk_small. apply nthn_bound with (s := s); auto.
  - (* FIFO *)
    destruct (inv_fifo _ _ I Emt) as (Hr & Hwp & Hrel).
    assert (Hlt : readsp s <? D c = true) by (apply N.ltb_lt; auto). rewrite Hlt.
    exists (nthn (mem s) (N.to_nat (readsp s))). repeat split; auto.
    + (* head of the sequence is the word at the read pointer; the rest is the new sequence *)
      assert (Hsp' : (if readsp s =? D c - 1 then msk (wsp c) (writesp s)
                      else if writesp s <? readsp s + 1 then msk (wsp c) (D c + 2 ^ 32 - readsp s - 1 + writesp s)
                           else msk (wsp c) (writesp s + 2 ^ 32 - readsp s - 1)) = sp s - 1).
      { destruct (N.eqb_spec (readsp s) (D c - 1)) as [E|E].
        - rewrite msk_small by lia. lia.
        - destruct (N.ltb_spec (writesp s) (readsp s + 1)).
          + replace (D c + 2 ^ 32 - readsp s - 1 + writesp s) with ((sp s - 1) + 2 ^ 32) by lia.
            rewrite msk_add32 by auto. apply msk_small. lia.
          + replace (writesp s + 2 ^ 32 - readsp s - 1) with ((sp s - 1) + 2 ^ 32) by lia.
            rewrite msk_add32 by auto. apply msk_small. lia. }
      rewrite Hsp'.
      replace (N.to_nat (sp s)) with (S (N.to_nat (sp s - 1))) by lia.
      rewrite <- cons_seq, <- seq_shift. cbn [map]. f_equal.
      * unfold cidx. rewrite N.add_0_r. rewrite Hlt. reflexivity.
      * rewrite map_map. apply map_ext_in. intros j Hj. apply in_seq in Hj. f_equal. f_equal.
        unfold cidx. rewrite Nat2N.inj_succ.
        destruct (N.eqb_spec (readsp s) (D c - 1)) as [E|E].
        -- rewrite E. replace (D c - 1 + N.succ (N.of_nat j) <? D c) with false by (symmetry; apply N.ltb_ge; lia).
           destruct (N.ltb_spec (0 + N.of_nat j) (D c)); lia.
        -- rewrite msk_small by lia.
           destruct (N.ltb_spec (readsp s + N.succ (N.of_nat j)) (D c)), (N.ltb_spec (readsp s + 1 + N.of_nat j) (D c)); lia.
    + unfold nthn at 1. rewrite nth_setn_eq by (rewrite (inv_rdata _ _ I); auto).
      apply msk_small. apply nthn_bound with (s := s); auto.
Qed.

(* ---- writing ---- *)
Definition push (c : cfg) (v : N) (l : list N) : list N :=
  match c_mt c with LIFO => v :: l | FIFO => l ++ [v] end.

Theorem step_write k :
  write_fires c s i k = true ->
  abs c (step c s i) = push c (msk (c_dsize c) (nthn (i_wdata i) k)) (abs c s) /\ (k < c_snd c)%nat.
Proof.
  intro HF. apply (write_fires_iff c s i) in HF. destruct HF as [-> Hhit].
  pose proof (sk_lt c s I) as Hsk. apply Nat.ltb_lt in Hsk. split; auto.
  pose proof Hhit as Hh. rewrite !andb_true_iff in Hh. destruct Hh as [[[[Hh0 Hh1] Hh2] Hh3] Hh4].
  apply negb_true_iff in Hh0.
  assert (Hnr : (existsb (fun b => b) (i_read i) && negb (is_empty s) && nthb (i_read i) (N.to_nat (recvSM s)) &&
                 negb (nthb (rack s) (N.to_nat (recvSM s)))) = false) by (rewrite Hh0; reflexivity).
  assert (Hnf : sp s <> D c).
  { apply negb_true_iff in Hh2. unfold is_full in Hh2. apply N.eqb_neq in Hh2. auto. }
  rewrite (step_unfold c s I i NR). rewrite Hhit, Hnr. destruct Hfit as [HD Hw].
  pose proof (inv_sp _ _ I) as Hsp. pose proof D_lt32 as HD32. pose proof D_pos as HD1.
  assert (ED : D c = N.of_nat (c_depth c)) by reflexivity.
  unfold abs, push. cbn [mem sp readsp]. destruct (c_mt c) eqn:Emt.
  - (* LIFO *)
    assert (Hlt : sp s <? D c = true) by (apply N.ltb_lt; lia). rewrite Hlt.
    rewrite msk_small by lia.
    replace (N.to_nat (sp s + 1)) with (S (N.to_nat (sp s))) by lia.
    rewrite firstn_S_setn by (rewrite (inv_mem _ _ I); lia).
    rewrite rev_app_distr. reflexivity.
  - (* FIFO *)
    destruct (inv_fifo _ _ I Emt) as (Hr & Hwp & Hrel).
    assert (Hlt : writesp s <? D c = true) by (apply N.ltb_lt; auto). rewrite Hlt.
    assert (Hsp' : (if writesp s =? D c - 1 then msk (wsp c) (D c + 2 ^ 32 - readsp s)
                    else if readsp s <? writesp s + 1 then msk (wsp c) (writesp s + 2 ^ 32 - readsp s + 1)
                         else msk (wsp c) (D c + 2 ^ 32 - readsp s + writesp s + 1)) = sp s + 1).
    { destruct (N.eqb_spec (writesp s) (D c - 1)) as [E|E].
      - replace (D c + 2 ^ 32 - readsp s) with ((sp s + 1) + 2 ^ 32) by lia.
        rewrite msk_add32 by auto. apply msk_small. lia.
      - destruct (N.ltb_spec (readsp s) (writesp s + 1)).
        + replace (writesp s + 2 ^ 32 - readsp s + 1) with ((sp s + 1) + 2 ^ 32) by lia.
          rewrite msk_add32 by auto. apply msk_small. lia.
        + replace (D c + 2 ^ 32 - readsp s + writesp s + 1) with ((sp s + 1) + 2 ^ 32) by lia.
          rewrite msk_add32 by auto. apply msk_small. lia. }
    rewrite Hsp'. replace (N.to_nat (sp s + 1)) with (S (N.to_nat (sp s))) by lia.
    rewrite seq_S, map_app. cbn [map plus]. f_equal.
    + apply map_ext_in. intros j Hj. apply in_seq in Hj. unfold nthn. apply nth_setn_neq.
      unfold cidx. destruct (N.ltb_spec (readsp s + N.of_nat j) (D c)); lia.
    + f_equal. unfold nthn. 
      assert (Ecx : cidx c (readsp s) (N.of_nat (N.to_nat (sp s))) = writesp s).
      { unfold cidx. rewrite N2Nat.id. destruct (N.ltb_spec (readsp s + sp s) (D c)); lia. }
      rewrite Ecx. apply nth_setn_eq. rewrite (inv_mem _ _ I). lia.
Qed.

(* ---- nothing moves ---- *)
Theorem step_idle :
  (forall k, read_fires c s i k = false) -> (forall k, write_fires c s i k = false) ->
  abs c (step c s i) = abs c s.
Proof.
  intros HR HW.
  assert (Hnr : (existsb (fun b => b) (i_read i) && negb (is_empty s) && nthb (i_read i) (N.to_nat (recvSM s)) &&
                 negb (nthb (rack s) (N.to_nat (recvSM s)))) = false).
  { destruct (_ && _ && _ && _) eqn:E; auto. assert (read_fires c s i (N.to_nat (recvSM s)) = true) by (apply read_fires_iff; auto).
    rewrite HR in H. discriminate. }
  assert (Hnw : (negb (existsb (fun b => b) (i_read i) && negb (is_empty s)) && existsb (fun b => b) (i_write i) &&
                 negb (is_full c s) && nthb (i_write i) (N.to_nat (sendSM s)) && negb (nthb (sack s) (N.to_nat (sendSM s)))) = false).
  { destruct (_ && _ && _ && _ && _) eqn:E; auto. assert (write_fires c s i (N.to_nat (sendSM s)) = true) by (apply write_fires_iff; auto).
    rewrite HW in H. discriminate. }
  rewrite (step_unfold c s I i NR). rewrite Hnr, Hnw. unfold abs. cbn [mem sp readsp]. destruct (c_mt c); reflexivity.
Qed.

End Cases.

(* ------------------------------------------------------------------ invariant preservation *)

Section InvStep.
Variable c : cfg.
Hypothesis WC : wf_cfg c.
Variable s : st.
Hypothesis I : Inv c s.
Variable i : inp.
Hypothesis WI : wf_inp c i.
Hypothesis NR : i_reset i = false.

Let rd_hit := existsb (fun b => b) (i_read i) && negb (is_empty s) && nthb (i_read i) (N.to_nat (recvSM s)) &&
              negb (nthb (rack s) (N.to_nat (recvSM s))).
Let wr_hit := negb (existsb (fun b => b) (i_read i) && negb (is_empty s)) && existsb (fun b => b) (i_write i) &&
              negb (is_full c s) && nthb (i_write i) (N.to_nat (sendSM s)) && negb (nthb (sack s) (N.to_nat (sendSM s))).

Lemma pointers_step :
  let s' := step c s i in
  sp s' = (if rd_hit then sp s - 1 else if wr_hit then sp s + 1 else sp s) /\
  (rd_hit = true -> sp s <> 0) /\ (wr_hit = true -> sp s <> D c /\ rd_hit = false) /\
  (c_mt c = FIFO ->
   readsp s' = (if rd_hit then (if readsp s =? D c - 1 then 0 else readsp s + 1) else readsp s) /\
   writesp s' = (if wr_hit then (if writesp s =? D c - 1 then 0 else writesp s + 1) else writesp s)).
Proof.
  cbv zeta. rewrite (step_unfold c s I i NR). fold rd_hit wr_hit. cbn [sp readsp writesp].
  destruct (depth_fits c WC) as [HD Hw].
  pose proof (inv_sp _ _ I) as Hsp. pose proof (D_lt32 c WC) as HD32. pose proof (D_pos c WC) as HD1.
  assert (ED : D c = N.of_nat (c_depth c)) by reflexivity.
  assert (Hr0 : rd_hit = true -> sp s <> 0).
  { unfold rd_hit. rewrite !andb_true_iff. intros [[[_ He] _] _]. apply negb_true_iff in He.
    unfold is_empty in He. apply N.eqb_neq in He. auto. }
  assert (Hw0 : wr_hit = true -> sp s <> D c /\ rd_hit = false).
  { unfold wr_hit, rd_hit. rewrite !andb_true_iff. intros [[[[Hn _] Hf] _] _]. apply negb_true_iff in Hn, Hf.
    unfold is_full in Hf. apply N.eqb_neq in Hf. rewrite Hn. split; auto. }
  split; [|split; [exact Hr0|split; [exact Hw0|intro H; split]]].
  - destruct rd_hit eqn:Er.
    + specialize (Hr0 eq_refl). destruct (c_mt c) eqn:Emt.
      * apply msk_dec32; auto; lia.
      * destruct (inv_fifo _ _ I Emt) as (Hr & Hwp & Hrel).
        destruct (N.eqb_spec (readsp s) (D c - 1)) as [E|E].
        -- rewrite msk_small by lia. lia.
        -- destruct (N.ltb_spec (writesp s) (readsp s + 1)).
           ++ replace (D c + 2 ^ 32 - readsp s - 1 + writesp s) with ((sp s - 1) + 2 ^ 32) by lia.
              rewrite msk_add32 by auto. apply msk_small. lia.
           ++ replace (writesp s + 2 ^ 32 - readsp s - 1) with ((sp s - 1) + 2 ^ 32) by lia.
              rewrite msk_add32 by auto. apply msk_small. lia.
    + destruct wr_hit eqn:Ew; auto. destruct (Hw0 eq_refl) as [Hnf _]. destruct (c_mt c) eqn:Emt.
      * apply msk_small. lia.
      * destruct (inv_fifo _ _ I Emt) as (Hr & Hwp & Hrel).
        destruct (N.eqb_spec (writesp s) (D c - 1)) as [E|E].
        -- replace (D c + 2 ^ 32 - readsp s) with ((sp s + 1) + 2 ^ 32) by lia.
           rewrite msk_add32 by auto. apply msk_small. lia.
        -- destruct (N.ltb_spec (readsp s) (writesp s + 1)).
           ++ replace (writesp s + 2 ^ 32 - readsp s + 1) with ((sp s + 1) + 2 ^ 32) by lia.
              rewrite msk_add32 by auto. apply msk_small. lia.
           ++ replace (D c + 2 ^ 32 - readsp s + writesp s + 1) with ((sp s + 1) + 2 ^ 32) by lia.
              rewrite msk_add32 by auto. apply msk_small. lia.
  - rewrite H. destruct rd_hit; auto. destruct (N.eqb_spec (readsp s) (D c - 1)); auto.
    destruct (inv_fifo _ _ I H) as (Hr & _). apply msk_small. lia.
  - rewrite H. destruct wr_hit; auto. destruct (N.eqb_spec (writesp s) (D c - 1)); auto.
    destruct (inv_fifo _ _ I H) as (_ & Hwp & _). apply msk_small. lia.
Qed.

Theorem step_inv : Inv c (step c s i).
Proof.
  pose proof pointers_step as P. cbv zeta in P. destruct P as (Psp & Pr0 & Pw0 & Pf).
  pose proof (inv_sp _ _ I) as Hsp. pose proof (D_pos c WC) as HD1.
  assert (ED : D c = N.of_nat (c_depth c)) by reflexivity.
  constructor.
  - rewrite (step_unfold c s I i NR). cbn [mem]. fold wr_hit.
    destruct wr_hit; [|apply I]. destruct (_ <? _); [rewrite setn_length|]; apply I.
  - rewrite (step_unfold c s I i NR). cbn [mem]. fold wr_hit.
    destruct wr_hit; [|apply I]. destruct (_ <? _); [|apply I].
    apply Forall_setn; [apply I|]. unfold msk. apply N.mod_upper_bound. apply N.pow_nonzero. lia.
  - rewrite Psp. destruct rd_hit; [lia|]. destruct wr_hit eqn:Ew; [|lia]. destruct (Pw0 eq_refl). lia.
  - rewrite (step_unfold c s I i NR). cbn [sack]. rewrite map_length, seq_length. reflexivity.
  - rewrite (step_unfold c s I i NR). cbn [rack]. rewrite map_length, seq_length. reflexivity.
  - rewrite (step_unfold c s I i NR). cbn [rdata].
    match goal with |- length (if ?b then _ else _) = _ => destruct b end; [rewrite setn_length|]; apply I.
  - rewrite (step_unfold c s I i NR). cbn [sendSM].
    match goal with |- (if ?b then _ else _) < _ => destruct b end; [|apply I].
    pose proof (next_lt (N.to_nat (sendSM s)) (c_snd c) (wf_snd _ WC)). lia.
  - rewrite (step_unfold c s I i NR). cbn [recvSM].
    match goal with |- (if ?b then _ else _) < _ => destruct b end; [|apply I].
    pose proof (next_lt (N.to_nat (recvSM s)) (c_rcv c) (wf_rcv _ WC)). lia.
  - intro Emt. destruct (Pf Emt) as [Pr Pw]. destruct (inv_fifo _ _ I Emt) as (Hr & Hwp & Hrel).
    rewrite Psp, Pr, Pw. destruct rd_hit eqn:Er.
    + specialize (Pr0 eq_refl). assert (wr_hit = false).
      { destruct wr_hit eqn:Ew; auto. destruct (Pw0 eq_refl) as [_ Hx]. discriminate. }
      rewrite H. destruct (N.eqb_spec (readsp s) (D c - 1)); repeat split; lia.
    + destruct wr_hit eqn:Ew.
      * destruct (Pw0 eq_refl) as [Hnf _]. destruct (N.eqb_spec (writesp s) (D c - 1)); repeat split; lia.
      * repeat split; auto.
Qed.

(* an acknowledge line rises exactly when the corresponding transfer happens *)
Theorem rack_rises k : (k < c_rcv c)%nat ->
  (nthb (rack s) k = false /\ nthb (rack (step c s i)) k = true) <-> read_fires c s i k = true.
Proof.
  intro Hk. rewrite (step_unfold c s I i NR). cbn [rack]. unfold nthb at 2. rewrite nth_map_seq by auto.
  unfold read_fires. rewrite !andb_true_iff, N.eqb_eq.
  destruct (nthb (i_read i) k) eqn:Er, (nthb (rack s) k) eqn:Ea; simpl.
  - split; [intros [H _]; discriminate|]. intros [[[[_ _] _] _] H]. discriminate.
  - destruct (N.eqb_spec (recvSM s) (N.of_nat k)) as [E|E]; simpl.
    + destruct (is_empty s) eqn:Ee; simpl.
      * split; [intros [_ H]; discriminate|]. intros [[[[_ H] _] _] _]. discriminate.
      * split; auto. intros _. repeat split; auto.
        assert (In true (i_read i)).
        { unfold nthb in Er. destruct (Nat.lt_ge_cases k (length (i_read i))).
          - rewrite <- Er. apply nth_In; auto.
          - rewrite nth_overflow in Er by auto. discriminate. }
        apply existsb_exists. exists true; auto.
    + split; [intros [_ H]; discriminate|]. intros [[[[_ _] H] _] _]. congruence.
  - split; [intros [H _]; discriminate|]. intros [[[_ _] H] _]. discriminate.
  - split; [intros [_ H]; discriminate|]. intros [[[_ _] H] _]. discriminate.
Qed.

Lemma nthb_existsb l k : nthb l k = true -> existsb (fun b => b) l = true.
Proof.
  intro H. apply existsb_exists. exists true; split; auto. unfold nthb in H.
  destruct (Nat.lt_ge_cases k (length l)).
  - rewrite <- H. apply nth_In; auto.
  - rewrite nth_overflow in H by auto. discriminate.
Qed.

Theorem sack_rises k : (k < c_snd c)%nat ->
  (nthb (sack s) k = false /\ nthb (sack (step c s i)) k = true) <-> write_fires c s i k = true.
Proof.
  intro Hk. rewrite (step_unfold c s I i NR). cbn [sack]. unfold nthb at 2. rewrite nth_map_seq by auto.
  unfold write_fires. rewrite !andb_true_iff, N.eqb_eq.
  destruct (nthb (i_write i) k) eqn:Er.
  2: { simpl. rewrite !andb_false_r. simpl. split; [intros [_ H]; discriminate|]. intros [[_ H] _]. discriminate. }
  pose proof (nthb_existsb _ _ Er) as Hex. rewrite Hex.
  destruct (nthb (sack s) k) eqn:Ea; simpl.
  { rewrite !andb_false_r. simpl. split; [intros [H _]; discriminate|]. intros [_ H]. discriminate. }
  destruct (existsb (fun b => b) (i_read i) && negb (is_empty s)) eqn:Erd; simpl.
  { split; [intros [_ H]; discriminate|]. intros [[[[[H _] _] _] _] _]. discriminate. }
  destruct (N.eqb_spec (sendSM s) (N.of_nat k)) as [E|E]; simpl.
  - destruct (is_full c s) eqn:Ef; simpl.
    + split; [intros [_ H]; discriminate|]. intros [[[[[_ _] H] _] _] _]. discriminate.
    + split; auto. intros _. repeat split; auto.
  - split; [intros [_ H]; discriminate|]. intros [[[_ H] _] _]. congruence.
Qed.

End InvStep.

Theorem step_inv_any c s i : wf_cfg c -> Inv c s -> wf_inp c i -> Inv c (step c s i).
Proof.
  intros WC I WI. destruct (i_reset i) eqn:E.
  - unfold step. rewrite E. apply inv_reset; auto.
  - apply step_inv; auto.
Qed.

(* ------------------------------------------------------------------ bounded waiting *)

(* the state reached after the first j inputs *)
Fixpoint after (c : cfg) (s : st) (ins : list inp) (j : nat) {struct j} : st :=
  match j, ins with
  | O, _ => s
  | S j', i :: rest => after c (step c s i) rest j'
  | S _, [] => s
  end.

Definition inp0 : inp := mkInp false [] [] [].

(* sender k keeps requesting, there is room, and no read is being served *)
Definition ready_w (c : cfg) (k : nat) (s : st) (i : inp) : Prop :=
  wf_inp c i /\ i_reset i = false /\
  (existsb (fun b => b) (i_read i) && negb (is_empty s)) = false /\ is_full c s = false /\
  nthb (i_write i) k = true /\ nthb (sack s) k = false.

Definition ready_r (c : cfg) (k : nat) (s : st) (i : inp) : Prop :=
  wf_inp c i /\ i_reset i = false /\ is_empty s = false /\
  nthb (i_read i) k = true /\ nthb (rack s) k = false.

Definition dist (n k x : nat) : nat := if Nat.leb x k then k - x else k + n - x.

Lemma dist_next n k x : (k < n)%nat -> (x < n)%nat -> x <> k -> dist n k (next x n) = (dist n k x - 1)%nat /\ (1 <= dist n k x)%nat.
Proof.
  intros Hk Hx Hne. unfold dist, next.
  destruct (Nat.ltb_spec x (n - 1)); destruct (Nat.leb_spec x k); destruct (Nat.leb_spec (S x) k);
    destruct (Nat.leb_spec 0 k); lia.
Qed.

Theorem write_ack_bounded c k : wf_cfg c -> (k < c_snd c)%nat ->
  forall n s ins, Inv c s -> (dist (c_snd c) k (N.to_nat (sendSM s)) <= n)%nat -> length ins = S n ->
    (forall j, (j <= n)%nat -> ready_w c k (after c s ins j) (nth j ins inp0)) ->
    exists j, (j <= n)%nat /\ write_fires c (after c s ins j) (nth j ins inp0) k = true.
Proof.
  intros WC Hk. induction n as [|n IH]; intros s ins I Hd Hlen Hready.
  - (* distance 0: the round-robin pointer is at k *)
    exists 0%nat. split; auto. destruct (Hready 0%nat (le_n _)) as (WI & NR & Hrd & Hf & Hw & Ha). simpl in *.
    assert (E : N.to_nat (sendSM s) = k).
    { unfold dist in Hd. pose proof (inv_send _ _ I). destruct (Nat.leb_spec (N.to_nat (sendSM s)) k); lia. }
    unfold write_fires. rewrite Hrd, Hf, Hw, Ha, (nthb_existsb _ _ Hw). simpl.
    rewrite !andb_true_r. apply N.eqb_eq. simpl. lia.
  - destruct ins as [|i rest]; [discriminate|].
    destruct (Hready 0%nat (Nat.le_0_l _)) as (WI & NR & Hrd & Hf & Hw & Ha). simpl in WI, NR, Hrd, Hf, Hw, Ha.
    destruct (Nat.eq_dec (N.to_nat (sendSM s)) k) as [E|E].
    + exists 0%nat. split; [lia|]. simpl. unfold write_fires. rewrite Hrd, Hf, Hw, Ha, (nthb_existsb _ _ Hw). simpl.
      rewrite !andb_true_r. apply N.eqb_eq. simpl. lia.
    + (* the pointer advances *)
      assert (I' : Inv c (step c s i)) by (apply step_inv; auto).
      assert (Hsm : N.to_nat (sendSM (step c s i)) = next (N.to_nat (sendSM s)) (c_snd c)).
      { rewrite (step_unfold c s I i NR). cbn [sendSM]. rewrite Hrd, Hf, (nthb_existsb _ _ Hw). simpl. lia. }
      pose proof (inv_send _ _ I) as Hs.
      destruct (dist_next (c_snd c) k (N.to_nat (sendSM s)) Hk ltac:(lia) E) as [Hdn Hd1].
      destruct (IH (step c s i) rest I') as (j & Hj & Hfire).
      * rewrite Hsm, Hdn. lia.
      * simpl in Hlen. lia.
      * intros j Hj. specialize (Hready (S j) ltac:(lia)). simpl in Hready. exact Hready.
      * exists (S j). split; [lia|]. simpl. exact Hfire.
Qed.

Theorem read_ack_bounded c k : wf_cfg c -> (k < c_rcv c)%nat ->
  forall n s ins, Inv c s -> (dist (c_rcv c) k (N.to_nat (recvSM s)) <= n)%nat -> length ins = S n ->
    (forall j, (j <= n)%nat -> ready_r c k (after c s ins j) (nth j ins inp0)) ->
    exists j, (j <= n)%nat /\ read_fires c (after c s ins j) (nth j ins inp0) k = true.
Proof.
  intros WC Hk. induction n as [|n IH]; intros s ins I Hd Hlen Hready.
  - exists 0%nat. split; auto. destruct (Hready 0%nat (le_n _)) as (WI & NR & He & Hr & Ha). simpl in *.
    assert (E : N.to_nat (recvSM s) = k).
    { unfold dist in Hd. pose proof (inv_recv _ _ I). destruct (Nat.leb_spec (N.to_nat (recvSM s)) k); lia. }
    unfold read_fires. rewrite He, Hr, Ha, (nthb_existsb _ _ Hr). simpl.
    rewrite !andb_true_r. apply N.eqb_eq. simpl. lia.
  - destruct ins as [|i rest]; [discriminate|].
    destruct (Hready 0%nat (Nat.le_0_l _)) as (WI & NR & He & Hr & Ha). simpl in WI, NR, He, Hr, Ha.
    destruct (Nat.eq_dec (N.to_nat (recvSM s)) k) as [E|E].
    + exists 0%nat. split; [lia|]. simpl. unfold read_fires. rewrite He, Hr, Ha, (nthb_existsb _ _ Hr). simpl.
      rewrite !andb_true_r. apply N.eqb_eq. simpl. lia.
    + assert (I' : Inv c (step c s i)) by (apply step_inv; auto).
      assert (Hsm : N.to_nat (recvSM (step c s i)) = next (N.to_nat (recvSM s)) (c_rcv c)).
      { rewrite (step_unfold c s I i NR). cbn [recvSM]. rewrite He, (nthb_existsb _ _ Hr). simpl. lia. }
      pose proof (inv_recv _ _ I) as Hs.
      destruct (dist_next (c_rcv c) k (N.to_nat (recvSM s)) Hk ltac:(lia) E) as [Hdn Hd1].
      destruct (IH (step c s i) rest I') as (j & Hj & Hfire).
      * rewrite Hsm, Hdn. lia.
      * simpl in Hlen. lia.
      * intros j Hj. specialize (Hready (S j) ltac:(lia)). simpl in Hready. exact Hready.
      * exists (S j). split; [lia|]. simpl. exact Hfire.
Qed.

(* the distance is always below the number of agents, so "within #agents cycles" *)
Lemma dist_lt n k x : (k < n)%nat -> (x < n)%nat -> (dist n k x < n)%nat.
Proof. intros. unfold dist. destruct (Nat.leb_spec x k); lia. Qed.
