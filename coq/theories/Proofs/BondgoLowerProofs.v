(* Proofs/BondgoLowerProofs.v — every program the lowering of Front/BondgoFlow.v accepts yields structured
   assembly whose blocks and condition code are jump-free one-step instructions: the premise [wfl] of the
   jump theorem holds for every lowered program, not only for the ones evaluated in a run. *)
From Coq Require Import List NArith Bool Arith.
From BM Require Import Isa.Sim Front.Bondgo Front.BondgoCF Front.BondgoFlow.
Import ListNotations.

Definition clean_code (c : Bondgo.cstate) : Prop := forallb plain (code c) = true.

Lemma forallb_snoc {A} (f : A -> bool) l x : forallb f (l ++ [x]) = forallb f l && f x.
Proof. rewrite forallb_app. simpl. rewrite andb_true_r. reflexivity. Qed.

Lemma emit_clean c i : clean_code c -> plain i = true -> clean_code (emit c i).
Proof. unfold clean_code, emit. simpl. intros H Hi. rewrite forallb_snoc, H, Hi. reflexivity. Qed.
Lemma take_clean c : clean_code c -> clean_code (snd (take c)).
Proof. unfold clean_code, take. simpl. auto. Qed.
Lemma release_clean c r : clean_code c -> clean_code (release c r).
Proof. unfold clean_code, release. simpl. auto. Qed.

Lemma cexpr_clean : forall e c, clean_code c -> clean_code (snd (Bondgo.cexpr c e)).
Proof.
  induction e as [v|x|a IHa b IHb|a IHa b IHb]; intros c H; cbn [Bondgo.cexpr].
  - apply emit_clean; [apply take_clean; exact H|reflexivity].
  - apply emit_clean; [apply take_clean; exact H|reflexivity].
  - specialize (IHa c H). destruct (Bondgo.cexpr c a) as [ra c1]. specialize (IHb c1 IHa). destruct (Bondgo.cexpr c1 b) as [rb c2].
    cbn [snd] in *. apply release_clean. apply emit_clean; [exact IHb|reflexivity].
  - specialize (IHa c H). destruct (Bondgo.cexpr c a) as [ra c1]. specialize (IHb c1 IHa). destruct (Bondgo.cexpr c1 b) as [rb c2].
    cbn [snd] in *. apply release_clean. apply emit_clean; [exact IHb|reflexivity].
Qed.

Lemma cstmt_clean c s : clean_code c -> clean_code (Bondgo.cstmt c s).
Proof.
  intros H. destruct s as [|x e|o e]; cbn [Bondgo.cstmt].
  - unfold take. cbn. unfold clean_code, emit. cbn [code]. rewrite forallb_snoc. unfold clean_code in H. rewrite H. reflexivity.
  - pose proof (cexpr_clean e c H) as He. destruct (Bondgo.cexpr c e) as [r c1]. cbn [snd] in He.
    apply release_clean. apply emit_clean; [exact He|reflexivity].
  - pose proof (cexpr_clean e c H) as He. destruct (Bondgo.cexpr c e) as [r c1]. cbn [snd] in He.
    apply emit_clean; [exact He|reflexivity].
Qed.

Lemma cut_clean c b c' : clean_code c -> cut c = (b, c') -> forallb plain b = true /\ clean_code c'.
Proof. unfold cut. intros H E. injection E as <- <-. split; [exact H|reflexivity]. Qed.

Lemma wfl_app a b : wfl (a ++ b) = wfl a && wfl b.
Proof. unfold wfl. apply forallb_app. Qed.

Definition good (r : option (list sasm * Bondgo.cstate)) : Prop :=
  match r with Some (l, c') => wfl l = true /\ clean_code c' | None => True end.

(* the list traversal, for any element function that is good *)
Lemma lowers_good (f : Bondgo.cstate -> BondgoCF.cstmt -> option (list sasm * Bondgo.cstate)) :
  (forall c s, clean_code c -> good (f c s)) ->
  forall l c, clean_code c ->
  good ((fix lowers (c : Bondgo.cstate) (l : list BondgoCF.cstmt) : option (list sasm * Bondgo.cstate) :=
           match l with
           | [] => Some ([], c)
           | s :: r => match f c s with
                       | Some (a, c1) => match lowers c1 r with Some (b, c2) => Some (a ++ b, c2) | None => None end
                       | None => None
                       end
           end) c l).
Proof.
  intros Hf. induction l as [|s r IH]; intros c Hc.
  - split; [reflexivity|exact Hc].
  - pose proof (Hf c s Hc) as H1. destruct (f c s) as [[a c1]|]; [|exact I]. destruct H1 as [Wa C1].
    specialize (IH c1 C1). cbv beta in IH |- *.
    match goal with |- good (match ?X with _ => _ end) => destruct X as [[b c2]|] end; [|exact I].
    destruct IH as [Wb C2]. split; [rewrite wfl_app, Wa, Wb; reflexivity|exact C2].
Qed.

Lemma block_good c : clean_code c -> good (let '(b, c'') := cut c in Some ([ABlock b], c'')).
Proof.
  intros H. destruct (cut c) as [b c''] eqn:E. destruct (cut_clean c b c'' H E) as [Hb Hc].
  split; [|exact Hc]. unfold wfl. cbn [forallb wf1]. rewrite Hb. reflexivity.
Qed.

Theorem lower1_good : forall fuel c s, clean_code c -> good (lower1 fuel c s).
Proof.
  induction fuel as [|f IH]; intros c s Hc; [exact I|].
  pose proof (lowers_good (lower1 f) IH) as HL.
  destruct s as [o e|v e|v g args|v|v|b th el| | |init post body]; cbn [lower1].
  - apply block_good. apply cstmt_clean. exact Hc.
  - apply block_good. apply cstmt_clean. exact Hc.
  - exact I.
  - apply block_good. apply emit_clean; [exact Hc|reflexivity].
  - apply block_good. apply emit_clean; [exact Hc|reflexivity].
  - (* if *)
    unfold ccond. destruct (take c) as [r c1] eqn:Et.
    assert (C1 : clean_code c1) by (pose proof (take_clean c Hc) as T; rewrite Et in T; exact T).
    assert (C2 : clean_code (emit c1 (if b then IRset r 1 else IClr r))) by (apply emit_clean; [exact C1|destruct b; reflexivity]).
    destruct (cut (emit c1 (if b then IRset r 1 else IClr r))) as [blk c3] eqn:Ec.
    destruct (cut_clean _ _ _ C2 Ec) as [Hblk C3].
    pose proof (HL th (release c3 r) (release_clean c3 r C3)) as Hth.
    match goal with |- good (match ?X with _ => _ end) => destruct X as [[t c4]|] end; [|exact I].
    destruct Hth as [Wt C4].
    destruct el as [|e0 el'].
    + split; [|exact C4]. unfold wfl. cbn [forallb wf1]. unfold wfl in Wt. rewrite Hblk, Wt. reflexivity.
    + pose proof (HL (e0 :: el') c4 C4) as Hel.
      match goal with |- good (match ?X with _ => _ end) => destruct X as [[e c5]|] end; [|exact I].
      destruct Hel as [We C5]. split; [|exact C5]. unfold wfl. cbn [forallb wf1]. unfold wfl in Wt, We. rewrite Hblk, Wt, We. reflexivity.
  - split; [reflexivity|exact Hc].
  - split; [reflexivity|exact Hc].
  - (* for *)
    set (ic := match init with Some (v, k) => cut (Bondgo.cstmt c (Bondgo.SAssign v (ELit k))) | None => ([], c) end).
    assert (Hic : forallb plain (fst ic) = true /\ clean_code (snd ic)).
    { subst ic. destruct init as [[v k]|]; [|split; [reflexivity|exact Hc]].
      destruct (cut (Bondgo.cstmt c (Bondgo.SAssign v (ELit k)))) as [b0 c0] eqn:E0.
      exact (cut_clean _ _ _ (cstmt_clean c _ Hc) E0). }
    destruct ic as [ib c1]. cbn [fst snd] in Hic. destruct Hic as [Hib C1].
    pose proof (HL body c1 C1) as Hb.
    match goal with |- good (match ?X with _ => _ end) => destruct X as [[bd c2]|] end; [|exact I].
    destruct Hb as [Wb C2].
    set (pc := match post with
               | Some (v, true) => cut (emit c2 (IInc (vreg c2 v)))
               | Some (v, false) => cut (emit c2 (IDec (vreg c2 v)))
               | None => ([], c2) end).
    assert (Hpc : forallb plain (fst pc) = true /\ clean_code (snd pc)).
    { subst pc. destruct post as [[v [|]]|]; [| |split; [reflexivity|exact C2]].
      - destruct (cut (emit c2 (IInc (vreg c2 v)))) as [b0 c0] eqn:E0.
        cbn [fst snd]. exact (cut_clean _ _ _ (emit_clean c2 (IInc (vreg c2 v)) C2 eq_refl) E0).
      - destruct (cut (emit c2 (IDec (vreg c2 v)))) as [b0 c0] eqn:E0.
        cbn [fst snd]. exact (cut_clean _ _ _ (emit_clean c2 (IDec (vreg c2 v)) C2 eq_refl) E0). }
    destruct pc as [pb c3]. cbn [fst snd] in Hpc. destruct Hpc as [Hpb C3].
    split; [|exact C3]. unfold wfl. cbn [forallb wf1]. unfold wfl in Wb. rewrite Hib, Wb, Hpb. reflexivity.
Qed.

Lemma lowers_top_good fuel : forall l c, clean_code c -> good (lowers fuel c l).
Proof.
  induction l as [|s r IH]; intros c Hc; cbn [lowers].
  - split; [reflexivity|exact Hc].
  - pose proof (lower1_good fuel c s Hc) as H1. destruct (lower1 fuel c s) as [[a c1]|]; [|exact I]. destruct H1 as [Wa C1].
    specialize (IH c1 C1). destruct (lowers fuel c1 r) as [[b c2]|]; [|exact I]. destruct IH as [Wb C2].
    split; [rewrite wfl_app, Wa, Wb; reflexivity|exact C2].
Qed.

Lemma decls_clean : forall n c, clean_code c -> clean_code (fold_left (fun c _ => Bondgo.cstmt c SDecl) (seq 0 n) c).
Proof.
  intros n. generalize 0. induction n as [|n IH]; intros k c Hc; [exact Hc|]. cbn [seq fold_left]. apply IH. apply cstmt_clean. exact Hc.
Qed.

Theorem lowered_programs_meet_the_premise : forall nvars l c, lower_main nvars l = Some c -> wfl c = true.
Proof.
  intros nvars l c. unfold lower_main.
  destruct (cut (fold_left (fun c _ => Bondgo.cstmt c SDecl) (seq 0 nvars) (Bondgo.mkCS [] [] []))) as [decls c1] eqn:Ec.
  assert (C0 : clean_code (Bondgo.mkCS [] [] [])) by reflexivity.
  destruct (cut_clean _ _ _ (decls_clean nvars _ C0) Ec) as [Hd C1].
  pose proof (lowers_top_good 100 l c1 C1) as H. destruct (lowers 100 c1 l) as [[body c2]|]; [|discriminate].
  intros E. injection E as <-. destruct H as [Wb _]. unfold wfl in *. cbn [forallb wf1]. rewrite Hd, Wb. reflexivity.
Qed.
