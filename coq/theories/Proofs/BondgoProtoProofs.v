(* Proofs/BondgoProtoProofs.v — C12 (protocol part): with the repaired shutdown order every
   maximal execution of the compiler's worker protocol terminates with all three processes done,
   and the recorded requirements do not depend on the interleaving. *)
From Coq Require Import List Arith Bool Lia.
From BM Require Import Front.BondgoProto.
Import ListNotations.

Definition pending (a : astate) : nat := match a with AAns (Some u) => u | AUsed u => u | _ => 0 end.

Inductive Shape (s : pstate) : Prop :=
| ShWalkAwait : forall n, v_shut s = order_fixed -> m_st s = MWait -> v_await s = true -> a_st s = AAns n -> Shape s
| ShWalkFree  : v_shut s = order_fixed -> m_st s = MWait -> v_await s = false -> (a_st s = AWait \/ exists u, a_st s = AUsed u) -> Shape s
| ShS1 : v_todo s = [] -> v_await s = false -> v_shut s = [SWaitAssigner; SUsedExit; SWaitUsage] -> a_st s = ADone -> m_st s = MWait -> Shape s
| ShS2 : v_todo s = [] -> v_await s = false -> v_shut s = [SUsedExit; SWaitUsage] -> a_st s = AEnd -> m_st s = MWait -> Shape s
| ShS3 : v_todo s = [] -> v_await s = false -> v_shut s = [SWaitUsage] -> a_st s = AEnd -> m_st s = MDone -> Shape s
| ShS4 : v_todo s = [] -> v_await s = false -> v_shut s = [] -> a_st s = AEnd -> m_st s = MEnd -> Shape s.

Definition PInv (tot : nat) (s : pstate) : Prop :=
  Shape s /\ Nat.max (reqs s) (Nat.max (pending (a_st s)) (total (v_todo s))) = tot.

Lemma pinv_init prog : PInv (total prog) (init prog order_fixed).
Proof. split; [apply ShWalkFree; simpl; auto|simpl; lia]. Qed.

Lemma total_cons a l : total (a :: l) = Nat.max (note_of a) (total l).
Proof. reflexivity. Qed.

Theorem pinv_step tot s t : PInv tot s -> In t (succs s) -> PInv tot t.
Proof.
  intros [Sh Acc] Hin. unfold succs in Hin. destruct s as [todo aw sh a m r]. simpl in *.
  repeat (apply in_app_or in Hin; destruct Hin as [Hin|Hin]).
  - (* request *)
    destruct todo as [|[n|u] rest]; try contradiction. destruct aw; try contradiction. destruct a; try contradiction.
    destruct Hin as [<-|[]]. inversion Sh; simpl in *; try discriminate; try congruence.
    split; [eapply ShWalkAwait; simpl; eauto|]. simpl in *. destruct n; simpl in *; lia.
  - (* answer *)
    destruct aw; try contradiction. destruct a as [|n|u| |]; try contradiction.
    destruct Hin as [<-|[]]. inversion Sh; simpl in *; try discriminate; try congruence.
    split.
    + apply ShWalkFree; simpl; auto. destruct n; [right; eauto|left; auto].
    + simpl. destruct n; simpl in *; lia.
  - (* allocator notifies the monitor *)
    destruct a as [| |u| |]; try contradiction. destruct m; try contradiction.
    destruct Hin as [<-|[]]. inversion Sh; simpl in *; try discriminate; try congruence.
    + destruct H2 as [H2|[u' H2]]; try discriminate.
      split; [apply ShWalkFree; simpl; auto|simpl in *; lia].
  - (* visitor notifies the monitor *)
    destruct todo as [|[n|u] rest]; try contradiction. destruct aw; try contradiction. destruct m; try contradiction.
    destruct Hin as [<-|[]]. inversion Sh; simpl in *; try discriminate; try congruence.
    split; [apply ShWalkFree; simpl; auto|]. simpl in *. lia.
  - (* shutdown *)
    destruct todo; try contradiction. destruct aw; try contradiction.
    destruct sh as [|st sh]; try contradiction.
    destruct st.
    + destruct a; try contradiction. destruct Hin as [<-|[]].
      inversion Sh; simpl in *; try discriminate; try congruence.
      inversion H; subst. split; [apply ShS1; simpl; auto|simpl in *; lia].
    + destruct a; try contradiction. destruct Hin as [<-|[]].
      inversion Sh; simpl in *; try discriminate; try congruence.
      inversion H1; subst. split; [apply ShS2; simpl; auto|simpl in *; lia].
    + destruct m; try contradiction. destruct Hin as [<-|[]].
      inversion Sh; simpl in *; try discriminate; try congruence.
      inversion H1; subst. split; [apply ShS3; simpl; auto|simpl in *; lia].
    + destruct m; try contradiction. destruct Hin as [<-|[]].
      inversion Sh; simpl in *; try discriminate; try congruence.
      inversion H1; subst. split; [apply ShS4; simpl; auto|simpl in *; lia].
Qed.

Theorem pinv_reach prog s : reach (init prog order_fixed) s -> PInv (total prog) s.
Proof. induction 1; [apply pinv_init|eapply pinv_step; eauto]. Qed.

(* no deadlock: a reachable state that is not final always has an enabled rendezvous *)
Theorem progress_fixed prog s : reach (init prog order_fixed) s -> final s = false -> succs s <> [].
Proof.
  intros R Hf. destruct (pinv_reach prog s R) as [Sh _]. destruct s as [todo aw sh a m r]. unfold succs. simpl in *.
  inversion Sh; simpl in *; subst; try discriminate;
    try match goal with H : _ \/ _ |- _ => destruct H as [->|[? ->]] end;
    try (destruct todo as [|[?|?] ?]; simpl; discriminate).
Qed.

(* termination: every rendezvous decreases the measure *)
Theorem measure_decreases tot s t : PInv tot s -> In t (succs s) -> measure t < measure s.
Proof.
  intros [Sh _] Hin. unfold succs in Hin. destruct s as [todo aw sh a m r]. unfold measure. simpl in *.
  repeat (apply in_app_or in Hin; destruct Hin as [Hin|Hin]).
  - destruct todo as [|[n|u] rest]; try contradiction. destruct aw; try contradiction. destruct a; try contradiction.
    destruct Hin as [<-|[]]. simpl. destruct n; simpl; lia.
  - destruct aw; try contradiction. destruct a as [|n|u| |]; try contradiction.
    destruct Hin as [<-|[]]. simpl. destruct n; simpl; lia.
  - destruct a as [| |u| |]; try contradiction. destruct m; try contradiction.
    destruct Hin as [<-|[]]. simpl. lia.
  - destruct todo as [|[n|u] rest]; try contradiction. destruct aw; try contradiction. destruct m; try contradiction.
    destruct Hin as [<-|[]]. simpl. lia.
  - destruct todo; try contradiction. destruct aw; try contradiction.
    destruct sh as [|st sh]; try contradiction.
    destruct st; [destruct a|destruct a|destruct m|destruct m]; try contradiction; destruct Hin as [<-|[]]; simpl; lia.
Qed.

(* the requirements of a finished compilation are the join of everything that was notified,
   whatever the interleaving *)
Theorem final_requirements prog s : reach (init prog order_fixed) s -> final s = true -> reqs s = total prog.
Proof.
  intros R Hf. destruct (pinv_reach prog s R) as [_ Acc]. destruct s as [todo aw sh a m r]. simpl in *.
  destruct todo; try discriminate. destruct aw; try discriminate. destruct sh; try discriminate.
  destruct a; try discriminate. simpl in Acc. lia.
Qed.
