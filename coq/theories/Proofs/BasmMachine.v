(* Proofs/BasmMachine.v — the lock step between a source section and its assembled program, lifted to a
   whole machine: processors wired by bonds, ticking together, under any environment. *)
From Coq Require Import List NArith Bool Arith Lia String.
From BM Require Import Net.Topo Isa.Sim Net.Tick Net.TickCheck Front.Basm Front.BasmCheck Proofs.BondgoProofs Proofs.BasmProofs.
Import ListNotations.

(* processors related one by one *)
Inductive PRel : list source -> list pstate -> list pstate -> Prop :=
| PRel_nil : PRel [] [] []
| PRel_cons : forall src srcs s m ss ms, Rel src s m -> PRel srcs ss ms -> PRel (src :: srcs) (s :: ss) (m :: ms).

Definition VRel (srcs : list source) (a b : vm) : Prop :=
  PRel srcs (v_procs a) (v_procs b) /\
  v_in a = v_in b /\ v_in_valid a = v_in_valid b /\ v_in_recv a = v_in_recv b /\
  v_out a = v_out b /\ v_out_valid a = v_out_valid b /\ v_out_recv a = v_out_recv b /\
  v_iin a = v_iin b /\ v_iin_valid a = v_iin_valid b /\ v_iin_recv a = v_iin_recv b /\
  v_iout a = v_iout b /\ v_iout_valid a = v_iout_valid b /\ v_iout_recv a = v_iout_recv b.

Lemma PRel_nth_error srcs ss ms : PRel srcs ss ms -> forall q,
  match nth_error ss q, nth_error ms q with
  | Some s, Some m => exists src, nth_error srcs q = Some src /\ Rel src s m
  | None, None => True
  | _, _ => False
  end.
Proof.
  induction 1 as [|src srcs s m ss ms HR HP IH]; intros q; destruct q; simpl; auto.
  - exists src. auto.
  - apply IH.
Qed.

Lemma PRel_upd srcs ss ms : PRel srcs ss ms -> forall q src s' m', nth_error srcs q = Some src -> Rel src s' m' ->
  PRel srcs (upd q s' ss) (upd q m' ms).
Proof.
  induction 1 as [|src0 srcs s m ss ms HR HP IH]; intros q src s' m' Hq HR'; destruct q; simpl in *; try discriminate.
  - inversion Hq; subst. constructor; auto.
  - constructor; auto. eapply IH; eauto.
Qed.

(* projections that the data movement reads *)
Lemma PRel_nth_same srcs ss ms d q : PRel srcs ss ms -> same_but_pc (nth q ss d) (nth q ms d).
Proof.
  intros H. revert q. induction H as [|src srcs s m ss ms [HR _] HP IH]; intros q; destruct q; simpl; auto; apply same_but_pc_refl.
Qed.

Lemma Rel_set_input src s m k v b : Rel src s m ->
  Rel src (mkP (pc s) (regs s) (upd k v (inputs s)) (upd k b (in_valid s)) (in_recv s) (outputs s) (out_valid s) (out_recv s) (deferred s) (phases s))
          (mkP (pc m) (regs m) (upd k v (inputs m)) (upd k b (in_valid m)) (in_recv m) (outputs m) (out_valid m) (out_recv m) (deferred m) (phases m)).
Proof.
  intros [[H1 [H2 [H3 [H4 [H5 [H6 [H7 [H8 H9]]]]]]]] Hpc]. split; [|exact Hpc].
  unfold same_but_pc. simpl. rewrite H2, H3. repeat split; auto.
Qed.

Lemma Rel_set_outrecv src s m k b : Rel src s m ->
  Rel src (mkP (pc s) (regs s) (inputs s) (in_valid s) (in_recv s) (outputs s) (out_valid s) (upd k b (out_recv s)) (deferred s) (phases s))
          (mkP (pc m) (regs m) (inputs m) (in_valid m) (in_recv m) (outputs m) (out_valid m) (upd k b (out_recv m)) (deferred m) (phases m)).
Proof.
  intros [[H1 [H2 [H3 [H4 [H5 [H6 [H7 [H8 H9]]]]]]]] Hpc]. split; [|exact Hpc].
  unfold same_but_pc. simpl. rewrite H7. repeat split; auto.
Qed.

Lemma PRel_set_input srcs ss ms q k v b : PRel srcs ss ms -> PRel srcs (set_proc_input ss q k v b) (set_proc_input ms q k v b).
Proof.
  intros H. unfold set_proc_input. pose proof (PRel_nth_error srcs ss ms H q) as Hq.
  destruct (nth_error ss q) as [s|], (nth_error ms q) as [m|]; try contradiction; auto.
  destruct Hq as [src [Hs HR]]. eapply PRel_upd; eauto. apply Rel_set_input. exact HR.
Qed.

Lemma PRel_set_outrecv srcs ss ms q k b : PRel srcs ss ms -> PRel srcs (set_proc_outrecv ss q k b) (set_proc_outrecv ms q k b).
Proof.
  intros H. unfold set_proc_outrecv. pose proof (PRel_nth_error srcs ss ms H q) as Hq.
  destruct (nth_error ss q) as [s|], (nth_error ms q) as [m|]; try contradiction; auto.
  destruct Hq as [src [Hs HR]]. eapply PRel_upd; eauto. apply Rel_set_outrecv. exact HR.
Qed.

Lemma PRel_fold {A} srcs (f : list pstate -> A -> list pstate) :
  (forall ss ms x, PRel srcs ss ms -> PRel srcs (f ss x) (f ms x)) ->
  forall l ss ms, PRel srcs ss ms -> PRel srcs (fold_left f l ss) (fold_left f l ms).
Proof. intros Hf. induction l as [|x l IH]; intros ss ms H; simpl; auto. Qed.

(* ---------- the phases of a tick ---------- *)
Ltac vrel_split H := destruct H as [HP [E1 [E2 [E3 [E4 [E5 [E6 [E7 [E8 [E9 [E10 [E11 E12]]]]]]]]]]]].

Lemma forward_rel t srcs a b : VRel srcs a b -> VRel srcs (forward t a) (forward t b).
Proof.
  intros H. vrel_split H. unfold forward. cbv zeta. rewrite ?E1, ?E2, ?E3, ?E4, ?E5, ?E6, ?E7, ?E8, ?E9, ?E10, ?E11, ?E12.
  unfold VRel. simpl. repeat split; auto.
  apply PRel_fold; [|exact HP]. intros ss ms x Hx. destruct (snd x); auto. apply PRel_set_input. exact Hx.
Qed.

Lemma backward_rel t srcs a b : VRel srcs a b -> VRel srcs (backward_pre t a) (backward_pre t b).
Proof.
  intros H. vrel_split H. unfold backward_pre. cbv zeta. rewrite ?E1, ?E2, ?E3, ?E4, ?E5, ?E6, ?E7, ?E8, ?E9, ?E10, ?E11, ?E12.
  unfold VRel. simpl. repeat split; auto.
  apply PRel_fold; [|exact HP]. intros ss ms x Hx. destruct (snd x); auto. apply PRel_set_outrecv. exact Hx.
Qed.

Lemma fold_ext {A B} (f g : A -> B -> A) l a : (forall a x, In x l -> f a x = g a x) -> fold_left f l a = fold_left g l a.
Proof.
  revert a. induction l as [|x l IH]; intros a H; simpl; auto. rewrite H by (left; reflexivity). apply IH. intros a' y Hy. apply H. right. exact Hy.
Qed.

Lemma post_rel t srcs a b : VRel srcs a b -> VRel srcs (post t a) (post t b).
Proof.
  intros H. vrel_split H.
  assert (Hsame : forall q, same_but_pc (nth q (v_procs a) (init_pstate 0 0 0)) (nth q (v_procs b) (init_pstate 0 0 0))).
  { intros q. eapply PRel_nth_same; eauto. }
  assert (Eio : fold_left (fun (acc : list N * list bool) p =>
                         match snd p with
                         | PO q k => let s := nth q (v_procs a) (init_pstate 0 0 0) in
                                     (upd (fst p) (nthN (outputs s) k) (fst acc), upd (fst p) (nthB (out_valid s) k) (snd acc))
                         | _ => acc end) (idx (iout t)) (v_iout a, v_iout_valid a) =
                fold_left (fun (acc : list N * list bool) p =>
                         match snd p with
                         | PO q k => let s := nth q (v_procs b) (init_pstate 0 0 0) in
                                     (upd (fst p) (nthN (outputs s) k) (fst acc), upd (fst p) (nthB (out_valid s) k) (snd acc))
                         | _ => acc end) (idx (iout t)) (v_iout b, v_iout_valid b)).
  { rewrite E10, E11. apply fold_ext. intros acc x _. destruct (snd x) as [r|r|q k|q k]; auto. cbv zeta.
    destruct (Hsame q) as [_ [_ [_ [_ [Ho [Hov _]]]]]]. rewrite Ho, Hov. reflexivity. }
  assert (Eir : fold_left (fun acc p => match snd p with
                                    | PI q k => upd (fst p) (nthB (in_recv (nth q (v_procs a) (init_pstate 0 0 0))) k) acc
                                    | _ => acc end) (idx (iin t)) (v_iin_recv a) =
                fold_left (fun acc p => match snd p with
                                    | PI q k => upd (fst p) (nthB (in_recv (nth q (v_procs b) (init_pstate 0 0 0))) k) acc
                                    | _ => acc end) (idx (iin t)) (v_iin_recv b)).
  { rewrite E9. apply fold_ext. intros acc x _. destruct (snd x) as [r|r|q k|q k]; auto.
    destruct (Hsame q) as [_ [_ [_ [Hr _]]]]. rewrite Hr. reflexivity. }
  cbv zeta in Eio. unfold post. cbv zeta. rewrite Eio, Eir, ?E1, ?E2, ?E3, ?E4, ?E5, ?E6, ?E7, ?E8.
  unfold VRel. simpl. repeat split; auto.
Qed.

(* ---------- computing ---------- *)
Lemma src_okb_ok src : src_okb src = true -> src_ok src.
Proof.
  unfold src_okb, src_ok. rewrite forallb_forall. intros H k ls op Hk. specialize (H _ (nth_error_In _ _ Hk)).
  destruct op; auto.
Qed.

Definition assembled (c : src_cfg) (p : proc) : Prop :=
  let '(sync, rsize, src) := c in assemble sync src = Some (p_prog p) /\ p_rsize p = rsize /\ src_ok src.

Lemma compute_rel cfgs procs : Forall2 assembled cfgs procs ->
  forall ss ms, PRel (map snd cfgs) ss ms ->
  PRel (map snd cfgs) (map (fun p => fst p (snd p)) (combine (src_steps cfgs) ss))
                      (map (fun p => fst p (snd p)) (combine (rom_steps procs) ms)).
Proof.
  induction 1 as [|c p cfgs procs Hc HF IH]; intros ss ms HP; simpl in *.
  - inversion HP; subst. constructor.
  - inversion HP as [|src srcs s m ss' ms' HR HP']; subst. simpl.
    destruct c as [[sync rsize] src]. simpl in *. destruct Hc as [Ha [Hrs Hok]]. constructor.
    + rewrite Hrs. apply lockstep; auto.
    + apply IH. exact HP'.
Qed.

Lemma compute_with_rel cfgs procs a b : Forall2 assembled cfgs procs -> VRel (map snd cfgs) a b ->
  VRel (map snd cfgs) (compute_with (src_steps cfgs) a) (compute_with (rom_steps procs) b).
Proof.
  intros HF H. vrel_split H. unfold compute_with, VRel. simpl. repeat split; auto. apply compute_rel; auto.
Qed.

Theorem tick_rel t cfgs procs a b : Forall2 assembled cfgs procs -> VRel (map snd cfgs) a b ->
  VRel (map snd cfgs) (tick_with t (src_steps cfgs) a) (tick t procs b).
Proof.
  intros HF H. rewrite tick_is_tick_with. unfold tick_with.
  apply post_rel. apply compute_with_rel; auto. apply backward_rel. apply forward_rel. exact H.
Qed.

Lemma apply_env_rel srcs e a b : VRel srcs a b -> VRel srcs (apply_env e a) (apply_env e b).
Proof.
  intros H. vrel_split H. unfold apply_env. cbv zeta. rewrite ?E1, ?E2, ?E3, ?E4, ?E5, ?E6, ?E7, ?E8, ?E9, ?E10, ?E11, ?E12.
  unfold VRel. simpl. repeat split; auto.
Qed.

(* any number of ticks, the environment writing inputs and received flags before each *)
Definition run_src (t : bm) (cfgs : list src_cfg) (envs : list env) (v : vm) : vm :=
  fold_left (fun v e => tick_with t (src_steps cfgs) (apply_env e v)) envs v.
Definition run_rom (t : bm) (procs : list proc) (envs : list env) (v : vm) : vm :=
  fold_left (fun v e => tick t procs (apply_env e v)) envs v.

Theorem machine_follows_the_sources t cfgs procs envs : Forall2 assembled cfgs procs ->
  forall a b, VRel (map snd cfgs) a b -> VRel (map snd cfgs) (run_src t cfgs envs a) (run_rom t procs envs b).
Proof.
  intros HF. unfold run_src, run_rom. induction envs as [|e envs IH]; intros a b H; simpl; auto.
  apply IH. apply tick_rel; auto. apply apply_env_rel. exact H.
Qed.

(* the start: each source at its entry, the machine at ROM address 0 *)
Lemma start_rel cfgs : entries_first cfgs = true -> forall ps,
  List.length ps = List.length cfgs -> Forall (fun p => pc p = 0%N) ps ->
  PRel (map snd cfgs) (map (fun p => at_pc (snd p) (entry_pc (snd (fst p)))) (combine cfgs ps)) ps.
Proof.
  induction cfgs as [|c cfgs IH]; intros He ps Hl Hpc; destruct ps as [|p ps]; simpl in *; try discriminate; [constructor|].
  unfold entries_first in He. simpl in He. apply andb_true_iff in He. destruct He as [Hc He].
  inversion Hpc as [|p' ps' Hp Hps]; subst. constructor; [|apply IH; auto].
  apply Nat.eqb_eq in Hc. split.
  - unfold at_pc, same_but_pc. simpl. repeat split.
  - simpl. rewrite Nat2N.id, Hc, Hp. reflexivity.
Qed.

Theorem machine_started_at_the_entries_follows_the_sources t cfgs procs rbits envs :
  Forall2 assembled cfgs procs -> entries_first cfgs = true -> List.length (Topo.procs t) = List.length cfgs ->
  let a := run_src t cfgs envs (start_at_entry cfgs (init_vm t rbits)) in
  let b := run_rom t procs envs (init_vm t rbits) in
  v_out a = v_out b /\ v_out_valid a = v_out_valid b /\ v_in_recv a = v_in_recv b.
Proof.
  intros HF He Hl. cbv zeta.
  assert (H : VRel (map snd cfgs) (start_at_entry cfgs (init_vm t rbits)) (init_vm t rbits)).
  { unfold VRel, start_at_entry. simpl. repeat split; auto. apply start_rel; auto.
    - unfold idx. rewrite map_length, combine_length, seq_length, Nat.min_id. exact Hl.
    - apply Forall_forall. intros p Hp. apply in_map_iff in Hp. destruct Hp as [x [<- _]].
      destruct (nth (snd x) (doms t) (0, 0)). reflexivity. }
  pose proof (machine_follows_the_sources t cfgs procs envs HF _ _ H) as R.
  destruct R as [_ [_ [_ [E3 [E4 [E5 _]]]]]]. auto.
Qed.
