(* Proofs/BondgoProofs.v — the code generator of Front/Bondgo.v is correct: the emitted code, run
   on the simulator model (Isa.Sim.exec), writes exactly the values the Go semantics writes, in
   the same order, for every well-scoped program, register size and machine with enough registers. *)
From Coq Require Import List NArith Bool Arith Lia.
From BM Require Import Isa.Sim Front.Bondgo.
Import ListNotations.

(* ---------- lists ---------- *)
Lemma upd_length {A} (k : nat) (v : A) l : List.length (upd k v l) = List.length l.
Proof. revert k; induction l as [|x l IH]; intros [|k]; simpl; auto. Qed.

Lemma nth_upd_same {A} (k : nat) (v d : A) l : k < List.length l -> nth k (upd k v l) d = v.
Proof. revert k; induction l as [|x l IH]; intros [|k] H; simpl in *; try lia; auto. apply IH; lia. Qed.

Lemma nth_upd_other {A} (k j : nat) (v d : A) l : k <> j -> nth j (upd k v l) d = nth j l d.
Proof. revert k j; induction l as [|x l IH]; intros [|k] [|j] H; simpl; auto; try congruence. Qed.

Lemma filter_all {A} (f : A -> bool) l : (forall x, In x l -> f x = true) -> filter f l = l.
Proof. induction l as [|x l IH]; simpl; intros H; auto. rewrite (H x) by auto. f_equal. apply IH; auto. Qed.

(* ---------- the allocator returns a register that is not in use ---------- *)
Lemma existsb_eqb_In i b : existsb (Nat.eqb i) b = true <-> In i b.
Proof.
  rewrite existsb_exists. split.
  - intros [x [Hx E]]. apply Nat.eqb_eq in E. subst; auto.
  - intros H. exists i. split; auto. apply Nat.eqb_refl.
Qed.

Lemma alloc_from_spec : forall f i b,
  let j := alloc_from f i b in
  i <= j <= i + f /\ (forall k, i <= k < j -> In k b) /\ (j < i + f -> ~ In j b).
Proof.
  induction f as [|f IH]; intros i b; simpl.
  - split; [lia|]. split; intros; lia.
  - destruct (existsb (Nat.eqb i) b) eqn:E.
    + destruct (IH (S i) b) as [H1 [H2 H3]]. split; [lia|]. split.
      * intros k Hk. destruct (Nat.eq_dec k i) as [->|Hne]; [apply existsb_eqb_In; auto|]. apply H2; lia.
      * intros Hj. apply H3. lia.
    + split; [lia|]. split; [intros; lia|]. intros _ Hin. apply existsb_eqb_In in Hin. congruence.
Qed.

Lemma alloc_fresh b : ~ In (alloc b) b.
Proof.
  unfold alloc. destruct (alloc_from_spec (S (List.length b)) 0 b) as [H1 [H2 H3]].
  destruct (Nat.eq_dec (alloc_from (S (List.length b)) 0 b) (S (List.length b))) as [E|NE].
  - exfalso. rewrite E in H2.
    assert (Hincl : incl (seq 0 (S (List.length b))) b).
    { intros k Hk. apply in_seq in Hk. apply H2. lia. }
    pose proof (NoDup_incl_length (seq_NoDup (S (List.length b)) 0) Hincl) as Hl.
    rewrite seq_length in Hl. lia.
  - apply H3. lia.
Qed.

Lemma free_last r b : ~ In r b -> free r (b ++ [r]) = b.
Proof.
  intros H. unfold free. rewrite filter_app. simpl. rewrite Nat.eqb_refl. simpl. rewrite app_nil_r.
  apply filter_all. intros x Hx. apply negb_true_iff. apply Nat.eqb_neq. intros ->. auto.
Qed.

(* ---------- code only grows ---------- *)
Lemma cexpr_ext : forall e c, exists seg, code (snd (cexpr c e)) = code c ++ seg.
Proof.
  induction e as [v|x|a IHa b IHb|a IHa b IHb]; intros c; simpl.
  - eexists; reflexivity.
  - eexists; reflexivity.
  - destruct (IHa c) as [sa Ha]. destruct (cexpr c a) as [ra c1]. simpl in Ha.
    destruct (IHb c1) as [sb Hb]. destruct (cexpr c1 b) as [rb c2]. simpl in *.
    exists (sa ++ sb ++ [IAdd ra rb]). rewrite Hb, Ha. now rewrite <- !app_assoc.
  - destruct (IHa c) as [sa Ha]. destruct (cexpr c a) as [ra c1]. simpl in Ha.
    destruct (IHb c1) as [sb Hb]. destruct (cexpr c1 b) as [rb c2]. simpl in *.
    exists (sa ++ sb ++ [IMult ra rb]). rewrite Hb, Ha. now rewrite <- !app_assoc.
Qed.

Lemma cstmt_ext s c : exists seg, code (cstmt c s) = code c ++ seg.
Proof.
  destruct s as [|x e|o e]; simpl.
  - eexists; reflexivity.
  - destruct (cexpr_ext e c) as [se He]. destruct (cexpr c e) as [r c1]. simpl in *. rewrite He.
    eexists. now rewrite <- app_assoc.
  - destruct (cexpr_ext e c) as [se He]. destruct (cexpr c e) as [r c1]. simpl in *. rewrite He.
    eexists. now rewrite <- app_assoc.
Qed.

Lemma compile_ext : forall p c, exists seg, code (fold_left cstmt p c) = code c ++ seg.
Proof.
  induction p as [|s p IH]; intros c; simpl.
  - exists []. now rewrite app_nil_r.
  - destruct (IH (cstmt c s)) as [sp Hp]. destruct (cstmt_ext s c) as [ss Hs].
    exists (ss ++ sp). rewrite Hp, Hs. now rewrite app_assoc.
Qed.

(* ---------- running code ---------- *)
Definition regs_of (i : instr) : list nat :=
  match i with
  | IRset r _ | IClr r | IR2o r _ => [r]
  | ICpy d s | IAdd d s | IMult d s => [d; s]
  | _ => []
  end.
Definition fits (n : nat) (i : instr) : Prop := forall q, In q (regs_of i) -> q < n.

Definition run (rsize : N) (st : pstate * list (nat * N)) (c : list instr) := fold_left (run_step rsize) c st.
Lemma run_app rsize st a b : run rsize st (a ++ b) = run rsize (run rsize st a) b.
Proof. apply fold_left_app. Qed.

Lemma max_reg_from : forall c m n,
  fold_left (fun m i => match i with
                        | IRset r _ | IClr r => Nat.max m (S r)
                        | ICpy d s | IAdd d s | IMult d s => Nat.max m (Nat.max (S d) (S s))
                        | IR2o r _ => Nat.max m (S r)
                        | _ => m end) c m <= n -> m <= n /\ Forall (fits n) c.
Proof.
  induction c as [|i c IH]; intros m n H; simpl in H.
  - split; auto.
  - apply IH in H. destruct H as [Hm Hc]. unfold fits.
    destruct i; simpl; (split; [lia|constructor; auto; simpl; intros q Hq; intuition lia]).
Qed.

Lemma max_reg_fits c n : max_reg c <= n -> Forall (fits n) c.
Proof. intros H. apply max_reg_from in H. tauto. Qed.

(* ---------- the invariant between compiler state, machine registers and Go environment ---------- *)
Definition VarsOK (c : cstate) (rg env : list N) : Prop :=
  List.length (vars c) = List.length env /\ NoDup (vars c) /\
  forall x, x < List.length env -> In (nth x (vars c) 0) (busy c) /\ nthN rg (nth x (vars c) 0) = nthN env x.

Lemma cexpr_correct (rsize : N) (env : list N) : forall e c p outs r c' seg,
  cexpr c e = (r, c') ->
  expr_ok (List.length env) e = true ->
  VarsOK c (regs p) env ->
  code c' = code c ++ seg -> Forall (fits (List.length (regs p))) seg ->
  (exists p', run rsize (p, outs) seg = (p', outs) /\ List.length (regs p') = List.length (regs p) /\
              nthN (regs p') r = eval rsize env e /\
              (forall q, In q (busy c) -> nthN (regs p') q = nthN (regs p) q)) /\
  busy c' = busy c ++ [r] /\ ~ In r (busy c) /\ vars c' = vars c.
Proof.
  induction e as [v|x|a IHa b IHb|a IHa b IHb]; intros c p outs r c' seg Hc Hok HV Hseg Hfit.
  - (* literal *)
    simpl in Hc. inversion Hc; subst r c'; clear Hc. simpl in Hseg. apply app_inv_head in Hseg. subst seg.
    pose proof (alloc_fresh (busy c)) as Hfr.
    assert (Hlt : alloc (busy c) < List.length (regs p)).
    { inversion Hfit as [|i l Hi _]; subst. apply Hi. simpl; auto. }
    split; [|simpl; auto].
    eexists. split; [reflexivity|]. simpl. rewrite upd_length. split; [reflexivity|]. split.
    + unfold nthN. rewrite nth_upd_same by auto. reflexivity.
    + intros q Hq. unfold nthN. apply nth_upd_other. intros E. rewrite <- E in Hq. auto.
  - (* variable *)
    simpl in Hc. inversion Hc; subst r c'; clear Hc. simpl in Hseg. apply app_inv_head in Hseg. subst seg.
    pose proof (alloc_fresh (busy c)) as Hfr.
    assert (Hlt : alloc (busy c) < List.length (regs p)).
    { inversion Hfit as [|i l Hi _]; subst. apply Hi. simpl; auto. }
    simpl in Hok. apply Nat.ltb_lt in Hok. destruct HV as [HL [HN HX]]. destruct (HX x Hok) as [Hin Hval].
    split; [|simpl; auto].
    eexists. split; [reflexivity|]. simpl. rewrite upd_length. split; [reflexivity|]. split.
    + unfold nthN at 1. rewrite nth_upd_same by auto. exact Hval.
    + intros q Hq. unfold nthN. apply nth_upd_other. intros E. rewrite <- E in Hq. auto.
  - (* addition *)
    simpl in Hc. destruct (cexpr c a) as [ra c1] eqn:Ea. destruct (cexpr c1 b) as [rb c2] eqn:Eb.
    inversion Hc; subst r c'; clear Hc. simpl in Hok. apply andb_true_iff in Hok. destruct Hok as [Hoa Hob].
    destruct (cexpr_ext a c) as [sa Hsa]. rewrite Ea in Hsa. simpl in Hsa.
    destruct (cexpr_ext b c1) as [sb Hsb]. rewrite Eb in Hsb. simpl in Hsb.
    simpl in Hseg. rewrite Hsb, Hsa, <- !app_assoc in Hseg. apply app_inv_head in Hseg. subst seg.
    apply Forall_app in Hfit. destruct Hfit as [Hfa Hfit]. apply Forall_app in Hfit. destruct Hfit as [Hfb Hfi].
    destruct (IHa c p outs ra c1 sa Ea Hoa HV Hsa Hfa) as [[p1 [R1 [L1 [V1 F1]]]] [B1 [N1 W1]]].
    assert (HV1 : VarsOK c1 (regs p1) env).
    { destruct HV as [HL [HN HX]]. unfold VarsOK. rewrite W1. split; [auto|]. split; [auto|]. intros x Hx. destruct (HX x Hx) as [Hin Hval].
      split; [rewrite B1; apply in_or_app; auto|]. rewrite F1; auto. }
    rewrite <- L1 in Hfb.
    destruct (IHb c1 p1 outs rb c2 sb Eb Hob HV1 Hsb Hfb) as [[p2 [R2 [L2 [V2 F2]]]] [B2 [N2 W2]]].
    assert (Hra : ra < List.length (regs p2)).
    { rewrite L2, L1. inversion Hfi as [|i l Hi _]; subst. apply Hi. simpl; auto. }
    split.
    + eexists. split; [rewrite !run_app, R1, R2; reflexivity|]. simpl. rewrite upd_length. split; [lia|]. split.
      * unfold nthN at 1. rewrite nth_upd_same by auto. unfold M. f_equal. f_equal.
        -- fold (nthN (regs p2) ra). rewrite F2 by (rewrite B1; apply in_or_app; simpl; auto). exact V1.
        -- exact V2.
      * intros q Hq. unfold nthN at 1. rewrite nth_upd_other by (intros ->; auto).
        fold (nthN (regs p2) q). rewrite F2 by (rewrite B1; apply in_or_app; auto). apply F1; auto.
    + simpl. rewrite B2. rewrite free_last by auto. split; [exact B1|]. split; [exact N1|]. now rewrite W2.
  - (* multiplication *)
    simpl in Hc. destruct (cexpr c a) as [ra c1] eqn:Ea. destruct (cexpr c1 b) as [rb c2] eqn:Eb.
    inversion Hc; subst r c'; clear Hc. simpl in Hok. apply andb_true_iff in Hok. destruct Hok as [Hoa Hob].
    destruct (cexpr_ext a c) as [sa Hsa]. rewrite Ea in Hsa. simpl in Hsa.
    destruct (cexpr_ext b c1) as [sb Hsb]. rewrite Eb in Hsb. simpl in Hsb.
    simpl in Hseg. rewrite Hsb, Hsa, <- !app_assoc in Hseg. apply app_inv_head in Hseg. subst seg.
    apply Forall_app in Hfit. destruct Hfit as [Hfa Hfit]. apply Forall_app in Hfit. destruct Hfit as [Hfb Hfi].
    destruct (IHa c p outs ra c1 sa Ea Hoa HV Hsa Hfa) as [[p1 [R1 [L1 [V1 F1]]]] [B1 [N1 W1]]].
    assert (HV1 : VarsOK c1 (regs p1) env).
    { destruct HV as [HL [HN HX]]. unfold VarsOK. rewrite W1. split; [auto|]. split; [auto|]. intros x Hx. destruct (HX x Hx) as [Hin Hval].
      split; [rewrite B1; apply in_or_app; auto|]. rewrite F1; auto. }
    rewrite <- L1 in Hfb.
    destruct (IHb c1 p1 outs rb c2 sb Eb Hob HV1 Hsb Hfb) as [[p2 [R2 [L2 [V2 F2]]]] [B2 [N2 W2]]].
    assert (Hra : ra < List.length (regs p2)).
    { rewrite L2, L1. inversion Hfi as [|i l Hi _]; subst. apply Hi. simpl; auto. }
    split.
    + eexists. split; [rewrite !run_app, R1, R2; reflexivity|]. simpl. rewrite upd_length. split; [lia|]. split.
      * unfold nthN at 1. rewrite nth_upd_same by auto. unfold M. f_equal. f_equal.
        -- fold (nthN (regs p2) ra). rewrite F2 by (rewrite B1; apply in_or_app; simpl; auto). exact V1.
        -- exact V2.
      * intros q Hq. unfold nthN at 1. rewrite nth_upd_other by (intros ->; auto).
        fold (nthN (regs p2) q). rewrite F2 by (rewrite B1; apply in_or_app; auto). apply F1; auto.
    + simpl. rewrite B2. rewrite free_last by auto. split; [exact B1|]. split; [exact N1|]. now rewrite W2.
Qed.

Definition stmt_ok (n : nat) (s : stmt) : bool :=
  match s with
  | SDecl => true
  | SAssign x e => Nat.ltb x n && expr_ok n e
  | SWrite _ e => expr_ok n e
  end.

Lemma cstmt_correct (rsize : N) : forall s c p outs env seg,
  stmt_ok (List.length env) s = true ->
  VarsOK c (regs p) env ->
  code (cstmt c s) = code c ++ seg -> Forall (fits (List.length (regs p))) seg ->
  exists p', run rsize (p, outs) seg = (p', snd (go_step rsize (env, outs) s)) /\
             List.length (regs p') = List.length (regs p) /\
             VarsOK (cstmt c s) (regs p') (fst (go_step rsize (env, outs) s)).
Proof.
  intros [|x e|o e] c p outs env seg Hok HV Hseg Hfit.
  - (* declaration *)
    simpl in Hseg. apply app_inv_head in Hseg. subst seg.
    pose proof (alloc_fresh (busy c)) as Hfr.
    assert (Hlt : alloc (busy c) < List.length (regs p)).
    { inversion Hfit as [|i l Hi _]; subst. apply Hi. simpl; auto. }
    destruct HV as [HL [HN HX]].
    eexists. split; [reflexivity|]. simpl. rewrite upd_length. split; [reflexivity|].
    assert (Hnv : ~ In (alloc (busy c)) (vars c)).
    { intros Hin. apply In_nth with (d := 0) in Hin. destruct Hin as [k [Hk Ek]]. rewrite HL in Hk.
      destruct (HX k Hk) as [Hb _]. rewrite Ek in Hb. auto. }
    unfold VarsOK, emit; simpl. split; [rewrite !app_length; simpl; lia|]. split.
    + apply (NoDup_Add (Add_app (alloc (busy c)) (vars c) [])). rewrite app_nil_r. auto.
    + intros y Hy. rewrite app_length in Hy. simpl in Hy.
      destruct (Nat.eq_dec y (List.length env)) as [->|Hne].
      * rewrite <- HL at 1 2. rewrite nth_middle. split; [apply in_or_app; simpl; auto|].
        unfold nthN. rewrite nth_upd_same by auto. rewrite nth_middle. reflexivity.
      * assert (Hy' : y < List.length env) by lia. destruct (HX y Hy') as [Hb Hv].
        rewrite app_nth1 by lia. split; [apply in_or_app; auto|].
        unfold nthN. rewrite nth_upd_other by (intros E; rewrite E in Hfr; auto).
        rewrite app_nth1 by lia. exact Hv.
  - (* assignment *)
    simpl in Hok. apply andb_true_iff in Hok. destruct Hok as [Hx He]. apply Nat.ltb_lt in Hx.
    simpl in Hseg. destruct (cexpr c e) as [r c1] eqn:Ec.
    destruct (cexpr_ext e c) as [se Hse]. rewrite Ec in Hse. simpl in Hse.
    simpl in Hseg. rewrite Hse, <- app_assoc in Hseg. apply app_inv_head in Hseg. subst seg.
    apply Forall_app in Hfit. destruct Hfit as [Hfe Hfi].
    destruct (cexpr_correct rsize env e c p outs r c1 se Ec He HV Hse Hfe) as [[p1 [R1 [L1 [V1 F1]]]] [B1 [N1 W1]]].
    destruct HV as [HL [HN HX]].
    assert (Hvx : nth x (vars c) 0 < List.length (regs p1)).
    { rewrite L1. inversion Hfi as [|i l Hi _]; subst. apply Hi. simpl; auto. }
    eexists. split; [rewrite run_app, R1; reflexivity|]. simpl. rewrite upd_length. split; [exact L1|].
    unfold VarsOK. simpl. rewrite Ec. unfold release, emit. simpl. rewrite B1, free_last by auto. rewrite W1.
    split; [rewrite upd_length; auto|]. split; [auto|].
    intros y Hy. rewrite upd_length in Hy. destruct (HX y Hy) as [Hb Hv]. split; [auto|].
    destruct (Nat.eq_dec y x) as [->|Hne].
    + unfold nthN. rewrite !nth_upd_same by (auto; lia). exact V1.
    + unfold nthN. rewrite (nth_upd_other x y) by auto.
      rewrite nth_upd_other.
      * fold (nthN (regs p1) (nth y (vars c) 0)). rewrite F1 by auto. exact Hv.
      * intros E. apply Hne. symmetry.
        apply (proj1 (NoDup_nth (vars c) 0) HN); try lia.
  - (* output *)
    simpl in Hok. simpl in Hseg. destruct (cexpr c e) as [r c1] eqn:Ec.
    destruct (cexpr_ext e c) as [se Hse]. rewrite Ec in Hse. simpl in Hse.
    simpl in Hseg. rewrite Hse, <- app_assoc in Hseg. apply app_inv_head in Hseg. subst seg.
    apply Forall_app in Hfit. destruct Hfit as [Hfe Hfi].
    destruct (cexpr_correct rsize env e c p outs r c1 se Ec Hok HV Hse Hfe) as [[p1 [R1 [L1 [V1 F1]]]] [B1 [N1 W1]]].
    destruct HV as [HL [HN HX]].
    eexists. split; [rewrite run_app, R1; simpl; rewrite V1; reflexivity|]. simpl. split; [exact L1|].
    unfold VarsOK. simpl. rewrite Ec. unfold emit. simpl. rewrite W1. split; [auto|]. split; [auto|].
    intros y Hy. destruct (HX y Hy) as [Hb Hv]. split; [rewrite B1; apply in_or_app; auto|].
    rewrite F1 by auto. exact Hv.
Qed.

Lemma prog_ok_cons n s p : prog_ok n (s :: p) = true ->
  stmt_ok n s = true /\ prog_ok (match s with SDecl => S n | _ => n end) p = true.
Proof.
  destruct s as [|x e|o e]; simpl; intros H; auto.
  - apply andb_true_iff in H. destruct H as [H1 H2]. auto.
  - apply andb_true_iff in H. destruct H as [H1 H2]. rewrite H1. auto.
Qed.

Lemma go_step_len rsize env outs s :
  List.length (fst (go_step rsize (env, outs) s)) = match s with SDecl => S (List.length env) | _ => List.length env end.
Proof. destruct s; simpl; auto. - rewrite app_length; simpl; lia. - apply upd_length. Qed.

Lemma compile_correct_from (rsize : N) : forall prog c p outs env seg,
  prog_ok (List.length env) prog = true ->
  VarsOK c (regs p) env ->
  code (fold_left cstmt prog c) = code c ++ seg -> Forall (fits (List.length (regs p))) seg ->
  snd (run rsize (p, outs) seg) = snd (fold_left (go_step rsize) prog (env, outs)).
Proof.
  induction prog as [|s prog IH]; intros c p outs env seg Hok HV Hseg Hfit.
  - simpl in Hseg. rewrite <- (app_nil_r (code c)) in Hseg at 1. apply app_inv_head in Hseg. subst seg. reflexivity.
  - apply prog_ok_cons in Hok. destruct Hok as [Hs Hp].
    simpl in Hseg. destruct (cstmt_ext s c) as [ss Hss]. destruct (compile_ext prog (cstmt c s)) as [sp Hsp].
    rewrite Hsp, Hss, <- app_assoc in Hseg. apply app_inv_head in Hseg. subst seg.
    apply Forall_app in Hfit. destruct Hfit as [Hfs Hfp].
    destruct (cstmt_correct rsize s c p outs env ss Hs HV Hss Hfs) as [p1 [R1 [L1 HV1]]].
    rewrite run_app, R1. cbn [fold_left].
    pose proof (go_step_len rsize env outs s) as Hl.
    destruct (go_step rsize (env, outs) s) as [env1 outs1] eqn:Eg. cbn [fst snd] in *.
    apply (IH (cstmt c s) p1 outs1 env1 sp); auto.
    + rewrite Hl. exact Hp.
    + rewrite L1. exact Hfp.
Qed.

Theorem compile_correct : forall (rsize : N) (prog : list stmt) (nregs nouts : nat),
  prog_ok 0 prog = true ->
  max_reg (code (compile prog)) <= nregs ->
  snd (run_code rsize nregs nouts (code (compile prog))) = snd (go_eval rsize prog).
Proof.
  intros rsize prog nregs nouts Hok Hmax. unfold run_code, go_eval, compile.
  apply (compile_correct_from rsize prog (mkCS [] [] []) _ [] [] (code (compile prog))); auto.
  - split; [reflexivity|]. split; [constructor|]. intros x Hx. simpl in Hx. lia.
  - simpl. rewrite repeat_length. apply max_reg_fits. exact Hmax.
Qed.
