(* Proofs/SimRunProofs.v — what the rules do in a run: sets act on exactly the named objects, suspended
   rules do nothing, a printed line holds the values of exactly the objects whose show rules fire. *)
From Coq Require Import String NArith List Bool Lia.
From BM Require Import Front.Simbox Front.SimRun.
Import ListNotations.
Local Open Scope N_scope.

Lemma due_set_spec t r : due_set t r = true <->
  r_suspended r = false /\ r_action r = ASet /\
  ((r_timec r = TAbs /\ r_tick r = t) \/ (r_timec r = TRel /\ r_tick r <> 0 /\ t mod r_tick r = 0)).
Proof.
  unfold due_set, is_active, is_set, on_tick. rewrite !andb_true_iff, negb_true_iff. split.
  - intros [[Hs Ha] Ht]. split; [exact Hs|]. split; [destruct (r_action r); try discriminate; reflexivity|].
    destruct (r_timec r); try discriminate.
    + left. split; [reflexivity|]. apply N.eqb_eq. exact Ht.
    + right. apply andb_true_iff in Ht. destruct Ht as [H1 H2]. apply negb_true_iff in H1. apply N.eqb_neq in H1. apply N.eqb_eq in H2. auto.
  - intros [Hs [Ha Ht]]. rewrite Ha. split; [split; [exact Hs|reflexivity]|].
    destruct Ht as [[Hc He]|[Hc [Hn Hm]]]; rewrite Hc.
    + apply N.eqb_eq. exact He.
    + apply andb_true_iff. split; [apply negb_true_iff; apply N.eqb_neq; exact Hn|apply N.eqb_eq; exact Hm].
Qed.

Lemma fires_active t w n e r : fires t w n e r = true -> is_active r = true /\ is_show r = true.
Proof. unfold fires. rewrite !andb_true_iff. tauto. Qed.

Lemma existsb_filter_active (f : rule -> bool) rs : (forall r, f r = true -> is_active r = true) ->
  existsb f (filter is_active rs) = existsb f rs.
Proof.
  intros H. induction rs as [|r rs IH]; simpl; auto. destruct (is_active r) eqn:E; simpl; [rewrite IH; reflexivity|].
  rewrite IH. destruct (f r) eqn:F; [|reflexivity]. apply H in F. congruence.
Qed.

Lemma showables_from_filter seen rs : showables_from seen (filter is_active rs) = showables_from seen rs.
Proof.
  revert seen. induction rs as [|r rs IH]; intros seen; simpl; auto.
  destruct (is_active r) eqn:E; simpl; [rewrite E; simpl; destruct (is_show r && negb (existsb (String.eqb (r_object r)) seen)); rewrite ?IH; reflexivity|].
  apply IH.
Qed.

Lemma shown_filter rs t w n e : shown (filter is_active rs) t w n e = shown rs t w n e.
Proof.
  unfold shown, showables. rewrite showables_from_filter. apply filter_ext. intros o.
  apply existsb_filter_active. intros r H. apply andb_true_iff in H. destruct H as [_ H]. apply fires_active in H. tauto.
Qed.

Lemma showables_from_spec : forall rs seen o,
  In o (showables_from seen rs) <-> (~ In o seen /\ exists r, In r rs /\ is_active r = true /\ is_show r = true /\ r_object r = o).
Proof.
  induction rs as [|r rs IH]; intros seen o; simpl.
  - split; [intros []|intros [_ [r [[] _]]]].
  - assert (Hseen : forall s l, existsb (String.eqb s) l = true <-> In s l).
    { intros s l. rewrite existsb_exists. split; [intros [x [Hx E]]; apply String.eqb_eq in E; subst; exact Hx|].
      intros H. exists s. split; [exact H|apply String.eqb_refl]. }
    destruct (is_active r && is_show r && negb (existsb (String.eqb (r_object r)) seen)) eqn:E.
    + apply andb_true_iff in E. destruct E as [E1 E3]. apply andb_true_iff in E1. destruct E1 as [E1 E2].
      apply negb_true_iff in E3. simpl. rewrite IH. split.
      * intros [<-|[Hn [r' [Hr' H]]]].
        -- split; [intros Hin; apply Hseen in Hin; congruence|]. exists r. auto.
        -- split; [intros Hin; apply Hn; right; exact Hin|]. exists r'. split; [right; exact Hr'|exact H].
      * intros [Hn [r' [[<-|Hr'] [Ha [Hs Ho]]]]]; [left; exact Ho|].
        destruct (String.eqb (r_object r) o) eqn:Eo; [left; apply String.eqb_eq; exact Eo|]. right.
        split; [intros [Hin|Hin]; [apply String.eqb_neq in Eo; contradiction|contradiction]|]. exists r'. auto.
    + rewrite IH. split.
      * intros [Hn [r' [Hr' H]]]. split; [exact Hn|]. exists r'. split; [right; exact Hr'|exact H].
      * intros [Hn [r' [[<-|Hr'] [Ha [Hs Ho]]]]].
        -- rewrite Ha, Hs in E. simpl in E. apply negb_false_iff in E. apply Hseen in E. rewrite Ho in E. contradiction.
        -- split; [exact Hn|]. exists r'. auto.
Qed.

Lemma showables_from_nodup : forall rs seen, NoDup (showables_from seen rs).
Proof.
  induction rs as [|r rs IH]; intros seen; simpl; [constructor|].
  destruct (is_active r && is_show r && negb (existsb (String.eqb (r_object r)) seen)); [|apply IH].
  constructor; [|apply IH]. intros Hin. apply showables_from_spec in Hin. destruct Hin as [Hn _]. apply Hn. left. reflexivity.
Qed.

(* the objects printed at a tick are exactly the objects of the show rules that fire, each once *)
Theorem shown_spec rs t w n e o :
  In o (shown rs t w n e) <-> exists r, In r rs /\ r_object r = o /\ fires t w n e r = true.
Proof.
  unfold shown. rewrite filter_In, existsb_exists. split.
  - intros [_ [r [Hr H]]]. apply andb_true_iff in H. destruct H as [Ho Hf]. apply String.eqb_eq in Ho. exists r. auto.
  - intros [r [Hr [Ho Hf]]]. split.
    + unfold showables. apply showables_from_spec. split; [intros []|]. destruct (fires_active _ _ _ _ _ Hf) as [Ha Hs]. exists r. auto.
    + exists r. split; [exact Hr|]. rewrite Ho, String.eqb_refl. exact Hf.
Qed.

Theorem shown_nodup rs t w n e : NoDup (shown rs t w n e).
Proof. unfold shown. apply NoDup_filter. apply showables_from_nodup. Qed.

Section Run.
Variable st : Type.
Variable step : st -> st.
Variable get : st -> string -> N.
Variable put : st -> string -> N -> st.
Variable lit : string -> N.
Variable valid : st -> string -> bool.
Hypothesis get_put_same : forall s o v, get (put s o v) o = v.
Hypothesis get_put_other : forall s o o' v, o <> o' -> get (put s o v) o' = get s o'.

Notation apply_sets := (apply_sets st put lit).

(* an object no due set rule names keeps its value *)
Theorem sets_leave_the_other_objects_alone : forall rs t s o,
  (forall r, In r rs -> due_set t r = true -> r_object r <> o) -> get (apply_sets rs t s) o = get s o.
Proof.
  induction rs as [|r rs IH]; intros t s o H; simpl; auto.
  unfold SimRun.apply_sets in *. simpl. rewrite IH by (intros r' Hr'; apply H; right; exact Hr').
  destruct (due_set t r) eqn:E; [|reflexivity]. apply get_put_other. apply H; [left; reflexivity|exact E].
Qed.

(* the last due set rule that names an object gives it its value *)
Theorem a_due_set_rule_gives_the_stated_value : forall rs1 r rs2 t s,
  due_set t r = true -> (forall r', In r' rs2 -> due_set t r' = true -> r_object r' <> r_object r) ->
  get (apply_sets (rs1 ++ r :: rs2) t s) (r_object r) = lit (r_extra r).
Proof.
  intros rs1 r rs2 t s Hd Hn. unfold SimRun.apply_sets. rewrite fold_left_app. simpl. rewrite Hd.
  fold (apply_sets rs2 t (put (fold_left (fun s r => if due_set t r then put s (r_object r) (lit (r_extra r)) else s) rs1 s) (r_object r) (lit (r_extra r)))).
  rewrite sets_leave_the_other_objects_alone by exact Hn. apply get_put_same.
Qed.

Lemma apply_sets_filter rs t s : apply_sets (filter is_active rs) t s = apply_sets rs t s.
Proof.
  unfold SimRun.apply_sets. revert s. induction rs as [|r rs IH]; intros s; simpl; auto.
  destruct (is_active r) eqn:E; simpl; [apply IH|]. rewrite IH. unfold due_set. rewrite E. reflexivity.
Qed.

(* a suspended rule has no effect at all: the run is the run without it *)
Theorem suspended_rules_do_nothing : forall n rs stop t s,
  run st step get put lit valid (filter is_active rs) stop n t s = run st step get put lit valid rs stop n t s.
Proof.
  induction n as [|n IH]; intros rs stop t s; simpl; auto.
  unfold line. rewrite !shown_filter, apply_sets_filter.
  destruct (match stop with Some o => valid s o | None => false end); [reflexivity|]. rewrite IH. reflexivity.
Qed.

(* a printed line holds, for exactly the objects whose show rules fire and in the order of their numbers,
   the value the object has after the tick *)
Theorem a_line_holds_the_values_after_the_tick rs t old new e :
  line st get valid rs t old new e = map (get new) (shown rs t (valid old) (valid new) e).
Proof. reflexivity. Qed.

End Run.
