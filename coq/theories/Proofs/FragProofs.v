(* Proofs/FragProofs.v — facts about fragmentComposer's register discipline *)
From Coq Require Import List NArith Bool Arith Lia.
From BM Require Import Isa.Sim Front.Frag.
Import ListNotations.

Lemma existsb_eqb_In i b : existsb (Nat.eqb i) b = true <-> In i b.
Proof.
  rewrite existsb_exists. split.
  - intros [x [Hx E]]. apply Nat.eqb_eq in E. subst; auto.
  - intros H. exists i. split; auto. apply Nat.eqb_refl.
Qed.

Lemma lowest_free_spec : forall f i b,
  let j := lowest_free f i b in
  i <= j <= i + f /\ (forall k, i <= k < j -> In k b) /\ (j < i + f -> ~ In j b).
Proof.
  induction f as [|f IH]; intros i b; simpl.
  - split; [lia|]. split; intros; lia.
  - destruct (existsb (Nat.eqb i) b) eqn:E.
    + destruct (IH (S i) b) as [H1 [H2 H3]]. split; [lia|]. split.
      * intros k Hk. destruct (Nat.eq_dec k i) as [->|Hne]; [apply existsb_eqb_In; auto|]. apply H2; lia.
      * intros Hj. apply H3. lia.
    + split; [lia|]. split; [intros; lia|]. intros _ Hin. apply existsb_eqb_In in Hin. congruence.
Qed.

(* NextResource: the register it returns does not occur in the section *)
Lemma lowest_free_fresh b : ~ In (lowest_free (S (length b)) 0 b) b.
Proof.
  destruct (lowest_free_spec (S (length b)) 0 b) as [H1 [H2 H3]].
  destruct (Nat.eq_dec (lowest_free (S (length b)) 0 b) (S (length b))) as [E|NE].
  - exfalso. rewrite E in H2.
    assert (Hincl : incl (seq 0 (S (length b))) b) by (intros k Hk; apply in_seq in Hk; apply H2; lia).
    pose proof (NoDup_incl_length (seq_NoDup (S (length b)) 0) Hincl) as Hl. rewrite seq_length in Hl. lia.
  - apply H3. lia.
Qed.

(* and it is the lowest such register *)
Lemma lowest_free_lowest b k : k < lowest_free (S (length b)) 0 b -> In k b.
Proof. intros H. destruct (lowest_free_spec (S (length b)) 0 b) as [_ [H2 _]]. apply H2. lia. Qed.

(* the temporaries of a composed section are pairwise distinct and none of them is a register any of
   the collapsed fragments mentions: a value parked in a temporary survives every later fragment body *)
Theorem temporaries_are_fresh : forall k used,
  NoDup (alloc_tmps k used) /\ forall t, In t (alloc_tmps k used) -> ~ In t used.
Proof.
  induction k as [|k IH]; intros used; simpl.
  - split; [constructor|]. intros t [].
  - set (r := lowest_free (S (length used)) 0 used).
    destruct (IH (r :: used)) as [Hnd Hfresh]. split.
    + constructor; auto. intros Hin. apply (Hfresh r Hin). left. reflexivity.
    + intros t [<-|Ht]; [apply lowest_free_fresh|]. intros Hu. apply (Hfresh t Ht). right. exact Hu.
Qed.

(* evaluation visits the instances in index order and records one result list per instance *)
Theorem eval_records_every_instance : forall rsize nregs xs g vals,
  length (eval_insts rsize nregs xs g vals) = length vals + length g.
Proof.
  intros rsize nregs xs g. induction g as [|i g IH]; intros vals; simpl; [lia|].
  rewrite IH, app_length. simpl. lia.
Qed.
