(* Proofs/TopoProofs.v — C10: every edit preserves well-formedness and refines the
   name-level bond-set specification. *)
From Coq Require Import List ZArith Bool Arith Lia.
From BM Require Import Net.Topo.
Import ListNotations.

(* ------------------------------------------------------------------ basics *)

Lemma ep_eqb_eq a b : ep_eqb a b = true <-> a = b.
Proof.
  destruct a, b; simpl; try (split; [discriminate|intro H; discriminate H]);
    rewrite ?andb_true_iff, ?Nat.eqb_eq; split; intro H;
    try (inversion H; subst; auto); try (destruct H; subst; auto); try congruence.
Qed.

Lemma ep_eqb_refl a : ep_eqb a a = true.
Proof. apply ep_eqb_eq; reflexivity. Qed.

Lemma ep_eqb_neq a b : ep_eqb a b = false <-> a <> b.
Proof.
  split; intro H.
  - intro E; apply ep_eqb_eq in E; congruence.
  - destruct (ep_eqb a b) eqn:E; auto. apply ep_eqb_eq in E; contradiction.
Qed.

Lemma ep_eq_dec (a b : ep) : {a = b} + {a <> b}.
Proof. destruct (ep_eqb a b) eqn:E; [left; apply ep_eqb_eq; auto | right; apply ep_eqb_neq; auto]. Qed.

Lemma is_BI_iff r e : is_BI r e = true <-> e = BI r.
Proof.
  destruct e; simpl; split; intro H; try discriminate.
  - apply Nat.eqb_eq in H; subst; auto.
  - inversion H; apply Nat.eqb_refl.
Qed.
Lemma is_BO_iff r e : is_BO r e = true <-> e = BO r.
Proof.
  destruct e; simpl; split; intro H; try discriminate.
  - apply Nat.eqb_eq in H; subst; auto.
  - inversion H; apply Nat.eqb_refl.
Qed.

Lemma name_is_iff n e : name_is n e = true <-> n = Name e.
Proof.
  destruct n; simpl; split; intro H; try discriminate.
  - apply ep_eqb_eq in H; subst; auto.
  - inversion H; apply ep_eqb_refl.
Qed.

(* ------------------------------------------------------------------ list lemmas *)

Lemma find_index_some {A} (f : A -> bool) l k :
  find_index f l = Some k ->
  exists x, nth_error l k = Some x /\ f x = true /\ forall i y, i < k -> nth_error l i = Some y -> f y = false.
Proof.
  revert k; induction l as [|a l IH]; simpl; intros k H; [discriminate|].
  destruct (f a) eqn:Fa.
  - inversion H; subst. exists a; repeat split; auto. intros i y Hi; lia.
  - destruct (find_index f l) as [k'|] eqn:E; simpl in H; [|discriminate]. inversion H; subst.
    destruct (IH k' eq_refl) as (x & Hx & Fx & Hlt). exists x; repeat split; auto.
    intros [|i] y Hi Hy; simpl in Hy; [inversion Hy; subst; auto|]. eapply Hlt; eauto. lia.
Qed.

Lemma find_index_none {A} (f : A -> bool) l :
  find_index f l = None -> forall x, In x l -> f x = false.
Proof.
  induction l as [|a l IH]; simpl; intros H x Hx; [contradiction|].
  destruct (f a) eqn:Fa; [discriminate|].
  destruct (find_index f l); simpl in H; [discriminate|].
  destruct Hx; subst; auto.
Qed.

Lemma find_index_exists {A} (f : A -> bool) l x :
  In x l -> f x = true -> exists k, find_index f l = Some k.
Proof.
  intros Hin Hf. destruct (find_index f l) eqn:E; eauto.
  rewrite (find_index_none f l E x Hin) in Hf; discriminate.
Qed.

Lemma set_nth_length {A} n (v : A) l : length (set_nth n v l) = length l.
Proof. revert n; induction l; destruct n; simpl; auto. Qed.

Lemma set_nth_nth_eq {A} n (v : A) l : n < length l -> nth_error (set_nth n v l) n = Some v.
Proof. revert n; induction l; destruct n; simpl; intros; try lia; auto. apply IHl; lia. Qed.

Lemma set_nth_nth_neq {A} n m (v : A) l : n <> m -> nth_error (set_nth n v l) m = nth_error l m.
Proof. revert n m; induction l; destruct n, m; simpl; intros; auto; try lia. Qed.

Lemma NoDup_nth_inj {A} (l : list A) i j x :
  NoDup l -> nth_error l i = Some x -> nth_error l j = Some x -> i = j.
Proof.
  intros ND Hi Hj. rewrite NoDup_nth_error in ND. apply ND; [|congruence].
  apply nth_error_Some; congruence.
Qed.

Lemma NoDup_map_in {A B} (f : A -> B) l :
  NoDup l -> (forall x y, In x l -> In y l -> f x = f y -> x = y) -> NoDup (map f l).
Proof.
  induction 1 as [|a l Hn ND IH]; simpl; intro Hinj; constructor.
  - intro Hin. apply in_map_iff in Hin. destruct Hin as (y & Hy & Hyin).
    assert (y = a) by (apply Hinj; auto). subst; contradiction.
  - apply IH. intros; apply Hinj; auto.
Qed.

Lemma NoDup_filter {A} (f : A -> bool) l : NoDup l -> NoDup (filter f l).
Proof.
  induction 1; simpl; [constructor|]. destruct (f x); auto. constructor; auto.
  rewrite filter_In; tauto.
Qed.

Lemma NoDup_app_intro {A} (l1 l2 : list A) :
  NoDup l1 -> NoDup l2 -> (forall x, In x l1 -> In x l2 -> False) -> NoDup (l1 ++ l2).
Proof.
  induction 1 as [|a l Hn ND IH]; simpl; intros H2 Hd; auto.
  constructor.
  - rewrite in_app_iff. intros [H|H]; [contradiction|]. eapply Hd; eauto.
  - apply IH; auto. intros x H1 H3; eapply Hd; eauto.
Qed.

Lemma NoDup_app_one {A} (l : list A) x : NoDup l -> ~ In x l -> NoDup (l ++ [x]).
Proof.
  intros. apply NoDup_app_intro; auto.
  - constructor; [simpl; tauto|constructor].
  - intros y H1 [H2|[]]; subst; contradiction.
Qed.

(* removing the unique element satisfying f shifts the positions above it *)
Lemma filter_remove_nth {A} (f : A -> bool) l k :
  find_index f l = Some k ->
  (forall i y, nth_error l i = Some y -> f y = true -> i = k) ->
  forall j, j <> k ->
    nth_error (filter (fun x => negb (f x)) l) (if Nat.ltb k j then j - 1 else j) = nth_error l j.
Proof.
  revert k; induction l as [|a l IH]; simpl; intros k Hk Hu j Hj; [discriminate|].
  destruct (f a) eqn:Fa; simpl.
  - inversion Hk; subst k. destruct j; [lia|]. simpl. rewrite Nat.sub_0_r.
    (* no other element satisfies f *)
    assert (Hall : forall y, In y l -> f y = false).
    { intros y Hy. destruct (f y) eqn:Fy; auto. apply In_nth_error in Hy. destruct Hy as [i Hi].
      specialize (Hu (S i) y Hi Fy). discriminate. }
    clear -Hall. revert j; induction l as [|b l IH]; simpl; intro j; auto.
    rewrite (Hall b (or_introl eq_refl)); simpl. destruct j; simpl; auto. apply IH. intros; apply Hall; right; auto.
  - destruct (find_index f l) as [k'|] eqn:E; simpl in Hk; [|discriminate]. inversion Hk; subst k.
    destruct j as [|j]; simpl; auto.
    assert (Hj' : j <> k') by lia.
    specialize (IH k' eq_refl).
    assert (Hu' : forall i y, nth_error l i = Some y -> f y = true -> i = k').
    { intros i y Hi Fy. specialize (Hu (S i) y Hi Fy). lia. }
    specialize (IH Hu' j Hj').
    destruct (Nat.ltb_spec k' j); destruct (Nat.ltb_spec (S k') (S j)); try lia.
    + destruct j; [lia|]. simpl in *. rewrite Nat.sub_0_r in IH. auto.
    + auto.
Qed.

Lemma filter_remove_length {A} (f : A -> bool) l k :
  find_index f l = Some k ->
  (forall i y, nth_error l i = Some y -> f y = true -> i = k) ->
  S (length (filter (fun x => negb (f x)) l)) = length l.
Proof.
  revert k; induction l as [|a l IH]; simpl; intros k Hk Hu; [discriminate|].
  destruct (f a) eqn:Fa; simpl.
  - inversion Hk; subst. f_equal.
    assert (Hall : forall y, In y l -> f y = false).
    { intros y Hy. destruct (f y) eqn:Fy; auto. apply In_nth_error in Hy. destruct Hy as [i Hi].
      specialize (Hu (S i) y Hi Fy). discriminate. }
    clear -Hall. induction l as [|b l IH]; simpl; auto.
    rewrite (Hall b (or_introl eq_refl)); simpl. f_equal. apply IH. intros; apply Hall; right; auto.
  - destruct (find_index f l) as [k'|] eqn:E; simpl in Hk; [|discriminate]. inversion Hk; subst.
    f_equal. apply (IH k' eq_refl). intros i y Hi Fy. specialize (Hu (S i) y Hi Fy). lia.
Qed.

(* ------------------------------------------------------------------ well-formedness *)

Record wf (b : bm) : Prop := mkWf {
  wf_len : length (links b) = length (iin b);
  wf_rng : forall i j, nth_error (links b) i = Some (Some j) -> j < length (iout b);
  wf_ndi : NoDup (iin b);
  wf_ndo : NoDup (iout b);
  wf_in  : forall e, In e (iin b) <-> ep_ok_in b e = true;
  wf_out : forall e, In e (iout b) <-> ep_ok_out b e = true;
  wf_pr  : forall d, In d (procs b) -> d < length (doms b)
}.

Lemma wf_empty d : wf (empty_bm d).
Proof.
  constructor; simpl; auto; try constructor; try tauto.
  - intros [|i] j H; discriminate.
  - destruct e; simpl; try discriminate; destruct p; discriminate.
  - destruct e; simpl; try discriminate; destruct p; discriminate.
Qed.

Ltac nb := rewrite ?Nat.ltb_lt, ?Nat.ltb_ge, ?Nat.eqb_eq, ?Nat.eqb_neq in *.

Lemma wf_add_input b : wf b -> wf (add_input b).
Proof.
  intros [Hl Hr Hi Ho Hin Hout Hp]. unfold add_input. constructor; simpl; auto.
  - intros i j H. rewrite app_length; simpl. specialize (Hr i j H). lia.
  - apply NoDup_app_one. { auto. }
    intro H. apply Hout in H. simpl in H. nb. lia.
  - intro e. rewrite in_app_iff, Hout. simpl.
    destruct e; simpl; try (split; [intros [H|[H|[]]]; [auto|discriminate]|auto]).
    + split.
      * intros [H|[H|[]]]; nb; [lia|inversion H; lia].
      * intro H; nb. destruct (Nat.eq_dec r (inputs b)); [right; left; subst; auto|left; nb; lia].
Qed.

Lemma ok_in_PI b p i :
  ep_ok_in b (PI p i) = true <->
  exists d n m, nth_error (procs b) p = Some d /\ nth_error (doms b) d = Some (n, m) /\ i < n.
Proof.
  simpl. split.
  - destruct (nth_error (procs b) p) as [d|] eqn:E1; [|discriminate].
    destruct (nth_error (doms b) d) as [[n m]|] eqn:E2; [|discriminate].
    intro H; nb. exists d, n, m; auto.
  - intros (d&n&m&H1&H2&H3). rewrite H1, H2. nb; auto.
Qed.

Lemma ok_out_PO b p i :
  ep_ok_out b (PO p i) = true <->
  exists d n m, nth_error (procs b) p = Some d /\ nth_error (doms b) d = Some (n, m) /\ i < m.
Proof.
  simpl. split.
  - destruct (nth_error (procs b) p) as [d|] eqn:E1; [|discriminate].
    destruct (nth_error (doms b) d) as [[n m]|] eqn:E2; [|discriminate].
    intro H; nb. exists d, n, m; auto.
  - intros (d&n&m&H1&H2&H3). rewrite H1, H2. nb; auto.
Qed.

Lemma wf_add_output b : wf b -> wf (add_output b).
Proof.
  intros [Hl Hr Hi Ho Hin Hout Hp]. unfold add_output. constructor; simpl; auto.
  - rewrite !app_length; simpl; lia.
  - intros i j H. destruct (Nat.lt_ge_cases i (length (links b))).
    + rewrite nth_error_app1 in H by auto. eauto.
    + rewrite nth_error_app2 in H by auto. destruct (i - length (links b)) as [|[|k]]; simpl in H; discriminate.
  - apply NoDup_app_one; auto. intro H. apply Hin in H. simpl in H. nb. lia.
  - intro e. rewrite in_app_iff, Hin. simpl.
    destruct e; simpl; try (split; [intros [H|[H|[]]]; [auto|discriminate]|auto]).
    split.
    + intros [H|[H|[]]]; nb; [lia|inversion H; lia].
    + intro H; nb. destruct (Nat.eq_dec r (outputs b)); [right; left; subst; auto|left; nb; lia].
Qed.

Lemma nth_error_repeat_None {A} n i (x : option A) : nth_error (repeat (@None A) n) i = Some x -> x = None.
Proof. revert i; induction n; destruct i; simpl; intros; try discriminate; [congruence|eauto]. Qed.

Lemma in_map_seq (f : nat -> ep) n e : In e (map f (seq 0 n)) <-> exists i, i < n /\ e = f i.
Proof.
  rewrite in_map_iff. split.
  - intros (i & Hi & Hin). apply in_seq in Hin. exists i; split; [lia|auto].
  - intros (i & Hi & He). exists i; split; auto. apply in_seq; lia.
Qed.

Lemma NoDup_map_seq (f : nat -> ep) n : (forall i j, f i = f j -> i = j) -> NoDup (map f (seq 0 n)).
Proof. intro Hinj. apply NoDup_map_in; [apply seq_NoDup|]. intros; apply Hinj; auto. Qed.

Lemma wf_add_proc b d : wf b -> d < length (doms b) -> wf (add_proc b d).
Proof.
  intros [Hl Hr Hi Ho Hin Hout Hp] Hd. unfold add_proc.
  destruct (nth_error (doms b) d) as [[n m]|] eqn:Hnd; [|apply nth_error_None in Hnd; lia].
  rewrite (nth_error_nth _ _ (0,0) Hnd).
  assert (Hnew : nth_error (procs b ++ [d]) (length (procs b)) = Some d).
  { rewrite nth_error_app2 by lia. rewrite Nat.sub_diag; auto. }
  assert (Hold : forall q, q < length (procs b) -> nth_error (procs b ++ [d]) q = nth_error (procs b) q).
  { intros; apply nth_error_app1; auto. }
  assert (Hhi : forall q, length (procs b) < q -> nth_error (procs b ++ [d]) q = None /\ nth_error (procs b) q = None).
  { intros; split; apply nth_error_None; rewrite ?app_length; simpl; lia. }
  constructor; simpl; auto.
  - rewrite !app_length, map_length, seq_length, repeat_length; lia.
  - intros i j H. rewrite app_length. destruct (Nat.lt_ge_cases i (length (links b))).
    + rewrite nth_error_app1 in H by auto. specialize (Hr i j H). lia.
    + rewrite nth_error_app2 in H by auto. apply nth_error_repeat_None in H; discriminate.
  - apply NoDup_app_intro; auto.
    + apply NoDup_map_seq. intros i j H; inversion H; auto.
    + intros x H1 H2. apply in_map_seq in H2. destruct H2 as (i & _ & ->).
      apply Hin in H1. apply ok_in_PI in H1. destruct H1 as (?&?&?&H1&_).
      assert (nth_error (procs b) (length (procs b)) = None) by (apply nth_error_None; lia). congruence.
  - apply NoDup_app_intro; auto.
    + apply NoDup_map_seq. intros i j H; inversion H; auto.
    + intros x H1 H2. apply in_map_seq in H2. destruct H2 as (i & _ & ->).
      apply Hout in H1. apply ok_out_PO in H1. destruct H1 as (?&?&?&H1&_).
      assert (nth_error (procs b) (length (procs b)) = None) by (apply nth_error_None; lia). congruence.
  - intro e. rewrite in_app_iff, Hin, in_map_seq.
    destruct e as [r|r|p i|p i]; try (simpl; split; [intros [H|(j&_&H)]; [exact H|discriminate H]|intro H; left; exact H]).
    destruct (lt_eq_lt_dec p (length (procs b))) as [[Hlt|Heq]|Hgt].
    + simpl. rewrite Hold by auto. split; [intros [H|(j&_&H)]; [auto|inversion H; lia]|auto].
    + subst p. simpl. rewrite Hnew, Hnd.
      assert (HN : nth_error (procs b) (length (procs b)) = None) by (apply nth_error_None; lia). rewrite HN.
      nb. split.
      * intros [H|(j&Hj&H)]; [discriminate|inversion H; subst; auto].
      * intro; right; exists i; auto.
    + simpl. destruct (Hhi p Hgt) as [H1 H2]. rewrite H1, H2.
      split; [intros [H|(j&_&H)]; [auto|inversion H; lia]|discriminate].
  - intro e. rewrite in_app_iff, Hout, in_map_seq.
    destruct e as [r|r|p i|p i]; try (simpl; split; [intros [H|(j&_&H)]; [exact H|discriminate H]|intro H; left; exact H]).
    destruct (lt_eq_lt_dec p (length (procs b))) as [[Hlt|Heq]|Hgt].
    + simpl. rewrite Hold by auto. split; [intros [H|(j&_&H)]; [auto|inversion H; lia]|auto].
    + subst p. simpl. rewrite Hnew, Hnd.
      assert (HN : nth_error (procs b) (length (procs b)) = None) by (apply nth_error_None; lia). rewrite HN.
      nb. split.
      * intros [H|(j&Hj&H)]; [discriminate|inversion H; subst; auto].
      * intro; right; exists i; auto.
    + simpl. destruct (Hhi p Hgt) as [H1 H2]. rewrite H1, H2.
      split; [intros [H|(j&_&H)]; [auto|inversion H; lia]|discriminate].
  - intros x Hx. apply in_app_iff in Hx. destruct Hx as [Hx|[Hx|[]]]; [auto|subst; auto].
Qed.

Lemma wf_add_bond b n0 n1 : wf b -> wf (add_bond b n0 n1).
Proof.
  intros W. unfold add_bond.
  destruct (find_index _ (iin b)) as [i|] eqn:Ei; auto.
  destruct (find_index (name_is _) (iout b)) as [j|] eqn:Ej; auto.
  destruct W as [Hl Hr Hi Ho Hin Hout Hp].
  apply find_index_some in Ej. destruct Ej as (x & Hx & _).
  assert (j < length (iout b)) by (apply nth_error_Some; congruence).
  constructor; simpl; auto.
  - rewrite set_nth_length; auto.
  - intros i' j' H'. destruct (Nat.eq_dec i i').
    + subst. destruct (Nat.lt_ge_cases i' (length (links b))).
      * rewrite set_nth_nth_eq in H' by auto. inversion H'; subst; auto.
      * assert (nth_error (set_nth i' (Some j) (links b)) i' = None)
          by (apply nth_error_None; rewrite set_nth_length; auto). congruence.
    + rewrite set_nth_nth_neq in H' by auto. eauto.
Qed.

Lemma wf_del_bond b k : wf b -> wf (del_bond b k).
Proof.
  intros [Hl Hr Hi Ho Hin Hout Hp]. unfold del_bond. constructor; simpl; auto.
  - rewrite set_nth_length; auto.
  - intros i' j' H'. destruct (Nat.eq_dec k i').
    + subst. destruct (Nat.lt_ge_cases i' (length (links b))).
      * rewrite set_nth_nth_eq in H' by auto. discriminate.
      * assert (nth_error (set_nth i' None (links b)) i' = None)
          by (apply nth_error_None; rewrite set_nth_length; auto). congruence.
    + rewrite set_nth_nth_neq in H' by auto. eauto.
Qed.

(* ---------------- deletion of an external port ---------------- *)

Lemma in_ren_filter (isx : ep -> bool) (ren : ep -> ep) l e :
  In e (map ren (filter (fun x => negb (isx x)) l)) <-> exists x, In x l /\ isx x = false /\ ren x = e.
Proof.
  rewrite in_map_iff. split.
  - intros (x & Hx & Hin). apply filter_In in Hin. destruct Hin as [Hin Hn]. apply negb_true_iff in Hn. eauto.
  - intros (x & Hin & Hn & Hx). exists x; split; auto. apply filter_In; split; auto. rewrite Hn; auto.
Qed.

Lemma ren_BI_inj r x y : is_BI r x = false -> is_BI r y = false -> ren_BI r x = ren_BI r y -> x = y.
Proof.
  destruct x, y; simpl; intros Hx Hy H; try congruence;
    try (destruct (Nat.ltb_spec r r0); discriminate);
    try (destruct (Nat.ltb_spec r r1); discriminate).
  nb. destruct (Nat.ltb_spec r r0), (Nat.ltb_spec r r1); inversion H; f_equal; lia.
Qed.

Lemma ren_BO_inj r x y : is_BO r x = false -> is_BO r y = false -> ren_BO r x = ren_BO r y -> x = y.
Proof.
  destruct x, y; simpl; intros Hx Hy H; try congruence;
    try (destruct (Nat.ltb_spec r r0); discriminate);
    try (destruct (Nat.ltb_spec r r1); discriminate).
  nb. destruct (Nat.ltb_spec r r0), (Nat.ltb_spec r r1); inversion H; f_equal; lia.
Qed.

Lemma NoDup_ren_filter (isx : ep -> bool) (ren : ep -> ep) (l : list ep) :
  NoDup l -> (forall x y, isx x = false -> isx y = false -> ren x = ren y -> x = y) ->
  NoDup (map ren (filter (fun x : ep => negb (isx x)) l)).
Proof.
  intros ND Hinj. apply NoDup_map_in; [apply NoDup_filter; auto|].
  intros x y Hx Hy. apply filter_In in Hx, Hy. destruct Hx as [_ Hx], Hy as [_ Hy].
  apply negb_true_iff in Hx, Hy. auto.
Qed.

Lemma rng_as_In (l : list (option nat)) (P : nat -> Prop) :
  (forall i j, nth_error l i = Some (Some j) -> P j) <-> (forall j, In (Some j) l -> P j).
Proof.
  split; intros H.
  - intros j Hin. apply In_nth_error in Hin. destruct Hin as [i Hi]. eauto.
  - intros i j Hi. apply H. eapply nth_error_In; eauto.
Qed.

Lemma wf_del_input b r : wf b -> r < inputs b -> wf (del_input b r).
Proof.
  intros [Hl Hr Hi Ho Hin Hout Hp] Hlt.
  assert (HinBI : In (BI r) (iout b)) by (apply Hout; simpl; nb; auto).
  destruct (find_index_exists (is_BI r) (iout b) (BI r) HinBI) as [kp Hkp]; [apply is_BI_iff; auto|].
  assert (Huniq : forall i y, nth_error (iout b) i = Some y -> is_BI r y = true -> i = kp).
  { intros i y Hy Hf. apply is_BI_iff in Hf; subst y.
    destruct (find_index_some _ _ _ Hkp) as (x & Hx & Fx & _). apply is_BI_iff in Fx; subst x.
    eapply NoDup_nth_inj; eauto. }
  pose proof (filter_remove_length _ _ _ Hkp Huniq) as Hlen.
  unfold del_input. rewrite Hkp. constructor; simpl; auto.
  - rewrite !map_length; auto.
  - apply rng_as_In. intros j Hj. rewrite map_length.
    apply in_map_iff in Hj. destruct Hj as ([j1|] & Hj1 & Hin1); [|discriminate].
    apply in_map_iff in Hin1. destruct Hin1 as ([j0|] & Hj0 & Hin0); [|discriminate].
    assert (Hj0r : j0 < length (iout b)). { apply In_nth_error in Hin0. destruct Hin0 as [i Hi']. eauto. }
    destruct (nth_error (iout b) j0) as [e|] eqn:He; [|apply nth_error_None in He; lia].
    destruct (is_BI r e) eqn:Fe; [discriminate|]. inversion Hj0; subst j1.
    assert (j0 <> kp). { intro; subst j0. destruct (find_index_some _ _ _ Hkp) as (x & Hx & Fx & _). congruence. }
    assert (kp < length (iout b)). { destruct (find_index_some _ _ _ Hkp) as (x & Hx & _). apply nth_error_Some; congruence. }
    destruct (Nat.ltb_spec kp j0); inversion Hj1; subst; lia.
  - apply NoDup_ren_filter; auto. apply ren_BI_inj.
  - intro e. rewrite in_ren_filter. split.
    + intros (x & Hx & Fx & <-). apply Hout in Hx.
      destruct x as [k|k|p i|p i]; simpl in *; auto.
      nb. destruct (Nat.ltb_spec r k); simpl; nb; lia.
    + intro H. destruct e as [k|k|p i|p i]; simpl in H; try discriminate.
      * nb. destruct (Nat.lt_ge_cases k r).
        -- exists (BI k); repeat split; [apply Hout; unfold ep_ok_out; apply Nat.ltb_lt; lia|unfold is_BI; apply Nat.eqb_neq; lia|].
           unfold ren_BI. destruct (Nat.ltb_spec r k); auto; lia.
        -- exists (BI (S k)); repeat split; [apply Hout; unfold ep_ok_out; apply Nat.ltb_lt; lia|unfold is_BI; apply Nat.eqb_neq; lia|].
           unfold ren_BI. destruct (Nat.ltb_spec r (S k)); [f_equal; lia|lia].
      * exists (PO p i); repeat split; auto. apply Hout; auto.
Qed.

Lemma dow_spec r ii ll :
  length ll = length ii ->
  fst (del_output_walk r ii ll) = map (ren_BO r) (filter (fun x => negb (is_BO r x)) ii) /\
  length (snd (del_output_walk r ii ll)) = length (fst (del_output_walk r ii ll)) /\
  (forall x, In x (snd (del_output_walk r ii ll)) -> In x ll).
Proof.
  revert ll; induction ii as [|e ii IH]; intros [|l ll] Hlen; try discriminate.
  - simpl. repeat split; auto.
  - injection Hlen as Hlen. specialize (IH ll Hlen). simpl.
    destruct (del_output_walk r ii ll) as [a c]; simpl in *.
    destruct IH as (H1 & H2 & H3). destruct (is_BO r e); simpl; repeat split; auto.
    + f_equal; auto.
    + intros x [Hx|Hx]; auto.
Qed.

Lemma wf_del_output b r : wf b -> r < outputs b -> wf (del_output b r).
Proof.
  intros [Hl Hr Hi Ho Hin Hout Hp] Hlt. unfold del_output.
  destruct (dow_spec r (iin b) (links b) Hl) as (H1 & H2 & H3).
  destruct (del_output_walk r (iin b) (links b)) as [ii' ll']; simpl in *. subst ii'.
  constructor; simpl; auto.
  - apply rng_as_In. intros j Hj. apply H3 in Hj. revert j Hj. apply rng_as_In. auto.
  - apply NoDup_ren_filter; auto. apply ren_BO_inj.
  - intro e. rewrite in_ren_filter. split.
    + intros (x & Hx & Fx & <-). apply Hin in Hx.
      destruct x as [k|k|p i|p i]; simpl in *; auto.
      nb. destruct (Nat.ltb_spec r k); simpl; nb; lia.
    + intro H. destruct e as [k|k|p i|p i]; simpl in H; try discriminate.
      * nb. destruct (Nat.lt_ge_cases k r).
        -- exists (BO k); repeat split; [apply Hin; unfold ep_ok_in; apply Nat.ltb_lt; lia|unfold is_BO; apply Nat.eqb_neq; lia|].
           unfold ren_BO. destruct (Nat.ltb_spec r k); auto; lia.
        -- exists (BO (S k)); repeat split; [apply Hin; unfold ep_ok_in; apply Nat.ltb_lt; lia|unfold is_BO; apply Nat.eqb_neq; lia|].
           unfold ren_BO. destruct (Nat.ltb_spec r (S k)); [f_equal; lia|lia].
      * exists (PI p i); repeat split; auto. apply Hin; auto.
Qed.

(* appending a domain changes nothing that is well formed *)
Definition add_dom (b : bm) (d : nat * nat) : bm :=
  mkBM (inputs b) (outputs b) (doms b ++ [d]) (procs b) (iin b) (iout b) (links b).

Lemma wf_add_dom b d : wf b -> wf (add_dom b d).
Proof.
  intros [Hl Hr Hi Ho Hin Hout Hp]. unfold add_dom.
  assert (Hnth : forall p dd, nth_error (procs b) p = Some dd -> nth_error (doms b ++ [d]) dd = nth_error (doms b) dd).
  { intros p dd H. apply nth_error_app1. apply Hp. eapply nth_error_In; eauto. }
  constructor; simpl; auto.
  - intro e. rewrite Hin. destruct e as [k|k|p i|p i]; simpl; try tauto.
    destruct (nth_error (procs b) p) eqn:E; [|tauto]. rewrite (Hnth _ _ E). tauto.
  - intro e. rewrite Hout. destruct e as [k|k|p i|p i]; simpl; try tauto.
    destruct (nth_error (procs b) p) eqn:E; [|tauto]. rewrite (Hnth _ _ E). tauto.
  - intros x Hx. rewrite app_length. specialize (Hp x Hx). lia.
Qed.

Lemma wf_attach b n0 n1 : wf b -> wf (attach_bench b n0 n1).
Proof.
  intro W. unfold attach_bench.
  apply wf_add_bond, wf_add_output, wf_add_bond, wf_add_bond.
  apply (wf_add_proc (add_dom b (2,1))).
  - apply wf_add_dom; auto.
  - simpl. rewrite app_length; simpl; lia.
Qed.

Theorem wf_step b o : wf b -> wf (step b o).
Proof.
  intro W. unfold step, apply. destruct o; simpl.
  - apply wf_add_input; auto.
  - destruct (i <? 0)%Z; simpl; auto. destruct (Nat.ltb_spec (Z.to_nat i) (inputs b)); simpl; auto.
    apply wf_del_input; auto.
  - apply wf_add_output; auto.
  - destruct (o <? 0)%Z; simpl; auto. destruct (Nat.ltb_spec (Z.to_nat o) (outputs b)); simpl; auto.
    apply wf_del_output; auto.
  - destruct (d <? 0)%Z; simpl; auto. destruct (Nat.ltb_spec (Z.to_nat d) (length (doms b))); simpl; auto.
    apply wf_add_proc; auto.
  - apply wf_add_bond; auto.
  - destruct (k <? 0)%Z; simpl; auto. destruct (Nat.ltb (Z.to_nat k) (length (links b))); simpl; auto.
    apply wf_del_bond; auto.
  - destruct (is_out_name b a && is_out_name b b0); simpl; auto. apply wf_attach; auto.
Qed.

Theorem edits_preserve_wf_all d ops : wf (run d ops).
Proof.
  unfold run. assert (H : wf (empty_bm d)) by apply wf_empty.
  revert H. generalize (empty_bm d). induction ops as [|o ops IH]; simpl; intros b W; auto.
  apply IH. apply wf_step; auto.
Qed.

(* ------------------------------------------------------------------ refinement *)

Definition bonds_eq (A B : list (ep * ep)) : Prop := forall p, In p A <-> In p B.

Record seq (s t : spec) : Prop := mkSeq {
  sq_in : s_inputs s = s_inputs t; sq_out : s_outputs s = s_outputs t;
  sq_doms : s_doms s = s_doms t; sq_procs : s_procs s = s_procs t;
  sq_bonds : bonds_eq (s_bonds s) (s_bonds t)
}.

Lemma seq_refl s : seq s s.
Proof. constructor; auto. intro; tauto. Qed.
Lemma seq_trans s t u : seq s t -> seq t u -> seq s u.
Proof.
  intros [] []; constructor; try congruence. intro p. rewrite (sq_bonds0 p). apply sq_bonds1.
Qed.
Lemma seq_sym s t : seq s t -> seq t s.
Proof. intros []; constructor; auto. intro p; symmetry; auto. Qed.

Lemma bonds_walk_In io ii ll s e :
  length ll = length ii ->
  (In (s, e) (bonds_walk io ii ll) <->
   exists i j, nth_error ii i = Some e /\ nth_error ll i = Some (Some j) /\ nth_error io j = Some s).
Proof.
  revert ll; induction ii as [|a ii IH]; intros [|l ll] Hlen; try discriminate.
  - simpl. split; [tauto|]. intros ([|i] & j & H & _); discriminate.
  - injection Hlen as Hlen. specialize (IH ll Hlen). simpl.
    assert (Hshift : (exists i j, nth_error (a :: ii) i = Some e /\ nth_error (l :: ll) i = Some (Some j) /\ nth_error io j = Some s)
                     <-> (a = e /\ exists j, l = Some j /\ nth_error io j = Some s) \/
                         (exists i j, nth_error ii i = Some e /\ nth_error ll i = Some (Some j) /\ nth_error io j = Some s)).
    { split.
      - intros ([|i] & j & H1 & H2 & H3); simpl in *.
        + left. inversion H1; inversion H2; subst. eauto.
        + right; eauto.
      - intros [(-> & j & -> & H)|(i & j & H1 & H2 & H3)].
        + exists 0, j; simpl; auto.
        + exists (S i), j; simpl; auto. }
    rewrite Hshift, <- IH. clear Hshift IH.
    destruct l as [j|]; [destruct (nth_error io j) as [x|] eqn:Ex|]; simpl.
    + split.
      * intros [H|H]; auto. inversion H; subst. left; split; auto. exists j; auto.
      * intros [(-> & j' & Hj & Hs)|H]; auto. inversion Hj; subst. left. congruence.
    + split; auto. intros [(-> & j' & Hj & Hs)|H]; auto. inversion Hj; subst; congruence.
    + split; auto. intros [(-> & j' & Hj & Hs)|H]; auto. discriminate.
Qed.

Lemma bond_set_In b s e :
  wf b ->
  (In (s, e) (bond_set b) <->
   exists i j, nth_error (iin b) i = Some e /\ nth_error (links b) i = Some (Some j) /\ nth_error (iout b) j = Some s).
Proof. intro W. apply bonds_walk_In. apply W. Qed.

Lemma bonds_walk_io_app io ext ii ll :
  (forall j, In (Some j) ll -> j < length io) -> bonds_walk (io ++ ext) ii ll = bonds_walk io ii ll.
Proof.
  revert ll; induction ii as [|a ii IH]; intros [|l ll] H; simpl; auto.
  rewrite IH by (intros; apply H; right; auto).
  destruct l as [j|]; auto. rewrite nth_error_app1; auto. apply H; left; auto.
Qed.

Lemma bonds_walk_app io ii ii2 ll ll2 :
  length ll = length ii ->
  bonds_walk io (ii ++ ii2) (ll ++ ll2) = bonds_walk io ii ll ++ bonds_walk io ii2 ll2.
Proof.
  revert ll; induction ii as [|a ii IH]; intros [|l ll] H; try discriminate; simpl; auto.
  injection H as H. rewrite IH by auto. destruct l as [j|]; auto. destruct (nth_error io j); auto.
Qed.

Lemma bonds_walk_none io ii n : bonds_walk io ii (repeat None n) = [].
Proof. revert n; induction ii; destruct n; simpl; auto. Qed.

Lemma wf_rng_In b : wf b -> forall j, In (Some j) (links b) -> j < length (iout b).
Proof. intro W. apply rng_as_In. apply W. Qed.

(* -- additions leave the bond set alone -- *)

Lemma bs_add_input b : wf b -> bond_set (add_input b) = bond_set b.
Proof. intro W. unfold bond_set, add_input; simpl. apply bonds_walk_io_app. apply wf_rng_In; auto. Qed.

Lemma bs_add_output b : wf b -> bond_set (add_output b) = bond_set b.
Proof.
  intro W. unfold bond_set, add_output; simpl. rewrite bonds_walk_app by apply W.
  simpl. apply app_nil_r.
Qed.

Lemma bs_add_dom b d : bond_set (add_dom b d) = bond_set b.
Proof. reflexivity. Qed.

Lemma bs_add_proc b d : wf b -> bond_set (add_proc b d) = bond_set b.
Proof.
  intro W. unfold add_proc. destruct (nth d (doms b) (0,0)) as [n m]. unfold bond_set; simpl.
  rewrite bonds_walk_app by apply W. rewrite bonds_walk_none, app_nil_r.
  apply bonds_walk_io_app. apply wf_rng_In; auto.
Qed.

(* -- del_bond -- *)

Lemma bs_del_bond b k e :
  wf b -> nth_error (iin b) k = Some e ->
  bonds_eq (bond_set (del_bond b k)) (filter (fun p => negb (ep_eqb (snd p) e)) (bond_set b)).
Proof.
  intros W Hk [s e']. rewrite filter_In. rewrite (bond_set_In b) by auto.
  rewrite (bond_set_In (del_bond b k)) by (apply wf_del_bond; auto). simpl.
  split.
  - intros (i & j & H1 & H2 & H3). destruct (Nat.eq_dec k i).
    + subst i. destruct (Nat.lt_ge_cases k (length (links b))).
      * rewrite set_nth_nth_eq in H2 by auto. discriminate.
      * assert (nth_error (set_nth k None (links b)) k = None) by (apply nth_error_None; rewrite set_nth_length; auto).
        congruence.
    + rewrite set_nth_nth_neq in H2 by auto. split; [eauto|].
      apply negb_true_iff, ep_eqb_neq. intro; subst e'. apply n.
      eapply NoDup_nth_inj; eauto. apply W.
  - intros ((i & j & H1 & H2 & H3) & Hne). apply negb_true_iff, ep_eqb_neq in Hne.
    exists i, j. repeat split; auto. rewrite set_nth_nth_neq; auto. intro; subst. congruence.
Qed.

(* -- add_bond -- *)

Lemma kinds_disjoint b e : wf b -> In e (iin b) -> In e (iout b) -> False.
Proof.
  intros W H1 H2. apply W in H1. apply W in H2. destruct e; simpl in *; discriminate.
Qed.

Lemma bs_connect b i j ein eout :
  wf b -> nth_error (iin b) i = Some ein -> nth_error (iout b) j = Some eout ->
  bonds_eq (bond_set (mkBM (inputs b) (outputs b) (doms b) (procs b) (iin b) (iout b) (set_nth i (Some j) (links b))))
           ((eout, ein) :: filter (fun p => negb (ep_eqb (snd p) ein)) (bond_set b)).
Proof.
  intros W Hi Hj [s e'].
  assert (Hil : i < length (links b)). { rewrite (wf_len _ W). apply nth_error_Some; congruence. }
  simpl. rewrite filter_In. rewrite (bond_set_In b) by auto.
  unfold bond_set; simpl. rewrite bonds_walk_In by (rewrite set_nth_length; apply W). simpl.
  split.
  - intros (i' & j' & H1 & H2 & H3). destruct (Nat.eq_dec i i').
    + subst i'. rewrite set_nth_nth_eq in H2 by auto. inversion H2; subst j'. left. congruence.
    + rewrite set_nth_nth_neq in H2 by auto. right. split; [eauto|].
      apply negb_true_iff, ep_eqb_neq. intro; subst e'. apply n. eapply NoDup_nth_inj; eauto. apply W.
  - intros [H|((i' & j' & H1 & H2 & H3) & Hne)].
    + inversion H; subst. exists i, j. repeat split; auto. apply set_nth_nth_eq; auto.
    + apply negb_true_iff, ep_eqb_neq in Hne. exists i', j'. repeat split; auto.
      rewrite set_nth_nth_neq; auto. intro; subst; congruence.
Qed.

Lemma has_in_abs b e : wf b -> (s_has_in (abs b) e = true <-> In e (iin b)).
Proof. intro W. rewrite (wf_in _ W). destruct e; simpl; tauto. Qed.
Lemma has_out_abs b e : wf b -> (s_has_out (abs b) e = true <-> In e (iout b)).
Proof. intro W. rewrite (wf_out _ W). destruct e; simpl; tauto. Qed.

Lemma find_name_out b n :
  wf b ->
  match find_index (name_is n) (iout b) with
  | Some j => exists e, n = Name e /\ nth_error (iout b) j = Some e /\ n_has_out (abs b) n = true
  | None => n_has_out (abs b) n = false
  end.
Proof.
  intro W. destruct (find_index (name_is n) (iout b)) as [j|] eqn:E.
  - apply find_index_some in E. destruct E as (x & Hx & Fx & _). apply name_is_iff in Fx. subst n.
    exists x; repeat split; auto. simpl. apply has_out_abs; auto. eapply nth_error_In; eauto.
  - destruct n as [e|]; simpl; auto. destruct (s_has_out (abs b) e) eqn:Ho; auto.
    apply has_out_abs in Ho; auto. pose proof (find_index_none _ _ E e Ho) as F.
    simpl in F. rewrite ep_eqb_refl in F. discriminate.
Qed.

Lemma bs_add_bond b n0 n1 :
  wf b -> seq (abs (add_bond b n0 n1)) (s_add_bond (abs b) n0 n1).
Proof.
  intro W. unfold add_bond.
  destruct (find_index (fun e => name_is n0 e || name_is n1 e) (iin b)) as [i|] eqn:Ei.
  - destruct (find_index_some _ _ _ Ei) as (e & He & Fe & _).
    rewrite (nth_error_nth _ _ (BO 0) He).
    assert (Hein : In e (iin b)) by (eapply nth_error_In; eauto).
    destruct (name_is n0 e) eqn:F0.
    + (* sink is n0 *)
      apply name_is_iff in F0. subst n0. simpl s_add_bond.
      assert (Hhi : s_has_in (abs b) e = true) by (apply has_in_abs; auto). rewrite Hhi.
      pose proof (find_name_out b n1 W) as Fo.
      destruct (find_index (name_is n1) (iout b)) as [j|].
      * destruct Fo as (e1 & -> & Hj & Ho). simpl in Ho. rewrite Ho.
        constructor; simpl; auto. apply (bs_connect b i j e e1); auto.
      * destruct n1 as [e1|]; simpl in Fo; [rewrite Fo|]; apply seq_refl.
    + (* sink is n1 *)
      simpl in Fe. apply name_is_iff in Fe. subst n1.
      assert (Hhi : s_has_in (abs b) e = true) by (apply has_in_abs; auto).
      assert (Hn0 : match n0 with Name e0 => s_has_in (abs b) e0 = true -> n_has_out (abs b) (Name e) = false | Junk => True end).
      { destruct n0; auto. intros _. simpl. destruct (s_has_out (abs b) e) eqn:Ho; auto.
        apply has_out_abs in Ho; auto. exfalso; eapply kinds_disjoint; eauto. }
      pose proof (find_name_out b n0 W) as Fo.
      destruct (find_index (name_is n0) (iout b)) as [j|].
      * destruct Fo as (e0 & -> & Hj & Ho). simpl in Ho. simpl s_add_bond.
        destruct (s_has_in (abs b) e0) eqn:Hi0.
        { apply has_in_abs in Hi0; auto. apply nth_error_In in Hj. exfalso; eapply kinds_disjoint; eauto. }
        rewrite Hhi, Ho. constructor; simpl; auto. apply (bs_connect b i j e e0); auto.
      * destruct n0 as [e0|]; simpl s_add_bond; [|apply seq_refl].
        simpl in Fo. destruct (s_has_in (abs b) e0) eqn:Hi0.
        { simpl in Hn0. rewrite (Hn0 eq_refl). apply seq_refl. }
        rewrite Hhi, Fo. apply seq_refl.
  - (* no sink named *)
    assert (Hnone : forall e, In e (iin b) -> name_is n0 e = false /\ name_is n1 e = false).
    { intros e He. pose proof (find_index_none _ _ Ei e He) as F. simpl in F. apply orb_false_iff in F; auto. }
    assert (Hn : forall n, (forall e, In e (iin b) -> name_is n e = false) ->
                           match n with Name e => s_has_in (abs b) e = false | Junk => True end).
    { intros [e|] H; auto. destruct (s_has_in (abs b) e) eqn:Hi; auto. apply has_in_abs in Hi; auto.
      specialize (H e Hi). simpl in H. rewrite ep_eqb_refl in H; discriminate. }
    pose proof (Hn n0 (fun e He => proj1 (Hnone e He))) as H0.
    pose proof (Hn n1 (fun e He => proj2 (Hnone e He))) as H1.
    destruct n0 as [e0|]; simpl; [|apply seq_refl]. rewrite H0.
    destruct n1 as [e1|]; [rewrite H1|]; apply seq_refl.
Qed.

(* -- del_output: list equality -- *)

Lemma bs_del_output_walk io r ii ll :
  length ll = length ii ->
  bonds_walk io (fst (del_output_walk r ii ll)) (snd (del_output_walk r ii ll)) =
  map (fun p => (fst p, ren_BO r (snd p))) (filter (fun p => negb (is_BO r (snd p))) (bonds_walk io ii ll)).
Proof.
  revert ll; induction ii as [|e ii IH]; intros [|l ll] Hlen; try discriminate; auto.
  injection Hlen as Hlen. specialize (IH ll Hlen). simpl.
  destruct (del_output_walk r ii ll) as [a c]; simpl in *.
  destruct (is_BO r e) eqn:Fe; simpl.
  - rewrite IH. destruct l as [j|]; auto. destruct (nth_error io j); auto. simpl. rewrite Fe; auto.
  - rewrite IH. destruct l as [j|]; auto. destruct (nth_error io j); auto. simpl. rewrite Fe; auto.
Qed.

Lemma bs_del_output b r :
  wf b ->
  bond_set (del_output b r) =
  map (fun p => (fst p, ren_BO r (snd p))) (filter (fun p => negb (is_BO r (snd p))) (bond_set b)).
Proof.
  intro W. unfold del_output, bond_set.
  pose proof (bs_del_output_walk (iout b) r (iin b) (links b) (wf_len _ W)) as H.
  destruct (del_output_walk r (iin b) (links b)) as [a c]; simpl in *. auto.
Qed.

(* -- del_input -- *)

Lemma bs_del_input b r :
  wf b -> r < inputs b ->
  bonds_eq (bond_set (del_input b r))
           (map (fun p => (ren_BI r (fst p), snd p)) (filter (fun p => negb (is_BI r (fst p))) (bond_set b))).
Proof.
  intros W Hlt [s' e].
  pose proof (wf_del_input b r W Hlt) as W'.
  rewrite (bond_set_In _ s' e W').
  assert (HinBI : In (BI r) (iout b)) by (apply W; simpl; nb; auto).
  destruct (find_index_exists (is_BI r) (iout b) (BI r) HinBI) as [kp Hkp]; [apply is_BI_iff; auto|].
  assert (Huniq : forall i y, nth_error (iout b) i = Some y -> is_BI r y = true -> i = kp).
  { intros i y Hy Hf. apply is_BI_iff in Hf; subst y.
    destruct (find_index_some _ _ _ Hkp) as (x & Hx & Fx & _). apply is_BI_iff in Fx; subst x.
    eapply NoDup_nth_inj; eauto. apply W. }
  pose proof (filter_remove_nth _ _ _ Hkp Huniq) as Hnth.
  destruct (find_index_some _ _ _ Hkp) as (xk & Hxk & Fxk & _).
  unfold del_input; rewrite Hkp; simpl.
  rewrite in_map_iff. split.
  - intros (i & j' & H1 & H2 & H3).
    rewrite nth_error_map in H2. destruct (nth_error (map _ (links b)) i) as [l1|] eqn:E1; [|discriminate].
    rewrite nth_error_map in E1. destruct (nth_error (links b) i) as [l0|] eqn:E0; [|discriminate].
    simpl in E1, H2. destruct l0 as [j|]; [|inversion E1; subst; discriminate].
    assert (Hjr : j < length (iout b)) by (eapply (wf_rng _ W); eauto).
    destruct (nth_error (iout b) j) as [x|] eqn:Ex; [|apply nth_error_None in Ex; lia].
    destruct (is_BI r x) eqn:Fx; [inversion E1; subst; discriminate|].
    inversion E1; subst l1. clear E1.
    assert (Hjk : j <> kp) by (intro; subst; congruence).
    specialize (Hnth j Hjk).
    assert (j' = if kp <? j then j - 1 else j) by (destruct (kp <? j); congruence). subst j'.
    rewrite nth_error_map, Hnth, Ex in H3. simpl in H3. inversion H3; subst s'.
    exists (x, e); split; auto. apply filter_In; split; [|simpl; rewrite Fx; auto].
    apply (bond_set_In b x e W). eauto.
  - intros ([x e0] & Hp & Hin). simpl in Hp. inversion Hp; subst s' e0. clear Hp.
    apply filter_In in Hin. destruct Hin as [Hin Fx]. simpl in Fx. apply negb_true_iff in Fx.
    apply (bond_set_In b x e W) in Hin. destruct Hin as (i & j & H1 & H2 & H3).
    assert (Hjk : j <> kp) by (intro; subst; congruence).
    exists i, (if kp <? j then j - 1 else j). repeat split; auto.
    + rewrite nth_error_map, nth_error_map, H2. simpl. rewrite H3, Fx. simpl.
      destruct (kp <? j); auto.
    + rewrite nth_error_map, (Hnth j Hjk), H3. auto.
Qed.

(* -- every spec operation respects set equality of the bond component -- *)

Lemma bonds_eq_filter f A B : bonds_eq A B -> bonds_eq (filter f A) (filter f B).
Proof. intros H p. rewrite !filter_In, (H p). tauto. Qed.
Lemma bonds_eq_map (f : ep * ep -> ep * ep) A B : bonds_eq A B -> bonds_eq (map f A) (map f B).
Proof. intros H p. rewrite !in_map_iff. split; intros (x & Hx & Hin); exists x; split; auto; apply H; auto. Qed.
Lemma bonds_eq_cons x A B : bonds_eq A B -> bonds_eq (x :: A) (x :: B).
Proof. intros H p. simpl. rewrite (H p). tauto. Qed.

Lemma has_in_seq s t e : seq s t -> s_has_in s e = s_has_in t e.
Proof. intros [H1 H2 H3 H4 _]. destruct e; simpl; rewrite ?H1, ?H2, ?H3, ?H4; auto. Qed.
Lemma has_out_seq s t e : seq s t -> s_has_out s e = s_has_out t e.
Proof. intros [H1 H2 H3 H4 _]. destruct e; simpl; rewrite ?H1, ?H2, ?H3, ?H4; auto. Qed.

Lemma s_connect_seq s t a c : seq s t -> seq (s_connect s a c) (s_connect t a c).
Proof.
  intros H. pose proof H as []. constructor; simpl; auto. apply bonds_eq_cons, bonds_eq_filter; auto.
Qed.

Lemma s_add_bond_seq s t n0 n1 : seq s t -> seq (s_add_bond s n0 n1) (s_add_bond t n0 n1).
Proof.
  intro H. unfold s_add_bond.
  destruct n0 as [e0|]; auto.
  rewrite (has_in_seq s t e0 H). destruct (s_has_in t e0).
  - destruct n1 as [e1|]; auto. rewrite (has_out_seq s t e1 H). destruct (s_has_out t e1); auto.
    apply s_connect_seq; auto.
  - destruct n1 as [e1|]; auto. rewrite (has_in_seq s t e1 H). destruct (s_has_in t e1); auto.
    rewrite (has_out_seq s t e0 H). destruct (s_has_out t e0); auto. apply s_connect_seq; auto.
Qed.

Lemma spec_apply_seq s t o : seq s t -> seq (spec_apply s o) (spec_apply t o).
Proof.
  intro H. pose proof H as [H1 H2 H3 H4 H5]. destruct o.
  1-7,9: simpl; auto.
  - constructor; simpl; auto.
  - constructor; simpl; auto. apply bonds_eq_map, bonds_eq_filter; auto.
  - constructor; simpl; auto.
  - constructor; simpl; auto. apply bonds_eq_map, bonds_eq_filter; auto.
  - constructor; simpl; auto. congruence.
  - apply s_add_bond_seq; auto.
  - constructor; simpl; auto. apply bonds_eq_filter; auto.
  - unfold spec_apply. cbv zeta. rewrite H2, H3, H4.
    apply s_add_bond_seq.
    assert (E : forall u v, seq u v -> seq (s_add_output u) (s_add_output v)).
    { intros u v [E1 E2 E3 E4 E5]; constructor; simpl; auto. }
    apply E. apply s_add_bond_seq, s_add_bond_seq.
    constructor; simpl; auto; congruence.
Qed.

(* ------------------------------------------------------------------ one step refines the spec *)

Lemma add_proc_fields b d :
  inputs (add_proc b d) = inputs b /\ outputs (add_proc b d) = outputs b /\
  doms (add_proc b d) = doms b /\ procs (add_proc b d) = procs b ++ [d].
Proof. unfold add_proc. destruct (nth d (doms b) (0,0)); simpl; auto. Qed.

Lemma add_bond_fields b n0 n1 :
  inputs (add_bond b n0 n1) = inputs b /\ outputs (add_bond b n0 n1) = outputs b /\
  doms (add_bond b n0 n1) = doms b /\ procs (add_bond b n0 n1) = procs b.
Proof.
  unfold add_bond. destruct (find_index _ (iin b)); auto. destruct (find_index _ (iout b)); simpl; auto.
Qed.

Lemma chain_add_bond b s n0 n1 : wf b -> seq (abs b) s -> seq (abs (add_bond b n0 n1)) (s_add_bond s n0 n1).
Proof. intros W H. eapply seq_trans; [apply bs_add_bond; auto|apply s_add_bond_seq; auto]. Qed.

Lemma chain_add_output b s : wf b -> seq (abs b) s -> seq (abs (add_output b)) (s_add_output s).
Proof.
  intros W [H1 H2 H3 H4 H5]. constructor; simpl in *; auto.
  fold (bond_set (add_output b)). rewrite bs_add_output; auto.
Qed.

Lemma chain_add_proc b s d : wf b -> seq (abs b) s -> seq (abs (add_proc b d)) (s_add_proc s d).
Proof.
  intros W [H1 H2 H3 H4 H5]. destruct (add_proc_fields b d) as (F1 & F2 & F3 & F4).
  constructor; simpl in *; try congruence. rewrite bs_add_proc; auto.
Qed.

Lemma refines_attach b a c :
  wf b -> seq (abs (attach_bench b a c)) (spec_apply (abs b) (SAttach a c)).
Proof.
  intro W. unfold attach_bench, spec_apply. cbv zeta.
  fold (add_dom b (2,1)).
  assert (W1 : wf (add_dom b (2,1))) by (apply wf_add_dom; auto).
  assert (Hd : length (doms (add_dom b (2,1))) - 1 = length (doms b)) by (simpl; rewrite app_length; simpl; lia).
  rewrite Hd.
  assert (W2 : wf (add_proc (add_dom b (2,1)) (length (doms b)))).
  { apply wf_add_proc; auto. simpl; rewrite app_length; simpl; lia. }
  destruct (add_proc_fields (add_dom b (2,1)) (length (doms b))) as (F1 & F2 & F3 & F4).
  assert (Hp : length (procs (add_proc (add_dom b (2,1)) (length (doms b)))) - 1 = length (procs b)).
  { rewrite F4. simpl. rewrite app_length; simpl; lia. }
  rewrite Hp.
  set (b2 := add_proc (add_dom b (2,1)) (length (doms b))) in *.
  set (b3 := add_bond b2 (Name (PI (length (procs b)) 0)) a).
  set (b4 := add_bond b3 (Name (PI (length (procs b)) 1)) c).
  assert (W3 : wf b3) by (apply wf_add_bond; auto).
  assert (W4 : wf b4) by (apply wf_add_bond; auto).
  assert (Ho : outputs (add_output b4) - 1 = outputs b).
  { simpl. destruct (add_bond_fields b3 (Name (PI (length (procs b)) 1)) c) as (_ & G2 & _).
    destruct (add_bond_fields b2 (Name (PI (length (procs b)) 0)) a) as (_ & G3 & _).
    fold b4 in G2. fold b3 in G3. rewrite G2, G3, F2. simpl. lia. }
  rewrite Ho.
  apply chain_add_bond; [apply wf_add_output; auto|].
  apply chain_add_output; auto.
  apply chain_add_bond; auto. apply chain_add_bond; auto.
  apply chain_add_proc; auto.
  constructor; simpl; auto. intro; tauto.
Qed.

Theorem step_refines b o : wf b -> seq (abs (step b o)) (spec_apply (abs b) (abs_op b o)).
Proof.
  intro W. unfold step, abs_op. destruct o; simpl apply.
  - simpl. constructor; simpl; auto. fold (bond_set (add_input b)). rewrite bs_add_input; auto. intro; tauto.
  - destruct (i <? 0)%Z; [apply seq_refl|]. destruct (Nat.ltb_spec (Z.to_nat i) (inputs b)); [|apply seq_refl].
    simpl fst; simpl snd; cbv iota. constructor; simpl; auto. apply bs_del_input; auto.
  - simpl. apply chain_add_output; auto. apply seq_refl.
  - destruct (o <? 0)%Z; [apply seq_refl|]. destruct (Nat.ltb_spec (Z.to_nat o) (outputs b)); [|apply seq_refl].
    simpl fst; simpl snd; cbv iota. constructor; simpl; auto; try (unfold del_output; destruct (del_output_walk _ _ _); reflexivity).
    fold (bond_set (del_output b (Z.to_nat o))). rewrite bs_del_output; auto. intro; tauto.
  - destruct (d <? 0)%Z; [apply seq_refl|]. destruct (Nat.ltb_spec (Z.to_nat d) (length (doms b))); [|apply seq_refl].
    simpl fst; simpl snd; cbv iota. apply chain_add_proc; auto. apply seq_refl.
  - simpl. apply bs_add_bond; auto.
  - destruct (k <? 0)%Z; [apply seq_refl|]. destruct (Nat.ltb_spec (Z.to_nat k) (length (links b))); [|apply seq_refl].
    simpl fst; simpl snd; cbv iota.
    destruct (nth_error (iin b) (Z.to_nat k)) as [e|] eqn:E.
    + constructor; simpl; auto. apply bs_del_bond; auto.
    + apply nth_error_None in E. rewrite <- (wf_len _ W) in E. lia.
  - destruct (is_out_name b a && is_out_name b b0); [|apply seq_refl].
    simpl fst; simpl snd; cbv iota. apply refines_attach; auto.
Qed.

(* ------------------------------------------------------------------ histories *)

(* concrete machine and specification run side by side; the abstract operation is
   read off the concrete state (Del_bond addresses a bond by position) *)
Definition step2 (bs : bm * spec) (o : op) : bm * spec :=
  (step (fst bs) o, spec_apply (snd bs) (abs_op (fst bs) o)).
Definition run2 (d : list (nat * nat)) (ops : list op) : bm * spec :=
  fold_left step2 ops (empty_bm d, abs (empty_bm d)).

Lemma run2_fst d ops : fst (run2 d ops) = run d ops.
Proof.
  unfold run2, run. generalize (abs (empty_bm d)). generalize (empty_bm d).
  induction ops as [|o ops IH]; simpl; intros b s; auto. unfold step2 at 2; simpl. apply IH.
Qed.

Theorem edits_refine_spec_all d ops :
  wf (run d ops) /\ seq (abs (run d ops)) (snd (run2 d ops)).
Proof.
  rewrite <- run2_fst. unfold run2.
  assert (H : wf (fst (empty_bm d, abs (empty_bm d))) /\ seq (abs (fst (empty_bm d, abs (empty_bm d)))) (snd (empty_bm d, abs (empty_bm d)))).
  { simpl; split; [apply wf_empty|apply seq_refl]. }
  revert H. generalize (empty_bm d, abs (empty_bm d)).
  induction ops as [|o ops IH]; simpl; intros bs H; auto.
  apply IH. destruct H as [W S]. unfold step2; simpl. split; [apply wf_step; auto|].
  eapply seq_trans; [apply step_refines; auto|apply spec_apply_seq; auto].
Qed.

(* ------------------------------------------------------------------ untouched bonds *)

(* the renaming an edit applies to endpoint names (documented renumbering of external ports) *)
Definition rename_src (o : sop) (e : ep) : ep := match o with SDelInput r => ren_BI r e | _ => e end.
Definition rename_snk (o : sop) (e : ep) : ep := match o with SDelOutput r => ren_BO r e | _ => e end.

(* the bonds an edit addresses: those of a deleted port, the one deleted by position,
   and the one whose sink is re-bonded *)
Definition touches (s : spec) (o : sop) (p : ep * ep) : Prop :=
  match o with
  | SDelInput r => fst p = BI r
  | SDelOutput r => snd p = BO r
  | SDelBondOf e => snd p = e
  | SAddBond (Name e0) n1 =>
      if s_has_in s e0 then snd p = e0
      else match n1 with Name e1 => snd p = e1 | Junk => False end
  | _ => False
  end.

Lemma s_add_bond_keeps s n0 n1 p :
  In p (s_bonds s) ->
  (forall e0, n0 = Name e0 -> s_has_in s e0 = true -> snd p <> e0) ->
  (forall e0 e1, n0 = Name e0 -> n1 = Name e1 -> s_has_in s e0 = false -> snd p <> e1) ->
  In p (s_bonds (s_add_bond s n0 n1)).
Proof.
  intros Hin H0 H1. unfold s_add_bond. destruct n0 as [e0|]; auto.
  destruct (s_has_in s e0) eqn:Hi.
  - destruct n1 as [e1|]; auto. destruct (s_has_out s e1); auto. simpl. right.
    apply filter_In; split; auto. apply negb_true_iff, ep_eqb_neq. eapply H0; eauto.
  - destruct n1 as [e1|]; auto. destruct (s_has_in s e1); auto. destruct (s_has_out s e0); auto.
    simpl. right. apply filter_In; split; auto. apply negb_true_iff, ep_eqb_neq. eapply H1; eauto.
Qed.

Lemma spec_untouched s o p :
  In p (s_bonds s) -> ~ touches s o p -> (forall a c, o <> SAttach a c) ->
  In (rename_src o (fst p), rename_snk o (snd p)) (s_bonds (spec_apply s o)).
Proof.
  intros Hin Hnt Hna. destruct o; simpl in *; auto.
  - destruct p; auto.
  - apply in_map_iff. exists p. destruct p as [a c]; simpl in *. split; auto.
    apply filter_In; split; auto. apply negb_true_iff. destruct (is_BI r a) eqn:E; auto.
    apply is_BI_iff in E. contradiction.
  - destruct p; auto.
  - apply in_map_iff. exists p. destruct p as [a c]; simpl in *. split; auto.
    apply filter_In; split; auto. apply negb_true_iff. destruct (is_BO r c) eqn:E; auto.
    apply is_BO_iff in E. contradiction.
  - destruct p; auto.
  - destruct p as [x y]; simpl. apply s_add_bond_keeps; auto.
    + intros e0 -> Hi. simpl in Hnt. rewrite Hi in Hnt. auto.
    + intros e0 e1 -> -> Hi. simpl in Hnt. rewrite Hi in Hnt. auto.
  - destruct p as [x y]; simpl in *. apply filter_In; split; auto. apply negb_true_iff, ep_eqb_neq; auto.
  - exfalso; eapply Hna; eauto.
  - destruct p; auto.
Qed.

Lemma s_add_bond_has_in s n0 n1 e' : s_has_in (s_add_bond s n0 n1) e' = s_has_in s e'.
Proof.
  assert (C : forall a c, s_has_in (s_connect s a c) e' = s_has_in s e') by (intros; destruct e'; reflexivity).
  unfold s_add_bond.
  repeat match goal with |- context [match ?x with _ => _ end] => destruct x end; auto.
Qed.

Lemma bond_sink_exists b s e : wf b -> In (s, e) (bond_set b) -> In e (iin b).
Proof.
  intros W H. apply (bond_set_In b s e W) in H. destruct H as (i & j & H & _). eapply nth_error_In; eauto.
Qed.

Lemma spec_attach_keeps b a c p :
  wf b -> In p (bond_set b) -> In p (s_bonds (spec_apply (abs b) (SAttach a c))).
Proof.
  intros W Hin. destruct p as [x e].
  assert (He : In e (iin b)) by (eapply bond_sink_exists; eauto).
  assert (Hok : ep_ok_in b e = true) by (apply W; auto).
  unfold spec_apply. cbv zeta.
  set (s2 := s_add_proc (s_add_dom (abs b) (2, 1)) (length (s_doms (abs b)))).
  assert (Hnew : forall k, k < 2 -> s_has_in s2 (PI (length (procs b)) k) = true).
  { intros k Hk. simpl. rewrite nth_error_app2 by lia. rewrite Nat.sub_diag. simpl.
    rewrite nth_error_app2 by lia. rewrite Nat.sub_diag. simpl. apply Nat.ltb_lt; auto. }
  assert (Hne : forall k, e <> PI (length (procs b)) k).
  { intros k ->. apply ok_in_PI in Hok. destruct Hok as (?&?&?&H&_).
    assert (nth_error (procs b) (length (procs b)) = None) by (apply nth_error_None; lia). congruence. }
  apply s_add_bond_keeps.
  - unfold s_add_output; cbn [s_bonds]. apply s_add_bond_keeps; [apply s_add_bond_keeps; [exact Hin| |]| |].
    + intros e0 E _. inversion E; subst. apply Hne.
    + intros e0 e1 E _ Hf. inversion E; subst. rewrite (Hnew 0) in Hf by lia. discriminate.
    + intros e0 E _. inversion E; subst. apply Hne.
    + intros e0 e1 E _ Hf. inversion E; subst.
      rewrite s_add_bond_has_in, (Hnew 1) in Hf by lia. discriminate.
  - intros e0 E Hf. inversion E; subst. simpl in Hf. discriminate.
  - intros e0 e1 E1 E2 _. inversion E2; subst. simpl. intro; subst e. simpl in Hok.
    apply Nat.ltb_lt in Hok. lia.
Qed.

Theorem untouched_bonds_unchanged_all b o s e :
  wf b -> In (s, e) (bond_set b) -> ~ touches (abs b) (abs_op b o) (s, e) ->
  In (rename_src (abs_op b o) s, rename_snk (abs_op b o) e) (bond_set (step b o)).
Proof.
  intros W Hin Hnt. pose proof (step_refines b o W) as [_ _ _ _ Hb].
  apply Hb. simpl in Hb.
  destruct (abs_op b o) eqn:E.
  8: { simpl rename_src; simpl rename_snk. apply spec_attach_keeps; auto. }
  all: apply (spec_untouched (abs b) _ (s, e)); auto; intros; discriminate.
Qed.
