(* Proofs/QuantumUnitary.v — every matrix the quantum compiler emits is unitary when the gates are,
   and the software simulation maps a basis state to the corresponding column of the circuit's unitary.
   Coefficients: any commutative semiring with a conjugation (additive, multiplicative, fixing 0 and 1). *)
From Coq Require Import List Arith Bool Lia Permutation.
From BM Require Import Front.Quantum Front.QuantumSim Proofs.QuantumProofs Proofs.QuantumPlace Proofs.QuantumLayer Proofs.QuantumSeq.
Import ListNotations.

Section U.
Variable K : Type.
Variables (k0 k1 : K) (kadd kmul : K -> K -> K) (kconj : K -> K).
Notation mat := (mat K).
Notation qop := (qop K).

Hypothesis add0l : forall a, kadd k0 a = a.
Hypothesis add0r : forall a, kadd a k0 = a.
Hypothesis addA : forall a b c, kadd a (kadd b c) = kadd (kadd a b) c.
Hypothesis addC : forall a b, kadd a b = kadd b a.
Hypothesis mul1l : forall a, kmul k1 a = a.
Hypothesis mul1r : forall a, kmul a k1 = a.
Hypothesis mul0l : forall a, kmul k0 a = k0.
Hypothesis mul0r : forall a, kmul a k0 = k0.
Hypothesis mulA : forall a b c, kmul a (kmul b c) = kmul (kmul a b) c.
Hypothesis mulC : forall a b, kmul a b = kmul b a.
Hypothesis distl : forall a b c, kmul a (kadd b c) = kadd (kmul a b) (kmul a c).
Hypothesis conj0 : kconj k0 = k0.
Hypothesis conj1 : kconj k1 = k1.
Hypothesis conj_add : forall a b, kconj (kadd a b) = kadd (kconj a) (kconj b).
Hypothesis conj_mul : forall a b, kconj (kmul a b) = kmul (kconj a) (kconj b).

Notation sum := (sum K k0 kadd).
Notation mmul := (mmul K k0 kadd kmul).
Notation meq := (meq K).
Notation ident := (ident K k0 k1).
Notation dagger := (dagger K kconj).
Notation tensor := (tensor K kmul).
Notation conj_swap := (conj_swap K).

Ltac hyps := try assumption.

(* ---------- sums ---------- *)
Lemma s_cons {A} (f : A -> K) x l : sum f (x :: l) = kadd (f x) (sum f l).
Proof. apply sum_cons; hyps. Qed.
Lemma s_nil {A} (f : A -> K) : sum f [] = k0.
Proof. reflexivity. Qed.
Lemma s_app {A} (f : A -> K) l1 l2 : sum f (l1 ++ l2) = kadd (sum f l1) (sum f l2).
Proof.
  induction l1 as [|x l1 IH]; simpl app; [rewrite s_nil, add0l; reflexivity|].
  rewrite !s_cons, IH. apply addA.
Qed.
Lemma s_map {A B} (f : B -> K) (g : A -> B) l : sum f (map g l) = sum (fun x => f (g x)) l.
Proof. induction l as [|x l IH]; [reflexivity|]. simpl map. rewrite !s_cons, IH. reflexivity. Qed.
Lemma s_ext {A} (f g : A -> K) l : (forall k, In k l -> f k = g k) -> sum f l = sum g l.
Proof. apply sum_ext; hyps. Qed.
Lemma s_perm {A} (f : A -> K) l l' : Permutation l l' -> sum f l = sum f l'.
Proof.
  induction 1 as [|x l l' _ IH|x y l|l l' l'' _ IH1 _ IH2]; [reflexivity| | |congruence].
  - rewrite !s_cons, IH. reflexivity.
  - rewrite !s_cons, !addA, (addC (f y) (f x)). reflexivity.
Qed.
Lemma s_conj {A} (f : A -> K) l : kconj (sum f l) = sum (fun k => kconj (f k)) l.
Proof. induction l as [|x l IH]; [exact conj0|]. rewrite !s_cons, conj_add, IH. reflexivity. Qed.
Lemma s_single {A} (f : A -> K) l x : NoDup l -> In x l -> (forall k, In k l -> k <> x -> f k = k0) -> sum f l = f x.
Proof. apply sum_single; hyps. Qed.
Lemma s_mul_l {A} (f : A -> K) c l : kmul c (sum f l) = sum (fun k => kmul c (f k)) l.
Proof. apply sum_mul_l; hyps. Qed.
Lemma s_mul_r {A} (f : A -> K) c l : kmul (sum f l) c = sum (fun k => kmul (f k) c) l.
Proof. apply sum_mul_r; hyps. Qed.

Lemma all_idx_len n k : In k (all_idx n) -> length k = n.
Proof. apply all_idx_In. Qed.
Lemma all_idx_mem n k : length k = n -> In k (all_idx n).
Proof. apply all_idx_In. Qed.

(* sums over a + b bits are double sums *)
Lemma s_split (f : idx -> K) a b :
  sum f (all_idx (a + b)) = sum (fun x => sum (fun y => f (x ++ y)) (all_idx b)) (all_idx a).
Proof.
  revert f. induction a as [|a IH]; intros f.
  - cbn [all_idx Nat.add]. rewrite s_cons, s_nil, add0r. reflexivity.
  - cbn [all_idx Nat.add]. rewrite !s_app, !s_map, !IH. reflexivity.
Qed.

Lemma idx_eqb_refl (x : idx) : idx_eqb x x = true.
Proof. unfold idx_eqb. destruct (list_eq_dec bool_dec x x); congruence. Qed.
Lemma idx_eqb_neq (x y : idx) : x <> y -> idx_eqb x y = false.
Proof. unfold idx_eqb. destruct (list_eq_dec bool_dec x y); congruence. Qed.
Lemma idx_eqb_sym (x y : idx) : idx_eqb x y = idx_eqb y x.
Proof. unfold idx_eqb. destruct (list_eq_dec bool_dec x y), (list_eq_dec bool_dec y x); congruence. Qed.

(* ---------- identity, dagger ---------- *)
Lemma mm_ent a b i j : ent (mmul a b) i j = sum (fun k => kmul (ent a i k) (ent b k j)) (all_idx (nq a)).
Proof. reflexivity. Qed.

Lemma mmul_ident_r n X : nq X = n -> meq n (mmul X (ident n)) X.
Proof.
  intros HX. split; [exact HX|]. split; [exact HX|]. intros i j Hi Hj. rewrite mm_ent, HX.
  rewrite (s_single _ (all_idx n) j (all_idx_NoDup n) (all_idx_mem n j Hj)).
  - cbn [ent Quantum.ident]. rewrite idx_eqb_refl. apply mul1r.
  - intros k _ Hne. cbn [ent Quantum.ident]. rewrite (idx_eqb_neq k j Hne). apply mul0r.
Qed.
Lemma mmul_ident_l n X : nq X = n -> meq n (mmul (ident n) X) X.
Proof.
  intros HX. split; [reflexivity|]. split; [exact HX|]. intros i j Hi Hj. rewrite mm_ent. cbn [nq Quantum.ident].
  rewrite (s_single _ (all_idx n) i (all_idx_NoDup n) (all_idx_mem n i Hi)).
  - cbn [ent Quantum.ident]. rewrite idx_eqb_refl. apply mul1l.
  - intros k _ Hne. cbn [ent Quantum.ident]. rewrite (idx_eqb_neq i k (fun E => Hne (eq_sym E))). apply mul0l.
Qed.

Lemma dagger_cong n A B : meq n A B -> meq n (dagger A) (dagger B).
Proof. intros [H1 [H2 H3]]. split; [exact H1|]. split; [exact H2|]. intros i j Hi Hj. cbn [ent QuantumSim.dagger]. rewrite H3; auto. Qed.

Lemma dagger_ident n : meq n (dagger (ident n)) (ident n).
Proof.
  split; [reflexivity|]. split; [reflexivity|]. intros i j _ _. cbn [ent QuantumSim.dagger Quantum.ident].
  rewrite (idx_eqb_sym j i). destruct (idx_eqb i j); [exact conj1|exact conj0].
Qed.

Definition unitary (n : nat) (M : mat) : Prop :=
  meq n (mmul M (dagger M)) (ident n) /\ meq n (mmul (dagger M) M) (ident n).

Lemma unitary_nq n M : unitary n M -> nq M = n.
Proof. intros [[H _] _]. exact H. Qed.

Lemma m_cong n A A' B B' : meq n A A' -> meq n B B' -> meq n (mmul A B) (mmul A' B').
Proof. apply mmul_cong; hyps. Qed.
Lemma m_trans n A B C : meq n A B -> meq n B C -> meq n A C.
Proof. apply meq_trans; hyps. Qed.
Lemma m_sym n A B : meq n A B -> meq n B A.
Proof. apply meq_sym; hyps. Qed.
Lemma m_refl n A : nq A = n -> meq n A A.
Proof. apply meq_refl; hyps. Qed.

Lemma unitary_cong n A B : meq n A B -> unitary n A -> unitary n B.
Proof.
  intros E [U1 U2]. pose proof (dagger_cong n A B E) as Ed. split.
  - eapply m_trans; [apply m_cong; apply m_sym; eassumption|exact U1].
  - eapply m_trans; [apply m_cong; apply m_sym; eassumption|exact U2].
Qed.

Lemma ident_unitary n : unitary n (ident n).
Proof.
  split.
  - eapply m_trans; [apply m_cong; [apply m_refl; reflexivity|apply dagger_ident]|]. apply mmul_ident_r. reflexivity.
  - eapply m_trans; [apply m_cong; [apply dagger_ident|apply m_refl; reflexivity]|]. apply mmul_ident_r. reflexivity.
Qed.

(* ---------- tensor products ---------- *)
Lemma mul_shuffle a b c d : kmul (kmul a b) (kmul c d) = kmul (kmul a c) (kmul b d).
Proof. rewrite <- (mulA a b (kmul c d)), (mulA b c d), (mulC b c), <- (mulA c b d), (mulA a c (kmul b d)). reflexivity. Qed.

Lemma firstn_len_app {A} (x y : list A) a : length x = a -> firstn a (x ++ y) = x.
Proof. intros <-. rewrite firstn_app, Nat.sub_diag, firstn_all. cbn [firstn]. apply app_nil_r. Qed.
Lemma skipn_len_app {A} (x y : list A) a : length x = a -> skipn a (x ++ y) = y.
Proof. intros <-. rewrite skipn_app, Nat.sub_diag, skipn_all. reflexivity. Qed.

Lemma tensor_mmul a b A B C D : nq A = a -> nq C = a -> nq B = b -> nq D = b ->
  meq (a + b) (mmul (tensor A B) (tensor C D)) (tensor (mmul A C) (mmul B D)).
Proof.
  intros HA HC HB HD. split; [cbn [nq Quantum.mmul Quantum.tensor]; congruence|].
  split; [cbn [nq Quantum.mmul Quantum.tensor]; congruence|]. intros i j _ _.
  rewrite mm_ent. cbn [nq Quantum.tensor]. rewrite HA, HB, s_split.
  cbn [ent Quantum.tensor]. cbn [nq Quantum.mmul]. rewrite HA, HC, !mm_ent, HA, HB.
  rewrite s_mul_r. apply s_ext. intros x Hx. apply all_idx_len in Hx.
  rewrite s_mul_l. apply s_ext. intros y _.
  rewrite (firstn_len_app x y a Hx), (skipn_len_app x y a Hx). apply mul_shuffle.
Qed.

Lemma tensor_ident a b : meq (a + b) (tensor (ident a) (ident b)) (ident (a + b)).
Proof.
  split; [reflexivity|]. split; [reflexivity|]. intros i j _ _. cbn [ent nq Quantum.tensor Quantum.ident].
  destruct (list_eq_dec bool_dec i j) as [E|N].
  - subst j. rewrite !idx_eqb_refl. apply mul1l.
  - rewrite (idx_eqb_neq i j N).
    destruct (list_eq_dec bool_dec (firstn a i) (firstn a j)) as [E1|N1].
    + destruct (list_eq_dec bool_dec (skipn a i) (skipn a j)) as [E2|N2].
      * exfalso. apply N. rewrite <- (firstn_skipn a i), <- (firstn_skipn a j), E1, E2. reflexivity.
      * rewrite (idx_eqb_neq _ _ N2). apply mul0r.
    + rewrite (idx_eqb_neq _ _ N1). apply mul0l.
Qed.

Lemma dagger_tensor n A B : nq A + nq B = n -> meq n (dagger (tensor A B)) (tensor (dagger A) (dagger B)).
Proof.
  intros H. split; [exact H|]. split; [exact H|]. intros i j _ _.
  cbn [ent nq QuantumSim.dagger Quantum.tensor]. apply conj_mul.
Qed.

Lemma tensor_cong a b A A' B B' : meq a A A' -> meq b B B' -> meq (a + b) (tensor A B) (tensor A' B').
Proof.
  intros [H1 [H2 H3]] [H4 [H5 H6]]. split; [cbn [nq Quantum.tensor]; congruence|].
  split; [cbn [nq Quantum.tensor]; congruence|]. intros i j Hi Hj. cbn [ent Quantum.tensor]. rewrite H1, H2.
  assert (F : forall x : idx, length x = a + b -> length (firstn a x) = a) by (intros x Hx; rewrite firstn_length; lia).
  assert (S : forall x : idx, length x = a + b -> length (skipn a x) = b) by (intros x Hx; rewrite skipn_length; lia).
  rewrite H3, H6; auto.
Qed.

Lemma tensor_unitary a b A B : unitary a A -> unitary b B -> unitary (a + b) (tensor A B).
Proof.
  intros UA UB. pose proof (unitary_nq _ _ UA) as HA. pose proof (unitary_nq _ _ UB) as HB.
  destruct UA as [A1 A2], UB as [B1 B2].
  assert (HT : nq (tensor A B) = a + b) by (cbn [nq Quantum.tensor]; congruence).
  assert (HD : meq (a + b) (dagger (tensor A B)) (tensor (dagger A) (dagger B))) by (apply dagger_tensor; congruence).
  split.
  - eapply m_trans; [apply m_cong; [apply m_refl; exact HT|exact HD]|].
    eapply m_trans; [apply tensor_mmul; assumption|].
    eapply m_trans; [apply tensor_cong; eassumption|]. apply tensor_ident.
  - eapply m_trans; [apply m_cong; [exact HD|apply m_refl; exact HT]|].
    eapply m_trans; [apply tensor_mmul; assumption|].
    eapply m_trans; [apply tensor_cong; eassumption|]. apply tensor_ident.
Qed.

(* ---------- exchanging two bit positions ---------- *)
Notation sigma a b := (swap_pos false a b).

Lemma sigma_invol n a b (i : idx) : a < n -> b < n -> length i = n -> sigma a b (sigma a b i) = i.
Proof.
  intros Ha Hb Hi. apply (idx_ext n); [rewrite !swap_pos_length; exact Hi|exact Hi|]. intros p Hp.
  rewrite nth_swap_pos by (rewrite swap_pos_length; lia).
  rewrite !nth_swap_pos by lia.
  destruct (Nat.eqb_spec p a) as [->|Npa].
  - rewrite Nat.eqb_refl. destruct (Nat.eqb_spec b a) as [->|_]; reflexivity.
  - destruct (Nat.eqb_spec p b) as [->|Npb].
    + rewrite Nat.eqb_refl. reflexivity.
    + reflexivity.
Qed.

Lemma NoDup_map_local {A B} (f : A -> B) l : (forall x y, In x l -> In y l -> f x = f y -> x = y) -> NoDup l -> NoDup (map f l).
Proof.
  intros Hinj Hnd. induction Hnd as [|x l Hx Hnd IH]; [constructor|]. simpl. constructor.
  - intros Hin. apply in_map_iff in Hin. destruct Hin as [y [E Hy]]. apply Hx.
    rewrite (Hinj x y (or_introl eq_refl) (or_intror Hy) (eq_sym E)). exact Hy.
  - apply IH. intros u v Hu Hv. apply Hinj; right; assumption.
Qed.

Lemma s_reindex n a b (f : idx -> K) : a < n -> b < n ->
  sum (fun k => f (sigma a b k)) (all_idx n) = sum f (all_idx n).
Proof.
  intros Ha Hb. rewrite <- (s_map f (fun k => sigma a b k)). apply s_perm. apply NoDup_Permutation.
  - apply NoDup_map_local; [|apply all_idx_NoDup]. intros x y Hx Hy E. apply all_idx_len in Hx, Hy.
    rewrite <- (sigma_invol n a b x Ha Hb Hx), <- (sigma_invol n a b y Ha Hb Hy), E. reflexivity.
  - apply all_idx_NoDup.
  - intros x. rewrite in_map_iff. split.
    + intros [y [E Hy]]. subst x. apply all_idx_mem. rewrite swap_pos_length. apply all_idx_len. exact Hy.
    + intros Hx. apply all_idx_len in Hx. exists (sigma a b x). split; [apply (sigma_invol n); assumption|].
      apply all_idx_mem. rewrite swap_pos_length. exact Hx.
Qed.

Lemma conj_swap_mmul n a b A B : a < n -> b < n -> nq A = n -> nq B = n ->
  meq n (mmul (conj_swap a b A) (conj_swap a b B)) (conj_swap a b (mmul A B)).
Proof.
  intros Ha Hb HA HB. split; [exact HA|]. split; [exact HA|]. intros i j _ _.
  rewrite mm_ent. cbn [nq ent Quantum.conj_swap]. rewrite mm_ent, HA.
  apply (s_reindex n a b (fun k => kmul (ent A (sigma a b i) k) (ent B k (sigma a b j))) Ha Hb).
Qed.

Lemma conj_swap_ident n a b : a < n -> b < n -> meq n (conj_swap a b (ident n)) (ident n).
Proof.
  intros Ha Hb. split; [reflexivity|]. split; [reflexivity|]. intros i j Hi Hj. cbn [ent Quantum.conj_swap Quantum.ident].
  destruct (list_eq_dec bool_dec i j) as [E|N].
  - subst j. rewrite !idx_eqb_refl. reflexivity.
  - rewrite (idx_eqb_neq i j N). rewrite idx_eqb_neq; [reflexivity|]. intros E. apply N.
    rewrite <- (sigma_invol n a b i Ha Hb Hi), <- (sigma_invol n a b j Ha Hb Hj), E. reflexivity.
Qed.

Lemma conj_swap_cong n a b A B : meq n A B -> meq n (conj_swap a b A) (conj_swap a b B).
Proof.
  intros [H1 [H2 H3]]. split; [exact H1|]. split; [exact H2|]. intros i j Hi Hj. cbn [ent Quantum.conj_swap].
  apply H3; rewrite swap_pos_length; assumption.
Qed.

Lemma conj_swap_unitary n a b M : a < n -> b < n -> unitary n M -> unitary n (conj_swap a b M).
Proof.
  intros Ha Hb U. pose proof (unitary_nq _ _ U) as HM. destruct U as [U1 U2].
  (* dagger (conj_swap M) and conj_swap (dagger M) have the same entries by definition *)
  assert (HD : meq n (dagger (conj_swap a b M)) (conj_swap a b (dagger M))).
  { split; [exact HM|]. split; [exact HM|]. intros i j _ _. reflexivity. }
  split.
  - eapply m_trans; [apply m_cong; [apply m_refl; exact HM|exact HD]|].
    eapply m_trans; [apply conj_swap_mmul; assumption|].
    eapply m_trans; [apply conj_swap_cong; exact U1|]. apply conj_swap_ident; assumption.
  - eapply m_trans; [apply m_cong; [exact HD|apply m_refl; exact HM]|].
    eapply m_trans; [apply conj_swap_mmul; assumption|].
    eapply m_trans; [apply conj_swap_cong; exact U2|]. apply conj_swap_ident; assumption.
Qed.

Lemma undo_unitary n : forall sw T, swaps_in_range n sw -> unitary n T ->
  unitary n (fold_left (fun m s => conj_swap (fst s) (snd s) m) sw T).
Proof.
  induction sw as [|s sw IH]; intros T Hr U; [exact U|]. simpl. inversion Hr as [|s' sw' [Hs1 Hs2] Hr']; subst.
  apply IH; [exact Hr'|]. apply conj_swap_unitary; assumption.
Qed.

(* ---------- products ---------- *)
Lemma dagger_mmul n A B : nq A = n -> nq B = n -> meq n (dagger (mmul A B)) (mmul (dagger B) (dagger A)).
Proof.
  intros HA HB. split; [exact HA|]. split; [exact HB|]. intros i j _ _.
  cbn [ent QuantumSim.dagger]. rewrite !mm_ent. cbn [nq QuantumSim.dagger]. rewrite HA, HB, s_conj.
  apply s_ext. intros k _. cbn [ent QuantumSim.dagger]. rewrite conj_mul. apply mulC.
Qed.

Lemma m_assoc n A B C : nq A = n -> nq B = n -> meq n (mmul (mmul A B) C) (mmul A (mmul B C)).
Proof. apply mmul_assoc; hyps. Qed.

Lemma unitary_mmul n A B : unitary n A -> unitary n B -> unitary n (mmul A B).
Proof.
  intros UA UB. pose proof (unitary_nq _ _ UA) as HA. pose proof (unitary_nq _ _ UB) as HB.
  destruct UA as [A1 A2], UB as [B1 B2].
  pose proof (dagger_mmul n A B HA HB) as HD.
  split.
  - (* (AB)(B'A') = A((BB')A') = A A' *)
    eapply m_trans; [apply m_cong; [apply m_refl; exact HA|exact HD]|].
    eapply m_trans; [apply m_assoc; assumption|].
    eapply m_trans; [apply m_cong; [apply m_refl; exact HA|apply m_sym; apply m_assoc; [exact HB|exact HB]]|].
    eapply m_trans; [apply m_cong; [apply m_refl; exact HA|apply m_cong; [exact B1|apply m_refl; exact HA]]|].
    eapply m_trans; [apply m_cong; [apply m_refl; exact HA|apply mmul_ident_l; exact HA]|]. exact A1.
  - eapply m_trans; [apply m_cong; [exact HD|apply m_refl; exact HA]|].
    eapply m_trans; [apply m_assoc; [exact HB|exact HA]|].
    eapply m_trans; [apply m_cong; [apply m_refl; exact HB|apply m_sym; apply m_assoc; [exact HA|exact HA]]|].
    eapply m_trans; [apply m_cong; [apply m_refl; exact HB|apply m_cong; [exact A2|apply m_refl; exact HB]]|].
    eapply m_trans; [apply m_cong; [apply m_refl; exact HB|apply mmul_ident_l; exact HB]|]. exact B2.
Qed.

(* ---------- a compiled layer ---------- *)
Definition gates_unitary (ops : list qop) : Prop := Forall (fun o => unitary (nq (gate o)) (gate o)) ops.

Lemma tensor_all_unitary (G : list (group K)) :
  Forall (fun g => unitary (nq (snd g)) (snd g)) G ->
  forall acc, match acc with None => True | Some m => unitary (nq m) m end ->
  match fold_left (fun acc g => Some (tensor_opt K kmul acc (snd g))) G acc with
  | None => True | Some m => unitary (nq m) m end.
Proof.
  induction 1 as [|g G Hg _ IH]; intros acc Hacc; [exact Hacc|]. simpl. apply IH.
  destruct acc as [m|]; cbn [tensor_opt]; [|exact Hg].
  cbn [nq Quantum.tensor]. apply tensor_unitary; assumption.
Qed.

Theorem layer_unitary n (ops : list qop) :
  Forall (fun o => op_wf K n o = true) ops -> NoDup (touched K ops) -> 0 < n -> gates_unitary ops ->
  exists M, layer_matrix K k0 k1 kmul n ops = Ok M /\ unitary n M.
Proof.
  intros Hwf Hnd Hn HU.
  destruct (layer_shape K k0 k1 kmul mul1l n ops Hwf Hnd Hn) as [sw [G [T [HM [HT [Hgood [Hr HnT]]]]]]].
  eexists. split; [exact HM|]. apply undo_unitary; [apply Forall_rev; exact Hr|].
  assert (UG : Forall (fun g => unitary (nq (snd g)) (snd g)) G).
  { eapply Forall_impl; [|exact Hgood]. intros g Hg. destruct Hg as [a _ _|o Ho]; simpl.
    - apply (ident_unitary 1).
    - unfold gates_unitary in HU. rewrite Forall_forall in HU. apply HU. exact Ho. }
  pose proof (tensor_all_unitary G UG None I) as H. unfold tensor_all in HT. rewrite HT in H. rewrite HnT in H. exact H.
Qed.

Lemma all_ok_Forall2 {A} (f : A -> outcome K) : forall ls ms, all_ok K (map f ls) = Some ms -> Forall2 (fun M l => f l = Ok M) ms ls.
Proof.
  induction ls as [|l ls IH]; intros ms H; simpl in H.
  - injection H as <-. constructor.
  - destruct (f l) as [M|w] eqn:E; [|discriminate]. destruct (all_ok K (map f ls)) as [ms'|] eqn:E'; [|discriminate].
    injection H as <-. constructor; [exact E|apply IH; reflexivity].
Qed.

Theorem compiled_matrices_are_unitary n (c : list qop) : 0 < n -> Forall (fun o => op_wf K n o = true) c -> gates_unitary c ->
  forall ms, compile K k0 k1 kmul n c = Some ms -> Forall (unitary n) ms.
Proof.
  intros Hn Hwf HU ms Hc. unfold compile in Hc. apply all_ok_Forall2 in Hc.
  assert (Hls : Forall (fun l => Forall (fun o => op_wf K n o = true) l /\ NoDup (touched K l)) (circuit_layers K c)).
  { unfold circuit_layers. apply Forall_filter. apply (layers_ok K n c [] [] eq_refl (NoDup_nil _) Hwf). }
  assert (Hsub : forall l, In l (circuit_layers K c) -> forall o, In o l -> In o c).
  { intros l Hl o Ho. rewrite <- (concat_layers K c). apply in_concat. exists l. auto. }
  induction Hc as [|M l ms ls HM _ IH]; [constructor|].
  inversion Hls as [|l' ls' [Hwl Hndl] Hls']; subst. constructor.
  - destruct (layer_unitary n l Hwl Hndl Hn) as [M' [HM' U]].
    + unfold gates_unitary in *. rewrite Forall_forall in *. intros o Ho. apply HU. apply (Hsub l (or_introl eq_refl) o Ho).
    + rewrite HM in HM'. injection HM' as <-. exact U.
  - apply IH; [exact Hls'|]. intros l0 Hl0. apply Hsub. right. exact Hl0.
Qed.

(* ---------- the software simulation ---------- *)
Notation mvec := (mvec K k0 kadd kmul).
Notation basis := (basis K k0 k1).
Notation run_sim := (run_sim K k0 kadd kmul).

Lemma mvec_ent M v i : mvec M v i = sum (fun k => kmul (ent M i k) (v k)) (all_idx (nq M)).
Proof. reflexivity. Qed.

Lemma mvec_cong n M u v : nq M = n -> (forall k, length k = n -> u k = v k) -> forall i, mvec M u i = mvec M v i.
Proof. intros HM E i. rewrite !mvec_ent, HM. apply s_ext. intros k Hk. rewrite E; [reflexivity|apply all_idx_len; exact Hk]. Qed.

Lemma mvec_mmul n A B v : nq A = n -> nq B = n -> forall i, mvec A (mvec B v) i = mvec (mmul A B) v i.
Proof.
  intros HA HB i. rewrite !mvec_ent. cbn [nq Quantum.mmul]. rewrite HA.
  transitivity (sum (fun k => sum (fun l => kmul (kmul (ent A i k) (ent B k l)) (v l)) (all_idx n)) (all_idx n)).
  { apply s_ext. intros k _. rewrite mvec_ent, HB, s_mul_l. apply s_ext. intros l _. apply mulA. }
  rewrite (sum_swap K k0 kadd add0l add0r addA addC). apply s_ext. intros l _. rewrite mm_ent, HA, s_mul_r. reflexivity.
Qed.

Lemma mvec_ident n v i : length i = n -> mvec (ident n) v i = v i.
Proof.
  intros Hi. rewrite mvec_ent. cbn [nq Quantum.ident].
  rewrite (s_single _ (all_idx n) i (all_idx_NoDup n) (all_idx_mem n i Hi)).
  - cbn [ent Quantum.ident]. rewrite idx_eqb_refl. apply mul1l.
  - intros k _ Hne. cbn [ent Quantum.ident]. rewrite (idx_eqb_neq i k (fun E => Hne (eq_sym E))). apply mul0l.
Qed.

Lemma mvec_basis n M i j : nq M = n -> length j = n -> mvec M (basis j) i = ent M i j.
Proof.
  intros HM Hj. rewrite mvec_ent, HM.
  rewrite (s_single _ (all_idx n) j (all_idx_NoDup n) (all_idx_mem n j Hj)).
  - unfold QuantumSim.basis. rewrite idx_eqb_refl. apply mul1r.
  - intros k _ Hne. unfold QuantumSim.basis. rewrite (idx_eqb_neq k j Hne). apply mul0r.
Qed.

Lemma prod_left_nq n : forall ms X, nq X = n -> Forall (fun m => nq m = n) ms -> nq (fold_left (fun acc m => mmul m acc) ms X) = n.
Proof. induction ms as [|m ms IH]; intros X HX H; [exact HX|]. inversion H; subst. simpl. apply IH; auto. Qed.

Lemma run_sim_gen n : forall ms X v, nq X = n -> Forall (fun m => nq m = n) ms ->
  forall i, length i = n ->
  fold_left (fun s m => mvec m s) ms (mvec X v) i = mvec (fold_left (fun acc m => mmul m acc) ms X) v i.
Proof.
  induction ms as [|m ms IH]; intros X v HX H i Hi; [reflexivity|]. inversion H as [|m' ms' Hm Hms]; subst m' ms'. simpl.
  rewrite <- (IH (mmul m X) v Hm Hms i Hi).
  (* the two folds start from vectors that agree everywhere *)
  assert (G : forall (ms0 : list mat) (u w : vec K), (forall k, u k = w k) -> forall k, fold_left (fun s m0 => mvec m0 s) ms0 u k = fold_left (fun s m0 => mvec m0 s) ms0 w k).
  { induction ms0 as [|m0 ms0 IH0]; intros u w E k; [apply E|]. simpl. apply IH0. intros k'. apply (mvec_cong (nq m0)); [reflexivity|]. intros; apply E. }
  apply G. intros k. apply (mvec_mmul (nq m)); [reflexivity|congruence].
Qed.

Theorem simulation_is_the_product n ms v : Forall (fun m => nq m = n) ms -> forall i, length i = n ->
  run_sim ms v i = mvec (prod_left K k0 k1 kadd kmul n ms) v i.
Proof.
  intros H i Hi. unfold QuantumSim.run_sim, prod_left.
  rewrite <- (run_sim_gen n ms (ident n) v eq_refl H i Hi).
  assert (G : forall (ms0 : list mat) (u w : vec K), (forall m0, In m0 ms0 -> nq m0 = n) -> (forall k, length k = n -> u k = w k) -> forall k, length k = n -> fold_left (fun s m0 => mvec m0 s) ms0 u k = fold_left (fun s m0 => mvec m0 s) ms0 w k).
  { induction ms0 as [|m0 ms0 IH0]; intros u w Hn E k Hk; [apply E; exact Hk|]. simpl. apply IH0; [intros; apply Hn; right; assumption| |exact Hk].
    intros k' _. apply (mvec_cong n); [apply Hn; left; reflexivity|exact E]. }
  apply G; [rewrite Forall_forall in H; exact H| |exact Hi]. intros k Hk. symmetry. apply mvec_ident. exact Hk.
Qed.

Theorem simulated_basis_state_is_a_column_of_the_unitary n (c : list qop) : 0 < n -> Forall (fun o => op_wf K n o = true) c ->
  exists ms, compile K k0 k1 kmul n c = Some ms /\
    forall i j, length i = n -> length j = n -> run_sim ms (basis j) i = ent (u_ref K k0 k1 kadd kmul n c) i j.
Proof.
  intros Hn Hwf.
  destruct (compiled_circuit_is_the_unitary K k0 k1 kadd kmul add0l add0r addA addC mul1l mul1r mul0l mul0r mulA mulC distl n c Hn Hwf) as [ms [Hc [H1 [_ H3]]]].
  exists ms. split; [exact Hc|]. intros i j Hi Hj.
  assert (Hnq : Forall (fun m => nq m = n) ms).
  { destruct (circuit_compiles K k0 k1 kmul mul1l mul1r mul0l mul0r mulA mulC n c Hn Hwf) as [ms' [Hc' HF]].
    rewrite Hc in Hc'. injection Hc' as <-. clear - HF. induction HF as [|M l ms ls [HM _] _ IH]; constructor; auto. }
  rewrite (simulation_is_the_product n ms (basis j) Hnq i Hi).
  rewrite (mvec_basis n _ i j H1 Hj). apply H3; assumption.
Qed.

End U.
