(* Proofs/SchedProofs.v — C09: the order in which the processors execute within a tick, and the
   interleaving of independent simulations, cannot change any result. *)
From Coq Require Import List NArith Bool Arith Lia Permutation.
From BM Require Import Net.Topo Isa.Sim Net.Tick Front.Sched.
Import ListNotations.

Lemma upd_length {A} k (v : A) l : length (upd k v l) = length l.
Proof. revert k; induction l; destruct k; simpl; auto. Qed.
Lemma nth_error_upd_eq {A} k (v : A) l : k < length l -> nth_error (upd k v l) k = Some v.
Proof. revert k; induction l; destruct k; simpl; intros; try lia; auto. apply IHl; lia. Qed.
Lemma nth_error_upd_neq {A} k j (v : A) l : k <> j -> nth_error (upd k v l) j = nth_error l j.
Proof. revert k j; induction l; destruct k, j; simpl; intros; auto; try lia. Qed.

Definition stepped (cfg : list proc) (ps : list pstate) (j : nat) : option pstate :=
  match nth_error cfg j, nth_error ps j with
  | Some c, Some s => Some (pstep (p_rsize c) (p_prog c) s)
  | _, Some s => Some s
  | _, None => None
  end.

Lemma step_one_length cfg ps k : length (step_one cfg ps k) = length ps.
Proof. unfold step_one. destruct (nth_error cfg k), (nth_error ps k); auto. apply upd_length. Qed.

(* after stepping the processors of a duplicate-free order, exactly those have been stepped, once *)
Lemma fold_step_nth cfg order : forall ps, NoDup order ->
  forall j, nth_error (fold_left (step_one cfg) order ps) j =
            if existsb (Nat.eqb j) order then stepped cfg ps j else nth_error ps j.
Proof.
  induction order as [|k order IH]; intros ps ND j; simpl; auto.
  inversion ND as [|? ? Hnin ND']; subst. rewrite IH by auto.
  destruct (Nat.eqb_spec j k) as [->|Hne]; simpl.
  - assert (Hk : existsb (Nat.eqb k) order = false).
    { destruct (existsb (Nat.eqb k) order) eqn:E; auto. apply existsb_exists in E. destruct E as (x & Hx & Ex).
      apply Nat.eqb_eq in Ex. subst. contradiction. }
    rewrite Hk. unfold step_one, stepped.
    destruct (nth_error cfg k) as [c|] eqn:Ec; destruct (nth_error ps k) as [s|] eqn:Es; auto.
    + apply nth_error_upd_eq. apply nth_error_Some. congruence.
  - destruct (existsb (Nat.eqb j) order).
    + unfold stepped, step_one.
      destruct (nth_error cfg k), (nth_error ps k); auto; rewrite !nth_error_upd_neq by auto; reflexivity.
    + unfold step_one. destruct (nth_error cfg k), (nth_error ps k); auto. apply nth_error_upd_neq; auto.
Qed.

Lemma list_ext {A} (l1 l2 : list A) : (forall j, nth_error l1 j = nth_error l2 j) -> l1 = l2.
Proof.
  revert l2; induction l1 as [|a l1 IH]; intros [|b l2] H; auto.
  - specialize (H 0); discriminate.
  - specialize (H 0); discriminate.
  - f_equal. { specialize (H 0). simpl in H. congruence. } apply IH. intro j. apply (H (S j)).
Qed.

(* a complete schedule: every processor index exactly once *)
Definition complete (n : nat) (order : list nat) : Prop := NoDup order /\ forall j, j < n -> In j order.

Theorem order_irrelevant cfg order1 order2 ps :
  complete (length ps) order1 -> complete (length ps) order2 ->
  fold_left (step_one cfg) order1 ps = fold_left (step_one cfg) order2 ps.
Proof.
  intros [N1 C1] [N2 C2]. apply list_ext. intro j. rewrite !fold_step_nth by auto.
  destruct (Nat.lt_ge_cases j (length ps)) as [Hj|Hj].
  - assert (E1 : existsb (Nat.eqb j) order1 = true) by (apply existsb_exists; exists j; split; [auto|apply Nat.eqb_refl]).
    assert (E2 : existsb (Nat.eqb j) order2 = true) by (apply existsb_exists; exists j; split; [auto|apply Nat.eqb_refl]).
    rewrite E1, E2. reflexivity.
  - assert (Hn : nth_error ps j = None) by (apply nth_error_None; auto).
    unfold stepped. rewrite Hn. destruct (existsb _ order1), (existsb _ order2); destruct (nth_error cfg j); reflexivity.
Qed.

(* the sequential order 0,1,..,n-1 computes what Net.Tick.compute computes *)
Lemma seq_complete n : complete n (seq 0 n).
Proof. split; [apply seq_NoDup|]. intros j Hj. apply in_seq. lia. Qed.

Lemma compute_as_order cfg v :
  length cfg = length (v_procs v) ->
  compute cfg v = compute_order cfg (seq 0 (length (v_procs v))) v.
Proof.
  intro Hlen. unfold compute, compute_order. f_equal.
  apply list_ext. intro j. rewrite fold_step_nth by apply seq_NoDup.
  destruct (Nat.lt_ge_cases j (length (v_procs v))) as [Hj|Hj].
  - assert (E : existsb (Nat.eqb j) (seq 0 (length (v_procs v))) = true).
    { apply existsb_exists. exists j. split; [apply in_seq; lia|apply Nat.eqb_refl]. }
    rewrite E. unfold stepped.
    destruct (nth_error cfg j) as [c|] eqn:Ec; [|apply nth_error_None in Ec; lia].
    destruct (nth_error (v_procs v) j) as [s|] eqn:Es; [|apply nth_error_None in Es; lia].
    rewrite nth_error_map.
    assert (Hc : nth_error (combine cfg (v_procs v)) j = Some (c, s)).
    { clear -Ec Es. revert j cfg Ec Es. generalize (v_procs v). intros ps j. revert ps.
      induction j; intros ps cfg Ec Es; destruct cfg, ps; simpl in *; try discriminate.
      - congruence.
      - apply IHj; auto. }
    rewrite Hc. reflexivity.
  - assert (Hn : nth_error (v_procs v) j = None) by (apply nth_error_None; auto).
    rewrite nth_error_map.
    assert (Hc : nth_error (combine cfg (v_procs v)) j = None).
    { apply nth_error_None. rewrite combine_length. lia. }
    rewrite Hc. simpl. unfold stepped. rewrite Hn.
    destruct (existsb _ _); destruct (nth_error cfg j); reflexivity.
Qed.

Theorem tick_schedule_independent_all t cfg order v :
  length cfg = length (v_procs v) ->
  complete (length (v_procs v)) order ->
  tick_order t cfg order v = tick t cfg v.
Proof.
  intros Hlen Hc. unfold tick_order, tick. f_equal.
  set (w := backward_pre t (forward t v)).
  assert (Hw : length (v_procs w) = length (v_procs v)).
  { unfold w, backward_pre, forward. simpl.
    assert (A : forall l ps, length (fold_left (fun ps p => match snd p with PO q k => set_proc_outrecv ps q k (nthB l (fst p)) | _ => ps end)
                                       (idx (iout t)) ps) = length ps).
    { intros l. induction (idx (iout t)) as [|x xs IH]; intros ps; simpl; auto. rewrite IH.
      destruct (snd x); auto. unfold set_proc_outrecv. destruct (nth_error ps p); auto. apply upd_length. }
    rewrite A.
    assert (B : forall (f : nat -> N) (g : nat -> bool) ps,
               length (fold_left (fun ps p => match snd p with PI q k => set_proc_input ps q k (f (fst p)) (g (fst p)) | _ => ps end)
                                 (idx (iin t)) ps) = length ps).
    { intros f g. induction (idx (iin t)) as [|x xs IH]; intros ps; simpl; auto. rewrite IH.
      destruct (snd x); auto. unfold set_proc_input. destruct (nth_error ps p); auto. apply upd_length. }
    apply (B (fun k => nthN _ k) (fun k => nthB _ k)). }
  rewrite (compute_as_order cfg w) by lia.
  unfold compute_order. f_equal. apply order_irrelevant; rewrite Hw; auto. apply seq_complete.
Qed.

(* independent simulations: each projection of an interleaved run is the solo run *)
Theorem interleave_fst {A B} (f : A -> A) (g : B -> B) sched : forall ab,
  fst (interleave f g sched ab) = iter f (length (filter (fun b => b) sched)) (fst ab).
Proof. induction sched as [|[] r IH]; intros [a b]; simpl; auto; rewrite IH; reflexivity. Qed.

Theorem interleave_snd {A B} (f : A -> A) (g : B -> B) sched : forall ab,
  snd (interleave f g sched ab) = iter g (length (filter negb sched)) (snd ab).
Proof. induction sched as [|[] r IH]; intros [a b]; simpl; auto; rewrite IH; reflexivity. Qed.
