(* Proofs/BasmProofs.v — the assembled program does, step for step, what the source says *)
From Coq Require Import List NArith Bool Arith String Lia.
From BM Require Import Isa.Sim Front.Basm.
Import ListNotations.

(* ---------- addresses ---------- *)
Lemma addr_nil k : addr [] k = 0.
Proof. destruct k; reflexivity. Qed.

Lemma addr_0 src : addr src 0 = 0.
Proof. destruct src; reflexivity. Qed.

Lemma addr_le_ops : forall src k, addr src k <= List.length (ops_of src).
Proof.
  induction src as [|it src IH]; intros k; simpl.
  - destruct k; simpl; lia.
  - destruct k as [|k]; simpl; [lia|]. specialize (IH k). destruct it; simpl; lia.
Qed.

Lemma addr_beyond : forall src k, List.length src <= k -> addr src k = List.length (ops_of src).
Proof.
  induction src as [|it src IH]; intros k H; simpl in *.
  - destruct k; reflexivity.
  - destruct k as [|k]; [lia|]. simpl. rewrite IH by lia. destruct it; simpl; lia.
Qed.

(* the instruction item at index k is the instruction at ROM address [addr src k] *)
Lemma ops_at : forall src k ls op,
  nth_error src k = Some (IOp ls op) -> nth_error (ops_of src) (addr src k) = Some op.
Proof.
  induction src as [|it src IH]; intros k ls op H.
  - destruct k; discriminate.
  - destruct k as [|k]; simpl in *.
    + inversion H; subst. reflexivity.
    + destruct it as [l|ls' op']; simpl; eauto.
Qed.

Lemma addr_succ : forall src k ls op,
  nth_error src k = Some (IOp ls op) -> addr src (S k) = S (addr src k).
Proof.
  induction src as [|it src IH]; intros k ls op H.
  - destruct k; discriminate.
  - destruct k as [|k].
    + simpl in H. inversion H; subst. simpl. rewrite addr_0. reflexivity.
    + simpl in H. change (addr (it :: src) (S (S k))) with ((if is_op it then 1 else 0) + addr src (S k)).
      rewrite (IH k ls op H). simpl. lia.
Qed.

Lemma addr_entry : forall src k l,
  nth_error src k = Some (IEntry l) -> addr src (S k) = addr src k.
Proof.
  induction src as [|it src IH]; intros k l H.
  - destruct k; discriminate.
  - destruct k as [|k].
    + simpl in H. inversion H; subst. simpl. rewrite addr_0. reflexivity.
    + simpl in H. change (addr (it :: src) (S (S k))) with ((if is_op it then 1 else 0) + addr src (S k)).
      rewrite (IH k l H). reflexivity.
Qed.

Lemma addr_skip src k : addr src (skip src k) = addr src k.
Proof.
  unfold skip. destruct (nth_error src k) as [[l|ls op]|] eqn:E; auto. eapply addr_entry; eauto.
Qed.

Lemma label_pos_spec : forall src l t, label_pos src l = Some t ->
  exists ls op, nth_error src t = Some (IOp ls op).
Proof.
  induction src as [|it src IH]; intros l t H; simpl in H; [discriminate|].
  destruct (has_label l it) eqn:E.
  - inversion H; subst. destruct it as [e|ls op]; simpl in E; [discriminate|]. exists ls, op. reflexivity.
  - destruct (label_pos src l) as [t'|] eqn:E'; simpl in H; [|discriminate]. inversion H; subst.
    simpl. eauto.
Qed.

Lemma addr_of_op_lt : forall src k ls op,
  nth_error src k = Some (IOp ls op) -> addr src k < List.length (ops_of src).
Proof. intros src k ls op H. apply ops_at in H. apply nth_error_Some. congruence. Qed.

(* ---------- all_some / map ---------- *)
Lemma all_some_nth {A} : forall (l : list (option A)) r k,
  all_some l = Some r -> nth_error l k = option_map Some (nth_error r k).
Proof.
  induction l as [|x l IH]; intros r k H; simpl in H.
  - inversion H; subst. destruct k; reflexivity.
  - destruct x as [x|]; [|discriminate]. destruct (all_some l) as [r'|] eqn:E; simpl in H; [|discriminate].
    inversion H; subst. destruct k; simpl; auto.
Qed.

Lemma all_some_length {A} : forall (l : list (option A)) r, all_some l = Some r -> List.length r = List.length l.
Proof.
  induction l as [|x l IH]; intros r H; simpl in H.
  - inversion H; reflexivity.
  - destruct x as [x|]; [|discriminate]. destruct (all_some l) as [r'|] eqn:E; simpl in H; [|discriminate].
    inversion H; subst. simpl. f_equal. auto.
Qed.

(* ---------- the simulator looks at the program counter of a non-jump instruction only to advance it ---------- *)
Definition plain_ok (i : instr) : bool := match i with IJ _ | IJz _ _ => false | _ => true end.
Definition same_but_pc (a b : pstate) : Prop :=
  regs a = regs b /\ inputs a = inputs b /\ in_valid a = in_valid b /\ in_recv a = in_recv b /\
  outputs a = outputs b /\ out_valid a = out_valid b /\ out_recv a = out_recv b /\ deferred a = deferred b /\
  phases a = phases b.

Lemma same_but_pc_refl a : same_but_pc a a.
Proof. repeat split. Qed.

Lemma exec_plain_shift rsize len len' (p : pstate) (a b : N) i :
  plain_ok i = true ->
  let x := exec rsize len (with_pc p a) i in
  let y := exec rsize len' (with_pc p b) i in
  same_but_pc x y /\ ((pc x = a /\ pc y = b) \/ (pc x = (a + 1)%N /\ pc y = (b + 1)%N)).
Proof.
  intros Hp. destruct i; try discriminate; simpl;
    unfold next_pc, with_reg, with_pc, with_phase; simpl;
    repeat match goal with
           | |- context [if ?c then _ else _] => destruct c
           end; simpl; (split; [repeat split|auto]).
Qed.

Lemma run_deferred_pc p : pc (run_deferred p) = pc p.
Proof. reflexivity. Qed.

Lemma run_deferred_same a b : same_but_pc a b -> same_but_pc (run_deferred a) (run_deferred b).
Proof.
  intros [H1 [H2 [H3 [H4 [H5 [H6 [H7 [H8 H9]]]]]]]]. unfold run_deferred, same_but_pc. simpl.
  rewrite H3, H4, H8. repeat split; auto.
Qed.

Lemma with_pc_of_same a b : same_but_pc a b -> with_pc a (pc b) = b.
Proof.
  intros [H1 [H2 [H3 [H4 [H5 [H6 [H7 [H8 H9]]]]]]]]. destruct a, b; simpl in *. unfold with_pc; simpl. congruence.
Qed.

(* ---------- lock step ---------- *)
(* the source state and the machine state agree on everything and the machine's program counter is the
   ROM address of the source's *)
Definition Rel (src : source) (s m : pstate) : Prop :=
  same_but_pc s m /\ pc m = N.of_nat (addr src (N.to_nat (pc s))).

Definition src_ok (src : source) : Prop :=
  forall k ls op, nth_error src k = Some (IOp ls op) ->
    match op with SPlain i => plain_ok i = true | _ => True end.

Lemma lower_plain sync f g op i : lower sync f op = Some i ->
  match op with SJ _ | SJz _ _ => False | _ => True end -> lower sync g op = Some i /\ plain_ok i = true \/ (exists j, op = SPlain j).
Proof. destruct op; simpl; intros H Hn; try contradiction; inversion H; subst; auto; [right; eauto| | ]; left; split; auto; destruct sync; reflexivity. Qed.

Theorem lockstep sync rsize src prog s m :
  assemble sync src = Some prog -> src_ok src ->
  Rel src s m -> Rel src (sstep sync rsize src s) (pstep rsize prog m).
Proof.
  intros Hasm Hok [Hsame Hpc].
  unfold assemble in Hasm.
  destruct (entries src) as [|e [|e2 es]] eqn:Een; try discriminate.
  destruct (resolve src e) as [ea|] eqn:Ere; [|discriminate].
  pose proof (all_some_length _ _ Hasm) as Hlen. rewrite map_length in Hlen.
  unfold sstep, pstep.
  pose proof (run_deferred_same _ _ Hsame) as Hsame1.
  set (s1 := run_deferred s) in *. set (m1 := run_deferred m) in *.
  assert (Hpc1 : pc m1 = N.of_nat (addr src (N.to_nat (pc s1)))) by (unfold m1, s1; rewrite !run_deferred_pc; exact Hpc).
  set (k0 := N.to_nat (pc s1)) in *. set (k := skip src k0).
  assert (Hak : addr src k = addr src k0) by apply addr_skip.
  rewrite Hpc1, Nat2N.id, <- Hak.
  destruct (nth_error src k) as [[l|ls op]|] eqn:Ek.
  - (* the item under the (skipped) program counter cannot be a directive: there is only one *)
    exfalso. unfold k, skip in Ek.
    destruct (nth_error src k0) as [[l0|ls0 op0]|] eqn:E0; try congruence.
    assert (H2 : forall src k a b, nth_error src k = Some (IEntry a) -> nth_error src (S k) = Some (IEntry b) ->
                  2 <= List.length (entries src)).
    { clear. induction src as [|it src IH]; intros k1 a b Ha Hb; [destruct k1; discriminate|].
      destruct k1 as [|k1]; simpl in *.
      - inversion Ha; subst. destruct src as [|it2 src1]; [discriminate|]. simpl in Hb. inversion Hb; subst. simpl. lia.
      - specialize (IH k1 a b Ha Hb). destruct it; simpl; lia. }
    specialize (H2 src k0 l0 l E0 Ek). rewrite Een in H2. simpl in H2. lia.
  - (* an instruction item *)
    pose proof (ops_at _ _ _ _ Ek) as Hop.
    assert (Hprog : nth_error prog (addr src k) = lower sync (resolve src) op).
    { pose proof (all_some_nth _ _ (addr src k) Hasm) as Hn. rewrite nth_error_map, Hop in Hn. simpl in Hn.
      destruct (nth_error prog (addr src k)) as [i|] eqn:Ei; simpl in Hn; [congruence|].
      exfalso. apply nth_error_None in Ei. pose proof (addr_of_op_lt _ _ _ _ Ek). lia. }
    rewrite Hprog.
    destruct op as [i|l|r l|d s0|d v|d i|o s0].
    + (* plain *)
      simpl. specialize (Hok _ _ _ Ek). simpl in Hok.
      destruct (exec_plain_shift rsize 0 (N.of_nat (List.length prog)) s1 (N.of_nat k) (N.of_nat (addr src k)) i Hok) as [Hs Hp].
      assert (Em : with_pc s1 (N.of_nat (addr src k)) = m1).
      { rewrite <- (with_pc_of_same _ _ Hsame1). f_equal. rewrite Hpc1, <- Hak. reflexivity. }
      rewrite Em in Hs, Hp. unfold at_pc. split; [exact Hs|].
      destruct Hp as [[Hx Hy]|[Hx Hy]]; rewrite Hx, Hy.
      * rewrite Nat2N.id. reflexivity.
      * replace (N.to_nat (N.of_nat k + 1)) with (S k) by lia. rewrite (addr_succ _ _ _ _ Ek). lia.
    + (* j *)
      simpl. unfold resolve. destruct (label_pos src l) as [t|] eqn:El; simpl.
      * destruct (label_pos_spec _ _ _ El) as [ls' [op' Ht]].
        pose proof (addr_of_op_lt _ _ _ _ Ht) as Hlt.
        destruct (N.ltb_spec (N.of_nat (addr src t)) (N.of_nat (List.length prog))) as [_|Hge]; [|lia].
        unfold at_pc. split; [exact Hsame1|]. simpl. rewrite Nat2N.id. reflexivity.
      * (* the assembler would have failed *)
        exfalso. pose proof (all_some_nth _ _ (addr src k) Hasm) as Hn. rewrite nth_error_map, Hop in Hn. simpl in Hn.
        unfold resolve in Hn. rewrite El in Hn. simpl in Hn.
        destruct (nth_error prog (addr src k)); discriminate.
    + (* jz *)
      simpl. unfold resolve. destruct (label_pos src l) as [t|] eqn:El; simpl.
      * pose proof Hsame as [Hr0 _]. rewrite <- Hr0.
        destruct (nthN (regs s) r =? 0)%N.
        -- unfold at_pc. split; [exact Hsame1|]. simpl. rewrite Nat2N.id. reflexivity.
        -- unfold at_pc, next_pc. split; [exact Hsame1|].
           change (pc (with_pc m1 (pc m1 + 1))) with (pc m1 + 1)%N.
           change (pc (with_pc s1 (N.of_nat (S k)))) with (N.of_nat (S k)).
           rewrite Nat2N.id, (addr_succ _ _ _ _ Ek), Hpc1, <- Hak. lia.
      * exfalso. pose proof (all_some_nth _ _ (addr src k) Hasm) as Hn. rewrite nth_error_map, Hop in Hn. simpl in Hn.
        unfold resolve in Hn. rewrite El in Hn. simpl in Hn.
        destruct (nth_error prog (addr src k)); discriminate.
    + (* mov r, r *)
      cbn [lower].
      destruct (exec_plain_shift rsize 0 (N.of_nat (List.length prog)) s1 (N.of_nat k) (N.of_nat (addr src k)) (ICpy d s0) eq_refl) as [Hs Hp].
      assert (Em : with_pc s1 (N.of_nat (addr src k)) = m1).
      { rewrite <- (with_pc_of_same _ _ Hsame1). f_equal. rewrite Hpc1, <- Hak. reflexivity. }
      rewrite Em in Hs, Hp. unfold at_pc. split; [exact Hs|].
      destruct Hp as [[Hx Hy]|[Hx Hy]]; rewrite Hx, Hy.
      * rewrite Nat2N.id. reflexivity.
      * replace (N.to_nat (N.of_nat k + 1)) with (S k) by lia. rewrite (addr_succ _ _ _ _ Ek). lia.
    + (* mov r, n *)
      cbn [lower].
      destruct (exec_plain_shift rsize 0 (N.of_nat (List.length prog)) s1 (N.of_nat k) (N.of_nat (addr src k)) (IRset d v) eq_refl) as [Hs Hp].
      assert (Em : with_pc s1 (N.of_nat (addr src k)) = m1).
      { rewrite <- (with_pc_of_same _ _ Hsame1). f_equal. rewrite Hpc1, <- Hak. reflexivity. }
      rewrite Em in Hs, Hp. unfold at_pc. split; [exact Hs|].
      destruct Hp as [[Hx Hy]|[Hx Hy]]; rewrite Hx, Hy.
      * rewrite Nat2N.id. reflexivity.
      * replace (N.to_nat (N.of_nat k + 1)) with (S k) by lia. rewrite (addr_succ _ _ _ _ Ek). lia.
    + (* mov r, i *)
      cbn [lower].
      assert (Hpl : plain_ok (if sync then II2rw d i else II2r d i) = true) by (destruct sync; reflexivity).
      destruct (exec_plain_shift rsize 0 (N.of_nat (List.length prog)) s1 (N.of_nat k) (N.of_nat (addr src k)) _ Hpl) as [Hs Hp].
      assert (Em : with_pc s1 (N.of_nat (addr src k)) = m1).
      { rewrite <- (with_pc_of_same _ _ Hsame1). f_equal. rewrite Hpc1, <- Hak. reflexivity. }
      rewrite Em in Hs, Hp. unfold at_pc. split; [exact Hs|].
      destruct Hp as [[Hx Hy]|[Hx Hy]]; rewrite Hx, Hy.
      * rewrite Nat2N.id. reflexivity.
      * replace (N.to_nat (N.of_nat k + 1)) with (S k) by lia. rewrite (addr_succ _ _ _ _ Ek). lia.
    + (* mov o, r *)
      cbn [lower].
      assert (Hpl : plain_ok (if sync then IR2owa s0 o else IR2o s0 o) = true) by (destruct sync; reflexivity).
      destruct (exec_plain_shift rsize 0 (N.of_nat (List.length prog)) s1 (N.of_nat k) (N.of_nat (addr src k)) _ Hpl) as [Hs Hp].
      assert (Em : with_pc s1 (N.of_nat (addr src k)) = m1).
      { rewrite <- (with_pc_of_same _ _ Hsame1). f_equal. rewrite Hpc1, <- Hak. reflexivity. }
      rewrite Em in Hs, Hp. unfold at_pc. split; [exact Hs|].
      destruct Hp as [[Hx Hy]|[Hx Hy]]; rewrite Hx, Hy.
      * rewrite Nat2N.id. reflexivity.
      * replace (N.to_nat (N.of_nat k + 1)) with (S k) by lia. rewrite (addr_succ _ _ _ _ Ek). lia.
  - (* past the end of the source: past the end of the ROM *)
    assert (Hend : List.length src <= k) by (apply nth_error_None; exact Ek).
    rewrite (addr_beyond _ _ Hend).
    destruct (nth_error prog (List.length (ops_of src))) as [i|] eqn:Ei.
    + exfalso. assert (List.length (ops_of src) < List.length prog) by (apply nth_error_Some; congruence). lia.
    + split; [exact Hsame1|]. rewrite Hpc1. unfold s1. rewrite run_deferred_pc. reflexivity.
Qed.

(* every number of steps *)
Fixpoint iter {A} (n : nat) (f : A -> A) (x : A) : A := match n with O => x | S n' => iter n' f (f x) end.

Theorem assembled_program_follows_the_source sync rsize src prog s m n :
  assemble sync src = Some prog -> src_ok src -> Rel src s m ->
  Rel src (iter n (sstep sync rsize src) s) (iter n (pstep rsize prog) m).
Proof.
  intros Ha Hok. revert s m. induction n as [|n IH]; intros s m HR; simpl; auto.
  apply IH. apply lockstep; auto.
Qed.

(* the machine starts at address 0: it starts where the source says only if the entry label is in front
   of the first instruction *)
Lemma initial_states_related src (p : pstate) e t :
  entries src = [e] -> label_pos src e = Some t -> addr src t = 0 ->
  Rel src (at_pc p t) (with_pc p 0%N).
Proof.
  intros _ _ Ha. split; [repeat split|]. simpl. rewrite Nat2N.id, Ha. reflexivity.
Qed.

(* ---------- sizing ---------- *)
Lemma needed_bits_from_spec : forall fuel bits num,
  num <= 2 ^ (bits + fuel) -> num <= 2 ^ (needed_bits_from fuel bits num).
Proof.
  induction fuel as [|f IH]; intros bits num H; simpl.
  - rewrite Nat.add_0_r in H. exact H.
  - destruct (Nat.leb_spec num (2 ^ bits)); auto. apply IH. replace (S bits + f) with (bits + S f) by lia. exact H.
Qed.

Lemma pow2_gt n : n < 2 ^ n.
Proof. apply Nat.pow_gt_lin_r. lia. Qed.

Lemma needed_bits_spec num : num <= 2 ^ needed_bits num.
Proof.
  unfold needed_bits. destruct (Nat.eqb_spec num 0); [subst; simpl; lia|].
  apply needed_bits_from_spec. pose proof (pow2_gt (1 + num)). lia.
Qed.

Lemma max_list_ge l x : In x l -> x <= max_list l.
Proof. induction l as [|y l IH]; simpl; intros H; [contradiction|]. destruct H as [->|H]; [lia|]. specialize (IH H). lia. Qed.

Theorem inferred_sizes_fit prog : fits (infer prog) prog = true.
Proof.
  unfold fits, infer. simpl. apply andb_true_iff. split.
  - apply forallb_forall. intros i Hi. rewrite !andb_true_iff. repeat split.
    + apply forallb_forall. intros r Hr. apply Nat.ltb_lt.
      assert (In r (flat_map instr_regs prog)) by (apply in_flat_map; eauto).
      pose proof (max_list_ge _ _ H). pose proof (needed_bits_spec (S (max_list (flat_map instr_regs prog)))). lia.
    + apply forallb_forall. intros r Hr. apply Nat.ltb_lt.
      assert (H : In r (flat_map instr_ins prog)) by (apply in_flat_map; eauto).
      pose proof (max_list_ge _ _ H). destruct (flat_map instr_ins prog); [contradiction|]. lia.
    + apply forallb_forall. intros r Hr. apply Nat.ltb_lt.
      assert (H : In r (flat_map instr_outs prog)) by (apply in_flat_map; eauto).
      pose proof (max_list_ge _ _ H). destruct (flat_map instr_outs prog); [contradiction|]. lia.
  - apply Nat.leb_le. apply needed_bits_spec.
Qed.
