(* Proofs/BarrierProofs.v — the Step barrier is complete and the shutdown drains every worker. *)
From Coq Require Import List Arith Bool Lia.
From BM Require Import Front.Barrier.
Import ListNotations.

Lemma setw_length k v l : length (setw k v l) = length l.
Proof. revert k; induction l; destruct k; simpl; auto. Qed.
Lemma nth_setw_eq k v l : k < length l -> nth_error (setw k v l) k = Some v.
Proof. revert k; induction l; destruct k; simpl; intros; try lia; auto. apply IHl; lia. Qed.
Lemma nth_setw_neq k j v l : k <> j -> nth_error (setw k v l) j = nth_error l j.
Proof. revert k j; induction l; destruct k, j; simpl; intros; auto; try lia. Qed.

Lemma filter_length_le {A} (f : A -> bool) l : length (filter f l) <= length l.
Proof. induction l; simpl; auto. destruct (f a); simpl; lia. Qed.

Definition isDone (w : wstate) : bool := match w with WDone => true | _ => false end.
Definition ndone (ws : list wstate) : nat := length (filter isDone ws).

Lemma ndone_setw_done i ws w : nth_error ws i = Some w -> isDone w = false -> ndone (setw i WDone ws) = S (ndone ws).
Proof.
  unfold ndone. revert i; induction ws as [|a ws IH]; intros [|i] H Hw; simpl in *; try discriminate.
  - inversion H; subst. rewrite Hw. reflexivity.
  - destruct (isDone a); simpl; rewrite (IH i H Hw); reflexivity.
Qed.
Lemma ndone_setw_other i ws w v : nth_error ws i = Some w -> isDone w = false -> isDone v = false -> ndone (setw i v ws) = ndone ws.
Proof.
  unfold ndone. revert i; induction ws as [|a ws IH]; intros [|i] H Hw Hv; simpl in *; try discriminate; auto.
  - inversion H; subst. rewrite Hw, Hv. reflexivity.
  - destruct (isDone a); simpl; rewrite (IH i H Hw Hv); reflexivity.
Qed.
Lemma ndone_all ws : ndone ws = length ws -> Forall (fun w => w = WDone) ws.
Proof.
  unfold ndone. induction ws as [|a ws IH]; simpl; intro H; constructor.
  - destruct a; simpl in H; auto; pose proof (filter_length_le isDone ws); lia.
  - apply IH. destruct (isDone a); simpl in H; [lia|]. pose proof (filter_length_le isDone ws). lia.
Qed.
Lemma ndone_le ws : ndone ws <= length ws.
Proof. apply filter_length_le. Qed.

(* a worker's processor step has been executed in this round *)
Definition stepped (w : wstate) : bool := match w with WStepped | WSentId | WDone => true | _ => false end.

Record RInv (n : nat) (s : bstate) : Prop := mkRInv {
  ri_len : length (b_ws s) = n;
  ri_log : NoDup (b_log s) /\ forall i, In i (b_log s) <-> exists w, nth_error (b_ws s) i = Some w /\ stepped w = true;
  ri_main :
    match b_main s with
    | MSend k => k < n /\ (forall i w, i < k -> nth_error (b_ws s) i = Some w -> w = WHasToken \/ w = WStepped) /\
                 (forall i, k <= i -> i < n -> nth_error (b_ws s) i = Some WIdle)
    | MRecvId c => c < n /\ ndone (b_ws s) = c /\ Forall (fun w => w = WHasToken \/ w = WStepped \/ w = WDone) (b_ws s)
    | MRecvRes i c => c < n /\ ndone (b_ws s) = c /\ nth_error (b_ws s) i = Some WSentId /\
                      (forall j w, j <> i -> nth_error (b_ws s) j = Some w -> w = WHasToken \/ w = WStepped \/ w = WDone)
    | MIdle => Forall (fun w => w = WDone) (b_ws s)
    | MStopped => False
    end
}.

Definition round_start (n : nat) : bstate := mkB (MSend 0) (repeat WIdle n) [].

Lemma nth_repeat {A} (x : A) n i : i < n -> nth_error (repeat x n) i = Some x.
Proof. revert i; induction n; destruct i; simpl; intros; try lia; auto. apply IHn; lia. Qed.

Lemma rinv_start n : 1 <= n -> RInv n (round_start n).
Proof.
  intro Hn. constructor; simpl.
  - apply repeat_length.
  - split; [constructor|]. intro i; split; [tauto|]. intros (w & Hw & Hs).
    destruct (Nat.lt_ge_cases i n).
    + rewrite nth_repeat in Hw by auto. inversion Hw; subst. discriminate.
    + assert (nth_error (repeat WIdle n) i = None) by (apply nth_error_None; rewrite repeat_length; auto). congruence.
  - repeat split; auto; [lia|]. intros i _ Hi. apply nth_repeat; auto.
Qed.

Lemma Forall_setw (P : wstate -> Prop) i v ws : Forall P ws -> P v -> Forall P (setw i v ws).
Proof. intros H Hv. revert i; induction H; destruct i; simpl; constructor; auto. Qed.

Lemma Forall_nth (P : wstate -> Prop) ws : (forall j w, nth_error ws j = Some w -> P w) -> Forall P ws.
Proof.
  intro H. apply Forall_forall. intros w Hw. apply In_nth_error in Hw. destruct Hw as [j Hj]. eauto.
Qed.

Lemma NoDup_app_intro' {A} (l1 l2 : list A) :
  NoDup l1 -> NoDup l2 -> (forall x, In x l1 -> In x l2 -> False) -> NoDup (l1 ++ l2).
Proof.
  induction 1 as [|a l Hn ND IH]; simpl; intros H2 Hd; auto. constructor.
  - rewrite in_app_iff. intros [H|H]; [contradiction|]. eapply Hd; eauto.
  - apply IH; auto. intros x H1 H3; eapply Hd; eauto.
Qed.

(* the log tracks exactly the workers whose step has run *)
Lemma log_step ws log i :
  (NoDup log /\ forall j, In j log <-> exists w, nth_error ws j = Some w /\ stepped w = true) ->
  nth_error ws i = Some WHasToken ->
  NoDup (log ++ [i]) /\ forall j, In j (log ++ [i]) <-> exists w, nth_error (setw i WStepped ws) j = Some w /\ stepped w = true.
Proof.
  intros [ND HL] Hi.
  assert (Hlt : i < length ws) by (apply nth_error_Some; congruence).
  assert (Hni : ~ In i log). { intro H. apply HL in H. destruct H as (w & Hw & Hs). rewrite Hi in Hw. inversion Hw; subst. discriminate. }
  split.
  - apply NoDup_app_intro'. all: try assumption. { constructor; [simpl; tauto|constructor]. }
    intros x H1 [H2|[]]. subst. contradiction.
  - intro j. rewrite in_app_iff. simpl. destruct (Nat.eq_dec i j) as [->|Hne].
    + rewrite nth_setw_eq by auto. split; [intros _; exists WStepped; auto|auto].
    + rewrite nth_setw_neq by auto. rewrite HL. split; [intros [H|[H|[]]]; [auto|lia]|auto].
Qed.

Lemma log_keep ws log i v w0 :
  (NoDup log /\ forall j, In j log <-> exists w, nth_error ws j = Some w /\ stepped w = true) ->
  nth_error ws i = Some w0 -> stepped v = stepped w0 ->
  NoDup log /\ forall j, In j log <-> exists w, nth_error (setw i v ws) j = Some w /\ stepped w = true.
Proof.
  intros [ND HL] Hi Hs. split; auto. intro j.
  assert (Hlt : i < length ws) by (apply nth_error_Some; congruence).
  destruct (Nat.eq_dec i j) as [->|Hne].
  - rewrite nth_setw_eq by auto. rewrite HL. split.
    + intros (w & Hw & Hsw). rewrite Hi in Hw. inversion Hw; subst. exists v; split; auto. congruence.
    + intros (w & Hw & Hsw). inversion Hw; subst. exists w0; split; auto. congruence.
  - rewrite nth_setw_neq by auto. apply HL.
Qed.

(* ------------------------------------------------------------------ the round invariant is kept *)
Theorem rinv_step n s s' : RInv n s -> b_main s <> MIdle -> bstep s s' -> RInv n s'.
Proof.
  intros [Hlen Hlog Hmain] Hnidle Hstep.
  inversion Hstep as [ws log Hne|k ws log Hk|m i ws log Hi|c i ws log Hi|c i ws log Hi|ws log|i ws log w Hi Hw]; subst; cbn [b_main b_ws b_log] in *;
    try congruence; try contradiction.
  - (* send the token to worker k *)
    destruct Hmain as (Hkn & Hlow & Hhigh).
    constructor; cbn [b_main b_ws b_log].
    + rewrite setw_length; auto.
    + eapply log_keep; eauto.
    + destruct (Nat.eqb_spec (S k) (length ws)) as [E|E]; simpl.
      * (* last token: everybody holds one or has already stepped, nobody is done yet *)
        assert (Hall : Forall (fun w => w = WHasToken \/ w = WStepped \/ w = WDone) (setw k WHasToken ws) /\
                       Forall (fun w => isDone w = false) (setw k WHasToken ws)).
        { split; apply Forall_nth; intros j w Hj; destruct (Nat.eq_dec k j) as [->|Hne].
          - rewrite nth_setw_eq in Hj by lia. inversion Hj; auto.
          - rewrite nth_setw_neq in Hj by auto.
            assert (j < length ws) by (apply nth_error_Some; congruence).
            destruct (Hlow j w ltac:(lia) Hj); auto.
          - rewrite nth_setw_eq in Hj by lia. inversion Hj; auto.
          - rewrite nth_setw_neq in Hj by auto.
            assert (j < length ws) by (apply nth_error_Some; congruence).
            destruct (Hlow j w ltac:(lia) Hj); subst; auto. }
        destruct Hall as [Hall Hnd]. repeat split; [lia| |exact Hall].
        unfold ndone. clear -Hnd. induction Hnd as [|a l Ha _ IH]; simpl; auto. rewrite Ha. exact IH.
      * idtac.
        assert (Hdummy : True) by exact I.
        clear Hdummy.
        match goal with |- _ => idtac end.
        repeat split; [lia| |].
        -- intros i w Hi Hw. destruct (Nat.eq_dec k i) as [->|Hne].
           ++ rewrite nth_setw_eq in Hw by lia. inversion Hw; auto.
           ++ rewrite nth_setw_neq in Hw by auto. apply (Hlow i w); auto. lia.
        -- intros i Hi1 Hi2. rewrite nth_setw_neq by lia. apply Hhigh; lia.
  - (* a worker runs its processor step *)
    assert (Hil : i < length ws) by (apply nth_error_Some; congruence).
    constructor; cbn [b_main b_ws b_log].
    + rewrite setw_length; auto.
    + apply log_step; auto.
    + idtac.
      match goal with |- _ => idtac end.
      destruct m as [k|c|i0 c| |]; try contradiction; try congruence.
      * destruct Hmain as (Hkn & Hlow & Hhigh). repeat split; auto.
        -- intros j w Hj Hw. destruct (Nat.eq_dec i j) as [->|Hne].
           ++ rewrite nth_setw_eq in Hw by auto. inversion Hw; auto.
           ++ rewrite nth_setw_neq in Hw by auto. eauto.
        -- intros j Hj1 Hj2. destruct (Nat.eq_dec i j) as [->|Hne].
           ++ rewrite (Hhigh j Hj1 Hj2) in Hi. discriminate.
           ++ rewrite nth_setw_neq by auto. auto.
      * destruct Hmain as (Hc & Hnd & Hall). repeat split; auto.
        -- rewrite <- Hnd. apply ndone_setw_other with (w := WHasToken); auto.
        -- apply Forall_setw; auto.
      * destruct Hmain as (Hc & Hnd & Hi0 & Hoth). repeat split; auto.
        -- rewrite <- Hnd. apply ndone_setw_other with (w := WHasToken); auto.
        -- destruct (Nat.eq_dec i i0) as [->|Hne]; [congruence|]. rewrite nth_setw_neq by auto. auto.
        -- intros j w Hj Hw. destruct (Nat.eq_dec i j) as [->|Hne].
           ++ rewrite nth_setw_eq in Hw by auto. inversion Hw; auto.
           ++ rewrite nth_setw_neq in Hw by auto. eauto.
  - (* main takes an id *)
    assert (Hil : i < length ws) by (apply nth_error_Some; congruence).
    destruct Hmain as (Hc & Hnd & Hall).
    constructor; cbn [b_main b_ws b_log].
    + rewrite setw_length; auto.
    + eapply log_keep; eauto.
    + repeat split; auto.
      * rewrite <- Hnd. apply ndone_setw_other with (w := WStepped); auto.
      * apply nth_setw_eq; auto.
      * intros j w Hj Hw. rewrite nth_setw_neq in Hw by auto. rewrite Forall_forall in Hall. apply Hall.
        eapply nth_error_In; eauto.
  - (* main takes the result: one more worker is done *)
    assert (Hil : i < length ws) by (apply nth_error_Some; congruence).
    destruct Hmain as (Hc & Hnd & Hi0 & Hoth).
    assert (Hnd' : ndone (setw i WDone ws) = S c) by (rewrite <- Hnd; apply ndone_setw_done with (w := WSentId); auto).
    constructor; cbn [b_main b_ws b_log].
    + rewrite setw_length; auto.
    + eapply log_keep; eauto.
    + destruct (Nat.eqb_spec (S c) (length ws)) as [E|E]; simpl.
      * apply ndone_all. rewrite setw_length. lia.
      * repeat split; auto; [lia|].
        apply Forall_nth. intros j w Hj. destruct (Nat.eq_dec i j) as [->|Hne].
        -- rewrite nth_setw_eq in Hj by auto. inversion Hj; auto.
        -- rewrite nth_setw_neq in Hj by auto. eauto.
Qed.

(* when the round is over every worker has answered and the processor steps form a complete order *)
Theorem round_end n s : RInv n s -> b_main s = MIdle ->
  Forall (fun w => w = WDone) (b_ws s) /\ NoDup (b_log s) /\ forall j, j < n -> In j (b_log s).
Proof.
  intros [Hlen [ND HL] Hmain] Hm. rewrite Hm in Hmain. repeat split; auto.
  intros j Hj. apply HL. destruct (nth_error (b_ws s) j) as [w|] eqn:E; [|apply nth_error_None in E; lia].
  exists w; split; auto. rewrite Forall_forall in Hmain. rewrite (Hmain w (nth_error_In _ _ E)). reflexivity.
Qed.

(* a round never blocks: while it is not over some transition is enabled *)
Theorem round_progress n s : RInv n s -> b_main s <> MIdle -> exists s', bstep s s'.
Proof.
  intros [Hlen Hlog Hmain] Hni. destruct s as [m ws log]; simpl in *.
  destruct m as [k|c|i c| |]; try contradiction; try congruence.
  - destruct Hmain as (Hk & _ & Hhigh). eexists. apply T_send. apply Hhigh; lia.
  - destruct Hmain as (Hc & Hnd & Hall).
    (* some worker is not done: it either still has to step or is waiting to deliver its id *)
    assert (Hex : exists i w, nth_error ws i = Some w /\ (w = WHasToken \/ w = WStepped)).
    { clear -Hc Hnd Hall Hlen. subst n. revert c Hc Hnd. induction ws as [|a ws IH]; intros c Hc Hnd; simpl in *; [lia|].
      inversion Hall as [|? ? Ha Hall']; subst. destruct Ha as [Ha|[Ha|Ha]]; subst.
      - exists 0, WHasToken; auto.
      - exists 0, WStepped; auto.
      - unfold ndone in *. simpl in *. destruct (IH Hall' (length (filter isDone ws))) as (i & w & Hi & Hw); auto.
        + pose proof (filter_length_le isDone ws). lia.
        + exists (S i), w; auto. }
    destruct Hex as (i & w & Hi & [->| ->]).
    + eexists. apply T_step. exact Hi.
    + eexists. apply T_id. exact Hi.
  - destruct Hmain as (_ & _ & Hi & _). eexists. apply T_res. exact Hi.
Qed.

(* every transition of a round strictly decreases the measure: a round has at most 4n transitions *)
Lemma measure_setw i ws w v : nth_error ws i = Some w ->
  fold_right (fun w a => rank w + a) 0 (setw i v ws) + rank w = fold_right (fun w a => rank w + a) 0 ws + rank v.
Proof.
  revert i; induction ws as [|a ws IH]; intros [|i] H; simpl in *; try discriminate.
  - inversion H; subst. lia.
  - specialize (IH i H). lia.
Qed.

Theorem round_terminates n s s' : RInv n s -> b_main s <> MIdle -> bstep s s' -> measure s' < measure s.
Proof.
  intros I Hni Hstep. unfold measure.
  inversion Hstep as [ws log Hne|k ws log Hk|m i ws log Hi|c i ws log Hi|c i ws log Hi|ws log|i ws log w Hi Hw]; subst; simpl in *;
    try congruence.
  - pose proof (measure_setw k ws WIdle WHasToken Hk). simpl in *. lia.
  - pose proof (measure_setw i ws WHasToken WStepped Hi). simpl in *. lia.
  - pose proof (measure_setw i ws WStepped WSentId Hi). simpl in *. lia.
  - pose proof (measure_setw i ws WSentId WDone Hi). simpl in *. lia.
  - destruct I as [_ _ Hm]. simpl in Hm. contradiction.
Qed.

(* ------------------------------------------------------------------ shutdown *)
(* live workers only ever disappear through T_exit, which needs quit to be closed *)
Lemma live_setw_keep i ws w v : nth_error ws i = Some w -> w <> WExited -> v <> WExited ->
  length (filter (fun w => match w with WExited => false | _ => true end) (setw i v ws)) =
  length (filter (fun w => match w with WExited => false | _ => true end) ws).
Proof.
  revert i; induction ws as [|a ws IH]; intros [|i] H Hw Hv; simpl in *; try discriminate; auto.
  - inversion H; subst. destruct w, v; simpl; congruence.
  - destruct a; simpl; rewrite (IH i H Hw Hv); reflexivity.
Qed.


(* ------------------------------------------------------------------ shutdown *)
Definition alive (w : wstate) : bool := match w with WExited => false | _ => true end.

Lemma live_setw i ws w v : nth_error ws i = Some w ->
  length (filter alive (setw i v ws)) + (if alive w then 1 else 0) = length (filter alive ws) + (if alive v then 1 else 0).
Proof.
  revert i; induction ws as [|a ws IH]; intros [|i] H; simpl in *; try discriminate.
  - inversion H; subst. destruct (alive w), (alive v); simpl; lia.
  - specialize (IH i H). destruct (alive a); simpl; lia.
Qed.

Lemma live_relabel ws :
  length (filter alive (map (fun w => match w with WExited => WExited | _ => WIdle end) ws)) = length (filter alive ws).
Proof. induction ws as [|a ws IH]; simpl; auto. destruct a; simpl; rewrite IH; reflexivity. Qed.

(* the number of live workers never grows, and it only shrinks once quit has been closed *)
Theorem live_monotone s s' : bstep s s' -> live s' <= live s /\ (live s' < live s -> b_main s = MStopped).
Proof.
  intro Hstep. unfold live. fold alive.
  inversion Hstep as [ws log Hne|k ws log Hk|m i ws log Hi|c i ws log Hi|c i ws log Hi|ws log|i ws log w Hi Hw]; subst; simpl.
  - rewrite live_relabel. lia.
  - pose proof (live_setw k ws WIdle WHasToken Hk). simpl in *. lia.
  - pose proof (live_setw i ws WHasToken WStepped Hi). simpl in *. lia.
  - pose proof (live_setw i ws WStepped WSentId Hi). simpl in *. lia.
  - pose proof (live_setw i ws WSentId WDone Hi). simpl in *. lia.
  - lia.
  - pose proof (live_setw i ws w WExited Hi). destruct Hw; subst; simpl in *; split; auto; lia.
Qed.

(* after Stop, as long as a worker is left it can exit: the shutdown releases everything *)
Theorem stop_drains ws log :
  Forall (fun w => w = WDone \/ w = WIdle \/ w = WExited) ws ->
  0 < live (mkB MStopped ws log) ->
  exists ws', bstep (mkB MStopped ws log) (mkB MStopped ws' log) /\
              live (mkB MStopped ws' log) = live (mkB MStopped ws log) - 1 /\
              Forall (fun w => w = WDone \/ w = WIdle \/ w = WExited) ws'.
Proof.
  intros Hall Hlive. unfold live in *; simpl in *. fold alive in *.
  assert (Hex : exists i w, nth_error ws i = Some w /\ (w = WIdle \/ w = WDone)).
  { clear log. induction ws as [|a ws IH]; simpl in *; [lia|].
    inversion Hall as [|? ? Ha Hall']; subst. destruct Ha as [->|[->| ->]]; simpl in *.
    - exists 0, WDone; auto.
    - exists 0, WIdle; auto.
    - destruct (IH Hall' Hlive) as (i & w & Hi & Hw). exists (S i), w; auto. }
  destruct Hex as (i & w & Hi & Hw). exists (setw i WExited ws). repeat split.
  - eapply T_exit; eauto.
  - pose proof (live_setw i ws w WExited Hi). destruct Hw; subst; simpl in *; lia.
  - apply Forall_setw; auto.
Qed.

(* Stop is called between two Steps: there every worker is back at its select (round_end) *)
Corollary stop_after_round_is_clean n s : RInv n s -> b_main s = MIdle ->
  Forall (fun w => w = WDone \/ w = WIdle \/ w = WExited) (b_ws s).
Proof.
  intros I Hm. destruct (round_end n s I Hm) as [Hall _]. eapply Forall_impl; [|exact Hall]. intros w ->; auto.
Qed.

(* iterating: some execution of the released workers ends with nobody left *)
Inductive bsteps : bstate -> bstate -> Prop :=
| bs_refl : forall s, bsteps s s
| bs_cons : forall s t u, bstep s t -> bsteps t u -> bsteps s u.

Theorem stop_releases_all ws log :
  Forall (fun w => w = WDone \/ w = WIdle \/ w = WExited) ws ->
  exists ws', bsteps (mkB MStopped ws log) (mkB MStopped ws' log) /\ live (mkB MStopped ws' log) = 0.
Proof.
  remember (live (mkB MStopped ws log)) as k eqn:Ek. revert ws Ek.
  induction k as [|k IH]; intros ws Ek Hall.
  - exists ws. split; [apply bs_refl|auto].
  - destruct (stop_drains ws log Hall ltac:(lia)) as (ws1 & Hstep & Hlive & Hall1).
    destruct (IH ws1 ltac:(lia) Hall1) as (ws' & Hsteps & H0).
    exists ws'. split; auto. eapply bs_cons; eauto.
Qed.
