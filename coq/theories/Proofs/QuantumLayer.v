(* Proofs/QuantumLayer.v — the loop over the qubits of BmMatrixFromOperation: invariant, and the
   theorem that a compiled layer is the simultaneous application of its gates. *)
From Coq Require Import List Arith Bool Lia Permutation.
From BM Require Import Front.Quantum Front.Order Proofs.OrderProofs Proofs.QuantumProofs Proofs.QuantumPlace.
Import ListNotations.

(* ---------- more list facts ---------- *)
Lemma firstn_S_nth {A} (d : A) : forall (l : list A) q, q < length l -> firstn (S q) l = firstn q l ++ [nth q l d].
Proof.
  induction l as [|x l IH]; intros q Hq; simpl in *; [lia|].
  destruct q; [reflexivity|]. simpl. f_equal. apply IH. lia.
Qed.

Lemma firstn_add {A} : forall (l : list A) q k, firstn (q + k) l = firstn q l ++ firstn k (skipn q l).
Proof.
  induction l as [|x l IH]; intros q k.
  - rewrite !firstn_nil, skipn_nil, firstn_nil. reflexivity.
  - destruct q; simpl; [reflexivity|]. f_equal. apply IH.
Qed.

Lemma in_firstn_pos (L : list nat) q c : NoDup L -> In c L -> (In c (firstn q L) <-> pos_of L c < q).
Proof.
  intros Hnd Hc. split.
  - intros H. apply (In_nth _ _ 0) in H. destruct H as [p [Hp E]]. rewrite firstn_length in Hp.
    rewrite nth_firstn in E. destruct (Nat.ltb_spec p q); [|lia].
    rewrite <- E. rewrite pos_of_nth by (auto; lia). lia.
  - intros H. pose proof (pos_of_lt L c Hc) as Hl.
    rewrite <- (nth_pos_of L c Hc).
    assert (E : nth (pos_of L c) L 0 = nth (pos_of L c) (firstn q L) 0).
    { rewrite nth_firstn. destruct (Nat.ltb_spec (pos_of L c) q); [reflexivity|lia]. }
    rewrite E. apply nth_In. rewrite firstn_length. lia.
Qed.

Lemma nodup_app {A} : forall (a b : list A), NoDup (a ++ b) -> NoDup a /\ NoDup b /\ (forall x, In x a -> ~ In x b).
Proof.
  induction a as [|x a IH]; intros b H; simpl in *.
  - split; [constructor|]. split; [exact H|]. intros x [].
  - inversion H as [|x' l Hx Hr]; subst. destruct (IH b Hr) as [Ha [Hb Hd]]. split; [|split; [exact Hb|]].
    + constructor; auto. intros Hin. apply Hx. apply in_or_app. left. exact Hin.
    + intros y [->|Hy] Hyb; [apply Hx; apply in_or_app; right; exact Hyb|eapply Hd; eauto].
Qed.

Section Q.
Variable K : Type.
Variables (k0 k1 : K) (kadd kmul : K -> K -> K).
Notation mat := (mat K).
Notation qop := (qop K).

Hypothesis mul1l : forall a, kmul k1 a = a.
Hypothesis mul1r : forall a, kmul a k1 = a.
Hypothesis mul0l : forall a, kmul k0 a = k0.
Hypothesis mul0r : forall a, kmul a k0 = k0.
Hypothesis mulA : forall a b c, kmul a (kmul b c) = kmul (kmul a b) c.
Hypothesis mulC : forall a b, kmul a b = kmul b a.

Variable n : nat.
Variable ops : list qop.
Hypothesis ops_wf : Forall (fun o => op_wf K n o = true) ops.
Hypothesis ops_disjoint : NoDup (touched K ops).

(* ---------- consequences of well-formedness ---------- *)
Lemma op_args_lt o a : In o ops -> In a (args o) -> a < n.
Proof.
  intros Ho Ha. rewrite Forall_forall in ops_wf. specialize (ops_wf o Ho). unfold op_wf in ops_wf.
  rewrite !andb_true_iff in ops_wf. destruct ops_wf as [[[H _] _] _]. rewrite forallb_forall in H.
  apply Nat.ltb_lt. apply H. exact Ha.
Qed.

Lemma op_arity o : In o ops -> nq (gate o) = length (args o) /\ args o <> [].
Proof.
  intros Ho. rewrite Forall_forall in ops_wf. specialize (ops_wf o Ho). unfold op_wf in ops_wf.
  rewrite !andb_true_iff in ops_wf. destruct ops_wf as [[[_ H2] _] H4]. split.
  - apply Nat.eqb_eq. exact H2.
  - intros E. rewrite E in H4. discriminate.
Qed.

Lemma touched_in o a : In o ops -> In a (args o) -> In a (touched K ops).
Proof. intros. unfold touched. apply in_flat_map. eauto. Qed.

Lemma NoDup_flat_map_inner {A B} (f : A -> list B) : forall l x, NoDup (flat_map f l) -> In x l -> NoDup (f x).
Proof.
  induction l as [|y l IH]; intros x H Hx; [contradiction|]. simpl in H.
  destruct (nodup_app _ _ H) as [H1 [H2 _]]. destruct Hx as [->|Hx]; [exact H1|apply IH; auto].
Qed.

Lemma args_nodup o : In o ops -> NoDup (args o).
Proof. intros Ho. apply (NoDup_flat_map_inner args ops o ops_disjoint Ho). Qed.

(* a qubit belongs to at most one line *)
Lemma owner_unique : forall (l : list qop) o o' a,
  NoDup (flat_map args l) -> In o l -> In o' l -> In a (args o) -> In a (args o') -> o = o'.
Proof.
  induction l as [|x l IH]; intros o o' a Hnd Ho Ho' Ha Ha'; [contradiction|]. simpl in Hnd.
  assert (Hsplit : forall y, In y l -> In a (args y) -> ~ In a (args x)).
  { intros y Hy Hay Hax. destruct (nodup_app _ _ Hnd) as [_ [_ Hd]]. apply (Hd a Hax). apply in_flat_map. eauto. }
  destruct Ho as [->|Ho]; destruct Ho' as [->|Ho']; auto.
  - exfalso. eapply Hsplit; eauto.
  - exfalso. eapply Hsplit; eauto.
  - destruct (nodup_app _ _ Hnd) as [_ [Hnd2 _]]. eapply IH; eauto.
Qed.

Lemma find_op_some a o : find_op K ops a = Some o -> In o ops /\ In a (args o).
Proof.
  unfold find_op. intros H. apply find_some in H. destruct H as [H1 H2]. split; auto.
  apply existsb_exists in H2. destruct H2 as [x [Hx E]]. apply Nat.eqb_eq in E. subst. exact Hx.
Qed.

Lemma find_op_none a : find_op K ops a = None -> ~ In a (touched K ops).
Proof.
  unfold find_op. intros H Hin. unfold touched in Hin. apply in_flat_map in Hin. destruct Hin as [o [Ho Ha]].
  eapply find_none in H; eauto. simpl in H.
  assert (existsb (Nat.eqb a) (args o) = true) by (apply existsb_exists; exists a; split; auto; apply Nat.eqb_refl).
  congruence.
Qed.

Lemma find_op_owner a o : In o ops -> In a (args o) -> find_op K ops a = Some o.
Proof.
  intros Ho Ha. destruct (find_op K ops a) as [o'|] eqn:E.
  - destruct (find_op_some a o' E) as [Ho' Ha']. f_equal. eapply owner_unique; eauto.
  - exfalso. apply (find_op_none a E). eapply touched_in; eauto.
Qed.

(* ---------- the invariant of the loop over q ---------- *)
Definition id_group (a : nat) : group K := ([a], ident1 K k0 k1).
Definition op_group (o : qop) : group K := (args o, gate o).
Inductive good_group : group K -> Prop :=
| gg_id : forall a, a < n -> ~ In a (touched K ops) -> good_group (id_group a)
| gg_op : forall o, In o ops -> good_group (op_group o).

Record Inv (L : list nat) (sw : list (nat * nat)) (res : option mat) (q : nat) (G : list (group K)) : Prop := mkInv {
  inv_len : length L = n;
  inv_nd : NoDup L;
  inv_in : forall x, In x L <-> x < n;
  inv_sw : L = apply_swaps sw (seq 0 n);
  inv_range : swaps_in_range n sw;
  inv_q : q <= n;
  inv_prefix : firstn q L = concat (map fst G);
  inv_res : res = tensor_all K kmul G;
  inv_good : Forall good_group G;
  inv_closed : forall o, In o ops -> (forall a, In a (args o) -> In a (firstn q L)) \/ (forall a, In a (args o) -> ~ In a (firstn q L))
}.

Lemma good_wf G : Forall good_group G -> groups_wf K G.
Proof.
  intros H. unfold groups_wf. eapply Forall_impl; [|exact H]. intros g Hg. destruct Hg as [a _ _|o Ho]; simpl; [reflexivity|].
  apply op_arity. exact Ho.
Qed.

Lemma inv_init : 0 < n -> Inv (seq 0 n) [] None 0 [].
Proof.
  intros Hn. constructor;
    first [ apply seq_length | apply seq_NoDup | (intros x; rewrite in_seq; lia) | reflexivity | (constructor; fail) | lia
          | (intros o Ho; right; intros a _ H; exact H) ].
Qed.

Lemma not_in_prefix_pos L q c : NoDup L -> In c L -> ~ In c (firstn q L) -> q <= pos_of L c.
Proof. intros Hnd Hc Hn. destruct (Nat.le_gt_cases q (pos_of L c)); auto. exfalso. apply Hn. apply in_firstn_pos; auto. Qed.

(* one iteration *)
Lemma inv_step L sw res q G : Inv L sw res q G -> q < n ->
  exists L' sw' res' q' G',
    (forall fuel, build K k0 k1 kmul true (S fuel) n ops L sw res q = build K k0 k1 kmul true fuel n ops L' sw' res' q') /\
    Inv L' sw' res' q' G' /\ q < q'.
Proof.
  intros I Hq. destruct I as [Hlen Hnd Hin Hsw Hrange _ Hpre Hres Hgood Hclosed].
  set (a := nth q L 0).
  assert (HaL : In a L) by (apply nth_In; lia).
  assert (Han : a < n) by (apply Hin; exact HaL).
  assert (Ha_notin : ~ In a (firstn q L)).
  { intros H. apply in_firstn_pos in H; auto. unfold a in H. rewrite pos_of_nth in H by (auto; lia). lia. }
  assert (HfS : firstn (S q) L = firstn q L ++ [a]) by (apply firstn_S_nth; lia).
  destruct (find_op K ops a) as [o|] eqn:Ef.
  - destruct (find_op_some a o Ef) as [Ho Hao].
    destruct (op_arity o Ho) as [Har Hne].
    destruct (Nat.eqb_spec (length (args o)) 1) as [E1|N1].
    + (* single-qubit line *)
      assert (Eargs : args o = [a]).
      { destruct (args o) as [|x [|y r]]; simpl in *; try discriminate; try lia. destruct Hao as [->|[]]. reflexivity. }
      exists L, sw, (Some (tensor_opt K kmul res (gate o))), (S q), (G ++ [op_group o]).
      split; [|split; [|lia]].
      * intros fuel. cbn [build]. destruct (Nat.leb_spec n q); [lia|]. fold a. rewrite Ef.
        rewrite (proj2 (Nat.eqb_eq _ _) E1). reflexivity.
      * constructor; auto; try lia.
        -- rewrite HfS, map_app, concat_app, Hpre. simpl. rewrite Eargs. reflexivity.
        -- rewrite Hres. unfold tensor_all. rewrite fold_left_app. reflexivity.
        -- apply Forall_app. split; auto. constructor; [apply gg_op; exact Ho|constructor].
        -- intros o2 Ho2. rewrite HfS. destruct (Hclosed o2 Ho2) as [Hall|Hnone].
           ++ left. intros c Hc. apply in_or_app. left. apply Hall. exact Hc.
           ++ destruct (In_dec Nat.eq_dec a (args o2)) as [Hin2|Hnin2].
              ** assert (o2 = o) by (eapply owner_unique; eauto). subst o2.
                 left. intros c Hc. rewrite Eargs in Hc. destruct Hc as [->|[]]. apply in_or_app. right. simpl. auto.
              ** right. intros c Hc Hcin. apply in_app_or in Hcin. destruct Hcin as [H1|[H1|[]]]; [eapply Hnone; eauto|subst c; contradiction].
    + (* multi-qubit line: bring its qubits to positions q, q+1, ... *)
      assert (Hout : forall c, In c (args o) -> ~ In c (firstn q L)).
      { destruct (Hclosed o Ho) as [Hall|Hnone]; [exfalso; apply Ha_notin; apply Hall; exact Hao|exact Hnone]. }
      destruct (place'_spec n (args o) L sw q Hnd Hlen (args_nodup o Ho) Hne) as [L' [news [Hp [HL' [Hr [Hnd' [Hlen' [Hf [Hargs HIn]]]]]]]]].
      { intros c Hc. assert (HcL : In c L) by (apply Hin; eapply op_args_lt; eauto). split; [exact HcL|].
        apply not_in_prefix_pos; auto. }
      set (k := length (args o)) in *.
      assert (Hk : q + k <= n).
      { assert (length (firstn k (skipn q L')) = k) by (rewrite Hargs; reflexivity).
        rewrite firstn_length, skipn_length in H. lia. }
      assert (Hk1 : 1 <= k) by (unfold k; destruct (args o); [contradiction|simpl; lia]).
      exists L', (sw ++ news), (Some (tensor_opt K kmul res (gate o))), (S (q + k - 1)), (G ++ [op_group o]).
      split; [|split; [|lia]].
      * intros fuel. cbn [build]. destruct (Nat.leb_spec n q); [lia|]. fold a. rewrite Ef.
        fold k. rewrite (proj2 (Nat.eqb_neq _ _) N1). unfold local_order.
        unfold k. rewrite (place_is_place' n (args o) 0 (map (pos_of L) (args o)) L sw q Hlen Hnd);
          [| intros c Hc; apply Hin; eapply op_args_lt; eauto | reflexivity | rewrite map_length; lia].
        rewrite Hp. reflexivity.
      * replace (S (q + k - 1)) with (q + k) by lia.
        constructor; auto; try lia.
        -- intros x. rewrite HIn. apply Hin.
        -- rewrite HL', Hsw. symmetry. apply apply_swaps_app.
        -- apply Forall_app. split; auto.
        -- rewrite firstn_add, Hf, Hargs, map_app, concat_app, Hpre. simpl. rewrite app_nil_r. reflexivity.
        -- rewrite Hres. unfold tensor_all. rewrite fold_left_app. reflexivity.
        -- apply Forall_app. split; auto. constructor; [apply gg_op; exact Ho|constructor].
        -- intros o2 Ho2. rewrite firstn_add, Hf, Hargs. destruct (Hclosed o2 Ho2) as [Hall|Hnone].
           ++ left. intros c Hc. apply in_or_app. left. apply Hall. exact Hc.
           ++ destruct (In_dec Nat.eq_dec a (args o2)) as [Hin2|Hnin2].
              ** assert (o2 = o) by (eapply owner_unique; eauto). subst o2.
                 left. intros c Hc. apply in_or_app. right. exact Hc.
              ** right. intros c Hc Hcin. apply in_app_or in Hcin. destruct Hcin as [H1|H1]; [eapply Hnone; eauto|].
                 assert (o2 = o) by (eapply owner_unique; eauto). subst o2. contradiction.
  - (* no line names this qubit: identity *)
    pose proof (find_op_none a Ef) as Hunt.
    exists L, sw, (Some (tensor_opt K kmul res (ident1 K k0 k1))), (S q), (G ++ [id_group a]).
    split; [|split; [|lia]].
    + intros fuel. cbn [build]. destruct (Nat.leb_spec n q); [lia|]. fold a. rewrite Ef. reflexivity.
    + constructor; auto; try lia.
      * rewrite HfS, map_app, concat_app, Hpre. simpl. reflexivity.
      * rewrite Hres. unfold tensor_all. rewrite fold_left_app. reflexivity.
      * apply Forall_app. split; auto. constructor; [apply gg_id; auto|constructor].
      * intros o2 Ho2. rewrite HfS. destruct (Hclosed o2 Ho2) as [Hall|Hnone].
        -- left. intros c Hc. apply in_or_app. left. apply Hall. exact Hc.
        -- right. intros c Hc Hcin. apply in_app_or in Hcin. destruct Hcin as [H1|[H1|[]]]; [eapply Hnone; eauto|].
           subst c. apply Hunt. eapply touched_in; eauto.
Qed.

(* the whole loop *)
Lemma build_runs : forall fuel L sw res q G, Inv L sw res q G -> n - q < fuel ->
  exists L' sw' res' G', build K k0 k1 kmul true fuel n ops L sw res q = Some (res', sw') /\ Inv L' sw' res' n G'.
Proof.
  induction fuel as [|fuel IH]; intros L sw res q G I Hf; [lia|].
  destruct (Nat.lt_ge_cases q n) as [Hq|Hq].
  - destruct (inv_step L sw res q G I Hq) as [L' [sw' [res' [q' [G' [Hb [I' Hlt]]]]]]].
    rewrite Hb. apply (IH L' sw' res' q' G' I'). lia.
  - assert (q = n) by (destruct I; lia). subst q.
    exists L, sw, res, G. split; [|exact I]. cbn [build]. rewrite (proj2 (Nat.leb_le n n)) by lia. reflexivity.
Qed.

(* ---------- the product of the groups is the reference product ---------- *)
Inductive item := Iid (a : nat) | Iop (o : qop).
Definition group_of (it : item) : group K := match it with Iid a => id_group a | Iop o => op_group o end.
Definition item_ok (it : item) : Prop := match it with Iid a => a < n /\ ~ In a (touched K ops) | Iop o => In o ops end.
Definition ops_in (items : list item) : list qop := flat_map (fun it => match it with Iop o => [o] | Iid _ => [] end) items.

Lemma good_items G : Forall good_group G -> exists items, G = map group_of items /\ Forall item_ok items.
Proof.
  induction 1 as [|g G Hg _ [items [E Hok]]].
  - exists []. split; [reflexivity|constructor].
  - destruct Hg as [a Ha Hu|o Ho].
    + exists (Iid a :: items). split; [simpl; congruence|constructor; simpl; auto].
    + exists (Iop o :: items). split; [simpl; congruence|constructor; simpl; auto].
Qed.

Definition ofactor (i j : idx) (o : qop) : K := ent (gate o) (pick (args o) i) (pick (args o) j).
Definition idfactor (i j : idx) (a : nat) : K := if Bool.eqb (nth a i false) (nth a j false) then k1 else k0.

Lemma idx_eqb_spec (x y : idx) : idx_eqb x y = true <-> x = y.
Proof. unfold idx_eqb. destruct (list_eq_dec bool_dec x y); split; intros; congruence. Qed.

Lemma gfactor_item it i j :
  gfactor K (group_of it) i j = match it with Iid a => idfactor i j a | Iop o => ofactor i j o end.
Proof.
  destruct it as [a|o]; [|reflexivity].
  change (gfactor K (group_of (Iid a)) i j) with (if idx_eqb [nth a i false] [nth a j false] then k1 else k0).
  unfold idfactor.
  destruct (Bool.eqb (nth a i false) (nth a j false)) eqn:Eb.
  - apply Bool.eqb_prop in Eb. rewrite Eb. rewrite (proj2 (idx_eqb_spec _ _) eq_refl). reflexivity.
  - destruct (idx_eqb [nth a i false] [nth a j false]) eqn:Ei; [|reflexivity].
    apply idx_eqb_spec in Ei. inversion Ei as [E']. rewrite E' in Eb. rewrite Bool.eqb_reflx in Eb. discriminate.
Qed.

Lemma gprod_ones items i j :
  (forall a, In (Iid a) items -> idfactor i j a = k1) ->
  gprod K k1 kmul (map group_of items) i j = fold_left (fun acc o => kmul acc (ofactor i j o)) (ops_in items) k1.
Proof.
  induction items as [|it items IH] using rev_ind; intros H; [reflexivity|].
  rewrite map_app. simpl map. rewrite gprod_snoc. unfold ops_in. rewrite flat_map_app. fold (ops_in items).
  rewrite fold_left_app. rewrite IH by (intros a Ha; apply H; apply in_or_app; left; exact Ha).
  rewrite gfactor_item. destruct it as [a|o]; simpl.
  - rewrite H by (apply in_or_app; right; simpl; auto). apply mul1r.
  - reflexivity.
Qed.

Lemma gprod_zero items i j a :
  In (Iid a) items -> idfactor i j a = k0 -> gprod K k1 kmul (map group_of items) i j = k0.
Proof.
  induction items as [|it items IH] using rev_ind; intros Hin Hz; [contradiction|].
  rewrite map_app. simpl map. rewrite gprod_snoc. apply in_app_or in Hin. destruct Hin as [Hin|[E|[]]].
  - rewrite IH by assumption. apply mul0l.
  - subst it. rewrite gfactor_item, Hz. apply mul0r.
Qed.

Lemma prod_perm (f : qop -> K) l1 l2 : Permutation l1 l2 ->
  fold_left (fun acc o => kmul acc (f o)) l1 k1 = fold_left (fun acc o => kmul acc (f o)) l2 k1.
Proof.
  intros HP. apply (visit_all_perm (fun acc o => kmul acc (f o))); auto.
  intros s a b. rewrite <- !mulA. f_equal. apply mulC.
Qed.

Lemma forallb_false_exists {A} (f : A -> bool) l : forallb f l = false -> exists x, In x l /\ f x = false.
Proof.
  induction l as [|x l IH]; simpl; intros H; [discriminate|].
  destruct (f x) eqn:E; [destruct (IH H) as [y [Hy Ey]]; eauto|eauto].
Qed.

Lemma in_groups items p : In p (concat (map fst (map group_of items))) -> exists it, In it items /\ In p (fst (group_of it)).
Proof.
  intros H. apply in_concat in H. destruct H as [l [Hl Hp]]. apply in_map_iff in Hl. destruct Hl as [g [Eg Hg]].
  apply in_map_iff in Hg. destruct Hg as [it [Eit Hit]]. subst. eauto.
Qed.

Lemma ops_in_In items o : In o (ops_in items) <-> In (Iop o) items.
Proof.
  unfold ops_in. rewrite in_flat_map. split.
  - intros [it [Hit Ho]]. destruct it as [a|o']; simpl in Ho; [contradiction|]. destruct Ho as [->|[]]. exact Hit.
  - intros H. exists (Iop o). split; [exact H|simpl; auto].
Qed.

Lemma ops_in_nodup items : Forall item_ok items -> NoDup (concat (map fst (map group_of items))) -> NoDup (ops_in items).
Proof.
  induction items as [|it items IH]; intros Hok Hnd; [constructor|].
  inversion Hok as [|it' items' Hit Hoks]; subst. simpl in Hnd. destruct (nodup_app _ _ Hnd) as [_ [Hnd2 Hdis]].
  destruct it as [a|o]; simpl; [apply IH; auto|].
  constructor; [|apply IH; auto].
  intros Hin. apply ops_in_In in Hin.
  destruct (op_arity o Hit) as [_ Hne]. destruct (args o) as [|x r] eqn:Ea; [contradiction|].
  apply (Hdis x); [simpl; rewrite Ea; simpl; auto|].
  apply in_concat. exists (args o). split; [|rewrite Ea; simpl; auto].
  apply in_map_iff. exists (op_group o). split; [reflexivity|]. apply in_map_iff. exists (Iop o). split; [reflexivity|exact Hin].
Qed.

(* ---------- the theorem ---------- *)
Theorem layer_correct : 0 < n ->
  exists M, layer_matrix K k0 k1 kmul n ops = Ok M /\ nq M = n /\
            forall i j, length i = n -> length j = n -> ent M i j = ent (par_ref K k0 k1 kmul n ops) i j.
Proof.
  intros Hn.
  destruct (build_runs (S n) (seq 0 n) [] None 0 [] (inv_init Hn)) as [L [sw [res [G [Hb I]]]]]; [lia|].
  destruct I as [Hlen Hnd Hin Hsw Hrange _ Hpre Hres Hgood Hclosed].
  assert (HL : L = concat (map fst G)).
  { rewrite <- Hpre. rewrite <- Hlen. symmetry. apply firstn_all. }
  assert (HGne : G <> []).
  { intros E. rewrite E in HL. simpl in HL. rewrite HL in Hlen. simpl in Hlen. lia. }
  destruct (good_items G Hgood) as [items [EG Hok]].
  destruct (tensor_all_spec K k1 kmul mul1l G (good_wf G Hgood) HGne) as [T [HT [HnT HE]]].
  unfold layer_matrix, layer_matrix_gen. rewrite Hb, Hres, HT.
  eexists. split; [reflexivity|]. split.
  - rewrite undo_swaps_nq, HnT, <- HL. exact Hlen.
  - intros i j Hi Hj.
    rewrite <- (pick_seq i) at 1. rewrite <- (pick_seq j) at 1. rewrite Hi, Hj.
    rewrite undo_swaps by (rewrite seq_length; exact Hrange).
    rewrite <- Hsw, HL, HE. rewrite EG in *. clear Hpre.
    (* the groups' product against the reference *)
    cbn [par_ref ent].
    assert (Hperm : Permutation (ops_in items) ops).
    { apply NoDup_Permutation.
      - apply ops_in_nodup; auto. rewrite <- HL. exact Hnd.
      - clear - ops_disjoint ops_wf. (* NoDup ops: distinct lines have disjoint non-empty argument lists *)
        assert (Hgen : forall l : list qop, (forall o, In o l -> args o <> []) -> NoDup (flat_map args l) -> NoDup l).
        { induction l as [|x l IH]; intros Hne Hd; [constructor|]. simpl in Hd. destruct (nodup_app _ _ Hd) as [_ [Hd2 Hdis]].
          constructor; [|apply IH; auto; intros o Ho; apply Hne; right; exact Ho].
          intros Hx. destruct (args x) as [|a r] eqn:Ea; [apply (Hne x (or_introl eq_refl)); exact Ea|].
          apply (Hdis a); [simpl; auto|]. apply in_flat_map. exists x. split; [exact Hx|rewrite Ea; simpl; auto]. }
        apply Hgen; [|exact ops_disjoint]. intros o Ho. apply op_arity. exact Ho.
      - intros o. rewrite ops_in_In. split.
        + intros H. rewrite Forall_forall in Hok. apply (Hok (Iop o) H).
        + intros Ho. destruct (op_arity o Ho) as [_ Hne]. destruct (args o) as [|a r] eqn:Ea; [contradiction|].
          assert (Ha : In a (args o)) by (rewrite Ea; simpl; auto).
          assert (HaL : In a L) by (apply Hin; eapply op_args_lt; eauto).
          rewrite HL in HaL. destruct (in_groups items a HaL) as [it [Hit Hait]].
          rewrite Forall_forall in Hok. specialize (Hok it Hit).
          destruct it as [a'|o']; simpl in *.
          * destruct Hait as [->|[]]. exfalso. apply (proj2 Hok). eapply touched_in; eauto.
          * assert (o' = o) by (eapply owner_unique; eauto). subst o'. exact Hit. }
    destruct (others_equal n (touched K ops) i j) eqn:Eo.
    + rewrite gprod_ones.
      * apply (prod_perm (ofactor i j)). exact Hperm.
      * intros a Ha. rewrite Forall_forall in Hok. destruct (Hok (Iid a) Ha) as [Han Hun].
        unfold others_equal in Eo. rewrite forallb_forall in Eo. specialize (Eo a). rewrite in_seq in Eo.
        specialize (Eo ltac:(lia)). apply orb_true_iff in Eo. destruct Eo as [Eo|Eo].
        -- exfalso. apply Hun. apply existsb_exists in Eo. destruct Eo as [x [Hx E]]. apply Nat.eqb_eq in E. subst. exact Hx.
        -- unfold idfactor. rewrite Eo. reflexivity.
    + unfold others_equal in Eo. apply forallb_false_exists in Eo. destruct Eo as [p [Hp Ef]].
      apply in_seq in Hp. apply orb_false_iff in Ef. destruct Ef as [Ef1 Ef2].
      assert (HpL : In p L) by (apply Hin; lia). rewrite HL in HpL.
      destruct (in_groups items p HpL) as [it [Hit Hpit]].
      rewrite Forall_forall in Hok. pose proof (Hok it Hit) as Hokit.
      destruct it as [a|o]; simpl in *.
      * destruct Hpit as [->|[]]. apply (gprod_zero items i j p Hit). unfold idfactor. rewrite Ef2. reflexivity.
      * exfalso. assert (existsb (Nat.eqb p) (touched K ops) = true).
        { apply existsb_exists. exists p. split; [eapply touched_in; eauto|apply Nat.eqb_refl]. }
        congruence.
Qed.

(* the shape of what the compiler emits: tensor products of the gates of the layer and of one-qubit
   identities, conjugated by swaps of two in-range bit positions (used for unitarity) *)
Lemma layer_shape : 0 < n ->
  exists sw G T, layer_matrix K k0 k1 kmul n ops = Ok (fold_left (fun m s => conj_swap K (fst s) (snd s) m) (rev sw) T) /\
    tensor_all K kmul G = Some T /\ Forall good_group G /\ swaps_in_range n sw /\ nq T = n.
Proof.
  intros Hn.
  destruct (build_runs (S n) (seq 0 n) [] None 0 [] (inv_init Hn)) as [L [sw [res [G [Hb I]]]]]; [lia|].
  destruct I as [Hlen Hnd Hin Hsw Hrange _ Hpre Hres Hgood Hclosed].
  assert (HL : L = concat (map fst G)).
  { rewrite <- Hpre. rewrite <- Hlen. symmetry. apply firstn_all. }
  assert (HGne : G <> []).
  { intros E. rewrite E in HL. simpl in HL. rewrite HL in Hlen. simpl in Hlen. lia. }
  destruct (tensor_all_spec K k1 kmul mul1l G (good_wf G Hgood) HGne) as [T [HT [HnT _]]].
  exists sw, G, T. unfold layer_matrix, layer_matrix_gen. rewrite Hb, Hres, HT.
  split; [reflexivity|]. split; [reflexivity|]. split; [exact Hgood|]. split; [exact Hrange|].
  rewrite HnT, <- HL. exact Hlen.
Qed.

End Q.

(* ---------- every layer of a circuit satisfies the hypotheses, so a whole circuit compiles ---------- *)
Section Circuit.
Variable K : Type.
Variables (k0 k1 : K) (kmul : K -> K -> K).
Hypothesis mul1l : forall a, kmul k1 a = a.
Hypothesis mul1r : forall a, kmul a k1 = a.
Hypothesis mul0l : forall a, kmul k0 a = k0.
Hypothesis mul0r : forall a, kmul a k0 = k0.
Hypothesis mulA : forall a b c, kmul a (kmul b c) = kmul (kmul a b) c.
Hypothesis mulC : forall a b, kmul a b = kmul b a.
Variable n : nat.

Lemma nodupb_NoDup l : nodupb l = true -> NoDup l.
Proof.
  induction l as [|x l IH]; simpl; intros H; constructor.
  - apply andb_true_iff in H. destruct H as [H _]. apply negb_true_iff in H. intros Hin.
    assert (existsb (Nat.eqb x) l = true) by (apply existsb_exists; exists x; split; auto; apply Nat.eqb_refl). congruence.
  - apply IH. apply andb_true_iff in H. tauto.
Qed.

Lemma uses_false cur (o : qop K) : uses K cur o = false -> forall a, In a (args o) -> ~ In a cur.
Proof.
  unfold uses. intros H a Ha Hc.
  assert (existsb (fun a => existsb (Nat.eqb a) cur) (args o) = true).
  { apply existsb_exists. exists a. split; auto. apply existsb_exists. exists a. split; auto. apply Nat.eqb_refl. }
  congruence.
Qed.

Lemma NoDup_app_intro {A} (a b : list A) : NoDup a -> NoDup b -> (forall x, In x a -> ~ In x b) -> NoDup (a ++ b).
Proof.
  induction a as [|x a IH]; intros Ha Hb Hd; simpl; auto.
  inversion Ha; subst. constructor.
  - intros Hin. apply in_app_or in Hin. destruct Hin; [contradiction|]. eapply Hd; [left; reflexivity|eauto].
  - apply IH; auto. intros y Hy. apply Hd. right. exact Hy.
Qed.

Lemma op_wf_nodup (o : qop K) : op_wf K n o = true -> NoDup (args o).
Proof. unfold op_wf. rewrite !andb_true_iff. intros [[[_ _] H] _]. apply nodupb_NoDup. exact H. Qed.

Lemma layers_ok : forall c cur acc,
  cur = touched K acc -> NoDup cur -> Forall (fun o => op_wf K n o = true) (acc ++ c) ->
  Forall (fun l => Forall (fun o => op_wf K n o = true) l /\ NoDup (touched K l)) (layers K cur acc c).
Proof.
  induction c as [|o c IH]; intros cur acc Hcur Hnd Hwf; simpl.
  - rewrite app_nil_r in Hwf. destruct acc; constructor; [|constructor]. split; [exact Hwf|]. rewrite <- Hcur. exact Hnd.
  - assert (Ho : op_wf K n o = true).
    { rewrite Forall_forall in Hwf. apply Hwf. apply in_or_app. right. left. reflexivity. }
    destruct (uses K cur o) eqn:Eu.
    + constructor.
      * split; [apply Forall_app in Hwf; tauto|]. rewrite <- Hcur. exact Hnd.
      * apply IH.
        -- unfold touched. simpl. rewrite app_nil_r. reflexivity.
        -- apply op_wf_nodup. exact Ho.
        -- apply Forall_app in Hwf. tauto.
    + apply IH.
      * unfold touched. rewrite flat_map_app. simpl. rewrite app_nil_r. fold (touched K acc). rewrite <- Hcur. reflexivity.
      * apply NoDup_app_intro; auto; [apply op_wf_nodup; exact Ho|].
        intros x Hx Hxo. eapply uses_false; eauto.
      * rewrite <- app_assoc. exact Hwf.
Qed.

Theorem circuit_compiles : forall c, 0 < n -> Forall (fun o => op_wf K n o = true) c ->
  exists ms, compile K k0 k1 kmul n c = Some ms /\
    Forall2 (fun M l => nq M = n /\ forall i j, length i = n -> length j = n -> ent M i j = ent (par_ref K k0 k1 kmul n l) i j)
            ms (circuit_layers K c).
Proof.
  intros c Hn Hwf. unfold compile, circuit_layers.
  pose proof (layers_ok c [] [] eq_refl (NoDup_nil _) Hwf) as Hl.
  induction (layers K [] [] c) as [|l ls IH]; simpl.
  - exists []. split; [reflexivity|constructor].
  - inversion Hl as [|l' ls' [Hlw Hld] Hls]; subst.
    destruct (IH Hls) as [ms [Hms HF]].
    destruct l as [|o l]; simpl; [exists ms; auto|].
    destruct (layer_correct K k0 k1 kmul mul1l mul1r mul0l mul0r mulA mulC n (o :: l) Hlw Hld Hn) as [M [HM [HnM HE]]].
    rewrite HM. simpl in Hms. rewrite Hms. exists (M :: ms). split; [reflexivity|]. constructor; auto.
Qed.
End Circuit.
