From Coq Require Import List String Bool Arith Permutation Lia.
From BM Require Import Front.Order.
Import ListNotations.

(* the core fact: if the loop body commutes with itself, the result of the loop does not depend on
   the order in which the runtime hands out the keys *)
Lemma visit_all_perm {K S} (visit : S -> K -> S) :
  (forall s a b, visit (visit s a) b = visit (visit s b) a) ->
  forall o1 o2, Permutation o1 o2 -> forall s, visit_all visit o1 s = visit_all visit o2 s.
Proof.
  intros Hc o1 o2 HP. unfold visit_all.
  induction HP as [|x l l' _ IH|x y l|l l' l'' _ IH1 _ IH2]; intros s; simpl; auto.
  - rewrite Hc. reflexivity.
  - rewrite IH1. apply IH2.
Qed.

(* a weaker condition that is what most passes satisfy: bodies commute on the states the pass can reach
   (an invariant preserved by the body) *)
Lemma visit_all_perm_inv {K S} (visit : S -> K -> S) (Inv : S -> Prop) :
  (forall s a, Inv s -> Inv (visit s a)) ->
  (forall s a b, Inv s -> visit (visit s a) b = visit (visit s b) a) ->
  forall o1 o2, Permutation o1 o2 -> forall s, Inv s -> visit_all visit o1 s = visit_all visit o2 s.
Proof.
  intros Hi Hc o1 o2 HP. unfold visit_all.
  induction HP as [|x l l' _ IH|x y l|l l' l'' _ IH1 _ IH2]; intros s Hs; simpl; auto.
  - rewrite Hc; auto.
  - rewrite IH1; auto.
Qed.

Lemma mem_perm n l1 l2 : Permutation l1 l2 -> mem n l1 = mem n l2.
Proof.
  intros HP. unfold mem. apply eq_true_iff_eq. rewrite !existsb_exists.
  split; intros [x [Hx E]]; exists x; split; auto; [eapply Permutation_in; eauto | eapply Permutation_in; [apply Permutation_sym|]; eauto].
Qed.

Lemma select_ops_perm {O} (name : O -> string) registry rom1 rom2 ram1 ram2 :
  Permutation rom1 rom2 -> Permutation ram1 ram2 ->
  select_ops name registry rom1 ram1 = select_ops name registry rom2 ram2.
Proof.
  intros H1 H2. unfold select_ops. apply filter_ext. intros o.
  rewrite (mem_perm _ _ _ H1), (mem_perm _ _ _ H2). reflexivity.
Qed.

Lemma max_commutes s a b : Nat.max (Nat.max s a) b = Nat.max (Nat.max s b) a.
Proof. lia. Qed.

(* keyed writes: what can be observed of the state (lookups) is the same for every order *)
Lemma lookup_keyed_write {K V} (eqb : K -> K -> bool) (f : K -> V) :
  (forall a b, eqb a b = true <-> a = b) ->
  forall s k q, lookup eqb (keyed_write eqb f s k) q = if eqb k q then Some (f k) else lookup eqb s q.
Proof.
  intros He s k q. unfold lookup, keyed_write. simpl.
  destruct (eqb k q) eqn:E; auto.
  assert (Hf : forall l, find (fun p : K * V => eqb (fst p) q) (filter (fun p => negb (eqb (fst p) k)) l) = find (fun p => eqb (fst p) q) l).
  { induction l as [|p l IH]; simpl; auto.
    destruct (eqb (fst p) k) eqn:E1; simpl.
    - apply He in E1. destruct (eqb (fst p) q) eqn:E2; auto. apply He in E2. rewrite <- E1, E2 in E.
      assert (eqb q q = true) by (apply He; auto). congruence.
    - destruct (eqb (fst p) q); auto. }
  rewrite Hf. reflexivity.
Qed.

Lemma keyed_writes_observably_order_free {K V} (eqb : K -> K -> bool) (f : K -> V) :
  (forall a b, eqb a b = true <-> a = b) ->
  forall o1 o2, Permutation o1 o2 -> forall s q,
  lookup eqb (visit_all (keyed_write eqb f) o1 s) q = lookup eqb (visit_all (keyed_write eqb f) o2 s) q.
Proof.
  intros He o1 o2 HP. unfold visit_all.
  induction HP as [|x l l' _ IH|x y l|l l' l'' _ IH1 _ IH2]; intros s q; simpl; auto.
  - (* swap: compare through lookups after the remaining writes *)
    revert s. induction l as [|z l IHl]; intros s; simpl.
    + rewrite !lookup_keyed_write by auto.
      destruct (eqb x q) eqn:Ex; destruct (eqb y q) eqn:Ey; auto.
      apply He in Ex. apply He in Ey. congruence.
    + (* push one more write on both sides: states agree on every lookup, and a write preserves that *)
      assert (Hagree : forall s1 s2, (forall q, lookup eqb s1 q = lookup eqb s2 q) ->
                forall l q, lookup eqb (fold_left (keyed_write eqb f) l s1) q = lookup eqb (fold_left (keyed_write eqb f) l s2) q).
      { intros s1 s2 H12 l0. revert s1 s2 H12. induction l0 as [|w l0 IH0]; intros s1 s2 H12 q0; simpl; auto.
        apply IH0. intros q1. rewrite !lookup_keyed_write by auto. destruct (eqb w q1); auto. }
      apply Hagree. intros q1. rewrite !lookup_keyed_write by auto.
      destruct (eqb z q1); auto.
      destruct (eqb x q1) eqn:Ex; destruct (eqb y q1) eqn:Ey; auto.
      apply He in Ex. apply He in Ey. congruence.
  - rewrite IH1. apply IH2.
Qed.
