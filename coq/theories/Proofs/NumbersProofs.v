(* Proofs/NumbersProofs.v — C08 (and C07's import theorem): order independence of ImportString
   under pairwise disjoint matchers; text round trips and widths of the integer-like types. *)
From Coq Require Import String Ascii NArith List Bool Lia Permutation Arith.
From BM Require Import Base.Bits Base.Dec Front.NumLit Front.Numbers.
Import ListNotations.

(* ------------------------------------------------------------------ order independence *)

Lemma find_hd_filter {A} (P : A -> bool) l : find P l = hd_error (filter P l).
Proof. induction l as [|x l IH]; simpl; auto. destruct (P x); simpl; auto. Qed.

Lemma Permutation_filter' {A} (P : A -> bool) l1 l2 : Permutation l1 l2 -> Permutation (filter P l1) (filter P l2).
Proof.
  induction 1; simpl; auto.
  - destruct (P x); auto.
  - destruct (P x), (P y); auto. apply perm_swap.
  - eapply perm_trans; eauto.
Qed.

Lemma filter_two {A} (P : A -> bool) l :
  2 <= length (filter P l) -> exists i j a b, i <> j /\ nth_error l i = Some a /\ nth_error l j = Some b /\ P a = true /\ P b = true.
Proof.
  induction l as [|x l IH]; simpl; [lia|].
  destruct (P x) eqn:Px; simpl; intro H.
  - destruct (filter P l) as [|y t] eqn:E; [simpl in H; lia|].
    assert (Hy : In y (filter P l)) by (rewrite E; left; auto).
    apply filter_In in Hy. destruct Hy as [Hy Py]. apply In_nth_error in Hy. destruct Hy as [j Hj].
    exists 0, (S j), x, y. repeat split; auto.
  - destruct (IH H) as (i & j & a & b & Hij & Ha & Hb & Pa & Pb).
    exists (S i), (S j), a, b. repeat split; auto.
Qed.

Lemma find_unique_perm {A B} (l1 l2 : list ((A -> bool) * B)) (s : A) :
  (forall i j a b, i <> j -> nth_error l1 i = Some a -> nth_error l1 j = Some b -> fst a s && fst b s = false) ->
  Permutation l1 l2 ->
  option_map snd (find (fun m => fst m s) l1) = option_map snd (find (fun m => fst m s) l2).
Proof.
  intros Hd HP. rewrite !find_hd_filter.
  pose proof (Permutation_filter' (fun m => fst m s) l1 l2 HP) as HPf.
  assert (Hlen : length (filter (fun m => fst m s) l1) <= 1).
  { destruct (le_lt_dec (length (filter (fun m => fst m s) l1)) 1) as [|Hgt]; auto.
    destruct (filter_two (fun m => fst m s) l1 Hgt) as (i & j & a & b & Hij & Ha & Hb & Pa & Pb).
    specialize (Hd i j a b Hij Ha Hb). simpl in *. rewrite Pa, Pb in Hd. discriminate. }
  destruct (filter (fun m => fst m s) l1) as [|x [|y t]] eqn:E; simpl in Hlen; try lia.
  - apply Permutation_nil in HPf. rewrite HPf. reflexivity.
  - apply Permutation_length_1_inv in HPf. rewrite HPf. reflexivity.
Qed.

(* ------------------------------------------------------------------ string lemmas *)
Local Open Scope N_scope.

Lemma string_length_bits b : String.length (bits_to_string b) = List.length b.
Proof. induction b; simpl; auto. Qed.

Lemma bin_value_bits b acc : bin_value acc (bits_to_string b) = Some (acc * 2 ^ N.of_nat (List.length b) + get_id b).
Proof.
  revert acc; induction b as [|x b IH]; intro acc.
  - simpl. f_equal. rewrite N.mul_1_r. unfold get_id; simpl. lia.
  - cbn [bits_to_string]. rewrite get_id_cons. cbn [List.length]. rewrite Nat2N.inj_succ, N.pow_succ_r'.
    destruct x; cbn [bin_value b2n]; rewrite IH; f_equal; lia.
Qed.

Lemma strip_prefix_app p s : strip_prefix p (p ++ s) = Some s.
Proof. induction p; simpl; auto. rewrite Ascii.eqb_refl. auto. Qed.

Lemma split_char_app c x y :
  all_chars (fun a => negb (Ascii.eqb a c)) x = true -> split_char c (x ++ String c y) = Some (x, y).
Proof.
  induction x as [|a x IH]; simpl; intro H.
  - rewrite Ascii.eqb_refl. reflexivity.
  - apply andb_true_iff in H. destruct H as [Ha Hx]. apply negb_true_iff in Ha. rewrite Ha, (IH Hx). reflexivity.
Qed.

Lemma all_chars_impl (f g : ascii -> bool) s : (forall c, f c = true -> g c = true) -> all_chars f s = true -> all_chars g s = true.
Proof. intro H. induction s; simpl; auto. rewrite !andb_true_iff. intros [H1 H2]. auto. Qed.

Lemma all_digits_all_chars s : all_digits s = all_chars is_digit s.
Proof. induction s; simpl; auto. rewrite IHs. reflexivity. Qed.

Lemma digits_no_gt s : all_digits s = true -> all_chars (fun a => negb (Ascii.eqb a ">")) s = true.
Proof.
  rewrite all_digits_all_chars. apply all_chars_impl. intros c Hc.
  destruct (Ascii.eqb c ">") eqn:E; auto. apply Ascii.eqb_eq in E. subst. discriminate.
Qed.

Lemma nonempty_print_dec v : nonempty (print_dec v) = true.
Proof. pose proof (print_dec_nonempty v). destruct (print_dec v); [congruence|reflexivity]. Qed.

Lemma parse_u64_print v : v < 2 ^ 64 -> parse_u64 (print_dec v) = Some v.
Proof.
  intro H. unfold parse_u64. rewrite nonempty_print_dec, print_dec_digits, parse_digits_print. cbn [andb].
  apply N.ltb_lt in H. rewrite H. reflexivity.
Qed.

Lemma atoi_print v : v < 2 ^ 63 -> atoi_digits (print_dec v) = Some v.
Proof.
  intro H. unfold atoi_digits. rewrite nonempty_print_dec, print_dec_digits, parse_digits_print. cbn [andb].
  apply N.ltb_lt in H. rewrite H. reflexivity.
Qed.

(* ------------------------------------------------------------------ round trips *)

Theorem roundtrip_unsigned_all n :
  nty n = TUnsigned -> representable n = true -> import_as NPlain (export_string n) = Some n.
Proof.
  destruct n as [t b v]; cbn [nty]. intros -> H. unfold representable in H; cbn [nty nbits nval] in H.
  apply andb_true_iff in H. destruct H as [Hb Hv]. apply N.eqb_eq in Hb. apply N.ltb_lt in Hv. subst b.
  unfold export_string, import_as, import_unsigned_nosize; cbn [nty nbits nval]. rewrite parse_u64_print by auto. reflexivity.
Qed.

Theorem roundtrip_bin_all n :
  nty n = TBin -> representable n = true -> import_as NBinSized (export_string n) = Some n.
Proof.
  destruct n as [t b v]; cbn [nty]. intros -> H. unfold representable in H; cbn [nty nbits nval] in H.
  rewrite !andb_true_iff in H. destruct H as [[Hb1 Hb2] Hv].
  apply N.leb_le in Hb1. apply N.ltb_lt in Hb2, Hv.
  unfold export_string, import_as; cbn [nty nbits nval].
  change ("0b<" ++ print_dec b ++ ">" ++ bits_to_string (get_binary v))%string
    with ("0b<" ++ (print_dec b ++ String ">" (bits_to_string (get_binary v))))%string.
  rewrite strip_prefix_app.
  rewrite split_char_app by (apply digits_no_gt, print_dec_digits).
  rewrite atoi_print by auto. rewrite bin_value_bits, get_id_get_binary. rewrite N.mul_0_l, N.add_0_l.
  rewrite string_length_bits.
  assert (Hne : nonempty (bits_to_string (get_binary v)) = true).
  { pose proof (get_binary_nonempty v). destruct (get_binary v); [congruence|reflexivity]. }
  rewrite Hne. cbn [andb].
  assert (Hlen : (List.length (get_binary v) <= N.to_nat b)%nat).
  { apply length_get_binary_le; [lia|]. rewrite N2Nat.id. auto. }
  assert (Hle : N.of_nat (List.length (get_binary v)) <=? b = true) by (apply N.leb_le; lia).
  rewrite Hle. reflexivity.
Qed.

(* hex digits *)
Lemma hex_digit_hexchar d : d < 16 -> hex_digit (hexchar d) = Some d.
Proof.
  intro H.
  assert (E : forallb (fun k => match hex_digit (hexchar k) with Some x => x =? k | None => false end)
                      [0;1;2;3;4;5;6;7;8;9;10;11;12;13;14;15] = true) by reflexivity.
  rewrite forallb_forall in E.
  assert (Hin : In d [0;1;2;3;4;5;6;7;8;9;10;11;12;13;14;15]).
  { destruct d as [|p]; simpl; auto. repeat (destruct p as [p|p|]; simpl; auto; try lia). }
  specialize (E d Hin). destruct (hex_digit (hexchar d)); [|discriminate]. apply N.eqb_eq in E. subst; auto.
Qed.

Fixpoint nd16 (fuel : nat) (v : N) : nat :=
  match fuel with O => 0%nat | S f => if v <? 16 then 1%nat else S (nd16 f (v / 16)) end.

Lemma hex_value_to_hex f : forall v a acc,
  v < 16 ^ N.of_nat f -> hex_value a (to_hex f v acc) = hex_value (a * 16 ^ N.of_nat (nd16 f v) + v) acc.
Proof.
  induction f as [|f IH]; intros v a acc Hv.
  - simpl in Hv. assert (v = 0) by lia. subst. simpl. f_equal. lia.
  - cbn [to_hex nd16]. destruct (N.ltb_spec v 16) as [Hlt|Hge].
    + cbn [hex_value]. rewrite N.mod_small by auto. rewrite hex_digit_hexchar by auto.
      change (N.of_nat 1) with 1. rewrite N.pow_1_r. f_equal. lia.
    + rewrite IH.
      * cbn [hex_value]. rewrite hex_digit_hexchar by (apply N.mod_lt; lia).
        f_equal. rewrite Nat2N.inj_succ, N.pow_succ_r'.
        pose proof (N.div_mod v 16). lia.
      * rewrite Nat2N.inj_succ, N.pow_succ_r' in Hv. apply N.div_lt_upper_bound; lia.
Qed.

Lemma log2_fuel v : v < 16 ^ N.of_nat (S (N.to_nat (N.log2 v))).
Proof.
  destruct (N.eq_dec v 0) as [->|Hv]; [reflexivity|].
  pose proof (N.log2_spec v ltac:(lia)) as [_ Hhi].
  eapply N.lt_le_trans; [exact Hhi|].
  rewrite Nat2N.inj_succ, N2Nat.id.
  change 16 with (2 ^ 4). rewrite <- N.pow_mul_r. apply N.pow_le_mono_r; lia.
Qed.

Lemma hex_value_print_hex v : hex_value 0 (print_hex v) = Some v.
Proof. unfold print_hex. rewrite hex_value_to_hex by apply log2_fuel. simpl. f_equal. Qed.

Lemma length_to_hex f : forall v acc, String.length (to_hex f v acc) = (nd16 f v + String.length acc)%nat.
Proof.
  induction f as [|f IH]; intros v acc; [reflexivity|].
  cbn [to_hex nd16]. destruct (v <? 16); [reflexivity|]. rewrite IH. simpl. lia.
Qed.

Lemma nd16_bound f : forall v k, v < 16 ^ N.of_nat k -> (1 <= k)%nat -> (nd16 f v <= k)%nat.
Proof.
  induction f as [|f IH]; intros v k Hv Hk; [simpl; lia|].
  cbn [nd16]. destruct (N.ltb_spec v 16) as [Hlt|Hge]; [lia|].
  destruct k as [|k]; [lia|]. destruct k as [|k].
  { change (N.of_nat 1) with 1 in Hv. rewrite N.pow_1_r in Hv. lia. }
  apply le_n_S. apply IH; [|lia].
  rewrite Nat2N.inj_succ, N.pow_succ_r' in Hv. apply N.div_lt_upper_bound; lia.
Qed.

Lemma nonempty_print_hex v : nonempty (print_hex v) = true.
Proof.
  unfold print_hex. cbn [to_hex]. destruct (v <? 16); [reflexivity|].
  pose proof (length_to_hex (N.to_nat (N.log2 v)) (v / 16) (String (hexchar (v mod 16)) EmptyString)) as H.
  destruct (to_hex _ _ _); [simpl in H; lia|reflexivity].
Qed.

Theorem roundtrip_hex_all n :
  nty n = THex -> representable n = true -> import_as NHexSized (export_string n) = Some n.
Proof.
  destruct n as [t b v]; cbn [nty]. intros -> H. unfold representable in H; cbn [nty nbits nval] in H.
  rewrite !andb_true_iff in H. destruct H as [[[Hb1 Hb8] Hb2] Hv].
  apply N.leb_le in Hb1. apply N.eqb_eq in Hb8. apply N.ltb_lt in Hb2, Hv.
  unfold export_string, import_as; cbn [nty nbits nval].
  change ("0x<" ++ print_dec b ++ ">" ++ print_hex v)%string
    with ("0x<" ++ (print_dec b ++ String ">" (print_hex v)))%string.
  rewrite strip_prefix_app.
  rewrite split_char_app by (apply digits_no_gt, print_dec_digits).
  rewrite atoi_print by auto. rewrite hex_value_print_hex, nonempty_print_hex, Hb8, N.eqb_refl. cbn [andb].
  (* the digit string is short enough *)
  assert (Hm : exists m, b = 8 * m /\ 1 <= m).
  { exists (b / 8). pose proof (N.div_mod b 8). split; lia. }
  destruct Hm as (m & -> & Hm1).
  assert (Hnd : (String.length (print_hex v) <= 2 * N.to_nat m)%nat).
  { unfold print_hex. rewrite length_to_hex. simpl String.length. rewrite Nat.add_0_r.
    apply nd16_bound; [|lia].
    replace (16 ^ N.of_nat (2 * N.to_nat m)) with (2 ^ (8 * m)); auto.
    change 16 with (2 ^ 4). rewrite <- N.pow_mul_r. f_equal. lia. }
  assert (Hle : 8 * hex_bytes (print_hex v) <=? 8 * m = true).
  { apply N.leb_le. unfold hex_bytes.
    assert ((N.of_nat (String.length (print_hex v)) + 1) / 2 < m + 1); [|lia].
    apply N.div_lt_upper_bound; lia. }
  rewrite Hle. reflexivity.
Qed.

(* ------------------------------------------------------------------ widths *)

Theorem nbits_length_all n k b : export_binary_nbits n k = Some b -> List.length b = k.
Proof.
  unfold export_binary_nbits. destruct (Nat.ltb_spec k (List.length (get_binary (nval n)))); [discriminate|].
  intro E; inversion E. rewrite length_zeros_prefix. lia.
Qed.

Theorem verilog_binary_width_all n :
  nval n < 2 ^ nbits n -> 1 <= nbits n ->
  List.length (snd (export_verilog_binary n)) = N.to_nat (fst (export_verilog_binary n)).
Proof.
  intros Hv Hb. unfold export_verilog_binary; simpl. rewrite length_zeros_prefix.
  assert ((List.length (get_binary (nval n)) <= N.to_nat (nbits n))%nat); [|lia].
  apply length_get_binary_le; [lia|]. rewrite N2Nat.id. auto.
Qed.

(* the width an accepted literal states is the width of the number it denotes *)
Theorem stated_width_all s n :
  (forall body r sz val, strip_prefix "0u" s = Some body -> strip_prefix "<" body = Some r -> split_char ">" r = Some (sz, val) ->
      import_as N0uSized s = Some n -> atoi_digits sz = Some (nbits n) /\ nval n < 2 ^ nbits n) /\
  (import_as NPlain s = Some n -> nbits n = 64 /\ nval n < 2 ^ 64).
Proof.
  split.
  - intros body r sz val Hb Hr Hs. unfold import_as. rewrite Hb. unfold import_unsigned_sized. rewrite Hr, Hs.
    destruct (atoi_digits sz) as [size|]; [|discriminate]. destruct (parse_u64 val) as [v|] eqn:Ev; [|discriminate].
    destruct ((1 <=? size) && (size <=? 64) && ((size =? 64) || (v <? 2 ^ size))) eqn:E; [|discriminate].
    intro H; inversion H; subst; cbn [nbits nval]. split; auto.
    rewrite !andb_true_iff in E. destruct E as [[_ _] E]. apply orb_true_iff in E. destruct E as [E|E].
    + apply N.eqb_eq in E. subst. unfold parse_u64 in Ev.
      destruct (nonempty val && all_digits val); [|discriminate]. destruct (parse_digits val) as [pv|]; [|discriminate].
      destruct (N.ltb_spec pv (2 ^ 64)); [|discriminate]. inversion Ev; subst; auto.
    + apply N.ltb_lt; auto.
  - unfold import_as, import_unsigned_nosize. destruct (parse_u64 s) as [v|] eqn:Ev; [|discriminate].
    intro H; inversion H; subst; cbn [nbits nval]. split; auto.
    unfold parse_u64 in Ev. destruct (nonempty s && all_digits s); [|discriminate]. destruct (parse_digits s) as [pv|]; [|discriminate].
    destruct (N.ltb_spec pv (2 ^ 64)); [|discriminate]. inversion Ev; subst; auto.
Qed.
