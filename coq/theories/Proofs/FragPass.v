(* Proofs/FragPass.v — the closed statement about fragmentComposer: under decidable conditions on the
   graph and the collapse list, one pass of the composed section leaves the graph's values at the
   processor outputs. *)
From Coq Require Import List NArith Bool Arith Lia.
From BM Require Import Isa.Sim Front.Frag Front.FragWf Proofs.BondgoProofs Proofs.FragProofs Proofs.FragExec Proofs.FragCompose.
Import ListNotations.

(* ---------- decidable conditions ---------- *)
Lemma nodupn_NoDup l : nodupn l = true -> NoDup l.
Proof.
  induction l as [|x l IH]; simpl; intros H; [constructor|]. apply andb_true_iff in H. destruct H as [H1 H2].
  constructor; auto. intros Hin. apply existsb_In in Hin. rewrite Hin in H1. discriminate.
Qed.

(* ---------- the evaluation, instance by instance ---------- *)
Lemma nth_firstn_lt {A} (d : A) : forall (l : list A) q k, k < q -> nth k (firstn q l) d = nth k l d.
Proof.
  induction l as [|a l IH]; intros [|q] [|k] H; simpl; auto; try lia. apply IH. lia.
Qed.

Lemma eval_insts_prefix rs nregs xs : forall l pre, exists suf, eval_insts rs nregs xs l pre = pre ++ suf /\ length suf = length l.
Proof.
  induction l as [|a l IH]; intros pre; simpl.
  - exists []. rewrite app_nil_r. auto.
  - destruct (IH (pre ++ [frag_fun rs nregs (ifrag a) (map (src_val xs pre) (isrc a))])) as [suf [E L]].
    exists (frag_fun rs nregs (ifrag a) (map (src_val xs pre) (isrc a)) :: suf). rewrite E, <- app_assoc. simpl. auto.
Qed.

Lemma eval_insts_nth rs nregs xs d : forall l pre i, i < length l ->
  nth (length pre + i) (eval_insts rs nregs xs l pre) [] =
  frag_fun rs nregs (ifrag (nth i l d)) (map (src_val xs (firstn (length pre + i) (eval_insts rs nregs xs l pre))) (isrc (nth i l d))).
Proof.
  induction l as [|a l IH]; intros pre i Hi; simpl in Hi; [lia|].
  destruct i as [|i].
  - simpl. destruct (eval_insts_prefix rs nregs xs l (pre ++ [frag_fun rs nregs (ifrag a) (map (src_val xs pre) (isrc a))])) as [suf [E _]].
    rewrite E, Nat.add_0_r, <- !app_assoc. rewrite app_nth2 by lia. rewrite Nat.sub_diag. simpl.
    rewrite firstn_app, Nat.sub_diag, firstn_all. simpl. rewrite app_nil_r. reflexivity.
  - simpl. specialize (IH (pre ++ [frag_fun rs nregs (ifrag a) (map (src_val xs pre) (isrc a))]) i ltac:(lia)).
    rewrite app_length in IH. simpl in IH. replace (length pre + S i) with (length pre + 1 + i) by lia. exact IH.
Qed.

Lemma eval_spec rs nregs xs g p : graph_ok g = true -> p < length (insts g) ->
  let vals := eval_insts rs nregs xs (insts g) [] in
  nth p vals [] = frag_fun rs nregs (ifrag (inst_at g p)) (map (src_val xs vals) (isrc (inst_at g p))).
Proof.
  intros Hg Hp vals. pose proof (eval_insts_nth rs nregs xs (mkInst (mkFrag [] [] []) []) (insts g) [] p Hp) as E.
  simpl in E. fold vals in E. unfold inst_at. rewrite E. f_equal. apply map_ext_in. intros s Hs.
  unfold graph_ok in Hg. rewrite forallb_forall in Hg. specialize (Hg p ltac:(apply in_seq; lia)).
  rewrite forallb_forall in Hg. specialize (Hg s Hs). destruct s as [k|p' q']; simpl; [reflexivity|].
  simpl in Hg. apply andb_true_iff in Hg. destruct Hg as [Hlt _]. apply Nat.ltb_lt in Hlt.
  rewrite nth_firstn_lt by exact Hlt. reflexivity.
Qed.

(* ---------- the ordering condition ---------- *)
Lemma inside_In cl p : inside cl p = true <-> In p cl.
Proof. unfold inside. apply existsb_In. Qed.

Lemma ordered_spec g cl : forall todo done0 done p rest j p' q', ordered g cl done0 todo = true ->
  todo = done ++ p :: rest -> nth_error (isrc (inst_at g p)) j = Some (SOut p' q') -> inside cl p' = true ->
  In p' (done0 ++ done).
Proof.
  induction todo as [|a todo IH]; intros done0 done p rest j p' q' Ho Ht Hj Hin.
  - destruct done; discriminate.
  - simpl in Ho. apply andb_true_iff in Ho. destruct Ho as [Ha Ho]. destruct done as [|d done]; simpl in Ht; inversion Ht; subst.
    + rewrite forallb_forall in Ha. specialize (Ha (SOut p' q') (nth_error_In _ _ Hj)). simpl in Ha. rewrite Hin in Ha. simpl in Ha.
      rewrite app_nil_r. apply inside_In. exact Ha.
    + specialize (IH (done0 ++ [d]) done p rest j p' q' Ho eq_refl Hj Hin). rewrite <- app_assoc in IH. exact IH.
Qed.

(* ---------- the closed theorems ---------- *)
Definition Vg (rs : N) (nregs : nat) (g : graph) (xs : list N) (p q : nat) : N :=
  nthN (nth p (eval_insts rs nregs xs (insts g) []) []) q.

(* general form: the claim is made for the instances in [good], a set closed under producers inside the
   list, and only their inputs need to be right *)
Theorem compose_pass_good rs nregs nouts g cl xs r ins (good : nat -> bool) :
  graph_ok g = true -> pass_ok g cl nregs nouts = true -> length r = nregs ->
  (forall p j k, In p cl -> good p = true -> index_of2 (p, j) (in_ports g cl) = Some k ->
     nthN ins k = src_val xs (eval_insts rs nregs xs (insts g) []) (nth j (isrc (inst_at g p)) (SExt 0))) ->
  (forall p j p' q', In p cl -> good p = true -> nth_error (isrc (inst_at g p)) j = Some (SOut p' q') ->
     inside cl p' = true -> good p' = true) ->
  let res := run_pass rs (removelast (compose g cl)) ins nouts r in
  length (fst res) = nregs /\ length (snd res) = nouts /\
  forall p q k, In p cl -> good p = true -> index_of2 (p, q) (out_ports g cl) = Some k ->
    nthN (snd res) k = Vg rs nregs g xs p q.
Proof.
  intros Hg Hp Hr Hins Hgood.
  unfold pass_ok in Hp. repeat (apply andb_true_iff in Hp; destruct Hp as [Hp ?]).
  match goal with H : ordered _ _ _ _ = true |- _ => rename H into Hord end.
  match goal with H : (_ <=? _) = true |- _ => apply Nat.leb_le in H; rename H into Hno end.
  match goal with H : forallb (fun x => x <? nregs) _ = true |- _ => rename H into Hfit end.
  match goal with H : forallb (inst_ok g) _ = true |- _ => rename H into Hio end.
  match goal with H : forallb (fun p => p <? length (insts g)) _ = true |- _ => rename H into Hlt end.
  rewrite forallb_forall in Hfit, Hio, Hlt.
  unfold compose. cbv zeta. rewrite removelast_last.
  assert (Hnd : NoDup cl) by (apply nodupn_NoDup; exact Hp).
  assert (Hfr : forall p0, In p0 cl -> frag_ok (ifrag (inst_at g p0)) = true /\ NoDup (resin (ifrag (inst_at g p0))) /\
                  length (isrc (inst_at g p0)) = length (resin (ifrag (inst_at g p0)))).
  { intros p0 Hp0. specialize (Hio p0 Hp0). unfold inst_ok in Hio. cbv zeta in Hio.
    apply andb_true_iff in Hio. destruct Hio as [Hio H3]. apply andb_true_iff in Hio. destruct Hio as [H1 H2].
    split; [exact H1|]. split; [apply nodupn_NoDup; exact H2|apply Nat.eqb_eq; exact H3]. }
  assert (Hrg : forall x, In x (frag_regs g cl) -> x < nregs).
  { intros x Hx. apply Nat.ltb_lt. apply Hfit. apply in_or_app. left. exact Hx. }
  assert (Htm : forall t, In t (alloc_tmps (length (tmp_ports g cl)) (frag_regs g cl)) -> t < nregs).
  { intros t Ht. apply Nat.ltb_lt. apply Hfit. apply in_or_app. right. exact Ht. }
  assert (Hev : forall p0, In p0 cl -> nth p0 (eval_insts rs nregs xs (insts g) []) [] =
            frag_fun rs nregs (ifrag (inst_at g p0)) (map (src_val xs (eval_insts rs nregs xs (insts g) [])) (isrc (inst_at g p0)))).
  { intros p0 Hp0. apply (eval_spec rs nregs xs g p0 Hg). apply Nat.ltb_lt. apply Hlt. exact Hp0. }
  assert (Hpo : forall p0 j p' q', In p0 cl -> nth_error (isrc (inst_at g p0)) j = Some (SOut p' q') ->
            q' < length (resout (ifrag (inst_at g p')))).
  { intros p0 j p' q' Hp0 Hj. unfold graph_ok in Hg. rewrite forallb_forall in Hg.
    assert (Hl : p0 < length (insts g)) by (apply Nat.ltb_lt; apply Hlt; exact Hp0).
    specialize (Hg p0 ltac:(apply in_seq; lia)). rewrite forallb_forall in Hg.
    specialize (Hg _ (nth_error_In _ _ Hj)). simpl in Hg. apply andb_true_iff in Hg. destruct Hg as [_ Hq]. apply Nat.ltb_lt. exact Hq. }
  assert (Hor : forall (done : list nat) (p0 : nat) (todo : list nat) (j p' q' : nat), cl = done ++ p0 :: todo ->
            nth_error (isrc (inst_at g p0)) j = Some (SOut p' q') -> inside cl p' = true -> In p' done).
  { intros done p0 todo j p' q' Hcl Hj Hi. apply (ordered_spec g cl cl [] done p0 todo j p' q' Hord Hcl Hj Hi). }
  cbv zeta. split; [|split].
  - apply (pass_lengths rs nregs nouts ins xs g cl good); auto.
  - apply (pass_lengths rs nregs nouts ins xs g cl good); auto.
  - intros p q k Hin Hgp Hk. apply (pass_correct rs nregs nouts ins xs g cl good); auto.
Qed.

Lemma pass_inputs_right rs nregs g cl xs p j k : index_of2 (p, j) (in_ports g cl) = Some k ->
  nthN (pass_inputs rs nregs g cl xs) k = src_val xs (eval_insts rs nregs xs (insts g) []) (nth j (isrc (inst_at g p)) (SExt 0)).
Proof.
  intros Hi. apply index_of2_some in Hi. unfold pass_inputs. cbv zeta. unfold nthN.
  erewrite nth_error_nth; [reflexivity|]. rewrite nth_error_map, Hi. reflexivity.
Qed.

Theorem compose_pass_correct rs nregs nouts g cl xs r body :
  graph_ok g = true -> pass_ok g cl nregs nouts = true -> length r = nregs ->
  compose g cl = body ++ [IJ 0] ->
  forall p q k, In p cl -> index_of2 (p, q) (out_ports g cl) = Some k ->
  nthN (snd (run_pass rs body (pass_inputs rs nregs g cl xs) nouts r)) k =
  nthN (nth p (eval_insts rs nregs xs (insts g) []) []) q.
Proof.
  intros Hg Hp Hr Hc p q k Hin Hk.
  destruct (compose_pass_good rs nregs nouts g cl xs r (pass_inputs rs nregs g cl xs) (fun _ => true) Hg Hp Hr) as [_ [_ H]].
  - intros p0 j k0 _ _ Hi. apply pass_inputs_right. exact Hi.
  - reflexivity.
  - rewrite Hc, removelast_last in H. apply H; auto.
Qed.

(* every external output of the graph produced in this list appears at a processor output with the graph's value *)
Corollary compose_pass_external rs nregs nouts g cl xs r body :
  graph_ok g = true -> pass_ok g cl nregs nouts = true -> length r = nregs ->
  compose g cl = body ++ [IJ 0] ->
  forall p q, In (p, q) (ext_out g) -> In p cl -> q < length (resout (ifrag (inst_at g p))) ->
  exists k, index_of2 (p, q) (out_ports g cl) = Some k /\
    nthN (snd (run_pass rs body (pass_inputs rs nregs g cl xs) nouts r)) k =
    nthN (nth p (eval_insts rs nregs xs (insts g) []) []) q.
Proof.
  intros Hg Hp Hr Hc p q Hext Hin Hq.
  assert (Hport : In (p, q) (out_ports g cl)).
  { unfold out_ports. apply in_ports_where. split; [exact Hin|]. split; [exact Hq|].
    unfold has_external. apply orb_true_iff. left. apply existsb_exists. exists (p, q). split; [exact Hext|].
    simpl. rewrite !Nat.eqb_refl. reflexivity. }
  destruct (index_of2_in _ _ Hport) as [k Hk]. exists k. split; [exact Hk|].
  eapply compose_pass_correct; eauto.
Qed.
