(* Proofs/FragExec.v — executing fragment code on the simulator model: effect of the glue
   instructions, register-only bodies, and when a fragment is a function of its inputs. *)
From Coq Require Import List NArith Bool Arith Lia.
From BM Require Import Isa.Sim Front.Frag Front.FragWf Proofs.BondgoProofs.
Import ListNotations.

Lemma nthN_upd_same k v l : k < length l -> nthN (upd k v l) k = v.
Proof. intros. unfold nthN. apply nth_upd_same. assumption. Qed.
Lemma nthN_upd_other k j v l : k <> j -> nthN (upd k v l) j = nthN l j.
Proof. intros. unfold nthN. apply nth_upd_other. assumption. Qed.

(* ---------- glue instructions ---------- *)
Lemma exec_i2r rs pl p r k :
  let p' := exec rs pl p (II2r r k) in
  regs p' = upd r (nthN (inputs p) k) (regs p) /\ inputs p' = inputs p /\ outputs p' = outputs p.
Proof. simpl. auto. Qed.

Lemma exec_cpy rs pl p d s :
  let p' := exec rs pl p (ICpy d s) in
  regs p' = upd d (nthN (regs p) s) (regs p) /\ inputs p' = inputs p /\ outputs p' = outputs p.
Proof. simpl. auto. Qed.

Lemma exec_r2o rs pl p r k :
  let p' := exec rs pl p (IR2o r k) in
  regs p' = regs p /\ inputs p' = inputs p /\ outputs p' = upd k (nthN (regs p) r) (outputs p).
Proof. simpl. auto. Qed.

(* ---------- register-only instructions ---------- *)
Lemma exec_reg_only rs pl p i : reg_only i = true ->
  regs (exec rs pl p i) = rexec rs (regs p) i /\ inputs (exec rs pl p i) = inputs p /\ outputs (exec rs pl p i) = outputs p.
Proof. destruct i; simpl; intros H; try discriminate; auto. Qed.

Lemma rexec_spec rs r i : reg_only i = true ->
  length (rexec rs r i) = length r /\
  (forall x, ~ In x (writes i) -> nthN (rexec rs r i) x = nthN r x).
Proof.
  destruct i; simpl; intros H; try discriminate; unfold rexec; simpl; rewrite ?upd_length;
    (split; [reflexivity|]); intros x Hx; try reflexivity; apply nthN_upd_other; intros E; apply Hx; simpl; auto.
Qed.

Lemma nthN_upd_eq d (v1 v2 : N) r1 r2 : length r1 = length r2 -> v1 = v2 -> nthN (upd d v1 r1) d = nthN (upd d v2 r2) d.
Proof.
  intros Hl ->. destruct (Nat.lt_ge_cases d (length r1)) as [Hlt|Hge].
  - rewrite !nthN_upd_same by lia. reflexivity.
  - unfold nthN. rewrite !nth_overflow by (rewrite upd_length; lia). reflexivity.
Qed.

(* the value written depends only on the registers read *)
Lemma rexec_agree rs r1 r2 i : reg_only i = true -> length r1 = length r2 ->
  (forall x, In x (ireads i) -> nthN r1 x = nthN r2 x) ->
  forall d, In d (writes i) -> nthN (rexec rs r1 i) d = nthN (rexec rs r2 i) d.
Proof.
  intros Hr Hl Hag d Hd.
  destruct i; simpl in *; try discriminate; try contradiction; destruct Hd as [<-|[]]; unfold rexec; simpl;
    apply nthN_upd_eq; auto; rewrite ?Hag by (simpl; auto); reflexivity.
Qed.

Lemma exec_body rs pl : forall b p, Forall (fun i => reg_only i = true) b ->
  let p' := fold_left (fun p i => exec rs pl p i) b p in
  regs p' = run_body rs b (regs p) /\ inputs p' = inputs p /\ outputs p' = outputs p.
Proof.
  induction b as [|i b IH]; intros p Hb; simpl; auto.
  inversion Hb as [|i' b' Hi Hb']; subst.
  destruct (exec_reg_only rs pl p i Hi) as [E1 [E2 E3]].
  destruct (IH (exec rs pl p i) Hb') as [F1 [F2 F3]]. simpl in *.
  rewrite F1, F2, F3, E1, E2, E3. auto.
Qed.

Lemma run_body_length rs : forall b r, Forall (fun i => reg_only i = true) b -> length (run_body rs b r) = length r.
Proof.
  induction b as [|i b IH]; intros r Hb; simpl; auto. inversion Hb; subst.
  unfold run_body in *. simpl. rewrite IH by assumption. apply rexec_spec. assumption.
Qed.

Lemma run_body_other rs : forall b r x, Forall (fun i => reg_only i = true) b ->
  ~ In x (flat_map writes b) -> nthN (run_body rs b r) x = nthN r x.
Proof.
  induction b as [|i b IH]; intros r x Hb Hx; simpl; auto. inversion Hb; subst.
  unfold run_body in *. simpl. simpl in Hx. rewrite IH; auto.
  - apply rexec_spec; auto. intros H. apply Hx. apply in_or_app. left. exact H.
  - intros H. apply Hx. apply in_or_app. right. exact H.
Qed.

Lemma existsb_In x W : existsb (Nat.eqb x) W = true <-> In x W.
Proof.
  rewrite existsb_exists. split.
  - intros [y [Hy E]]. apply Nat.eqb_eq in E. subst. exact Hy.
  - intros H. exists x. split; auto. apply Nat.eqb_refl.
Qed.

Lemma scan_reg_only : forall b W W', scan W b = Some W' -> Forall (fun i => reg_only i = true) b.
Proof.
  induction b as [|i b IH]; intros W W' H; [constructor|]. simpl in H.
  destruct (reg_only i) eqn:E; [|discriminate]. simpl in H.
  destruct (forallb _ (ireads i)); [|discriminate]. constructor; eauto.
Qed.

Lemma scan_agree rs : forall b W W' r1 r2, scan W b = Some W' -> length r1 = length r2 ->
  (forall x, In x W -> nthN r1 x = nthN r2 x) ->
  forall x, In x W' -> nthN (run_body rs b r1) x = nthN (run_body rs b r2) x.
Proof.
  induction b as [|i b IH]; intros W W' r1 r2 Hs Hl Hag x Hx; simpl in *.
  - inversion Hs; subst. auto.
  - destruct (reg_only i) eqn:Er; [|discriminate]. simpl in Hs.
    destruct (forallb (fun x => existsb (Nat.eqb x) W) (ireads i)) eqn:Ef; [|discriminate].
    unfold run_body. simpl. apply (IH (writes i ++ W) W'); auto.
    + destruct (rexec_spec rs r1 i Er) as [L1 _]. destruct (rexec_spec rs r2 i Er) as [L2 _]. lia.
    + intros y Hy. destruct (In_dec Nat.eq_dec y (writes i)) as [Hw|Hnw].
      * apply rexec_agree; auto. intros z Hz. apply Hag. rewrite forallb_forall in Ef. apply existsb_In. apply Ef. exact Hz.
      * destruct (rexec_spec rs r1 i Er) as [_ O1]. destruct (rexec_spec rs r2 i Er) as [_ O2].
        rewrite O1, O2 by assumption. apply Hag. apply in_app_or in Hy. destruct Hy; [contradiction|assumption].
Qed.

Theorem frag_ok_closed rs f r1 r2 : frag_ok f = true -> length r1 = length r2 ->
  (forall x, In x (resin f) -> nthN r1 x = nthN r2 x) ->
  map (nthN (run_body rs (fbody f) r1)) (resout f) = map (nthN (run_body rs (fbody f) r2)) (resout f).
Proof.
  unfold frag_ok. intros H Hl Hag. destruct (scan (resin f) (fbody f)) as [W|] eqn:Es; [|discriminate].
  apply map_ext_in. intros x Hx. eapply scan_agree; eauto.
  rewrite forallb_forall in H. apply existsb_In. apply H. exact Hx.
Qed.

Lemma frag_ok_reg_only f : frag_ok f = true -> Forall (fun i => reg_only i = true) (fbody f).
Proof. unfold frag_ok. destruct (scan (resin f) (fbody f)) eqn:E; [|discriminate]. intros _. eapply scan_reg_only; eauto. Qed.

(* loading the inputs of a fragment *)
Lemma load_spec : forall ports vals r, NoDup ports -> length ports = length vals -> (forall x, In x ports -> x < length r) ->
  length (load ports vals r) = length r /\
  (forall j, j < length ports -> nthN (load ports vals r) (nth j ports 0) = nthN vals j) /\
  (forall x, ~ In x ports -> nthN (load ports vals r) x = nthN r x).
Proof.
  induction ports as [|p ports IH]; intros vals r Hnd Hl Hr; simpl.
  - split; [reflexivity|]. split; [intros; lia|auto].
  - destruct vals as [|v vals]; [discriminate|]. simpl in Hl. inversion Hnd as [|p' ps Hp Hnd']; subst.
    destruct (IH vals (upd p v r) Hnd' ltac:(lia)) as [L [G O]].
    { intros x Hx. rewrite upd_length. apply Hr. right. exact Hx. }
    split; [rewrite L; apply upd_length|]. split.
    + intros [|j] Hj; simpl.
      * rewrite O by exact Hp. apply nthN_upd_same. apply Hr. left. reflexivity.
      * apply G. lia.
    + intros x Hx. rewrite O by (intros H; apply Hx; right; exact H). apply nthN_upd_other. intros E. apply Hx. left. exact E.
Qed.
