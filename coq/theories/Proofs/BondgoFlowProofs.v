(* Proofs/BondgoFlowProofs.v — the jumps the compiler emits for if / for / break / continue implement
   the structured meaning: running the flattened code on the simulator model from the first address of
   a list of constructs reaches, in finitely many steps, the address after the list (or the enclosing
   loop's break / continue target) in the state the big-step meaning [srun] gives. *)
From Coq Require Import List NArith Bool Arith Lia.
From BM Require Import Isa.Sim Front.BondgoFlow.
Import ListNotations.

(* ---------- induction over nested constructs ---------- *)
Section Ind.
Variable P : sasm -> Prop.
Hypothesis Hb : forall b, P (ABlock b).
Hypothesis Hi : forall cb r th el, Forall P th -> match el with Some e => Forall P e | None => True end -> P (AIf cb r th el).
Hypothesis Hf : forall i c body post, Forall P body -> P (AFor i c body post).
Hypothesis Hbr : P ABreak.
Hypothesis Hc : P AContinue.
Fixpoint sasm_rect' (s : sasm) : P s :=
  let go := fix go (l : list sasm) : Forall P l :=
    match l with [] => Forall_nil _ | x :: r => Forall_cons x (sasm_rect' x) (go r) end in
  match s with
  | ABlock b => Hb b
  | AIf cb r th el => Hi cb r th el (go th) (match el with Some e => go e | None => I end)
  | AFor i c body post => Hf i c body post (go body)
  | ABreak => Hbr
  | AContinue => Hc
  end.
End Ind.

(* ---------- equations and lengths ---------- *)
Lemma size_cons s l : size (s :: l) = size1 s + size l.
Proof. reflexivity. Qed.

Lemma flat1_if base brk cont cb r th el :
  flat1 base brk cont (AIf cb r th el) =
  cb ++ [Jz r (base + length cb + 1 + size th + match el with Some _ => 1 | None => 0 end)] ++
  flatten (base + length cb + 1) brk cont th ++
  match el with
  | Some e => [J (base + length cb + 1 + size th + 1 + size e)] ++ flatten (base + length cb + 1 + size th + 1) brk cont e
  | None => []
  end.
Proof. destruct el; reflexivity. Qed.

Definition cond_len (cond : option (list instr * nat)) : nat := match cond with Some (cb, _) => length cb + 1 | None => 0 end.
Lemma flat1_for base brk cont init cond body post :
  flat1 base brk cont (AFor init cond body post) =
  init ++ match cond with Some (cb, r) => cb ++ [Jz r (base + length init + cond_len cond + size body + length post + 1)] | None => [] end ++
  flatten (base + length init + cond_len cond) (base + length init + cond_len cond + size body + length post + 1)
          (base + length init + cond_len cond + size body) body ++ post ++ [J (base + length init)].
Proof. destruct cond as [[cb r]|]; reflexivity. Qed.

Lemma flatten_cons base brk cont s l : flatten base brk cont (s :: l) = flat1 base brk cont s ++ flatten (base + size1 s) brk cont l.
Proof. reflexivity. Qed.

Lemma size1_if cb r th el : size1 (AIf cb r th el) = length cb + 1 + size th + match el with Some e => 1 + size e | None => 0 end.
Proof. reflexivity. Qed.
Lemma size1_for init cond body post : size1 (AFor init cond body post) = length init + cond_len cond + size body + length post + 1.
Proof. destruct cond as [[cb r]|]; reflexivity. Qed.

Lemma flat1_length : forall s base brk cont, length (flat1 base brk cont s) = size1 s.
Proof.
  induction s as [b|cb r th el Hth Hel|init cond body post Hbody| |] using sasm_rect'; intros base brk cont; try reflexivity.
  - assert (L : forall l, Forall (fun s => forall base brk cont, length (flat1 base brk cont s) = size1 s) l ->
                forall base brk cont, length (flatten base brk cont l) = size l).
    { induction 1 as [|x l Hx _ IH]; intros b0 b1 b2; [reflexivity|]. rewrite flatten_cons, app_length, Hx, IH. reflexivity. }
    rewrite flat1_if, size1_if, !app_length, (L th Hth). cbn [length].
    destruct el as [e|]; [rewrite !app_length, (L e Hel); cbn [length]|cbn [length]]; lia.
  - assert (L : forall l, Forall (fun s => forall base brk cont, length (flat1 base brk cont s) = size1 s) l ->
                forall base brk cont, length (flatten base brk cont l) = size l).
    { induction 1 as [|x l Hx _ IH]; intros b0 b1 b2; [reflexivity|]. rewrite flatten_cons, app_length, Hx, IH. reflexivity. }
    rewrite flat1_for, size1_for, !app_length, (L body Hbody). cbn [length].
    destruct cond as [[cb r]|]; cbn [cond_len length]; rewrite ?app_length; cbn [length]; lia.
Qed.

Lemma flatten_length : forall l base brk cont, length (flatten base brk cont l) = size l.
Proof. induction l as [|s l IH]; intros; [reflexivity|]. rewrite flatten_cons, app_length, flat1_length, IH. reflexivity. Qed.

(* ---------- the machine ---------- *)
Section M.
Variable rsize : N.
Variable prog : list instr.

Definition step := pstep rsize prog.
Fixpoint iter (n : nat) (p : pstate) : pstate := match n with O => p | S k => iter k (step p) end.
Lemma iter_add n m p : iter (n + m) p = iter m (iter n p).
Proof. revert p; induction n as [|n IH]; intros p; [reflexivity|]. simpl. apply IH. Qed.

Definition at_ (a : nat) (p : pstate) : pstate := with_pc p (N.of_nat a).
Definition clean (p : pstate) : Prop := deferred p = [].

(* the code sits in the program at address [base] *)
Definition emb (base : nat) (c : list instr) : Prop := forall k i, nth_error c k = Some i -> nth_error prog (base + k) = Some i.

Lemma emb_app base a b : emb base (a ++ b) -> emb base a /\ emb (base + length a) b.
Proof.
  intros H. split; intros k i Hk.
  - apply H. rewrite nth_error_app1; [exact Hk|]. apply nth_error_Some. congruence.
  - rewrite <- Nat.add_assoc. apply H. rewrite nth_error_app2 by lia. replace (length a + k - length a) with k by lia. exact Hk.
Qed.
Lemma emb_head base i c : emb base (i :: c) -> nth_error prog base = Some i.
Proof. intros H. rewrite <- (Nat.add_0_r base). apply H. reflexivity. Qed.

Lemma run_deferred_clean p : clean p -> run_deferred p = p.
Proof. unfold clean, run_deferred. destruct p; simpl. intros ->. reflexivity. Qed.

Lemma exec_plain i p a L : plain i = true ->
  exec rsize L (with_pc p a) i = with_pc (dat (exec rsize 0 (dat p) i)) (a + 1) /\ deferred (exec rsize 0 (dat p) i) = deferred p.
Proof. destruct i; intros H; try discriminate H; split; reflexivity. Qed.

Lemma step_plain a p i : nth_error prog a = Some i -> plain i = true -> clean p ->
  step (at_ a p) = at_ (S a) (dat (exec rsize 0 (dat p) i)) /\ clean (dat (exec rsize 0 (dat p) i)).
Proof.
  intros Hn Hp Hc. unfold step, pstep. rewrite (run_deferred_clean (at_ a p)) by exact Hc.
  unfold at_ at 1. cbn [pc with_pc]. rewrite Nat2N.id, Hn. unfold at_.
  destruct (exec_plain i p (N.of_nat a) (N.of_nat (length prog)) Hp) as [E D]. rewrite E.
  split; [|unfold clean; change (deferred (exec rsize 0 (dat p) i) = []); rewrite D; exact Hc].
  rewrite Nat2N.inj_succ, N.add_1_r. reflexivity.
Qed.

Lemma bexec_cons i b p : bexec rsize (i :: b) p = bexec rsize b (dat (exec rsize 0 (dat p) i)).
Proof. reflexivity. Qed.

Lemma block_steps : forall b a p, emb a b -> forallb plain b = true -> clean p ->
  iter (length b) (at_ a p) = at_ (a + length b) (bexec rsize b p) /\ clean (bexec rsize b p).
Proof.
  induction b as [|i b IH]; intros a p He Hp Hc.
  - cbn [length iter]. rewrite Nat.add_0_r. split; [reflexivity|exact Hc].
  - cbn [forallb] in Hp. apply andb_true_iff in Hp. destruct Hp as [Hi Hb].
    destruct (step_plain a p i (emb_head a i b He) Hi Hc) as [Es Cs].
    cbn [length iter]. rewrite Es, bexec_cons.
    assert (He' : emb (S a) b).
    { intros k j Hk. replace (S a + k) with (a + S k) by lia. apply He. exact Hk. }
    destruct (IH (S a) _ He' Hb Cs) as [E C]. rewrite E. split; [|exact C]. f_equal. lia.
Qed.

Lemma step_j a p t : nth_error prog a = Some (J t) -> t < length prog -> clean p -> step (at_ a p) = at_ t p.
Proof.
  intros Hn Ht Hc. unfold step, pstep. rewrite (run_deferred_clean (at_ a p)) by exact Hc.
  unfold at_ at 1. cbn [pc with_pc]. rewrite Nat2N.id, Hn. unfold J. cbn [exec].
  assert (E : (N.of_nat t <? N.of_nat (length prog))%N = true) by (apply N.ltb_lt; lia). rewrite E. reflexivity.
Qed.

Lemma step_jz a p r t : nth_error prog a = Some (Jz r t) -> clean p ->
  step (at_ a p) = if reg_true p r then at_ (S a) p else at_ t p.
Proof.
  intros Hn Hc. unfold step, pstep. rewrite (run_deferred_clean (at_ a p)) by exact Hc.
  unfold at_ at 1. cbn [pc with_pc]. rewrite Nat2N.id, Hn. unfold Jz. cbn [exec]. unfold reg_true, at_. cbn [regs with_pc].
  destruct (nthN (regs p) r =? 0)%N; cbn [negb]; [reflexivity|]. unfold next_pc. cbn [pc with_pc].
  rewrite Nat2N.inj_succ, N.add_1_r. reflexivity.
Qed.

Definition target (sg : sig) (nxt brk cont : nat) : nat :=
  match sg with GNormal => nxt | GBreak => brk | GCont => cont | GFuel => 0 end.

Definition reaches (a : nat) (p : pstate) (b : nat) (q : pstate) : Prop := exists n, iter n (at_ a p) = at_ b q.
Lemma reaches_refl a p : reaches a p a p.
Proof. exists 0. reflexivity. Qed.
Lemma reaches_trans a p b q c r : reaches a p b q -> reaches b q c r -> reaches a p c r.
Proof. intros [n Hn] [m Hm]. exists (n + m). rewrite iter_add, Hn. exact Hm. Qed.
Lemma reaches_step a p b q : step (at_ a p) = at_ b q -> reaches a p b q.
Proof. intros H. exists 1. exact H. Qed.
Lemma reaches_block b a p : emb a b -> forallb plain b = true -> clean p -> reaches a p (a + length b) (bexec rsize b p).
Proof. intros He Hp Hc. exists (length b). apply block_steps; assumption. Qed.

Lemma wfl_cons s l : wfl (s :: l) = wf1 s && wfl l.
Proof. reflexivity. Qed.

(* ---------- the theorem ---------- *)
Definition ok_for (f : nat) : Prop :=
  forall l p base brk cont,
  emb base (flatten base brk cont l) -> wfl l = true -> clean p ->
  brk < length prog -> cont < length prog -> base + size l < length prog ->
  forall p' sg, srun rsize f l p = (p', sg) -> sg <> GFuel ->
  reaches base p (target sg (base + size l) brk cont) p' /\ clean p'.

Lemma loop_ok f (IHf : ok_for f) cond body post s0 :
  let b0 := s0 + cond_len cond in
  let c0 := b0 + size body in
  let e0 := c0 + length post + 1 in
  match cond with Some (cb, r) => emb s0 (cb ++ [Jz r e0]) /\ forallb plain cb = true | None => True end ->
  emb b0 (flatten b0 e0 c0 body) -> wfl body = true ->
  emb c0 (post ++ [J s0]) -> forallb plain post = true ->
  e0 < length prog ->
  forall k q p1 sg1, clean q -> sloop rsize (srun rsize f body) cond post k q = (p1, sg1) -> sg1 <> GFuel ->
  reaches s0 q e0 p1 /\ clean p1 /\ sg1 = GNormal.
Proof.
  intros b0 c0 e0 Hcond Hbody Wbody Hpost Wpost He0.
  induction k as [|k IHk]; intros q p1 sg1 Cq Hs Hne; [cbn in Hs; injection Hs as _ <-; congruence|].
  cbn [sloop] in Hs.
  (* the condition *)
  set (q1 := match cond with Some (cb, _) => bexec rsize cb q | None => q end) in *.
  assert (Hq1 : clean q1 /\
                if match cond with Some (_, r) => reg_true q1 r | None => true end
                then reaches s0 q b0 q1 else reaches s0 q e0 q1).
  { subst q1. destruct cond as [[cb r]|].
    - destruct Hcond as [Hc Wc]. apply emb_app in Hc. destruct Hc as [Hcb Hjz].
      destruct (block_steps cb s0 q Hcb Wc Cq) as [_ C1]. split; [exact C1|].
      pose proof (reaches_block cb s0 q Hcb Wc Cq) as R1.
      pose proof (step_jz (s0 + length cb) (bexec rsize cb q) r e0 (emb_head _ _ _ Hjz) C1) as Sj.
      destruct (reg_true (bexec rsize cb q) r).
      + eapply reaches_trans; [exact R1|]. apply reaches_step. rewrite Sj. unfold b0. cbn [cond_len]. f_equal. lia.
      + eapply reaches_trans; [exact R1|]. apply reaches_step. exact Sj.
    - split; [exact Cq|]. unfold b0. cbn [cond_len]. rewrite Nat.add_0_r. apply reaches_refl. }
  destruct Hq1 as [C1 R1].
  destruct (match cond with Some (_, r) => reg_true q1 r | None => true end).
  - destruct (srun rsize f body q1) as [q2 sg2] eqn:Eb. cbn [fst snd] in Hs.
    assert (Hc0 : c0 < length prog) by (unfold e0 in He0; lia).
    assert (Hb : sg2 <> GFuel -> reaches b0 q1 (target sg2 c0 e0 c0) q2 /\ clean q2).
    { intros Hn2. apply (IHf body q1 b0 e0 c0 Hbody Wbody C1 He0 Hc0); [unfold c0 in Hc0; exact Hc0|exact Eb|exact Hn2]. }
    assert (Hiter : forall q2', clean q2' -> reaches c0 q2' s0 (bexec rsize post q2') /\ clean (bexec rsize post q2')).
    { intros q2' C2. apply emb_app in Hpost. destruct Hpost as [Hp Hj].
      destruct (block_steps post c0 q2' Hp Wpost C2) as [_ C3]. split; [|exact C3].
      eapply reaches_trans; [apply (reaches_block post c0 q2' Hp Wpost C2)|].
      apply reaches_step. apply step_j; [exact (emb_head _ _ _ Hj)|unfold e0, c0, b0 in He0; lia|exact C3]. }
    destruct sg2.
    + destruct (Hb ltac:(discriminate)) as [R2 C2]. cbn [target] in R2.
      destruct (Hiter q2 C2) as [R3 C3].
      destruct (IHk _ p1 sg1 C3 Hs Hne) as [R4 [C4 E4]]. split; [|split; assumption].
      eapply reaches_trans; [exact R1|]. eapply reaches_trans; [exact R2|]. eapply reaches_trans; [exact R3|exact R4].
    + destruct (Hb ltac:(discriminate)) as [R2 C2]. cbn [target] in R2. injection Hs as <- <-.
      split; [|split; [exact C2|reflexivity]]. eapply reaches_trans; [exact R1|exact R2].
    + destruct (Hb ltac:(discriminate)) as [R2 C2]. cbn [target] in R2.
      destruct (Hiter q2 C2) as [R3 C3].
      destruct (IHk _ p1 sg1 C3 Hs Hne) as [R4 [C4 E4]]. split; [|split; assumption].
      eapply reaches_trans; [exact R1|]. eapply reaches_trans; [exact R2|]. eapply reaches_trans; [exact R3|exact R4].
    + injection Hs as _ <-. congruence.
  - injection Hs as <- <-. split; [exact R1|split; [exact C1|reflexivity]].
Qed.

Theorem flatten_correct : forall f, ok_for f.
Proof.
  induction f as [|f IHf]; intros l p base brk cont He Wl Cp Hbrk Hcont Hend p' sg Hs Hne.
  - cbn in Hs. injection Hs as _ <-. congruence.
  - destruct l as [|s rest].
    + cbn in Hs. injection Hs as <- <-. cbn [target size fold_right]. rewrite Nat.add_0_r. split; [apply reaches_refl|exact Cp].
    + rewrite flatten_cons in He. apply emb_app in He. destruct He as [Hs1 Hrest]. rewrite flat1_length in Hrest.
      rewrite wfl_cons in Wl. apply andb_true_iff in Wl. destruct Wl as [Ws Wrest].
      rewrite size_cons in Hend |- *.
      cbn [srun] in Hs.
      (* one construct *)
      set (r1 := match s with
                 | ABlock b => (bexec rsize b p, GNormal)
                 | AIf cb rg th el => if reg_true (bexec rsize cb p) rg then srun rsize f th (bexec rsize cb p)
                                      else match el with Some e => srun rsize f e (bexec rsize cb p) | None => (bexec rsize cb p, GNormal) end
                 | AFor init cond body post => sloop rsize (srun rsize f body) cond post f (bexec rsize init p)
                 | ABreak => (p, GBreak)
                 | AContinue => (p, GCont)
                 end) in *.
      assert (Hone : snd r1 <> GFuel -> reaches base p (target (snd r1) (base + size1 s) brk cont) (fst r1) /\ clean (fst r1)).
      { subst r1. destruct s as [b|cb rg th el|init cond body post| |]; intros Hn1.
        - cbn [fst snd target]. cbn [flat1] in Hs1. cbn [wf1] in Ws. cbn [size1].
          destruct (block_steps b base p Hs1 Ws Cp) as [_ C]. split; [apply reaches_block; assumption|exact C].
        - rewrite flat1_if in Hs1. rewrite size1_if in Hend |- *. cbn [wf1] in Ws.
          apply andb_true_iff in Ws. destruct Ws as [Ws Wel]. apply andb_true_iff in Ws. destruct Ws as [Wcb Wth].
          apply emb_app in Hs1. destruct Hs1 as [Hcb Hs1]. apply emb_app in Hs1. destruct Hs1 as [Hjz Hs1]. cbn [length] in Hs1.
          apply emb_app in Hs1. destruct Hs1 as [Hth Hel]. rewrite flatten_length in Hel.
          destruct (block_steps cb base p Hcb Wcb Cp) as [_ C1].
          pose proof (reaches_block cb base p Hcb Wcb Cp) as R1.
          pose proof (step_jz (base + length cb) (bexec rsize cb p) rg _ (emb_head _ _ _ Hjz) C1) as Sj.
          destruct (reg_true (bexec rsize cb p) rg).
          + (* then branch *)
            destruct (srun rsize f th (bexec rsize cb p)) as [p2 sg2] eqn:Eth. cbn [fst snd] in Hn1 |- *.
            assert (Hb : base + length cb + 1 + size th < length prog) by (destruct el; lia).
            destruct (IHf th _ (base + length cb + 1) brk cont Hth Wth C1 Hbrk Hcont Hb p2 sg2 Eth Hn1) as [R2 C2].
            assert (R12 : reaches base p (target sg2 (base + length cb + 1 + size th) brk cont) p2).
            { eapply reaches_trans; [exact R1|]. eapply reaches_trans; [apply reaches_step; rewrite Sj; rewrite <- Nat.add_1_r; reflexivity|exact R2]. }
            split; [|exact C2]. destruct sg2; cbn [target] in *; try exact R12.
            destruct el as [e|].
            * apply emb_app in Hel. destruct Hel as [Hj _].
              eapply reaches_trans; [exact R12|]. apply reaches_step.
              rewrite (step_j _ p2 _ (emb_head _ _ _ Hj)); [f_equal; lia|lia|exact C2].
            * replace (base + (length cb + 1 + size th + 0)) with (base + length cb + 1 + size th) by lia. exact R12.
          + (* condition false *)
            destruct el as [e|].
            * apply emb_app in Hel. destruct Hel as [_ He]. cbn [length] in He.
              destruct (srun rsize f e (bexec rsize cb p)) as [p2 sg2] eqn:Ee. cbn [fst snd] in Hn1 |- *.
              assert (Hb : base + length cb + 1 + size th + 1 + size e < length prog) by lia.
              destruct (IHf e _ (base + length cb + 1 + size th + 1) brk cont He Wel C1 Hbrk Hcont Hb p2 sg2 Ee Hn1) as [R2 C2].
              split; [|exact C2].
              replace (base + (length cb + 1 + size th + (1 + size e))) with (base + length cb + 1 + size th + 1 + size e) by lia.
              eapply reaches_trans; [exact R1|]. eapply reaches_trans; [apply reaches_step; exact Sj|exact R2].
            * cbn [fst snd target]. split; [|exact C1].
              eapply reaches_trans; [exact R1|]. apply reaches_step. rewrite Sj. f_equal. lia.
        - rewrite flat1_for in Hs1. rewrite size1_for in Hend |- *. cbn [wf1] in Ws.
          apply andb_true_iff in Ws. destruct Ws as [Ws Wpost]. apply andb_true_iff in Ws. destruct Ws as [Ws Wbody].
          apply andb_true_iff in Ws. destruct Ws as [Winit Wcond].
          apply emb_app in Hs1. destruct Hs1 as [Hinit Hs1].
          destruct (block_steps init base p Hinit Winit Cp) as [_ C0].
          pose proof (reaches_block init base p Hinit Winit Cp) as R0.
          destruct (sloop rsize (srun rsize f body) cond post f (bexec rsize init p)) as [p1 sg1] eqn:El. cbn [fst snd] in Hn1 |- *.
          assert (HL : reaches (base + length init) (bexec rsize init p)
                         (base + length init + cond_len cond + size body + length post + 1) p1 /\ clean p1 /\ sg1 = GNormal).
          { apply (loop_ok f IHf cond body post (base + length init)) with (k := f); try assumption.
            - destruct cond as [[cb r]|]; [|exact I]. apply emb_app in Hs1. destruct Hs1 as [Hc _]. split; [exact Hc|exact Wcond].
            - apply emb_app in Hs1. destruct Hs1 as [_ Hs1]. apply emb_app in Hs1. destruct Hs1 as [Hb _].
              replace (length match cond with Some (cb, r) => cb ++ [Jz r (base + length init + cond_len cond + size body + length post + 1)] | None => [] end)
                with (cond_len cond) in Hb by (destruct cond as [[cb r]|]; cbn [cond_len]; rewrite ?app_length; reflexivity).
              exact Hb.
            - apply emb_app in Hs1. destruct Hs1 as [_ Hs1]. apply emb_app in Hs1. destruct Hs1 as [_ Hp]. rewrite flatten_length in Hp.
              replace (length match cond with Some (cb, r) => cb ++ [Jz r (base + length init + cond_len cond + size body + length post + 1)] | None => [] end)
                with (cond_len cond) in Hp by (destruct cond as [[cb r]|]; cbn [cond_len]; rewrite ?app_length; reflexivity).
              exact Hp.
            - lia. }
          destruct HL as [RL [CL EL]]. subst sg1. cbn [target]. split; [|exact CL].
          replace (base + (length init + cond_len cond + size body + length post + 1)) with (base + length init + cond_len cond + size body + length post + 1) by lia.
          eapply reaches_trans; [exact R0|exact RL].
        - cbn [fst snd target]. split; [|exact Cp]. apply reaches_step. apply step_j; [exact (emb_head _ _ _ Hs1)|exact Hbrk|exact Cp].
        - cbn [fst snd target]. split; [|exact Cp]. apply reaches_step. apply step_j; [exact (emb_head _ _ _ Hs1)|exact Hcont|exact Cp]. }
      clearbody r1. destruct r1 as [p1 sg1]. cbn [fst snd] in *.
      destruct sg1.
      * destruct (Hone ltac:(discriminate)) as [R1 C1]. cbn [target] in R1.
        assert (Hb : base + size1 s + size rest < length prog) by lia.
        destruct (IHf rest p1 (base + size1 s) brk cont Hrest Wrest C1 Hbrk Hcont Hb p' sg Hs Hne) as [R2 C2].
        split; [|exact C2]. eapply reaches_trans; [exact R1|].
        replace (base + (size1 s + size rest)) with (base + size1 s + size rest) by lia. exact R2.
      * injection Hs as <- <-. destruct (Hone ltac:(discriminate)) as [R1 C1]. split; assumption.
      * injection Hs as <- <-. destruct (Hone ltac:(discriminate)) as [R1 C1]. split; assumption.
      * injection Hs as _ <-. congruence.
Qed.

End M.
