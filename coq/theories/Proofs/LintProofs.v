(* Proofs/LintProofs.v — what a clean lint report guarantees about the top-level items of every module:
   ports declared, instantiated modules defined with matching port lists, no name declared twice, every
   identifier read by a continuous assignment declared, procedural assignments to variables only. *)
From Coq Require Import List NArith PArith Bool Arith.
From BM Require Import Vlog.Syntax Vlog.Lint.
Import ListNotations.

Lemma flat_map_nil {A B} (f : A -> list B) l : flat_map f l = [] -> forall x, In x l -> f x = [].
Proof.
  induction l as [|a l IH]; intros H x Hx; [contradiction|]. simpl in H. apply app_eq_nil in H. destruct H as [H1 H2].
  destruct Hx as [->|Hx]; auto.
Qed.

Section Clean.
Variable D : design.
Variable external : list ident.
Hypothesis clean : lint D external = [].

Lemma module_clean m : In m D -> lint_module D external m = [].
Proof. intros H. exact (flat_map_nil _ _ clean m H). Qed.

Lemma parts m : In m D ->
  flat_map (fun p => if existsb (fun d => Pos.eqb (fst d) p && is_portk (snd d)) (items_decls 50 (m_items m)) then [] else [LPortUndeclared (m_name m) p]) (m_ports m) = [] /\
  lint_items D external m 50 [] (m_items m) = [] /\ duplicate_decls m = [].
Proof.
  intros H. pose proof (module_clean m H) as E. unfold lint_module in E.
  apply app_eq_nil in E. destruct E as [E1 E]. apply app_eq_nil in E. destruct E as [E2 E]. apply app_eq_nil in E. destruct E as [_ E4].
  split; [exact E1|]. split; [exact E2|]. destruct (duplicate_decls m); [reflexivity|discriminate].
Qed.

(* every port of every module is declared with a direction *)
Theorem ports_are_declared m p : In m D -> In p (m_ports m) ->
  existsb (fun d => Pos.eqb (fst d) p && is_portk (snd d)) (items_decls 50 (m_items m)) = true.
Proof.
  intros Hm Hp. destruct (parts m Hm) as [E1 _]. pose proof (flat_map_nil _ _ E1 p Hp) as E. cbv beta in E.
  destruct (existsb _ _); [reflexivity|discriminate].
Qed.

Lemma item_clean m it : In m D -> In it (m_items m) -> lint_item D external m (lint_items D external m 49) [] it = [].
Proof.
  intros Hm Hit. destruct (parts m Hm) as [_ [E2 _]].
  change (lint_items D external m 50 [] (m_items m)) with (flat_map (lint_item D external m (lint_items D external m 49) []) (m_items m)) in E2.
  exact (flat_map_nil _ _ E2 it Hit).
Qed.

(* every instantiated module is part of the set (or named as external), with as many connections as ports *)
Theorem instances_match_their_modules m mn inst c x : In m D -> In (IInst mn inst c x) (m_items m) ->
  match find_module D mn with
  | Some md => match c with
               | CPos l => length l = length (m_ports md)
               | CNamed l => forall p, In p l -> mem (fst p) (m_ports md) = true
               end
  | None => mem mn external = true
  end.
Proof.
  intros Hm Hit. pose proof (item_clean m _ Hm Hit) as E. unfold lint_item in E. cbv zeta in E.
  apply app_eq_nil in E. destruct E as [_ E]. destruct (find_module D mn) as [md|].
  - apply app_eq_nil in E. destruct E as [_ E]. destruct c as [l|l].
    + destruct (Nat.eqb (length l) (length (m_ports md))) eqn:El; [apply Nat.eqb_eq; exact El|discriminate].
    + intros p Hp. pose proof (flat_map_nil _ _ E p Hp) as Ep. cbv beta in Ep. destruct (mem (fst p) (m_ports md)); [reflexivity|discriminate].
  - destruct (mem mn external); [reflexivity|discriminate].
Qed.

(* a continuous assignment reads declared identifiers only and never drives a variable *)
Theorem continuous_assignments_are_well_formed m l r x : In m D -> In (IAssign l r) (m_items m) ->
  (In x (lhs_reads l ++ expr_ids r) -> declared (items_decls 50 (m_items m)) x = true) /\
  (In x (lhs_roots l) -> is_var (items_decls 50 (m_items m)) x = false).
Proof.
  intros Hm Hit. pose proof (item_clean m _ Hm Hit) as E. unfold lint_item in E.
  apply app_eq_nil in E. destruct E as [E1 E]. apply app_eq_nil in E. destruct E as [_ E3]. split.
  - intros Hx. unfold undeclared_in in E1. pose proof (flat_map_nil _ _ E1 x Hx) as Ex. cbv beta in Ex.
    unfold mem in Ex. cbn [existsb] in Ex. rewrite orb_false_r in Ex.
    destruct (declared _ x); [reflexivity|discriminate].
  - intros Hx. pose proof (flat_map_nil _ _ E3 x Hx) as Ex. cbv beta in Ex. destruct (is_var _ x); [discriminate|reflexivity].
Qed.

(* no name has two typed declarations or two port declarations *)
Theorem no_name_is_declared_twice m : In m D -> duplicate_decls m = [].
Proof. intros Hm. exact (proj2 (proj2 (parts m Hm))). Qed.

(* an always block (clocked or combinational) reads and writes declared identifiers only, and what it
   assigns are variables (reg / integer), never nets *)
Theorem always_blocks_are_well_formed m sn body x : In m D -> In (IAlways sn body) (m_items m) ->
  (In x (stmt_reads body ++ stmt_writes body) -> declared (items_decls 50 (m_items m)) x = true) /\
  (In x (stmt_writes body) -> is_var (items_decls 50 (m_items m)) x = true).
Proof.
  intros Hm Hit. pose proof (item_clean m _ Hm Hit) as E. unfold lint_item in E.
  apply app_eq_nil in E. destruct E as [E1 E2].
  assert (Hd : In x (stmt_reads body ++ stmt_writes body) -> declared (items_decls 50 (m_items m)) x = true).
  { intros Hx. unfold undeclared_in in E1.
    assert (Hx' : In x (match sn with SEdges l => flat_map (fun p => expr_ids (snd p)) l | _ => [] end ++ stmt_reads body ++ stmt_writes body))
      by (apply in_or_app; right; exact Hx).
    pose proof (flat_map_nil _ _ E1 x Hx') as Ex. cbv beta in Ex. unfold mem in Ex. cbn [existsb] in Ex. rewrite orb_false_r in Ex.
    destruct (declared _ x); [reflexivity|discriminate]. }
  split; [exact Hd|]. intros Hx.
  assert (Hn : In x (nodup Pos.eq_dec (stmt_writes body))) by (apply nodup_In; exact Hx).
  pose proof (flat_map_nil _ _ E2 x Hn) as Ex. cbv beta in Ex.
  rewrite (Hd (in_or_app _ _ x (or_intror Hx))) in Ex. unfold mem in Ex. cbn [existsb] in Ex.
  destruct (is_var _ x); [reflexivity|]. cbn in Ex. discriminate.
Qed.

(* the sensitivity list of a clocked block names declared signals *)
Theorem clocks_are_declared m l body x : In m D -> In (IAlways (SEdges l) body) (m_items m) ->
  In x (flat_map (fun p => expr_ids (snd p)) l) -> declared (items_decls 50 (m_items m)) x = true.
Proof.
  intros Hm Hit Hx. pose proof (item_clean m _ Hm Hit) as E. unfold lint_item in E.
  apply app_eq_nil in E. destruct E as [E1 _]. unfold undeclared_in in E1.
  pose proof (flat_map_nil _ _ E1 x (in_or_app _ _ x (or_introl Hx))) as Ex. cbv beta in Ex.
  unfold mem in Ex. cbn [existsb] in Ex. rewrite orb_false_r in Ex. destruct (declared _ x); [reflexivity|discriminate].
Qed.

(* no variable is assigned from two always blocks *)
Lemma multi_nil : forall blocks seen, multi seen blocks = [] ->
  (forall b x, In b blocks -> In x b -> ~ In x seen) /\
  (forall pre b1 mid b2 post x, blocks = pre ++ b1 :: mid ++ b2 :: post -> In x b1 -> In x b2 -> False).
Proof.
  induction blocks as [|b rest IH]; intros seen H.
  - split; [intros b x []|]. intros pre b1 mid b2 post x E. destruct pre; discriminate.
  - simpl in H. apply app_eq_nil in H. destruct H as [H1 H2]. destruct (IH (b ++ seen) H2) as [I1 I2].
    assert (Hb : forall x, In x b -> ~ In x seen).
    { intros x Hx Hs. assert (Hf : In x (filter (fun x => mem x seen) b)).
      { apply filter_In. split; [exact Hx|]. unfold mem. apply existsb_exists. exists x. split; [exact Hs|apply Pos.eqb_refl]. }
      rewrite H1 in Hf. exact Hf. }
    split.
    + intros b0 x [<-|Hb0] Hx; [apply Hb; exact Hx|]. intros Hs. apply (I1 b0 x Hb0 Hx). apply in_or_app. right. exact Hs.
    + intros pre b1 mid b2 post x E Hx1 Hx2. destruct pre as [|p pre]; simpl in E; injection E as E1 E2.
      * subst b1 rest. apply (I1 b2 x); [apply in_or_app; right; left; reflexivity|exact Hx2|apply in_or_app; left; exact Hx1].
      * subst p rest. eapply I2; eauto.
Qed.

Theorem no_variable_is_assigned_from_two_always_blocks m pre b1 mid b2 post x : In m D ->
  always_writes 50 (m_items m) = pre ++ b1 :: mid ++ b2 :: post -> In x b1 -> In x b2 -> False.
Proof.
  intros Hm E. pose proof (module_clean m Hm) as C. unfold lint_module in C.
  apply app_eq_nil in C. destruct C as [_ C]. apply app_eq_nil in C. destruct C as [_ C]. apply app_eq_nil in C. destruct C as [C _].
  apply map_eq_nil in C.
  assert (Hmulti : multi [] (always_writes 50 (m_items m)) = []).
  { destruct (multi [] (always_writes 50 (m_items m))) as [|y l] eqn:Em; [reflexivity|].
    exfalso. assert (Hy : In y (nodup Pos.eq_dec (y :: l))) by (apply nodup_In; left; reflexivity). rewrite C in Hy. exact Hy. }
  destruct (multi_nil _ _ Hmulti) as [_ H2]. exact (H2 pre b1 mid b2 post x E).
Qed.

End Clean.
