(* Proofs/QuantumProofs.v — a layer compiled by BmMatrixFromOperation (as repaired) is the
   simultaneous application of its gates.  Part 1: list surgery, undoing the swaps, tensor products. *)
From Coq Require Import List Arith Bool Lia Permutation.
From BM Require Import Front.Quantum.
Import ListNotations.

(* ---------- swap_pos ---------- *)
Lemma swap_pos_length {A} (d : A) a b l : length (swap_pos d a b l) = length l.
Proof. unfold swap_pos. now rewrite map_length, seq_length. Qed.

Lemma nth_swap_pos {A} (d : A) a b l p : p < length l ->
  nth p (swap_pos d a b l) d = if Nat.eqb p a then nth b l d else if Nat.eqb p b then nth a l d else nth p l d.
Proof.
  intros H. unfold swap_pos.
  rewrite (nth_indep _ d (if Nat.eqb 0 a then nth b l d else if Nat.eqb 0 b then nth a l d else nth 0 l d))
    by (rewrite map_length, seq_length; exact H).
  rewrite (map_nth (fun p => if Nat.eqb p a then nth b l d else if Nat.eqb p b then nth a l d else nth p l d) (seq 0 (length l)) 0 p).
  rewrite seq_nth by exact H. reflexivity.
Qed.

Lemma swap_pos_map {A B} (f : A -> B) (dA : A) (dB : B) a b l :
  a < length l -> b < length l -> swap_pos dB a b (map f l) = map f (swap_pos dA a b l).
Proof.
  intros Ha Hb. unfold swap_pos. rewrite map_length, map_map. apply map_ext_in. intros p Hp. apply in_seq in Hp.
  assert (E : forall k, k < length l -> nth k (map f l) dB = f (nth k l dA)).
  { intros k Hk. rewrite (nth_indep _ dB (f dA)) by (rewrite map_length; exact Hk). apply map_nth. }
  destruct (Nat.eqb p a); [apply E; exact Hb|]. destruct (Nat.eqb p b); [apply E; exact Ha|]. apply E. lia.
Qed.

Lemma pick_swap a b (L : list nat) (i : idx) :
  a < length L -> b < length L -> swap_pos false a b (pick L i) = pick (swap_pos 0 a b L) i.
Proof. intros. unfold pick. apply swap_pos_map; assumption. Qed.

Lemma pick_app qs rs i : pick (qs ++ rs) i = pick qs i ++ pick rs i.
Proof. unfold pick. apply map_app. Qed.

Lemma pick_length qs i : length (pick qs i) = length qs.
Proof. unfold pick. apply map_length. Qed.

Lemma firstn_pick Q i : firstn (length Q) (pick Q i) = pick Q i.
Proof. rewrite <- (pick_length Q i). apply firstn_all. Qed.
Lemma skipn_pick Q i : skipn (length Q) (pick Q i) = [].
Proof. rewrite <- (pick_length Q i). apply skipn_all. Qed.

Lemma pick_seq : forall (i : idx), pick (seq 0 (length i)) i = i.
Proof.
  intros i. unfold pick. apply nth_ext with (d := false) (d' := false).
  - now rewrite map_length, seq_length.
  - intros k Hk. rewrite map_length, seq_length in Hk.
    rewrite (nth_indep _ false (nth 0 i false)) by (rewrite map_length, seq_length; exact Hk).
    rewrite (map_nth (fun a => nth a i false) (seq 0 (length i)) 0 k). rewrite seq_nth by exact Hk. reflexivity.
Qed.

Definition apply_swaps (sw : list (nat * nat)) (L : list nat) : list nat :=
  fold_left (fun L s => swap_pos 0 (fst s) (snd s) L) sw L.
Definition swaps_in_range (n : nat) (sw : list (nat * nat)) : Prop := Forall (fun s => fst s < n /\ snd s < n) sw.

Lemma apply_swaps_length sw : forall L, length (apply_swaps sw L) = length L.
Proof. induction sw as [|s sw IH]; intros L; simpl; auto. rewrite IH. apply swap_pos_length. Qed.

Lemma apply_swaps_app a b L : apply_swaps (a ++ b) L = apply_swaps b (apply_swaps a L).
Proof. unfold apply_swaps. apply fold_left_app. Qed.

Section Q.
Variable K : Type.
Variables (k0 k1 : K) (kadd kmul : K -> K -> K).
Notation mat := (mat K).

(* undoing the swaps in reverse order by row/column exchanges = reading the matrix in the swapped frame *)
Lemma undo_swaps : forall sw (T : mat) (L0 : list nat) (i j : idx),
  swaps_in_range (length L0) sw ->
  ent (fold_left (fun m s => conj_swap K (fst s) (snd s) m) (rev sw) T) (pick L0 i) (pick L0 j) =
  ent T (pick (apply_swaps sw L0) i) (pick (apply_swaps sw L0) j).
Proof.
  induction sw as [|s sw IH]; intros T L0 i j Hr; simpl; auto.
  inversion Hr as [|s' sw' [Ha Hb] Hr']; subst.
  rewrite fold_left_app. simpl.
  rewrite !pick_swap by assumption.
  apply IH. rewrite swap_pos_length. exact Hr'.
Qed.

Lemma undo_swaps_nq : forall sw (T : mat), nq (fold_left (fun m s => conj_swap K (fst s) (snd s) m) sw T) = nq T.
Proof. induction sw as [|s sw IH]; intros T; simpl; auto. rewrite IH. reflexivity. Qed.

(* ---------- tensor products of groups ---------- *)
(* a group: the qubits (in the order the gate takes them) and the gate's matrix *)
Definition group := (list nat * mat)%type.
Definition tensor_all (G : list group) : option mat :=
  fold_left (fun acc g => Some (tensor_opt K kmul acc (snd g))) G None.
Definition gfactor (g : group) (i j : idx) : K := ent (snd g) (pick (fst g) i) (pick (fst g) j).
Definition gprod (G : list group) (i j : idx) : K := fold_left (fun acc g => kmul acc (gfactor g i j)) G k1.
Definition groups_wf (G : list group) : Prop := Forall (fun g => nq (snd g) = length (fst g)) G.

Hypothesis mul1l : forall a, kmul k1 a = a.

Lemma tensor_all_snoc G g : tensor_all (G ++ [g]) = Some (tensor_opt K kmul (tensor_all G) (snd g)).
Proof. unfold tensor_all. rewrite fold_left_app. reflexivity. Qed.

Lemma gprod_snoc G g i j : gprod (G ++ [g]) i j = kmul (gprod G i j) (gfactor g i j).
Proof. unfold gprod. rewrite fold_left_app. reflexivity. Qed.

Lemma tensor_all_spec : forall G, groups_wf G -> G <> [] ->
  exists T, tensor_all G = Some T /\ nq T = length (concat (map fst G)) /\
            forall i j, ent T (pick (concat (map fst G)) i) (pick (concat (map fst G)) j) = gprod G i j.
Proof.
  induction G as [|g G IH] using rev_ind; intros Hwf Hne; [contradiction|].
  apply Forall_app in Hwf. destruct Hwf as [HwG Hwg]. inversion Hwg as [|g' l Hg _]; subst.
  rewrite tensor_all_snoc, map_app, concat_app. simpl. rewrite app_nil_r.
  assert (Hcase : G = [] \/ G <> []) by (destruct G; [left|right]; congruence).
  destruct Hcase as [->|HneG].
  - simpl. exists (snd g). split; [reflexivity|]. split; [exact Hg|].
    intros i j. unfold gprod, gfactor. simpl. rewrite mul1l. reflexivity.
  - destruct (IH HwG HneG) as [T [HT [Hn HE]]].
    rewrite HT. cbn [tensor_opt]. eexists. split; [reflexivity|]. split.
    + cbn [nq tensor]. rewrite app_length, Hn, Hg. reflexivity.
    + intros i j. rewrite gprod_snoc. cbn [ent tensor].
      rewrite !pick_app. rewrite !firstn_app, !skipn_app.
      rewrite Hn. rewrite !pick_length. rewrite Nat.sub_diag. cbn [firstn skipn].
      rewrite !firstn_pick, !skipn_pick, !app_nil_r. cbn [app]. rewrite HE. reflexivity.
Qed.

End Q.
