(* Proofs/SimboxProofs.v — C15 part 1: every rule in the image of the parser prints to a string
   that parses back to the same rule; list operations. *)
From Coq Require Import String Ascii NArith ZArith List Bool Lia.
From BM Require Import Base.Dec Front.NumLit Front.Simbox.
Import ListNotations.
Local Open Scope string_scope.

Lemma append_assoc (a b c : string) : (a ++ b) ++ c = a ++ (b ++ c).
Proof. induction a; simpl; auto. rewrite IHa. reflexivity. Qed.
Lemma append_nil_r (a : string) : a ++ "" = a.
Proof. induction a; simpl; auto. rewrite IHa. reflexivity. Qed.

Lemma split_acc_word w : forall cur rest,
  no_colon w = true -> split_colon_acc (w ++ String ":" rest) cur = (cur ++ w) :: split_colon_acc rest "".
Proof.
  induction w as [|c w IH]; intros cur rest H; simpl in *.
  - rewrite append_nil_r. reflexivity.
  - apply andb_true_iff in H. destruct H as [Hc Hw]. apply negb_true_iff in Hc. rewrite Hc.
    rewrite IH by auto. rewrite append_assoc. reflexivity.
Qed.

Lemma split_acc_last w : forall cur, no_colon w = true -> split_colon_acc w cur = [cur ++ w].
Proof.
  induction w as [|c w IH]; intros cur H; simpl in *.
  - rewrite append_nil_r. reflexivity.
  - apply andb_true_iff in H. destruct H as [Hc Hw]. apply negb_true_iff in Hc. rewrite Hc.
    rewrite IH by auto. rewrite append_assoc. reflexivity.
Qed.

(* joined words split back *)
Fixpoint join_colon (ws : list string) : string :=
  match ws with [] => "" | [w] => w | w :: r => w ++ String ":" (join_colon r) end.

Lemma split_join ws : ws <> [] -> forallb no_colon ws = true -> split_colon (join_colon ws) = ws.
Proof.
  unfold split_colon. induction ws as [|w r IH]; intros Hne H; [congruence|].
  simpl in H. apply andb_true_iff in H. destruct H as [Hw Hr]. destruct r as [|w' r'].
  - simpl. rewrite split_acc_last by auto. reflexivity.
  - cbn [join_colon]. rewrite split_acc_word by auto. simpl append. f_equal. apply IH; [discriminate|auto].
Qed.

(* ---- ticks ---- *)
Lemma is_digit_not_sign c : is_digit c = true -> Ascii.eqb c "-" = false /\ Ascii.eqb c "+" = false.
Proof.
  intro H. split.
  - destruct (Ascii.eqb c "-") eqn:E; auto. apply Ascii.eqb_eq in E. subst. discriminate.
  - destruct (Ascii.eqb c "+") eqn:E; auto. apply Ascii.eqb_eq in E. subst. discriminate.
Qed.

Lemma no_colon_digits s : all_digits s = true -> no_colon s = true.
Proof.
  induction s as [|c s IH]; simpl; auto. rewrite !andb_true_iff. intros [Hc Hs]. split; auto.
  apply negb_true_iff. destruct (Ascii.eqb c ":") eqn:E; auto. apply Ascii.eqb_eq in E. subst. discriminate.
Qed.

Lemma atoi_print_tick k : (k < 2 ^ 64)%N -> atoi_u64 (print_int64_of_u64 k) = Some k.
Proof.
  intro Hk. unfold print_int64_of_u64. destruct (N.ltb_spec k (2 ^ 63)) as [Hlt|Hge].
  - pose proof (print_dec_digits k) as Hd. pose proof (print_dec_nonempty k) as Hne.
    pose proof (parse_digits_print k) as Hp.
    unfold atoi_u64. destruct (print_dec k) as [|c d] eqn:E; [congruence|].
    assert (Hc : is_digit c = true) by (simpl in Hd; apply andb_true_iff in Hd; tauto).
    destruct (is_digit_not_sign c Hc) as [H1 H2]. rewrite H1, H2. unfold atoi_body.
    rewrite Hd, Hp. cbn [negb andb]. apply N.ltb_lt in Hlt. rewrite Hlt. reflexivity.
  - unfold atoi_u64. cbn [append]. rewrite Ascii.eqb_refl. unfold atoi_body.
    pose proof (print_dec_nonempty (2 ^ 64 - k)) as Hne.
    destruct (print_dec (2 ^ 64 - k)) as [|c d] eqn:E; [congruence|]. rewrite <- E.
    rewrite print_dec_digits, parse_digits_print. cbn [negb andb].
    assert (Hle : (2 ^ 64 - k <=? 2 ^ 63)%N = true) by (apply N.leb_le; lia). rewrite Hle.
    assert (Hnz : (2 ^ 64 - k =? 0)%N = false) by (apply N.eqb_neq; lia). rewrite Hnz.
    f_equal. lia.
Qed.

Lemma no_colon_tick k : no_colon (print_int64_of_u64 k) = true.
Proof.
  unfold print_int64_of_u64. destruct (k <? 2 ^ 63)%N.
  - apply no_colon_digits, print_dec_digits.
  - cbn [append no_colon]. rewrite (no_colon_digits _ (print_dec_digits _)). reflexivity.
Qed.

(* ---- the round trip ---- *)
Lemma mem_str_no_colon s l : mem_str s l = true -> forallb no_colon l = true -> no_colon s = true.
Proof.
  unfold mem_str. rewrite existsb_exists. intros (x & Hx & He) Hl. apply String.eqb_eq in He. subst.
  rewrite forallb_forall in Hl. auto.
Qed.

Theorem parse_print_all r : wf_rule r = true -> parse_rule (print_rule r) = Some r.
Proof.
  destruct r as [t k a obj ext sus]. unfold wf_rule; cbn [r_timec r_tick r_action r_object r_extra r_suspended].
  rewrite !andb_true_iff. intros [[[[Hs Ho] He] Hk] Hshape].
  apply negb_true_iff in Hs. subst sus. apply N.ltb_lt in Hk.
  pose proof (no_colon_tick k) as Htk. pose proof (atoi_print_tick k Hk) as Hat.
  unfold parse_rule, print_rule; cbn [r_timec r_tick r_action r_object r_extra r_suspended].
  destruct t, a; try discriminate;
    try (* timed rules: five words *)
      (change (timec_word ?t ++ ":" ++ ?x ++ ":" ++ action_word ?a ++ ":" ++ obj ++ ":" ++ ext)
         with (join_colon [timec_word t; x; action_word a; obj; ext]);
       rewrite split_join by (try discriminate; cbn [forallb]; rewrite Htk, Ho, He; reflexivity);
       cbn [timed_of act3_of getshow_of timec_word action_word String.eqb Ascii.eqb Bool.eqb]; rewrite Hat; reflexivity);
    try (* event rules: four words, tick 0 *)
      (apply N.eqb_eq in Hshape; subst k;
       change (timec_word ?t ++ ":" ++ action_word ?a ++ ":" ++ obj ++ ":" ++ ext)
         with (join_colon [timec_word t; action_word a; obj; ext]);
       rewrite split_join by (try discriminate; cbn [forallb]; rewrite Ho, He; reflexivity);
       reflexivity).
  (* config *)
  apply andb_true_iff in Hshape. destruct Hshape as [Hk0 Hcfg]. apply N.eqb_eq in Hk0. subst k.
  destruct (mem_str obj config3) eqn:E3.
  - change ("config:" ++ obj ++ ":" ++ ext) with (join_colon ["config"; obj; ext]).
    rewrite split_join by (try discriminate; cbn [forallb]; rewrite Ho, He; reflexivity).
    cbn [String.eqb Ascii.eqb Bool.eqb]. rewrite E3. reflexivity.
  - cbn [orb] in Hcfg. apply andb_true_iff in Hcfg. destruct Hcfg as [H2 Hext]. apply String.eqb_eq in Hext. subst ext.
    change ("config:" ++ obj) with (join_colon ["config"; obj]).
    rewrite split_join by (try discriminate; cbn [forallb]; rewrite Ho; reflexivity).
    cbn [String.eqb Ascii.eqb Bool.eqb andb]. rewrite H2. reflexivity.
Qed.

(* ---- the image of the parser is inside wf_rule ---- *)
Lemma no_colon_app a b : no_colon (a ++ b) = no_colon a && no_colon b.
Proof. induction a; simpl; auto. rewrite IHa. apply andb_assoc. Qed.

Lemma split_acc_no_colon s : forall cur, no_colon cur = true -> forallb no_colon (split_colon_acc s cur) = true.
Proof.
  induction s as [|c s IH]; intros cur H; simpl.
  - rewrite H. reflexivity.
  - destruct (Ascii.eqb c ":") eqn:E.
    + simpl. rewrite H. apply IH. reflexivity.
    + apply IH. rewrite no_colon_app, H. simpl. rewrite E. reflexivity.
Qed.

Lemma atoi_range w k : atoi_u64 w = Some k -> (k < 2 ^ 64)%N.
Proof.
  unfold atoi_u64.
  assert (B : forall sgn d, atoi_body sgn d = Some k -> (k < 2 ^ 64)%N).
  { assert (P : (2 ^ 63 < 2 ^ 64)%N) by reflexivity.
    intros sgn d. unfold atoi_body. remember (2 ^ 64)%N as T. remember (2 ^ 63)%N as U.
    destruct (negb _ && all_digits d); [|discriminate].
    destruct (parse_digits d) as [v|]; [|discriminate].
    destruct sgn.
    - destruct (N.leb_spec v U) as [Hle|Hgt]; [|discriminate].
      destruct (N.eqb_spec v 0); intro E; inversion E; subst k; lia.
    - destruct (N.ltb_spec v U) as [Hlt|Hge]; [|discriminate]. intro E; inversion E; subst k. lia. }
  destruct w as [|c d]; [discriminate|].
  destruct (Ascii.eqb c "-"); [apply B|]. destruct (Ascii.eqb c "+"); apply B.
Qed.

Theorem parse_image_wf s r : parse_rule s = Some r -> wf_rule r = true.
Proof.
  unfold parse_rule. pose proof (split_acc_no_colon s "" eq_refl) as Hnc. fold (split_colon s) in Hnc.
  destruct (split_colon s) as [|w0 [|w1 [|w2 [|w3 [|w4 [|w5 l]]]]]]; try discriminate;
    cbn [forallb] in Hnc; rewrite ?andb_true_iff in Hnc.
  - (* two words *)
    destruct Hnc as (H0 & H1 & _).
    destruct (String.eqb w0 "config" && mem_str w1 config2) eqn:E; [|discriminate].
    intro H; inversion H; subst. apply andb_true_iff in E. destruct E as [_ E].
    unfold wf_rule; cbn [r_timec r_tick r_action r_object r_extra r_suspended]. rewrite H1, E. simpl. apply orb_true_r.
  - (* three words *)
    destruct Hnc as (H0 & H1 & H2 & _).
    destruct (String.eqb w0 "config").
    + destruct (mem_str w1 config3) eqn:E; [|discriminate]. intro H; inversion H; subst.
      unfold wf_rule; cbn [r_timec r_tick r_action r_object r_extra r_suspended]. rewrite H1, H2, E. reflexivity.
    + destruct (event_of w0) as [t|] eqn:Et; [|discriminate]. destruct (getshow_of w1) as [a|] eqn:Ea; [|discriminate].
      intro H; inversion H; subst. unfold wf_rule; cbn [r_timec r_tick r_action r_object r_extra r_suspended].
      rewrite H2. unfold event_of in Et. unfold getshow_of in Ea.
      repeat match type of Et with (if ?c then _ else _) = _ => destruct c end; inversion Et; subst;
        repeat match type of Ea with (if ?c then _ else _) = _ => destruct c end; inversion Ea; subst; reflexivity.
  - (* four words *)
    destruct Hnc as (H0 & H1 & H2 & H3 & _).
    destruct (timed_of w0) as [t|] eqn:Et.
    + destruct (getshow_of w2) as [a|] eqn:Ea; [|discriminate]. destruct (atoi_u64 w1) as [k|] eqn:Ek; [|discriminate].
      intro H; inversion H; subst. unfold wf_rule; cbn [r_timec r_tick r_action r_object r_extra r_suspended].
      rewrite H3. pose proof (atoi_range _ _ Ek) as Hk. apply N.ltb_lt in Hk. rewrite Hk.
      unfold timed_of in Et. unfold getshow_of in Ea.
      repeat match type of Et with (if ?c then _ else _) = _ => destruct c end; inversion Et; subst;
        repeat match type of Ea with (if ?c then _ else _) = _ => destruct c end; inversion Ea; subst; reflexivity.
    + destruct (event_of w0) as [t|] eqn:Ee; [|discriminate]. destruct (getshow_of w1) as [a|] eqn:Ea; [|discriminate].
      intro H; inversion H; subst. unfold wf_rule; cbn [r_timec r_tick r_action r_object r_extra r_suspended].
      rewrite H2, H3. unfold event_of in Ee. unfold getshow_of in Ea.
      repeat match type of Ee with (if ?c then _ else _) = _ => destruct c end; inversion Ee; subst;
        repeat match type of Ea with (if ?c then _ else _) = _ => destruct c end; inversion Ea; subst; reflexivity.
  - (* five words *)
    destruct Hnc as (H0 & H1 & H2 & H3 & H4 & _).
    destruct (timed_of w0) as [t|] eqn:Et; [|discriminate]. destruct (act3_of w2) as [a|] eqn:Ea; [|discriminate].
    destruct (atoi_u64 w1) as [k|] eqn:Ek; [|discriminate].
    intro H; inversion H; subst. unfold wf_rule; cbn [r_timec r_tick r_action r_object r_extra r_suspended].
    rewrite H3, H4. pose proof (atoi_range _ _ Ek) as Hk. apply N.ltb_lt in Hk. rewrite Hk.
    unfold timed_of in Et. unfold act3_of, getshow_of in Ea.
    repeat match type of Et with (if ?c then _ else _) = _ => destruct c end; inversion Et; subst;
      repeat match type of Ea with (if ?c then _ else _) = _ => destruct c end; inversion Ea; subst; reflexivity.
Qed.

(* printing what was parsed and parsing it again is the identity on rules *)
Corollary print_parse_stable s r : parse_rule s = Some r -> parse_rule (print_rule r) = Some r.
Proof. intro H. apply parse_print_all. eapply parse_image_wf; eauto. Qed.

(* ---- list operations ---- *)
Lemma active_update_susp rs k :
  k < List.length rs ->
  active (update_nth k (set_susp true) rs) = active (remove_nth k rs).
Proof.
  revert k; induction rs as [|r rs IH]; intros [|k] H; simpl in *; try lia; auto.
  unfold active in *. simpl. destruct (negb (r_suspended r)); [f_equal|]; apply IH; lia.
Qed.

(* a suspended rule is invisible among the active rules: suspending = deleting, as far as the
   active list (the only thing the simulation reads) is concerned *)
Theorem suspend_is_delete_for_active rs i :
  active (fst (sb_apply rs (SbSuspend i))) = active (fst (sb_apply rs (SbDel i))).
Proof.
  unfold sb_apply. destruct (i <? 0)%Z; auto.
  destruct (Nat.ltb_spec (Z.to_nat i) (List.length rs)); auto. simpl. apply active_update_susp; auto.
Qed.

Lemma update_update {A} k (f g : A -> A) l : (forall x, g (f x) = g x) -> update_nth k g (update_nth k f l) = update_nth k g l.
Proof. intro H. revert k; induction l; destruct k; simpl; auto; f_equal; auto. Qed.

Theorem reactivate_undoes_suspend rs i :
  fst (sb_apply (fst (sb_apply rs (SbSuspend i))) (SbReactivate i)) = fst (sb_apply rs (SbReactivate i)).
Proof.
  assert (Hlen : forall (f : rule -> rule) k l, List.length (update_nth k f l) = List.length l).
  { intros f k l. revert k; induction l; destruct k; simpl; auto. }
  unfold sb_apply. destruct (i <? 0)%Z; [reflexivity|].
  destruct (Nat.ltb_spec (Z.to_nat i) (List.length rs)) as [Hl|Hl]; cbn [fst].
  - rewrite Hlen. destruct (Nat.ltb_spec (Z.to_nat i) (List.length rs)); [|lia]. cbn [fst].
    apply update_update. intros []; reflexivity.
  - destruct (Nat.ltb_spec (Z.to_nat i) (List.length rs)); [lia|]. reflexivity.
Qed.
