(* Proofs/HandshakeProofs.v — C04: under the schedule hypotheses every consumer receives exactly
   the produced sequence, and neither side passes its IO instruction before the transfer; for any
   number of consumers, any schedule, in the simulator's protocol and in the hardware's. *)
From Coq Require Import List NArith Bool Arith Lia.
From BM Require Import Net.Handshake.
Import ListNotations.

(* ------------------------------------------------------------------ generic *)
Lemma Forall_map_combine {A B C} (P : A -> Prop) (Q : C -> Prop) (f : A * B -> C) (l : list A) (m : list B) :
  Forall P l -> (forall a b, In (a, b) (combine l m) -> P a -> Q (f (a, b))) -> Forall Q (map f (combine l m)).
Proof.
  intros HP Hf. apply Forall_forall. intros c Hc. apply in_map_iff in Hc. destruct Hc as ([a b] & <- & Hin).
  apply Hf; auto. rewrite Forall_forall in HP. apply HP. eapply in_combine_l; eauto.
Qed.

Lemma forallb_combine_In {A B} (f : A * B -> bool) (l : list A) (m : list B) a b :
  forallb f (combine l m) = true -> In (a, b) (combine l m) -> f (a, b) = true.
Proof. intros H Hin. rewrite forallb_forall in H. auto. Qed.

Lemma map_combine_length {A B C} (f : A * B -> C) (l : list A) (m : list B) :
  length m = length l -> length (map f (combine l m)) = length l.
Proof. intro H. rewrite map_length, combine_length. lia. Qed.

Lemma prefixb_refl l : prefixb l l = true.
Proof. induction l; simpl; auto. rewrite N.eqb_refl. auto. Qed.
Lemma prefixb_app l m : prefixb l (l ++ m) = true.
Proof. induction l; simpl; auto. rewrite N.eqb_refl. auto. Qed.

(* ================================================================== simulator *)

Definition sc_clean (sent : list N) (c : scst) : Prop := sc_got c = sent /\ sc_recv c = false /\ sc_def c = false.
Definition sc_done (sent : list N) (c : scst) : Prop := sc_got c = sent /\ sc_recv c = true /\ sc_def c = true.

Inductive SInv (s : ssys) : Prop :=
| SIdleClean : sp_valid (s_prod s) = false -> Forall (sc_clean (sp_sent (s_prod s))) (s_cons s) -> SInv s
| SJustDone  : sp_valid (s_prod s) = false -> s_cons s <> [] -> Forall (sc_done (sp_sent (s_prod s))) (s_cons s) -> SInv s
| SOffering  : sp_valid (s_prod s) = true ->
               Forall (fun c => sc_clean (sp_sent (s_prod s)) c \/ sc_done (sp_sent (s_prod s) ++ [sp_data (s_prod s)]) c) (s_cons s) ->
               SInv s.

Lemma all_recv_done sent cs : cs <> [] -> Forall (sc_done sent) cs -> all_recv_s cs = true.
Proof.
  intros Hne H. unfold all_recv_s. destruct cs; [congruence|]. apply forallb_forall. intros c Hc.
  rewrite Forall_forall in H. apply H in Hc. apply Hc.
Qed.

Lemma all_recv_clean sent cs : Forall (sc_clean sent) cs -> all_recv_s cs = false.
Proof.
  intro H. unfold all_recv_s. destruct cs as [|c cs]; auto. inversion H as [|? ? Hc _]; subst.
  simpl. destruct Hc as (_ & -> & _). reflexivity.
Qed.

(* received is up for everybody exactly when everybody has captured *)
Lemma all_recv_offering sent d cs :
  Forall (fun c => sc_clean sent c \/ sc_done (sent ++ [d]) c) cs ->
  all_recv_s cs = true -> cs <> [] /\ Forall (sc_done (sent ++ [d])) cs.
Proof.
  intros H Hr. unfold all_recv_s in Hr. destruct cs as [|c cs]; [discriminate|]. split; [discriminate|].
  rewrite forallb_forall in Hr. apply Forall_forall. intros x Hx. rewrite Forall_forall in H.
  destruct (H x Hx) as [(_ & Hf & _)|Hd]; auto. rewrite (Hr x Hx) in Hf. discriminate.
Qed.

Theorem s_step_inv s pa cas : SInv s -> s_ok s pa cas = true -> SInv (s_step s pa cas).
Proof.
  intros I Hok. unfold s_ok in Hok. rewrite !andb_true_iff in Hok. destruct Hok as [[Hlen Hc] Hp].
  apply Nat.eqb_eq in Hlen.
  destruct s as [[V Dt sent] cs]. simpl in *.
  inversion I as [Hv Hcl|Hv Hne Hdn|Hv Hof]; simpl in *; subst V.
  - (* idle and clean *)
    pose proof (all_recv_clean _ _ Hcl) as HR. unfold s_step; simpl. rewrite HR.
    assert (Hcons : Forall (sc_clean sent) (map (fun ca => sc_step false Dt (fst ca) (snd ca)) (combine cs cas))).
    { apply Forall_map_combine with (P := sc_clean sent); auto.
      intros c a _ (Hg & Hr & Hd). unfold sc_step; simpl. rewrite Hd. simpl.
      destruct a; simpl; destruct c; simpl in *; subst; repeat split; auto. }
    destruct pa as [v|]; simpl.
    + apply SOffering; simpl; auto. eapply Forall_impl; [|exact Hcons]. intros; left; auto.
    + apply SIdleClean; simpl; auto.
  - (* just completed: received still up everywhere *)
    pose proof (all_recv_done _ _ Hne Hdn) as HR. unfold s_step; simpl. rewrite HR.
    assert (Hpa : pa = PIdle).
    { destruct pa; auto. rewrite HR in Hp. discriminate. }
    subst pa; simpl. apply SIdleClean; simpl; auto.
    apply Forall_map_combine with (P := sc_done sent); auto.
    intros c a _ (Hg & Hr & Hd). unfold sc_step; simpl. rewrite Hd. simpl.
    destruct a; simpl; repeat split; auto.
  - (* offering Dt *)
    unfold s_step; simpl.
    assert (Hcons : Forall (fun c => sc_clean sent c \/ sc_done (sent ++ [Dt]) c)
                           (map (fun ca => sc_step true Dt (fst ca) (snd ca)) (combine cs cas))).
    { apply Forall_map_combine with (P := fun c => sc_clean sent c \/ sc_done (sent ++ [Dt]) c); auto.
      intros c a Hin [(Hg & Hr & Hd)|(Hg & Hr & Hd)]; unfold sc_step; simpl; rewrite Hd; simpl.
      - destruct a; simpl; [right|left]; repeat split; auto. rewrite Hg; auto.
      - pose proof (forallb_combine_In _ _ _ _ _ Hc Hin) as Ha. simpl in Ha.
        destruct a; simpl; [rewrite Hd in Ha; discriminate|]. right; repeat split; auto. }
    destruct pa as [v|]; simpl.
    + apply N.eqb_eq in Hp. subst v.
      destruct (all_recv_s cs) eqn:HR; simpl.
      * (* completion: everybody had captured before this tick, and nobody may re-read *)
        destruct (all_recv_offering _ _ _ Hof HR) as [Hne Hall].
        apply SJustDone; simpl.
        -- reflexivity.
        -- destruct cs; [congruence|]. destruct cas; [discriminate|]. simpl. discriminate.
        -- apply Forall_map_combine with (P := sc_done (sent ++ [Dt])); auto.
           intros c a Hin (Hg & Hr & Hd). pose proof (forallb_combine_In _ _ _ _ _ Hc Hin) as Ha. simpl in Ha.
           unfold sc_step; simpl. rewrite Hd. simpl.
           destruct a; [rewrite Hd in Ha; discriminate|]. repeat split; auto.
      * apply SOffering; simpl; auto.
    + apply SOffering; simpl; auto.
Qed.

Lemma s_init_inv k : SInv (s_init k).
Proof.
  apply SIdleClean; simpl; auto. apply Forall_forall. intros c Hc. apply repeat_spec in Hc. subst. repeat split; auto.
Qed.

Theorem s_run_inv sched : forall s, SInv s -> s_ok_run s sched = true -> SInv (s_run s sched).
Proof.
  induction sched as [|[pa cas] r IH]; intros s I H; simpl in *; auto.
  apply andb_true_iff in H. destruct H as [H1 H2]. apply IH; auto. apply s_step_inv; auto.
Qed.

(* the invariant implies the specification *)
Theorem s_inv_spec s : SInv s -> spec_ok (s_offered s) (map sc_got (s_cons s)) = true.
Proof.
  intros I. unfold spec_ok, s_offered. apply forallb_forall. intros g Hg. apply in_map_iff in Hg.
  destruct Hg as (c & <- & Hc).
  inversion I as [Hv H|Hv _ H|Hv H]; rewrite Hv; rewrite Forall_forall in H; specialize (H c Hc).
  - destruct H as (-> & _). rewrite app_nil_r, prefixb_refl, Nat.sub_diag. reflexivity.
  - destruct H as (-> & _). rewrite app_nil_r, prefixb_refl, Nat.sub_diag. reflexivity.
  - destruct H as [(-> & _)|(-> & _)].
    + rewrite prefixb_app, app_length. simpl. replace (length (sp_sent (s_prod s)) + 1 - length (sp_sent (s_prod s))) with 1 by lia.
      reflexivity.
    + rewrite prefixb_refl, Nat.sub_diag. reflexivity.
Qed.

(* blocking: the producer gets past its r2owa only when every consumer already holds the value,
   and a consumer gets past its i2rw only by capturing the value on the wire *)
Theorem s_producer_blocks s pa cas :
  SInv s -> s_ok s pa cas = true -> sp_sent (s_prod (s_step s pa cas)) <> sp_sent (s_prod s) ->
  sp_valid (s_prod s) = true /\
  sp_sent (s_prod (s_step s pa cas)) = sp_sent (s_prod s) ++ [sp_data (s_prod s)] /\
  Forall (fun c => sc_got c = sp_sent (s_prod s) ++ [sp_data (s_prod s)]) (s_cons s).
Proof.
  intros I Hok Hne. unfold s_ok in Hok. rewrite !andb_true_iff in Hok. destruct Hok as [[Hlen Hc] Hp].
  destruct s as [[V Dt sent] cs]. unfold s_step in *; simpl in *.
  destruct pa as [v|]; simpl in *; [|congruence].
  destruct (all_recv_s cs) eqn:HR; simpl in *; [|congruence].
  destruct V; simpl in *; [|discriminate].
  apply N.eqb_eq in Hp. subst v. repeat split; auto.
  inversion I as [Hv _|Hv _ _|Hv Hof]; simpl in *; try discriminate.
  destruct (all_recv_offering _ _ _ Hof HR) as [_ Hall]. eapply Forall_impl; [|exact Hall]. intros c Hd; apply Hd.
Qed.

(* ================================================================== generated hardware *)

Definition hc_clean (sent : list N) (c : hcst) : Prop := hc_got c = sent /\ hc_recv c = false.
Definition hc_done (sent : list N) (c : hcst) : Prop := hc_got c = sent /\ hc_recv c = true.

Inductive HInv (s : hsys) : Prop :=
| HIdle    : hp_wait (h_prod s) = false -> hp_val (h_prod s) = false ->
             Forall (hc_clean (hp_sent (h_prod s))) (h_cons s) -> HInv s
| HArmed   : hp_wait (h_prod s) = true -> hp_val (h_prod s) = false ->
             Forall (hc_clean (hp_sent (h_prod s))) (h_cons s) -> HInv s
| HOffer   : hp_wait (h_prod s) = true -> hp_val (h_prod s) = true ->
             Forall (fun c => hc_clean (hp_sent (h_prod s)) c \/ hc_done (hp_sent (h_prod s) ++ [hp_aux (h_prod s)]) c) (h_cons s) -> HInv s
| HDoneUp  : hp_wait (h_prod s) = false -> hp_val (h_prod s) = true -> h_cons s <> [] ->
             Forall (hc_done (hp_sent (h_prod s))) (h_cons s) -> HInv s
| HDoneLow : hp_wait (h_prod s) = false -> hp_val (h_prod s) = false -> h_cons s <> [] ->
             Forall (hc_done (hp_sent (h_prod s))) (h_cons s) -> HInv s.

Lemma h_all_recv_done sent cs : cs <> [] -> Forall (hc_done sent) cs -> all_recv_h cs = true.
Proof.
  intros Hne H. unfold all_recv_h. destruct cs; [congruence|]. apply forallb_forall. intros c Hc.
  rewrite Forall_forall in H. apply H in Hc. apply Hc.
Qed.
Lemma h_all_recv_clean sent cs : Forall (hc_clean sent) cs -> all_recv_h cs = false.
Proof.
  intro H. unfold all_recv_h. destruct cs as [|c cs]; auto. inversion H as [|? ? Hc _]; subst.
  simpl. destruct Hc as (_ & ->). reflexivity.
Qed.
Lemma h_all_recv_offering sent d cs :
  Forall (fun c => hc_clean sent c \/ hc_done (sent ++ [d]) c) cs ->
  all_recv_h cs = true -> cs <> [] /\ Forall (hc_done (sent ++ [d])) cs.
Proof.
  intros H Hr. unfold all_recv_h in Hr. destruct cs as [|c cs]; [discriminate|]. split; [discriminate|].
  rewrite forallb_forall in Hr. apply Forall_forall. intros x Hx. rewrite Forall_forall in H.
  destruct (H x Hx) as [(_ & Hf)|Hd]; auto. rewrite (Hr x Hx) in Hf. discriminate.
Qed.

Lemma nonempty_map_combine {A B C} (f : A * B -> C) (l : list A) (m : list B) :
  l <> [] -> length m = length l -> map f (combine l m) <> [].
Proof. intros Hne Hlen. destruct l; [congruence|]. destruct m; [discriminate|]. simpl. discriminate. Qed.

Theorem h_step_inv s pa cas : HInv s -> h_ok s pa cas = true -> HInv (h_step s pa cas).
Proof.
  intros I Hok. unfold h_ok in Hok. rewrite !andb_true_iff in Hok. destruct Hok as [[Hlen Hc] Hp].
  apply Nat.eqb_eq in Hlen.
  destruct s as [[W V Ax sent] cs]. simpl in *.
  (* what consumers do when valid is low: they all end clean / keep their stream *)
  assert (LowClean : forall sent', Forall (hc_clean sent') cs ->
            Forall (hc_clean sent') (map (fun ca => hc_step false Ax (fst ca) (snd ca)) (combine cs cas))).
  { intros sent' H. apply Forall_map_combine with (P := hc_clean sent'); auto.
    intros c a _ (Hg & Hr). unfold hc_step; simpl. destruct a; split; auto. }
  assert (LowDone : forall sent', Forall (hc_done sent') cs ->
            Forall (hc_clean sent') (map (fun ca => hc_step false Ax (fst ca) (snd ca)) (combine cs cas))).
  { intros sent' H. apply Forall_map_combine with (P := hc_done sent'); auto.
    intros c a _ (Hg & Hr). unfold hc_step; simpl. destruct a; split; auto. }
  inversion I as [Hw Hv Hcl|Hw Hv Hcl|Hw Hv Hof|Hw Hv Hne Hdn|Hw Hv Hne Hdn]; simpl in *; subst W V.
  - (* idle *)
    pose proof (h_all_recv_clean _ _ Hcl) as HR. unfold h_step; simpl. rewrite HR.
    destruct pa as [v|]; simpl.
    + apply HArmed; simpl; auto.
    + apply HIdle; simpl; auto.
  - (* armed: waitsm is up, valid not yet *)
    pose proof (h_all_recv_clean _ _ Hcl) as HR. unfold h_step; simpl. rewrite HR.
    destruct pa as [v|]; [|discriminate]. simpl.
    apply HOffer; simpl; auto. eapply Forall_impl; [|apply LowClean; exact Hcl]. intros; left; auto.
  - (* offering Ax *)
    destruct pa as [v|]; [|discriminate]. apply N.eqb_eq in Hp. subst v.
    unfold h_step; simpl.
    destruct (all_recv_h cs) eqn:HR; simpl.
    + destruct (h_all_recv_offering _ _ _ Hof HR) as [Hne Hall].
      apply HDoneUp; simpl; auto.
      * apply nonempty_map_combine; auto.
      * apply Forall_map_combine with (P := hc_done (sent ++ [Ax])); auto.
        intros c a Hin (Hg & Hr). pose proof (forallb_combine_In _ _ _ _ _ Hc Hin) as Ha. simpl in Ha.
        unfold hc_step; simpl. destruct a; [rewrite Hr in Ha; discriminate|]. split; auto.
    + apply HOffer; simpl; auto.
      apply Forall_map_combine with (P := fun c => hc_clean sent c \/ hc_done (sent ++ [Ax]) c); auto.
      intros c a Hin [(Hg & Hr)|(Hg & Hr)]; unfold hc_step; simpl.
      * destruct a; [right|left]; split; simpl; auto. rewrite Hg; auto.
      * pose proof (forallb_combine_In _ _ _ _ _ Hc Hin) as Ha. simpl in Ha.
        destruct a; [rewrite Hr in Ha; discriminate|]. right; split; auto.
  - (* completed, valid still up: nobody may read *)
    pose proof (h_all_recv_done _ _ Hne Hdn) as HR. unfold h_step; simpl. rewrite HR.
    assert (Hkeep : Forall (hc_done sent) (map (fun ca => hc_step true Ax (fst ca) (snd ca)) (combine cs cas))).
    { apply Forall_map_combine with (P := hc_done sent); auto.
      intros c a Hin (Hg & Hr). pose proof (forallb_combine_In _ _ _ _ _ Hc Hin) as Ha. simpl in Ha.
      unfold hc_step; simpl. destruct a; [rewrite Hr in Ha; discriminate|]. split; auto. }
    destruct pa as [v|]; simpl.
    + apply HDoneUp; simpl; auto. apply nonempty_map_combine; auto.
    + apply HDoneLow; simpl; auto. apply nonempty_map_combine; auto.
  - (* completed, valid withdrawn: the consumers drop received *)
    pose proof (h_all_recv_done _ _ Hne Hdn) as HR. unfold h_step; simpl. rewrite HR.
    destruct pa as [v|]; simpl; apply HIdle; simpl; auto.
Qed.

Lemma h_init_inv k : HInv (h_init k).
Proof.
  apply HIdle; simpl; auto. apply Forall_forall. intros c Hc. apply repeat_spec in Hc. subst. split; auto.
Qed.

Theorem h_run_inv sched : forall s, HInv s -> h_ok_run s sched = true -> HInv (h_run s sched).
Proof.
  induction sched as [|[pa cas] r IH]; intros s I H; simpl in *; auto.
  apply andb_true_iff in H. destruct H as [H1 H2]. apply IH; auto. apply h_step_inv; auto.
Qed.

Theorem h_inv_spec s : HInv s -> spec_ok (h_offered s) (map hc_got (h_cons s)) = true.
Proof.
  intros I. unfold spec_ok, h_offered. apply forallb_forall. intros g Hg. apply in_map_iff in Hg.
  destruct Hg as (c & <- & Hc).
  inversion I as [Hw Hv H|Hw Hv H|Hw Hv H|Hw Hv _ H|Hw Hv _ H]; rewrite Hw, Hv; simpl; rewrite Forall_forall in H; specialize (H c Hc).
  - destruct H as (-> & _). rewrite app_nil_r, prefixb_refl, Nat.sub_diag. reflexivity.
  - destruct H as (-> & _). rewrite app_nil_r, prefixb_refl, Nat.sub_diag. reflexivity.
  - destruct H as [(-> & _)|(-> & _)].
    + rewrite prefixb_app, app_length. simpl.
      replace (length (hp_sent (h_prod s)) + 1 - length (hp_sent (h_prod s))) with 1 by lia. reflexivity.
    + rewrite prefixb_refl, Nat.sub_diag. reflexivity.
  - destruct H as (-> & _). rewrite app_nil_r, prefixb_refl, Nat.sub_diag. reflexivity.
  - destruct H as (-> & _). rewrite app_nil_r, prefixb_refl, Nat.sub_diag. reflexivity.
Qed.

Theorem h_producer_blocks s pa cas :
  HInv s -> h_ok s pa cas = true -> hp_sent (h_prod (h_step s pa cas)) <> hp_sent (h_prod s) ->
  hp_wait (h_prod s) = true /\ hp_val (h_prod s) = true /\
  hp_sent (h_prod (h_step s pa cas)) = hp_sent (h_prod s) ++ [hp_aux (h_prod s)] /\
  Forall (fun c => hc_got c = hp_sent (h_prod s) ++ [hp_aux (h_prod s)]) (h_cons s).
Proof.
  intros I Hok Hne. unfold h_ok in Hok. rewrite !andb_true_iff in Hok. destruct Hok as [[Hlen Hc] Hp].
  destruct s as [[W V Ax sent] cs]. unfold h_step in *; simpl in *.
  destruct pa as [v|]; simpl in *.
  - destruct W; simpl in *.
    + destruct (all_recv_h cs) eqn:HR; simpl in *; [|congruence].
      inversion I as [Hw Hv H|Hw Hv H|Hw Hv Hof|Hw Hv _ H|Hw Hv _ H]; simpl in *; try discriminate.
      * subst V. rewrite (h_all_recv_clean _ _ H) in HR. discriminate.
      * subst V. destruct (h_all_recv_offering _ _ _ Hof HR) as [_ Hall]. repeat split; auto.
        eapply Forall_impl; [|exact Hall]. intros c Hd; apply Hd.
    + destruct (all_recv_h cs); simpl in *; congruence.
  - destruct (all_recv_h cs); simpl in *; congruence.
Qed.

(* ------------------------------------------------------------------ consumers only advance by capturing *)
Theorem s_consumer_blocks V Dt c a :
  sc_got (sc_step V Dt c a) <> sc_got c -> a = CIo /\ V = true /\ sc_got (sc_step V Dt c a) = sc_got c ++ [Dt].
Proof.
  unfold sc_step. destruct a, V; simpl; destruct (sc_def c); simpl; intro H; try congruence; auto.
Qed.
Theorem h_consumer_blocks V Dt c a :
  hc_got (hc_step V Dt c a) <> hc_got c -> a = CIo /\ V = true /\ hc_got (hc_step V Dt c a) = hc_got c ++ [Dt].
Proof. unfold hc_step. destruct a, V; simpl; intro H; try congruence; auto. Qed.
