(* Proofs/HandshakeLoopProofs.v — with one consumer, a fixed padding of at least one (simulator)
   resp. one on the producer's and two on the consumer's side (hardware) non-IO instruction between
   IO instructions keeps every execution inside the schedule hypotheses of C04's theorems. *)
From Coq Require Import List NArith Bool Arith Lia.
From BM Require Import Net.Handshake Net.HandshakeLoop Proofs.HandshakeProofs.
Import ListNotations.

(* ================================================================== simulator *)
Inductive SLInv : ssys * pctl * cctl -> Prop :=
| SL_idle : forall Dt sent got p c, got = sent ->
    SLInv (mkSS (mkSP false Dt sent) [mkSC false false got], p, c)
| SL_done : forall Dt sent got p c, got = sent -> 1 <= pc_idle p ->
    SLInv (mkSS (mkSP false Dt sent) [mkSC true true got], p, c)
| SL_offer_clean : forall Dt sent got rest c, got = sent ->
    SLInv (mkSS (mkSP true Dt sent) [mkSC false false got], mkPC (Dt :: rest) 0, c)
| SL_offer_done : forall Dt sent got rest c, got = sent ++ [Dt] -> 1 <= cc_idle c ->
    SLInv (mkSS (mkSP true Dt sent) [mkSC true true got], mkPC (Dt :: rest) 0, c).

Lemma length_app1 {A} (l : list A) x : Nat.eqb (length (l ++ [x])) (length l) = false.
Proof. apply Nat.eqb_neq. rewrite app_length. simpl. lia. Qed.

Theorem sl_step_inv padp padc st : 1 <= padp -> 1 <= padc -> SLInv st -> SLInv (sl_step padp padc st).
Proof.
  intros Hp Hc I. inversion I as [Dt sent got p c Hg|Dt sent got p c Hg Hi|Dt sent got rest c Hg|Dt sent got rest c Hg Hi]; subst; unfold sl_step.
  - (* idle, clean *)
    unfold p_action. destruct p as [vals idle]. simpl pc_idle; simpl pc_vals.
    destruct idle as [|idle]; [destruct vals as [|v vals]|]; simpl;
      unfold c_action; destruct c as [left ci]; simpl; destruct ci, left; simpl; rewrite ?Nat.eqb_refl; simpl;
        try (apply SL_idle; auto; fail); try (apply SL_offer_clean; auto; fail).
  - (* just completed *)
    unfold p_action. destruct p as [vals idle]. simpl in Hi. destruct idle as [|idle]; [lia|]. simpl.
    unfold c_action; destruct c as [left ci]; simpl; destruct ci, left; simpl; rewrite ?Nat.eqb_refl; simpl; apply SL_idle; auto.
  - (* offering, not yet captured *)
    simpl. unfold c_action; destruct c as [left ci]; simpl; destruct ci as [|ci]; [destruct left as [|left]|]; simpl;
      rewrite ?Nat.eqb_refl, ?length_app1; simpl; try (apply SL_offer_clean; auto; fail).
    apply SL_offer_done; simpl; auto.
  - (* offering, captured: the producer completes now and the consumer is still padding *)
    simpl. unfold c_action; destruct c as [left ci]; simpl in *. destruct ci as [|ci]; [lia|]. simpl.
    rewrite length_app1, Nat.eqb_refl. simpl. apply SL_done; simpl; auto.
Qed.

Lemma sl_inv_ok st : SLInv st -> let '(s, p, c) := st in s_ok s (p_action p) [c_action c] = true.
Proof.
  intro I. inversion I as [Dt sent got p c Hg|Dt sent got p c Hg Hi|Dt sent got rest c Hg|Dt sent got rest c Hg Hi]; subst; unfold s_ok; simpl.
  - unfold p_action, c_action. destruct (pc_idle p), (pc_vals p), (cc_idle c), (cc_left c); reflexivity.
  - unfold p_action. destruct (pc_idle p); [lia|]. unfold c_action. destruct (cc_idle c), (cc_left c); reflexivity.
  - rewrite N.eqb_refl. unfold c_action. destruct (cc_idle c), (cc_left c); reflexivity.
  - rewrite N.eqb_refl. unfold c_action. destruct (cc_idle c); [lia|]. reflexivity.
Qed.

Lemma sl_inv_sinv st : SLInv st -> SInv (fst (fst st)).
Proof.
  intro I. inversion I; subst; simpl.
  - apply SIdleClean; simpl; auto. repeat constructor; auto.
  - apply SJustDone; simpl; auto; [discriminate|]. repeat constructor; auto.
  - apply SOffering; simpl; auto. constructor; [left; repeat split; auto|constructor].
  - apply SOffering; simpl; auto. constructor; [right; repeat split; auto|constructor].
Qed.

Theorem sim_padding_suffices padp padc vals reads n :
  1 <= padp -> 1 <= padc ->
  let st := sl_run padp padc n (s_init 1, mkPC vals 0, mkCC reads 0) in
  let '(s, p, c) := st in
  s_ok s (p_action p) [c_action c] = true /\ spec_ok (s_offered s) (map sc_got (s_cons s)) = true.
Proof.
  intros Hp Hc.
  assert (I0 : SLInv (s_init 1, mkPC vals 0, mkCC reads 0)) by (apply SL_idle; auto).
  revert I0. generalize (s_init 1, mkPC vals 0, mkCC reads 0).
  induction n as [|n IH]; intros st I; simpl.
  - pose proof (sl_inv_ok st I) as Hok. pose proof (sl_inv_sinv st I) as HS. destruct st as [[s p] c]. split; auto.
    apply s_inv_spec; auto.
  - apply IH. apply sl_step_inv; auto.
Qed.

(* ================================================================== hardware *)
Inductive HLInv : hsys * pctl * cctl -> Prop :=
| HL_idle : forall Ax sent got p c, got = sent ->
    HLInv (mkHS (mkHP false false Ax sent) [mkHC false got], p, c)
| HL_armed : forall Ax sent got v rest c, got = sent ->
    HLInv (mkHS (mkHP true false Ax sent) [mkHC false got], mkPC (v :: rest) 0, c)
| HL_offer_clean : forall Ax sent got rest c, got = sent ->
    HLInv (mkHS (mkHP true true Ax sent) [mkHC false got], mkPC (Ax :: rest) 0, c)
| HL_offer_done : forall Ax sent got rest c, got = sent ++ [Ax] -> 2 <= cc_idle c ->
    HLInv (mkHS (mkHP true true Ax sent) [mkHC true got], mkPC (Ax :: rest) 0, c)
| HL_done_up : forall Ax sent got p c, got = sent -> 1 <= pc_idle p -> 1 <= cc_idle c ->
    HLInv (mkHS (mkHP false true Ax sent) [mkHC true got], p, c)
| HL_done_low : forall Ax sent got p c, got = sent ->
    HLInv (mkHS (mkHP false false Ax sent) [mkHC true got], p, c).

Theorem hl_step_inv padp padc st : 1 <= padp -> 2 <= padc -> HLInv st -> HLInv (hl_step padp padc st).
Proof.
  intros Hp Hc I.
  inversion I as [Ax sent got p c Hg|Ax sent got v rest c Hg|Ax sent got rest c Hg|Ax sent got rest c Hg Hi
                 |Ax sent got p c Hg Hpi Hci|Ax sent got p c Hg]; subst; unfold hl_step.
  - (* idle *)
    unfold p_action. destruct p as [vals idle]. simpl pc_idle; simpl pc_vals.
    destruct idle as [|idle]; [destruct vals as [|v vals]|]; simpl;
      unfold c_action; destruct c as [left ci]; simpl; destruct ci, left; simpl; rewrite ?Nat.eqb_refl; simpl;
        try (apply HL_idle; auto; fail); try (apply HL_armed; auto; fail).
  - (* armed *)
    simpl. unfold c_action; destruct c as [left ci]; simpl; destruct ci, left; simpl; rewrite ?Nat.eqb_refl; simpl;
      apply HL_offer_clean; auto.
  - (* offering, not captured *)
    simpl. unfold c_action; destruct c as [left ci]; simpl; destruct ci as [|ci]; [destruct left as [|left]|]; simpl;
      rewrite ?Nat.eqb_refl, ?length_app1; simpl; try (apply HL_offer_clean; auto; fail).
    apply HL_offer_done; simpl; auto.
  - (* offering, captured: completes *)
    simpl. unfold c_action; destruct c as [left ci]; simpl in *. destruct ci as [|[|ci]]; try lia. simpl.
    rewrite length_app1, Nat.eqb_refl. simpl. apply HL_done_up; simpl; auto; lia.
  - (* completed, valid up: producer pads and withdraws valid, consumer still pads *)
    unfold p_action. destruct p as [vals idle]. simpl in Hpi. destruct idle as [|idle]; [lia|]. simpl.
    unfold c_action; destruct c as [left ci]; simpl in *. destruct ci as [|ci]; [lia|]. simpl.
    rewrite !Nat.eqb_refl. simpl. apply HL_done_low; auto.
  - (* valid low: consumer drops received *)
    unfold p_action. destruct p as [vals idle]. simpl pc_idle; simpl pc_vals.
    destruct idle as [|idle]; [destruct vals as [|v vals]|]; simpl;
      unfold c_action; destruct c as [left ci]; simpl; destruct ci, left; simpl; rewrite ?Nat.eqb_refl; simpl; apply HL_idle; auto.
Qed.

Lemma hl_inv_ok st : HLInv st -> let '(s, p, c) := st in h_ok s (p_action p) [c_action c] = true.
Proof.
  intro I. inversion I; subst; unfold h_ok; simpl; unfold p_action, c_action; simpl.
  - destruct (cc_idle c), (cc_left c); reflexivity.
  - destruct (cc_idle c), (cc_left c); reflexivity.
  - rewrite N.eqb_refl. destruct (cc_idle c), (cc_left c); reflexivity.
  - rewrite N.eqb_refl. destruct (cc_idle c); [lia|]. reflexivity.
  - destruct (cc_idle c); [lia|]. reflexivity.
  - destruct (cc_idle c), (cc_left c); reflexivity.
Qed.

Lemma hl_inv_hinv st : HLInv st -> HInv (fst (fst st)).
Proof.
  intro I. inversion I; subst; simpl.
  - apply HIdle; simpl; auto. repeat constructor; auto.
  - apply HArmed; simpl; auto. repeat constructor; auto.
  - apply HOffer; simpl; auto. constructor; [left; split; auto|constructor].
  - apply HOffer; simpl; auto. constructor; [right; split; auto|constructor].
  - apply HDoneUp; simpl; auto; [discriminate|]. repeat constructor; auto.
  - apply HDoneLow; simpl; auto; [discriminate|]. repeat constructor; auto.
Qed.

Theorem hdl_padding_suffices padp padc vals reads n :
  1 <= padp -> 2 <= padc ->
  let st := hl_run padp padc n (h_init 1, mkPC vals 0, mkCC reads 0) in
  let '(s, p, c) := st in
  h_ok s (p_action p) [c_action c] = true /\ spec_ok (h_offered s) (map hc_got (h_cons s)) = true.
Proof.
  intros Hp Hc.
  assert (I0 : HLInv (h_init 1, mkPC vals 0, mkCC reads 0)) by (apply HL_idle; auto).
  revert I0. generalize (h_init 1, mkPC vals 0, mkCC reads 0).
  induction n as [|n IH]; intros st I; simpl.
  - pose proof (hl_inv_ok st I) as Hok. pose proof (hl_inv_hinv st I) as HS. destruct st as [[s p] c]. split; auto.
    apply h_inv_spec; auto.
  - apply IH. apply hl_step_inv; auto.
Qed.
