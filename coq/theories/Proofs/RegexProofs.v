(* Proofs/RegexProofs.v — soundness of the disjointness certificate checker *)
From Coq Require Import List NArith Bool Lia.
From BM Require Import Front.Regex.
Import ListNotations.
Local Open Scope N_scope.

Lemma re_eqb_eq x y : re_eqb x y = true -> x = y.
Proof.
  revert y; induction x; destruct y; simpl; try discriminate; auto.
  - rewrite andb_true_iff. intros [Hn Hr]. apply eqb_prop in Hn. subst. f_equal.
    revert ranges0 Hr. induction ranges as [|[p q] l IH]; destruct ranges0 as [|[p' q'] l']; try discriminate; auto.
    rewrite !andb_true_iff. intros [[H1 H2] H3]. apply N.eqb_eq in H1, H2. subst. f_equal. auto.
  - rewrite andb_true_iff. intros [H1 H2]. f_equal; auto.
  - rewrite andb_true_iff. intros [H1 H2]. f_equal; auto.
  - intro H. f_equal; auto.
Qed.

Lemma pmem_In p S : pmem p S = true -> In p S.
Proof.
  unfold pmem. rewrite existsb_exists. intros (q & Hq & He). unfold pair_eqb in He.
  apply andb_true_iff in He. destruct He as [H1 H2]. apply re_eqb_eq in H1, H2.
  destruct p, q; simpl in *; subst; auto.
Qed.

Lemma clamp_clamp c : clamp (clamp c) = clamp c.
Proof. unfold clamp. lia. Qed.

Lemma deriv_clamp c r : deriv (clamp c) r = deriv c r.
Proof.
  induction r; simpl; auto.
  - unfold cls_mem. rewrite clamp_clamp. reflexivity.
  - rewrite IHr1, IHr2. reflexivity.
  - rewrite IHr1, IHr2. reflexivity.
  - rewrite IHr. reflexivity.
Qed.

Lemma clamp_in_alphabet c : In (clamp c) alphabet.
Proof.
  unfold alphabet. apply in_map_iff. exists (N.to_nat (clamp c)). split; [apply N2Nat.id|].
  apply in_seq. unfold clamp. lia.
Qed.

Lemma matches_cons r c s : matches r (c :: s) = matches (deriv c r) s.
Proof. reflexivity. Qed.

Lemma matches_Emp s : matches Emp s = false.
Proof. induction s; simpl; auto. Qed.

Lemma dead_disjoint p s : dead p = true -> matches (fst p) s && matches (snd p) s = false.
Proof.
  destruct p as [a b]; unfold dead; simpl. destruct a; try (destruct b; try discriminate; intros _; rewrite matches_Emp; apply andb_false_r);
  intros _; rewrite matches_Emp; reflexivity.
Qed.

Theorem closed_check_sound S :
  closed_check' S = true ->
  forall p, In p S -> forall s, matches (fst p) s && matches (snd p) s = false.
Proof.
  intros HC p Hp s. revert p Hp. induction s as [|c s IH]; intros p Hp.
  - unfold closed_check' in HC. rewrite forallb_forall in HC. specialize (HC p Hp).
    apply andb_true_iff in HC. destruct HC as [Hn _]. unfold matches; simpl.
    apply negb_true_iff in Hn. exact Hn.
  - rewrite !matches_cons. unfold closed_check' in HC. pose proof HC as HC0. rewrite forallb_forall in HC.
    specialize (HC p Hp). apply andb_true_iff in HC. destruct HC as [_ Hd].
    rewrite forallb_forall in Hd. specialize (Hd (clamp c) (clamp_in_alphabet c)).
    rewrite !deriv_clamp in Hd. apply orb_true_iff in Hd. destruct Hd as [Hd|Hd].
    + apply (dead_disjoint (deriv c (fst p), deriv c (snd p)) s Hd).
    + apply pmem_In in Hd. apply (IH _ Hd).
Qed.

Theorem disjointb_sound r1 r2 fuel :
  disjointb r1 r2 fuel = true -> forall s, matches r1 s && matches r2 s = false.
Proof.
  unfold disjointb. destruct (disjoint_cert r1 r2 fuel) as [S|]; [|discriminate].
  rewrite andb_true_iff. intros [HC Hm] s. apply orb_true_iff in Hm. destruct Hm as [Hm|Hm].
  - apply (dead_disjoint (r1, r2) s Hm).
  - apply pmem_In in Hm. apply (closed_check_sound S HC (r1, r2) Hm s).
Qed.

(* all distinct pairs of a list *)
Fixpoint all_pairs_disjoint (fuel : nat) (l : list re) : bool :=
  match l with
  | [] => true
  | r :: t => forallb (fun r' => disjointb r r' fuel) t && all_pairs_disjoint fuel t
  end.

Theorem all_pairs_disjoint_sound fuel l :
  all_pairs_disjoint fuel l = true ->
  forall i j ri rj, i <> j -> nth_error l i = Some ri -> nth_error l j = Some rj ->
  forall s, matches ri s && matches rj s = false.
Proof.
  induction l as [|r t IH]; intros H i j ri rj Hij Hi Hj s.
  - destruct i; discriminate.
  - simpl in H. apply andb_true_iff in H. destruct H as [Hh Ht]. rewrite forallb_forall in Hh.
    destruct i as [|i], j as [|j]; simpl in Hi, Hj.
    + congruence.
    + inversion Hi; subst. apply (disjointb_sound ri rj fuel). apply Hh. eapply nth_error_In; eauto.
    + inversion Hj; subst. rewrite andb_comm. apply (disjointb_sound rj ri fuel). apply Hh. eapply nth_error_In; eauto.
    + apply (IH Ht i j ri rj); auto.
Qed.
