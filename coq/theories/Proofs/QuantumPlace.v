(* Proofs/QuantumPlace.v — the inner loop of BmMatrixFromOperation (bringing the qubits of a
   multi-qubit line to consecutive positions by swaps) does what it is meant to, given that
   localOrder starts as the current positions of the arguments (the repaired code). *)
From Coq Require Import List Arith Bool Lia.
From BM Require Import Front.Quantum Proofs.QuantumProofs.
Import ListNotations.

(* ---------- positions in a duplicate-free list ---------- *)
Lemma pos_of_lt L a : In a L -> pos_of L a < length L.
Proof.
  induction L as [|x L IH]; simpl; intros H; [contradiction|].
  destruct (Nat.eqb_spec x a); [lia|]. destruct H as [H|H]; [congruence|]. specialize (IH H). lia.
Qed.

Lemma nth_pos_of L a : In a L -> nth (pos_of L a) L 0 = a.
Proof.
  induction L as [|x L IH]; simpl; intros H; [contradiction|].
  destruct (Nat.eqb_spec x a); [auto|]. destruct H as [H|H]; [congruence|]. auto.
Qed.

Lemma pos_of_nth L p : NoDup L -> p < length L -> pos_of L (nth p L 0) = p.
Proof.
  revert p. induction L as [|x L IH]; intros p Hnd Hp; simpl in *; [lia|].
  inversion Hnd as [|x' L' Hx HL]; subst.
  destruct p as [|p].
  - rewrite Nat.eqb_refl. reflexivity.
  - destruct (Nat.eqb_spec x (nth p L 0)) as [E|_].
    + exfalso. apply Hx. rewrite E. apply nth_In. lia.
    + f_equal. apply IH; auto. lia.
Qed.

Lemma nth_firstn {A} (d : A) : forall (l : list A) q k, nth k (firstn q l) d = if k <? q then nth k l d else d.
Proof.
  induction l as [|x l IH]; intros q k.
  - rewrite firstn_nil. destruct (k <? q); destruct k; reflexivity.
  - destruct q as [|q]; [destruct k; reflexivity|]. destruct k as [|k]; [reflexivity|]. simpl firstn. simpl nth.
    rewrite IH. reflexivity.
Qed.

Lemma skipn_cons_nth {A} (d : A) : forall (l : list A) q, q < length l -> skipn q l = nth q l d :: skipn (S q) l.
Proof.
  induction l as [|x l IH]; intros q Hq; simpl in *; [lia|]. destruct q; [reflexivity|]. apply IH. lia.
Qed.

Definition tau (a b p : nat) : nat := if Nat.eqb p a then b else if Nat.eqb p b then a else p.

Lemma tau_invol a b p : tau a b (tau a b p) = p.
Proof.
  unfold tau. destruct (Nat.eqb_spec p a); [subst|].
  - destruct (Nat.eqb_spec b a); [auto|]. rewrite Nat.eqb_refl. reflexivity.
  - destruct (Nat.eqb_spec p b); [subst|].
    + rewrite Nat.eqb_refl. reflexivity.
    + destruct (Nat.eqb_spec p a); [contradiction|]. destruct (Nat.eqb_spec p b); [contradiction|]. reflexivity.
Qed.

Lemma tau_lt a b p n : a < n -> b < n -> p < n -> tau a b p < n.
Proof. unfold tau. intros. destruct (Nat.eqb p a); auto. destruct (Nat.eqb p b); auto. Qed.

Lemma nth_swap_tau (L : list nat) a b p : p < length L -> nth p (swap_pos 0 a b L) 0 = nth (tau a b p) L 0.
Proof. intros H. rewrite nth_swap_pos by exact H. unfold tau. destruct (Nat.eqb p a); auto. destruct (Nat.eqb p b); auto. Qed.

Lemma swap_NoDup (L : list nat) a b : a < length L -> b < length L -> NoDup L -> NoDup (swap_pos 0 a b L).
Proof.
  intros Ha Hb Hnd. apply (NoDup_nth _ 0). intros i j Hi Hj E. rewrite swap_pos_length in Hi, Hj.
  rewrite !nth_swap_tau in E by assumption.
  apply (proj1 (NoDup_nth L 0) Hnd) in E; try (apply tau_lt; assumption).
  rewrite <- (tau_invol a b i), <- (tau_invol a b j). congruence.
Qed.

Lemma swap_In (L : list nat) a b x : a < length L -> b < length L -> (In x (swap_pos 0 a b L) <-> In x L).
Proof.
  intros Ha Hb. split; intros H.
  - apply (In_nth _ _ 0) in H. destruct H as [p [Hp E]]. rewrite swap_pos_length in Hp.
    rewrite nth_swap_tau in E by exact Hp. subst x. apply nth_In. apply tau_lt; assumption.
  - apply (In_nth _ _ 0) in H. destruct H as [p [Hp E]]. subst x.
    rewrite <- (tau_invol a b p). rewrite <- nth_swap_tau by (apply tau_lt; assumption).
    apply nth_In. rewrite swap_pos_length. apply tau_lt; assumption.
Qed.

Lemma pos_of_swap (L : list nat) a b c : a < length L -> b < length L -> NoDup L -> In c L ->
  pos_of (swap_pos 0 a b L) c = tau a b (pos_of L c).
Proof.
  intros Ha Hb Hnd Hc.
  pose proof (pos_of_lt L c Hc) as Hp.
  assert (E : nth (tau a b (pos_of L c)) (swap_pos 0 a b L) 0 = c).
  { rewrite nth_swap_tau by (apply tau_lt; assumption). rewrite tau_invol. apply nth_pos_of. exact Hc. }
  rewrite <- E at 1. apply pos_of_nth.
  - apply swap_NoDup; assumption.
  - rewrite swap_pos_length. apply tau_lt; assumption.
Qed.

Lemma firstn_swap (L : list nat) a b q : q <= a -> q <= b -> a < length L -> b < length L ->
  firstn q (swap_pos 0 a b L) = firstn q L.
Proof.
  intros Hqa Hqb Ha Hb. apply nth_ext with (d := 0) (d' := 0).
  - rewrite !firstn_length, swap_pos_length. reflexivity.
  - intros k Hk. rewrite firstn_length, swap_pos_length in Hk.
    rewrite !nth_firstn. destruct (Nat.ltb_spec k q); [|reflexivity].
    rewrite nth_swap_tau by lia. unfold tau.
    destruct (Nat.eqb_spec k a); [lia|]. destruct (Nat.eqb_spec k b); [lia|]. reflexivity.
Qed.

(* ---------- the loop on the remaining entries of localOrder ---------- *)
Definition upd_lo (q lq : nat) (lo : list nat) : list nat :=
  map (fun x => if Nat.eqb x q then lq else if Nat.eqb x lq then q else x) lo.

(* the same loop with the position of each argument looked up when it is reached *)
Fixpoint place' (n : nat) (args : list nat) (L : list nat) (sw : list (nat * nat)) (q : nat)
  : option (list nat * list (nat * nat) * nat) :=
  match args with
  | [] => Some (L, sw, q)
  | a :: rest =>
      let lq := pos_of L a in
      let q' := match rest with [] => q | _ => S q end in
      if Nat.eqb lq q then place' n rest L sw q'
      else if (q <? n) && (lq <? n) then place' n rest (swap_pos 0 q lq L) (sw ++ [(q, lq)]) q'
      else None
  end.

Lemma upd_lo_positions (L : list nat) q lq rest :
  q < length L -> lq < length L -> NoDup L -> (forall c, In c rest -> In c L) ->
  upd_lo q lq (map (pos_of L) rest) = map (pos_of (swap_pos 0 q lq L)) rest.
Proof.
  intros Hq Hl Hnd Hin. unfold upd_lo. rewrite map_map. apply map_ext_in. intros c Hc.
  rewrite pos_of_swap by auto. reflexivity.
Qed.

(* localOrder, updated after every swap, always holds the current positions of the arguments still to place *)
Lemma place_is_place' n : forall args i lo L sw q,
  length L = n -> NoDup L -> (forall c, In c args -> In c L) ->
  skipn i lo = map (pos_of L) args -> length args + i = length lo ->
  place n i (length args) L sw lo q = place' n args L sw q.
Proof.
  induction args as [|a rest IH]; intros i lo L sw q Hlen Hnd Hin Hsk Hl; [reflexivity|].
  assert (Hi : i < length lo) by (simpl in Hl; lia).
  rewrite (skipn_cons_nth 0 lo i Hi) in Hsk. cbn [map] in Hsk. inversion Hsk as [[Hhd Htl]]. change (skipn (S i) lo = map (pos_of L) rest) in Htl.
  cbn [place place' length]. rewrite Hhd.
  assert (Hlast : (if Nat.eqb (length rest) 0 then q else S q) = (match rest with [] => q | _ => S q end)) by (destruct rest; reflexivity).
  rewrite Hlast.
  destruct (Nat.eqb (pos_of L a) q).
  - apply IH; auto. intros c Hc. apply Hin. right. exact Hc. simpl in Hl. lia.
  - destruct ((q <? n) && (pos_of L a <? n)) eqn:Er; [|reflexivity].
    apply andb_true_iff in Er. destruct Er as [E1 E2]. apply Nat.ltb_lt in E1. apply Nat.ltb_lt in E2.
    apply IH.
    + rewrite swap_pos_length. exact Hlen.
    + apply swap_NoDup; auto; lia.
    + intros c Hc. apply swap_In; try lia. apply Hin. right. exact Hc.
    + fold (upd_lo q (pos_of L a) lo). unfold upd_lo at 1. rewrite skipn_map. fold (upd_lo q (pos_of L a) (skipn (S i) lo)).
      rewrite Htl. apply upd_lo_positions; auto; try lia. intros c Hc. apply Hin. right. exact Hc.
    + unfold upd_lo. rewrite map_length. simpl in Hl. lia.
Qed.

(* what the loop achieves *)
Theorem place'_spec n : forall args L sw q,
  NoDup L -> length L = n -> NoDup args -> args <> [] ->
  (forall a, In a args -> In a L /\ q <= pos_of L a) ->
  exists L' news,
    place' n args L sw q = Some (L', sw ++ news, q + length args - 1) /\
    L' = apply_swaps news L /\ swaps_in_range n news /\ NoDup L' /\ length L' = n /\
    firstn q L' = firstn q L /\ firstn (length args) (skipn q L') = args /\
    (forall x, In x L' <-> In x L).
Proof.
  induction args as [|a args IH]; intros L sw q Hnd Hlen Hna Hne Hpos; [contradiction|].
  inversion Hna as [|a' args' Ha_notin Hna']; subst a' args'.
  destruct (Hpos a (or_introl eq_refl)) as [HaL Hqa].
  pose proof (pos_of_lt L a HaL) as Halt.
  assert (Hq_lt : q < length L) by lia.
  cbn [place'].
  destruct (Nat.eqb_spec (pos_of L a) q) as [Eq|Nq].
  - (* already in place *)
    destruct args as [|b rest].
    + simpl. exists L, []. rewrite app_nil_r. replace (q + 1 - 1) with q by lia.
      repeat split; auto; try constructor; try tauto.
      rewrite (skipn_cons_nth 0 L q Hq_lt). cbn [length firstn]. rewrite <- Eq. rewrite nth_pos_of by exact HaL. reflexivity.
    + destruct (IH L sw (S q) Hnd Hlen Hna' ltac:(discriminate)) as [L' [news [Hp [HL' [Hr [Hnd' [Hlen' [Hf [Hargs HIn]]]]]]]]].
      { intros c Hc. destruct (Hpos c (or_intror Hc)) as [HcL Hqc]. split; [exact HcL|].
        assert (pos_of L c <> q).
        { intros E. apply Ha_notin. assert (Hca : c = a).
          { transitivity (nth q L 0); [rewrite <- E; symmetry; apply nth_pos_of; exact HcL | rewrite <- Eq; apply nth_pos_of; exact HaL]. }
          subst c. exact Hc. }
        lia. }
      exists L', news. rewrite Hp.
      replace (q + length (a :: b :: rest) - 1) with (S q + length (b :: rest) - 1) by (simpl; lia).
      repeat split; auto; try apply HIn.
      * (* firstn q *)
        assert (H1 : firstn q (firstn (S q) L') = firstn q (firstn (S q) L)) by (rewrite Hf; reflexivity).
        rewrite !firstn_firstn in H1. replace (Nat.min q (S q)) with q in H1 by lia. exact H1.
      * (* a then the rest *)
        assert (Hnq : nth q L' 0 = a).
        { assert (H1 : nth q (firstn (S q) L') 0 = nth q (firstn (S q) L) 0) by (rewrite Hf; reflexivity).
          rewrite !nth_firstn in H1. destruct (Nat.ltb_spec q (S q)); [|lia]. rewrite H1, <- Eq. apply nth_pos_of. exact HaL. }
        assert (E : skipn q L' = nth q L' 0 :: skipn (S q) L') by (apply skipn_cons_nth; lia).
        rewrite E, Hnq. cbn [length firstn]. f_equal. exact Hargs.
  - (* swap positions q and pos_of L a *)
    set (lq := pos_of L a) in *.
    assert (Hrange : (q <? n) && (lq <? n) = true).
    { apply andb_true_iff. split; apply Nat.ltb_lt; lia. }
    rewrite Hrange.
    set (L1 := swap_pos 0 q lq L).
    assert (Hnd1 : NoDup L1) by (apply swap_NoDup; auto).
    assert (Hlen1 : length L1 = n) by (unfold L1; rewrite swap_pos_length; exact Hlen).
    assert (Hq1 : nth q L1 0 = a).
    { unfold L1. rewrite nth_swap_tau by exact Hq_lt. unfold tau. rewrite Nat.eqb_refl. apply nth_pos_of. exact HaL. }
    destruct args as [|b rest].
    + simpl. exists L1, [(q, lq)]. replace (q + 1 - 1) with q by lia.
      repeat split; auto.
      * constructor; [simpl; lia|constructor].
      * unfold L1. apply firstn_swap; lia.
      * assert (E : skipn q L1 = nth q L1 0 :: skipn (S q) L1) by (apply skipn_cons_nth; lia).
        rewrite E, Hq1. reflexivity.
      * apply swap_In; lia.
      * apply swap_In; lia.
    + destruct (IH L1 (sw ++ [(q, lq)]) (S q) Hnd1 Hlen1 Hna' ltac:(discriminate)) as [L' [news [Hp [HL' [Hr [Hnd' [Hlen' [Hf [Hargs HIn]]]]]]]]].
      { intros c Hc. destruct (Hpos c (or_intror Hc)) as [HcL Hqc].
        split; [apply swap_In; auto; lia|].
        unfold L1. rewrite pos_of_swap by (auto; lia). unfold tau.
        assert (Hca : pos_of L c <> lq).
        { intros E. apply Ha_notin. assert (Hca' : c = a).
          { transitivity (nth lq L 0); [rewrite <- E; symmetry; apply nth_pos_of; exact HcL | unfold lq; apply nth_pos_of; exact HaL]. }
          subst c. exact Hc. }
        destruct (Nat.eqb_spec (pos_of L c) q); [lia|]. destruct (Nat.eqb_spec (pos_of L c) lq); [contradiction|]. lia. }
      exists L', ((q, lq) :: news). rewrite Hp.
      replace (q + length (a :: b :: rest) - 1) with (S q + length (b :: rest) - 1) by (simpl; lia).
      rewrite <- app_assoc. cbn [app].
      repeat split; auto.
      * constructor; [simpl; lia|exact Hr].
      * assert (H1 : firstn q (firstn (S q) L') = firstn q (firstn (S q) L1)) by (rewrite Hf; reflexivity).
        rewrite !firstn_firstn in H1. replace (Nat.min q (S q)) with q in H1 by lia. rewrite H1.
        unfold L1. apply firstn_swap; lia.
      * assert (Hnq : nth q L' 0 = a).
        { assert (H1 : nth q (firstn (S q) L') 0 = nth q (firstn (S q) L1) 0) by (rewrite Hf; reflexivity).
          rewrite !nth_firstn in H1. destruct (Nat.ltb_spec q (S q)); [|lia]. rewrite H1. exact Hq1. }
        assert (E : skipn q L' = nth q L' 0 :: skipn (S q) L') by (apply skipn_cons_nth; lia).
        rewrite E, Hnq. cbn [length firstn]. f_equal. exact Hargs.
      * intros H. apply HIn in H. apply (swap_In L q lq x) in H; auto; lia.
      * intros H. apply HIn. apply swap_In; auto; lia.
Qed.
