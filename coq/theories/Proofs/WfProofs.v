From Coq Require Import List NArith Bool Arith String Lia.
From BM Require Import Base.Bits Isa.Encode Net.Topo Front.Wf.
Import ListNotations.

(* a validated ROM word decodes: Machine.Disassembler cannot fail on it (for opcodes whose encoding is modelled) *)
Lemma disasm_fields_total a ds instr :
  forallb (field_in_range a instr) ds = true -> disasm_fields a ds instr <> None.
Proof.
  induction ds as [|d ds IH]; simpl; intros H; [discriminate|].
  apply andb_true_iff in H. destruct H as [H1 H2]. unfold field_in_range in H1.
  destruct (slice instr (weval a (dlo d)) (weval a (dhi d))); [|discriminate].
  specialize (IH H2). destruct (disasm_fields a ds instr); [discriminate|contradiction].
Qed.

Theorem wf_word_decodes tbl a w :
  wf_word tbl a w = true ->
  exists name, nth_error (ops a) (N.to_nat (get_id (firstn (opbits a) w))) = Some name /\
               (forall l, find_layout tbl name = Some l -> disasm_word tbl a w <> None) /\
               List.length w = max_word tbl a.
Proof.
  unfold wf_word. rewrite !andb_true_iff. intros [[Hlen Hop] H].
  apply Nat.eqb_eq in Hlen.
  destruct (nth_error (ops a) (N.to_nat (get_id (firstn (opbits a) w)))) as [name|] eqn:En; [|discriminate].
  exists name. split; [reflexivity|]. split; [|exact Hlen].
  intros l Hl. rewrite Hl in H. unfold disasm_word. rewrite Hop, En, Hl.
  pose proof (disasm_fields_total a (dfields l) (skipn (opbits a) w) H) as Hd.
  destruct (disasm_fields a (dfields l) (skipn (opbits a) w)); [discriminate|contradiction].
Qed.

Lemma string_compare_lt_trans : forall x z y,
  String.compare x z = Lt -> String.compare z y = Lt -> String.compare x y = Lt.
Proof.
  induction x as [|a x IHx]; intros [|b z] [|c y] E1 E2; simpl in *; try discriminate; auto.
  destruct (Ascii.compare a b) eqn:Eab; try discriminate.
  - apply Ascii.compare_eq_iff in Eab. subst b. destruct (Ascii.compare a c) eqn:Eac; auto; try discriminate. eauto.
  - destruct (Ascii.compare b c) eqn:Ebc; try discriminate.
    + apply Ascii.compare_eq_iff in Ebc. subst c. rewrite Eab. reflexivity.
    + assert (H : Ascii.compare a c = Lt).
      { unfold Ascii.compare in *. rewrite N.compare_lt_iff in *. lia. }
      rewrite H. reflexivity.
Qed.

(* the opcode list of a validated machine is strictly increasing: sorted and free of duplicates *)
Lemma ltb_trans_in x l : sorted_strict (x :: l) = true -> forall y, In y l -> String.ltb x y = true.
Proof.
  revert x. induction l as [|z l IH]; intros x H y Hy; [contradiction|].
  simpl in H. apply andb_true_iff in H. destruct H as [Hxz Hs].
  destruct Hy as [->|Hy]; auto.
  specialize (IH z Hs y Hy). unfold String.ltb in *.
  destruct (String.compare x z) eqn:E1; try discriminate. destruct (String.compare z y) eqn:E2; try discriminate.
  assert (T : String.compare x y = Lt) by (eapply string_compare_lt_trans; eauto).
  rewrite T. reflexivity.
Qed.

Theorem sorted_strict_nodup l : sorted_strict l = true -> NoDup l.
Proof.
  induction l as [|x l IH]; intros H; constructor.
  - intros Hin. pose proof (ltb_trans_in x l H x Hin) as Hl. unfold String.ltb in Hl.
    assert (Hxx : String.compare x x = Eq).
    { clear. induction x as [|a x IHx]; simpl; auto. unfold Ascii.compare. rewrite N.compare_refl. exact IHx. }
    rewrite Hxx in Hl. discriminate.
  - apply IH. destruct l as [|y l]; auto. simpl in H. apply andb_true_iff in H. tauto.
Qed.

Theorem wf_machine_facts tbl a rom :
  wf_machine tbl a rom = true ->
  NoDup (ops a) /\ (forall w, In w rom -> List.length w = max_word tbl a) /\ List.length rom <= 2 ^ obits a.
Proof.
  unfold wf_machine. rewrite !andb_true_iff. intros [[[[Hs Hw] Hl] _] _].
  split; [apply sorted_strict_nodup; exact Hs|]. split.
  - intros w Hin. rewrite forallb_forall in Hw. destruct (wf_word_decodes tbl a w (Hw w Hin)) as [_ [_ [_ H]]]. exact H.
  - apply Nat.leb_le. exact Hl.
Qed.
