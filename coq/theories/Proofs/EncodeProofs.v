(* Proofs/EncodeProofs.v — C03: for every layout that passes the symbolic consistency check
   and every architecture, assembling is fixed-width, range-checked and inverted by the
   disassembler. *)
From Coq Require Import List String Ascii NArith Bool Arith Lia.
From BM Require Import Base.Bits Base.Dec Isa.Encode.
Import ListNotations.
Local Open Scope list_scope.

(* ------------------------------------------------------------------ linear forms *)

Definition lin (a : arch) (e : wexpr) : nat :=
  wconst (mode a) e +
  fold_right (fun t acc => wcoef (mode a) e t * aval a t + acc) 0 all_atoms.

Lemma weval_lin a e : weval a e = lin a e.
Proof.
  unfold lin. induction e as [n|x|x IHx y IHy|k x IHx|h IHh v IHv y IHy].
  - simpl. lia.
  - destruct x as [| | | | | | | |k]; try destruct k; simpl; lia.
  - cbn [weval wconst wcoef]. rewrite IHx, IHy. cbn [all_atoms fold_right]. lia.
  - cbn [weval wconst wcoef]. rewrite IHx. cbn [all_atoms fold_right]. lia.
  - cbn [weval wconst wcoef]. destruct (mode a); auto.
Qed.

Lemma wexpr_eqb_m_sound a x y : wexpr_eqb_m (mode a) x y = true -> weval a x = weval a y.
Proof.
  unfold wexpr_eqb_m. rewrite andb_true_iff, forallb_forall. intros [Hc Hf].
  apply Nat.eqb_eq in Hc. rewrite !weval_lin. unfold lin. rewrite Hc. f_equal.
  assert (H : forall t, In t all_atoms -> wcoef (mode a) x t = wcoef (mode a) y t).
  { intros t Ht. apply Nat.eqb_eq. apply Hf; auto. }
  clear Hf Hc. induction all_atoms as [|t l IH]; simpl; auto.
  rewrite (H t) by (left; auto). rewrite IH; auto. intros; apply H; right; auto.
Qed.

Lemma wexpr_eqb_sound x y : wexpr_eqb x y = true -> forall a, weval a x = weval a y.
Proof.
  unfold wexpr_eqb. rewrite !andb_true_iff. intros [[H1 H2] H3] a.
  apply wexpr_eqb_m_sound. destruct (mode a); auto.
Qed.


(* ------------------------------------------------------------------ generic lemmas *)

Lemma index_of_nth name l i : index_of name l = Some i -> nth_error l i = Some name.
Proof.
  revert i; induction l as [|x l IH]; simpl; intros i H; [discriminate|].
  destruct (String.eqb x name) eqn:E.
  - inversion H; subst. apply String.eqb_eq in E. subst; auto.
  - destruct (index_of name l); simpl in H; [|discriminate]. inversion H; subst. simpl. auto.
Qed.

Lemma slice_mid (pre f post : bstr) : slice (pre ++ f ++ post) (List.length pre) (List.length pre + List.length f) = Some f.
Proof.
  unfold slice. rewrite !app_length.
  replace (Nat.leb (List.length pre) (List.length pre + List.length f)) with true by (symmetry; apply Nat.leb_le; lia).
  replace (Nat.leb (List.length pre + List.length f) (List.length pre + (List.length f + List.length post))) with true
    by (symmetry; apply Nat.leb_le; lia).
  simpl. rewrite skipn_app_exact. replace (List.length pre + List.length f - List.length pre) with (List.length f) by lia.
  rewrite firstn_app_exact. reflexivity.
Qed.

Section RoundTrip.
Variable tbl : list layout.
Variable parse_num : string -> option bstr.

(* what is assumed of Process_number: it never returns the empty string, and the decimal
   rendering of a value parses back to that value's binary digits *)
Hypothesis parse_num_nonempty : forall s b, parse_num s = Some b -> b <> [].
Hypothesis parse_num_dec : forall v, (v < 2 ^ 64)%N -> parse_num (print_dec v) = Some (get_binary v).

Notation asm_line := (asm_line tbl parse_num).
Notation asm_op := (asm_op tbl parse_num).
Notation asm_fields := (asm_fields parse_num).
Notation disasm_word := (disasm_word tbl).
Notation max_word := (max_word tbl).
Notation parse_operand := (parse_operand parse_num).

(* the value an operand token denotes, printed the way the disassembler prints it *)
Definition printer_of (k : fkind) : pkind :=
  match k with KReg => PReg | KNum => PNumU | KIn => PIn | KOut => POut | KShr j => PShr j end.
Definition normalise_tok (a : arch) (k : fkind) (tok : string) : string :=
  match parse_operand a k tok with
  | Some b => print_field (printer_of k) (get_id b)
  | None => tok
  end.
Fixpoint normalise (a : arch) (fs : list afield) (ws : list string) : list string :=
  match fs, ws with
  | f :: fs', w :: ws' => normalise_tok a (fk f) w :: normalise a fs' ws'
  | _, _ => []
  end.

(* Go computes field values in a signed 64-bit int: the theorems are about fields of at most 63 bits *)
Definition width_limit (p : pkind) : nat := match p with PNumU => 64 | _ => 63 end.
Fixpoint small_fields (a : arch) (fs : list afield) (ds : list dfield) : Prop :=
  match fs, ds with
  | f :: fs', d :: ds' => weval a (fw f) <= width_limit (dk d) /\ small_fields a fs' ds'
  | _, _ => True
  end.

Lemma print_goint_small v : (v < 2 ^ 63)%N -> print_goint v = print_dec v.
Proof.
  intro H. unfold print_goint. rewrite N.mod_small by (eapply N.lt_trans; [exact H|reflexivity]).
  apply N.ltb_lt in H. cbv zeta. rewrite H. reflexivity.
Qed.

Lemma get_id_small b n m : List.length b <= n -> n <= m -> (get_id b < 2 ^ N.of_nat m)%N.
Proof.
  intros Hb Hn. eapply N.lt_le_trans; [apply get_id_lt|]. apply N.pow_le_mono_r; lia.
Qed.

Lemma strip_prefix_app pre s : strip_prefix pre (pre ++ s) = Some s.
Proof. induction pre as [|c p IH]; simpl; [reflexivity|]. rewrite Ascii.eqb_refl. exact IH. Qed.
Lemma strip_prefix_inv pre tok rest : strip_prefix pre tok = Some rest -> tok = (pre ++ rest)%string.
Proof.
  revert tok; induction pre as [|c p IH]; simpl; intros tok H; [congruence|].
  destruct tok as [|d r]; [discriminate|]. destruct (Ascii.eqb c d) eqn:E; [|discriminate]. apply Ascii.eqb_eq in E. subst d.
  rewrite (IH r H). reflexivity.
Qed.

Lemma kind_agree_shr j k : kind_agree (KShr j) (PShr k) = true -> j = k.
Proof. destruct j, k; simpl; intro H; congruence. Qed.

(* under the width limit every printer shows the plain decimal value *)
Lemma print_field_small k p v :
  kind_agree k p = true -> (v < 2 ^ N.of_nat (width_limit p))%N ->
  print_field p v = print_field (printer_of k) v /\ (v < 2 ^ 64)%N /\
  print_field (printer_of k) v = match k with KReg => ("r" ++ print_dec v)%string | KNum => print_dec v
                                         | KIn => ("i" ++ print_dec v)%string | KOut => ("o" ++ print_dec v)%string
                                         | KShr j => (shr_short j ++ print_dec v)%string end.
Proof.
  intros Hk Hv.
  assert (H64 : (v < 2 ^ 64)%N).
  { destruct p; simpl in Hv; try exact Hv; (eapply N.lt_trans; [exact Hv|reflexivity]). }
  destruct k, p; try discriminate;
    try (match goal with H : kind_agree (KShr ?j) (PShr ?k) = true |- _ => apply kind_agree_shr in H; subst end);
    simpl in Hv; unfold print_field, printer_of;
    rewrite ?(print_goint_small _ Hv), ?(N.mod_small _ _ H64); repeat split; auto;
    try (assert (Hv' : (v < 2 ^ 63)%N) by exact Hv; rewrite ?(print_goint_small _ Hv'); auto).
Qed.

Definition widths (a : arch) (fs : list afield) : nat := fold_right (fun f s => weval a (fw f) + s) 0 fs.

Lemma sum_widths_eval a fs : weval a (sum_widths fs) = widths a fs.
Proof. induction fs as [|f fs IH]; simpl; auto. Qed.

Lemma asm_fields_length a fs ws F : asm_fields a fs ws = Some F -> widths a fs <= List.length F.
Proof.
  revert ws F; induction fs as [|f fs IH]; intros ws F H; simpl in *.
  - inversion H; simpl; lia.
  - destruct ws as [|w ws]; [discriminate|].
    destruct (parse_operand a (fk f) w) as [b|]; [|discriminate].
    destruct (asm_fields a fs ws) as [r|] eqn:E; [|discriminate]. inversion H; subst.
    rewrite app_length, length_zeros_prefix. specialize (IH ws r E). lia.
Qed.

(* when the total is exactly the nominal width, every field has exactly its width *)
Lemma asm_fields_exact a fs ws F :
  asm_fields a fs ws = Some F -> List.length F = widths a fs ->
  forall ds off pre post,
    small_fields a fs ds ->
    fields_agree off fs ds = true -> List.length pre = weval a off ->
    disasm_fields a ds (pre ++ F ++ post) = Some (normalise a fs ws) /\
    asm_fields a fs (normalise a fs ws) = Some F.
Proof.
  revert ws F; induction fs as [|f fs IH]; intros ws F H Hlen ds off pre post Hsm Hag Hpre.
  - destruct ds; [|discriminate]. simpl in *. inversion H; subst. auto.
  - destruct ds as [|d ds]; [discriminate|]. cbn [fields_agree] in Hag.
    rewrite !andb_true_iff in Hag. destruct Hag as [[[Hk Hlo] Hhi] Hrest].
    destruct Hsm as [Hsm0 Hsm'].
    pose proof (wexpr_eqb_sound _ _ Hlo a) as Elo. pose proof (wexpr_eqb_sound _ _ Hhi a) as Ehi.
    cbn [weval] in Ehi.
    destruct ws as [|w ws]; [discriminate|]. cbn [Encode.asm_fields] in H.
    destruct (parse_operand a (fk f) w) as [b|] eqn:Ep; [|discriminate].
    destruct (asm_fields a fs ws) as [r|] eqn:Er; [|discriminate]. inversion H; subst F. clear H.
    pose proof (asm_fields_length a fs ws r Er) as Hr.
    cbn [widths fold_right] in Hlen. fold (widths a fs) in Hlen.
    rewrite app_length, length_zeros_prefix in Hlen.
    assert (Hb : List.length b <= weval a (fw f)) by lia.
    assert (Hrl : List.length r = widths a fs) by lia.
    assert (Hzl : List.length (zeros_prefix (weval a (fw f)) b) = weval a (fw f)) by (rewrite length_zeros_prefix; lia).
    assert (Hv : (get_id b < 2 ^ N.of_nat (width_limit (dk d)))%N) by (eapply get_id_small; [exact Hb|exact Hsm0]).
    destruct (print_field_small (fk f) (dk d) (get_id b) Hk Hv) as (Hpf & Hv64 & Hpr).
    specialize (IH ws r Er Hrl ds (WPlus off (fw f)) (pre ++ zeros_prefix (weval a (fw f)) b) post Hsm' Hrest).
    assert (Hpre' : List.length (pre ++ zeros_prefix (weval a (fw f)) b) = weval a (WPlus off (fw f))).
    { rewrite app_length, Hzl. cbn [weval]. lia. }
    specialize (IH Hpre'). destruct IH as [IHd IHa].
    cbn [disasm_fields normalise].
    replace (pre ++ (zeros_prefix (weval a (fw f)) b ++ r) ++ post)
      with (pre ++ zeros_prefix (weval a (fw f)) b ++ (r ++ post)) by (rewrite <- !app_assoc; reflexivity).
    rewrite Elo, Ehi, <- Hpre. rewrite <- Hzl at 2. rewrite slice_mid.
    replace (pre ++ zeros_prefix (weval a (fw f)) b ++ r ++ post)
      with ((pre ++ zeros_prefix (weval a (fw f)) b) ++ r ++ post) by (rewrite <- !app_assoc; reflexivity).
    rewrite IHd. rewrite get_id_zeros_prefix. unfold normalise_tok at 1. rewrite Ep, Hpf.
    split; [reflexivity|].
    (* re-assembling the normalised operand gives the same field *)
    cbn [Encode.asm_fields]. unfold normalise_tok at 1. rewrite Ep.
    assert (Hre : parse_operand a (fk f) (print_field (printer_of (fk f)) (get_id b)) = Some (get_binary (get_id b)) \/
                  parse_operand a (fk f) (print_field (printer_of (fk f)) (get_id b)) = Some b).
    { rewrite Hpr. clear Hpr Hpf Hk. unfold Encode.parse_operand in *. destruct (fk f).
      - right. destruct (parse_indexed "r" (2 ^ N.of_nat (rbits a)) w) as [k|] eqn:Ek; [|discriminate].
        inversion Ep; subst b. rewrite get_id_get_binary. unfold parse_indexed in Ek.
        destruct w as [|c rest]; [discriminate|]. destruct (Ascii.eqb c "r"); [|discriminate].
        destruct (parse_canon rest) as [k'|] eqn:Ec; [|discriminate].
        destruct (N.ltb k' (2 ^ N.of_nat (rbits a))) eqn:El; [|discriminate]. inversion Ek; subst k'.
        simpl. rewrite parse_canon_print, El. reflexivity.
      - left. apply parse_num_dec; auto.
      - right. destruct (parse_indexed "i" (nin a) w) as [k|] eqn:Ek; [|discriminate].
        inversion Ep; subst b. rewrite get_id_get_binary. unfold parse_indexed in Ek.
        destruct w as [|c rest]; [discriminate|]. destruct (Ascii.eqb c "i"); [|discriminate].
        destruct (parse_canon rest) as [k'|] eqn:Ec; [|discriminate].
        destruct (N.ltb k' (nin a)) eqn:El; [|discriminate]. inversion Ek; subst k'.
        simpl. rewrite parse_canon_print, El. reflexivity.
      - right. destruct (parse_indexed "o" (nout a) w) as [k|] eqn:Ek; [|discriminate].
        inversion Ep; subst b. rewrite get_id_get_binary. unfold parse_indexed in Ek.
        destruct w as [|c rest]; [discriminate|]. destruct (Ascii.eqb c "o"); [|discriminate].
        destruct (parse_canon rest) as [k'|] eqn:Ec; [|discriminate].
        destruct (N.ltb k' (nout a)) eqn:El; [|discriminate]. inversion Ek; subst k'.
        simpl. rewrite parse_canon_print, El. reflexivity.
      - right. destruct (parse_shr (shr_short k) (shr_num a k) w) as [k1|] eqn:Ek; [|discriminate].
        inversion Ep; subst b. rewrite get_id_get_binary. unfold parse_shr in Ek |- *.
        destruct (strip_prefix (shr_short k) w) as [rest|] eqn:Es; [|discriminate].
        destruct (parse_canon rest) as [k'|] eqn:Ec; [|discriminate].
        destruct (N.ltb k' (shr_num a k)) eqn:El; [|discriminate]. inversion Ek; subst k'.
        rewrite strip_prefix_app, parse_canon_print, El. reflexivity. }
    destruct Hre as [Hre|Hre]; rewrite Hre, IHa; [|reflexivity].
    f_equal. f_equal.
    (* same width, same value *)
    assert (Hne : b <> []).
    { unfold Encode.parse_operand in Ep. destruct (fk f).
      - destruct (parse_indexed _ _ w); [|discriminate]. inversion Ep. apply get_binary_nonempty.
      - eapply parse_num_nonempty; eauto.
      - destruct (parse_indexed _ _ w); [|discriminate]. inversion Ep. apply get_binary_nonempty.
      - destruct (parse_indexed _ _ w); [|discriminate]. inversion Ep. apply get_binary_nonempty.
      - destruct (parse_shr _ _ w); [|discriminate]. inversion Ep. apply get_binary_nonempty. }
    assert (Hb1 : 1 <= List.length b) by (destruct b; [congruence|simpl; lia]).
    apply get_id_inj.
    + rewrite !length_zeros_prefix.
      pose proof (length_get_binary_le (get_id b) (List.length b) Hb1 (get_id_lt b)). lia.
    + rewrite !get_id_zeros_prefix, get_id_get_binary. reflexivity.
Qed.

Definition wf_layouts : Prop := forall name l, find_layout tbl name = Some l -> layout_rt_ok l = true.
Hypothesis tbl_ok : wf_layouts.

(* what an accepted line looks like *)
Lemma asm_line_inv a name args w :
  asm_line a (name :: args) = Some w ->
  exists i l F,
    index_of name (ops a) = Some i /\ find_layout tbl name = Some l /\
    asm_fields a (afields l) args = Some F /\
    List.length F = widths a (afields l) /\
    List.length (get_binary (N.of_nat i)) <= opbits a /\
    opbits a + widths a (afields l) <= max_word a /\
    (match arity l with Some k => List.length args = k | None => True end) /\
    w = zeros_prefix (opbits a) (get_binary (N.of_nat i)) ++ F ++ repeat false (max_word a - (opbits a + widths a (afields l))).
Proof.
  unfold Encode.asm_line. intro H.
  destruct (index_of name (ops a)) as [i|] eqn:Ei; [|discriminate].
  destruct (find_layout tbl name) as [l|] eqn:El; [|discriminate].
  pose proof (tbl_ok _ _ El) as Hok. unfold layout_rt_ok in Hok. rewrite !andb_true_iff in Hok.
  destruct Hok as [[Har Hpad] Hag].
  destruct (padfrom l) as [pe|] eqn:Epe; [|discriminate].
  pose proof (wexpr_eqb_sound _ _ Hpad a) as Epad. cbn [weval] in Epad. rewrite sum_widths_eval in Epad.
  change (aval a AOp) with (opbits a) in Epad.
  destruct (Encode.asm_op tbl parse_num a l args) as [r|] eqn:Er; [|discriminate].
  destruct (Nat.eqb _ (max_word a)) eqn:Elen; [|discriminate]. inversion H; subst w. clear H.
  apply Nat.eqb_eq in Elen.
  assert (Hr : exists F, asm_fields a (afields l) args = Some F /\
                         r = F ++ repeat false (max_word a - (opbits a + widths a (afields l))) /\
                         (match arity l with Some k => List.length args = k | None => True end)).
  { unfold Encode.asm_op in Er. rewrite Epe, Epad in Er. destruct (arity l) as [k|].
    - destruct (Nat.eqb (List.length args) k) eqn:Ek; [|discriminate]. apply Nat.eqb_eq in Ek.
      destruct (asm_fields a (afields l) args) as [F|]; [|discriminate]. inversion Er; eauto.
    - destruct (asm_fields a (afields l) args) as [F|]; [|discriminate]. inversion Er; eauto. }
  destruct Hr as (F & HF & -> & Hark).
  pose proof (asm_fields_length a _ _ _ HF) as HFl.
  rewrite !app_length, length_zeros_prefix, repeat_length in Elen.
  exists i, l, F. repeat split; auto; lia.
Qed.

(* T1: an accepted line yields a word of exactly the architecture's width *)
Theorem asm_fixed_width_gen a ws w : asm_line a ws = Some w -> List.length w = max_word a.
Proof.
  unfold Encode.asm_line. destruct ws as [|name args]; [discriminate|].
  destruct (index_of name (ops a)); [|discriminate]. destruct (find_layout tbl name); [|discriminate].
  destruct (Encode.asm_op _ _ _ _ _); [|discriminate].
  destruct (Nat.eqb _ _) eqn:E; [|discriminate]. intro H; inversion H; subst. apply Nat.eqb_eq; auto.
Qed.

(* T2 + T3: the disassembly of an accepted line is the line with its literals normalised,
   and assembling that disassembly gives the word back *)
Theorem disasm_asm_gen a name args w :
  asm_line a (name :: args) = Some w ->
  (forall l, find_layout tbl name = Some l -> small_fields a (afields l) (dfields l)) ->
  exists l, find_layout tbl name = Some l /\
            disasm_word a w = Some (name :: normalise a (afields l) args) /\
            asm_line a (name :: normalise a (afields l) args) = Some w.
Proof.
  intros H Hsmall. pose proof H as H0. apply asm_line_inv in H.
  destruct H as (i & l & F & Hi & Hl & HF & HFl & Hib & Hmw & Har & ->).
  exists l. split; auto. specialize (Hsmall l Hl).
  pose proof (tbl_ok _ _ Hl) as Hok. unfold layout_rt_ok in Hok. rewrite !andb_true_iff in Hok.
  destruct Hok as [[Harity Hpad] Hag].
  remember (zeros_prefix (opbits a) (get_binary (N.of_nat i))) as P eqn:EP.
  assert (HP : List.length P = opbits a) by (subst P; rewrite length_zeros_prefix; lia).
  assert (Hid : get_id P = N.of_nat i) by (subst P; rewrite get_id_zeros_prefix, get_id_get_binary; auto).
  destruct (asm_fields_exact a (afields l) args F HF HFl (dfields l) (WC 0) [] 
              (repeat false (max_word a - (opbits a + widths a (afields l)))) Hsmall Hag eq_refl) as [Hd Ha].
  set (X := F ++ repeat false (max_word a - (opbits a + widths a (afields l)))) in *.
  assert (Hf : firstn (opbits a) (P ++ X) = P) by (rewrite <- HP; apply firstn_app_exact).
  assert (Hs : skipn (opbits a) (P ++ X) = X) by (rewrite <- HP; apply skipn_app_exact).
  split.
  - unfold Encode.disasm_word. rewrite Hf, Hs, Hid, Nat2N.id. rewrite app_length, HP.
    replace (Nat.leb (opbits a) (opbits a + _)) with true by (symmetry; apply Nat.leb_le; lia).
    rewrite (index_of_nth _ _ _ Hi), Hl.
    simpl in Hd. rewrite Hd. reflexivity.
  - (* re-assembly *)
    unfold Encode.asm_line. rewrite Hi, Hl. unfold Encode.asm_op.
    destruct (padfrom l) as [pe|] eqn:Epe; [|discriminate].
    pose proof (wexpr_eqb_sound _ _ Hpad a) as Epad. cbn [weval] in Epad. rewrite sum_widths_eval in Epad.
    change (aval a AOp) with (opbits a) in Epad. rewrite Epad.
    assert (Hnl : List.length (normalise a (afields l) args) = List.length (afields l)).
    { clear -HF. revert args F HF. induction (afields l) as [|f fs IH]; intros args F HF; simpl; auto.
      destruct args as [|w ws]; [simpl in HF; discriminate|]. simpl in *.
      destruct (parse_operand a (fk f) w); [|discriminate].
      destruct (asm_fields a fs ws) eqn:E; [|discriminate]. f_equal. eapply IH; eauto. }
    rewrite Ha.
    assert (Hfin : Nat.eqb (List.length (P ++ X)) (max_word a) = true).
    { apply Nat.eqb_eq. unfold X. rewrite !app_length, HP, repeat_length. lia. }
    destruct (arity l) as [k|].
    + apply Nat.eqb_eq in Harity. rewrite Hnl, <- Harity, Nat.eqb_refl. fold X. rewrite <- EP, Hfin. reflexivity.
    + fold X. rewrite <- EP, Hfin. reflexivity.
Qed.

(* T4: an operand that does not fit its field is never accepted *)
Fixpoint operands_fit (a : arch) (fs : list afield) (ws : list string) : Prop :=
  match fs, ws with
  | f :: fs', w :: ws' =>
      (exists b, parse_operand a (fk f) w = Some b /\ List.length b <= weval a (fw f)) /\ operands_fit a fs' ws'
  | [], _ => True
  | _ :: _, [] => False
  end.

Theorem asm_rejects_unfit_gen a name args w :
  asm_line a (name :: args) = Some w ->
  exists l, find_layout tbl name = Some l /\ operands_fit a (afields l) args.
Proof.
  intro H. apply asm_line_inv in H.
  destruct H as (i & l & F & Hi & Hl & HF & HFl & _).
  exists l; split; auto. clear Hl Hi.
  revert args F HF HFl. induction (afields l) as [|f fs IH]; intros args F HF HFl; simpl; auto.
  destruct args as [|x args]; [simpl in HF; discriminate|]. simpl in HF.
  destruct (parse_operand a (fk f) x) as [b|] eqn:Ep; [|discriminate].
  destruct (asm_fields a fs args) as [r|] eqn:Er; [|discriminate]. inversion HF; subst F.
  pose proof (asm_fields_length a fs args r Er) as Hr.
  cbn [widths fold_right] in HFl. fold (widths a fs) in HFl.
  rewrite app_length, length_zeros_prefix in HFl.
  split; [exists b; split; auto; lia|]. apply (IH args r Er). lia.
Qed.

End RoundTrip.

(* ------------------------------------------------------------------ closed forms, for Process_number *)
From BM Require Import Front.NumLit.

Lemma wf_layouts_of_forallb tbl : forallb layout_rt_ok tbl = true -> wf_layouts tbl.
Proof.
  intros H name l Hf. unfold find_layout in Hf. apply find_some in Hf. destruct Hf as [Hin _].
  rewrite forallb_forall in H. auto.
Qed.

Definition asm := fun tbl => asm_line tbl process_number.

Theorem asm_fixed_width_pn tbl a ws w : asm tbl a ws = Some w -> List.length w = max_word tbl a.
Proof. apply asm_fixed_width_gen. Qed.

Theorem disasm_asm_pn tbl :
  forallb layout_rt_ok tbl = true ->
  forall a name args w,
    asm tbl a (name :: args) = Some w ->
    (forall l, find_layout tbl name = Some l -> small_fields a (afields l) (dfields l)) ->
    exists l, find_layout tbl name = Some l /\
              disasm_word tbl a w = Some (name :: normalise process_number a (afields l) args) /\
              asm tbl a (name :: normalise process_number a (afields l) args) = Some w.
Proof.
  intros Hok a name args w H Hs.
  eapply (disasm_asm_gen tbl process_number process_number_nonempty process_number_dec
                         (wf_layouts_of_forallb tbl Hok)); eauto.
Qed.

Theorem asm_rejects_unfit_pn tbl :
  forallb layout_rt_ok tbl = true ->
  forall a name args w,
    asm tbl a (name :: args) = Some w ->
    exists l, find_layout tbl name = Some l /\ operands_fit process_number a (afields l) args.
Proof.
  intros Hok a name args w H.
  eapply (asm_rejects_unfit_gen tbl process_number (wf_layouts_of_forallb tbl Hok)); eauto.
Qed.
