(* Front/Regex.v — regular expressions over the alphabet {0..127 (ASCII), 128 (any other rune)},
   matching by Brzozowski derivatives (the model of regexp.MatchString for fully anchored
   patterns), and a *verified certificate checker* for disjointness of two languages. *)
From Coq Require Import List NArith Bool Lia.
Import ListNotations.
Local Open Scope N_scope.

Definition sym := N.
Definition clamp (c : sym) : sym := N.min c 128.

Inductive re : Type :=
| Emp                                        (* no string *)
| Eps                                        (* the empty string *)
| Cls (neg : bool) (ranges : list (N * N))   (* one symbol in (not in) the ranges *)
| Cat (a b : re)
| Alt (a b : re)
| Star (a : re).

Definition in_ranges (c : sym) (rs : list (N * N)) : bool :=
  existsb (fun r => (fst r <=? c) && (c <=? snd r)) rs.
Definition cls_mem (neg : bool) (rs : list (N * N)) (c : sym) : bool :=
  xorb neg (in_ranges (clamp c) rs).

Fixpoint nullable (r : re) : bool :=
  match r with
  | Emp => false | Eps => true | Cls _ _ => false
  | Cat a b => nullable a && nullable b
  | Alt a b => nullable a || nullable b
  | Star _ => true
  end.

Fixpoint re_eqb (x y : re) : bool :=
  match x, y with
  | Emp, Emp | Eps, Eps => true
  | Cls n1 r1, Cls n2 r2 =>
      Bool.eqb n1 n2 &&
      (fix leq (a b : list (N * N)) : bool :=
         match a, b with
         | [], [] => true
         | (p, q) :: a', (p', q') :: b' => (p =? p') && (q =? q') && leq a' b'
         | _, _ => false end) r1 r2
  | Cat a b, Cat c d => re_eqb a c && re_eqb b d
  | Alt a b, Alt c d => re_eqb a c && re_eqb b d
  | Star a, Star b => re_eqb a b
  | _, _ => false
  end.

(* smart constructors: keep derivatives small (similarity: unit, zero, idempotence) *)
Definition mkCat (a b : re) : re :=
  match a, b with
  | Emp, _ => Emp | _, Emp => Emp
  | Eps, _ => b | _, Eps => a
  | _, _ => Cat a b
  end.
Definition mkAlt (a b : re) : re :=
  match a, b with
  | Emp, _ => b | _, Emp => a
  | _, _ => if re_eqb a b then a else Alt a b
  end.

Fixpoint deriv (c : sym) (r : re) : re :=
  match r with
  | Emp | Eps => Emp
  | Cls n rs => if cls_mem n rs c then Eps else Emp
  | Cat a b => if nullable a then mkAlt (mkCat (deriv c a) b) (deriv c b) else mkCat (deriv c a) b
  | Alt a b => mkAlt (deriv c a) (deriv c b)
  | Star a => mkCat (deriv c a) (Star a)
  end.

Definition matches (r : re) (s : list sym) : bool := nullable (fold_left (fun r c => deriv c r) s r).

Definition plus (a : re) : re := Cat a (Star a).
Definition opt (a : re) : re := Alt Eps a.
Fixpoint lit (s : list sym) : re := match s with [] => Eps | c :: t => Cat (Cls false [(c, c)]) (lit t) end.

(* ---------------- disjointness: certificate = a set of derivative pairs ---------------- *)

Definition pair_eqb (p q : re * re) : bool := re_eqb (fst p) (fst q) && re_eqb (snd p) (snd q).
Definition pmem (p : re * re) (cert : list (re * re)) : bool := existsb (pair_eqb p) cert.

Definition alphabet : list sym := map N.of_nat (seq 0 129).

(* S is closed under derivation by every symbol and contains no pair accepting together *)
Definition closed_check (cert : list (re * re)) : bool :=
  forallb (fun p => negb (nullable (fst p) && nullable (snd p)) &&
                    forallb (fun c => pmem (deriv c (fst p), deriv c (snd p)) cert) alphabet) cert.

(* untrusted search producing either a certificate or a common word *)
Fixpoint explore (fuel : nat) (todo : list (re * re * list sym)) (seen : list (re * re))
  : option (list (re * re)) + list sym :=
  match fuel with
  | O => inl None
  | S f =>
      match todo with
      | [] => inl (Some seen)
      | (a, b, w) :: rest =>
          if nullable a && nullable b then inr (rev w)
          else if pmem (a, b) seen then explore f rest seen
          else
            let next := map (fun c => (deriv c a, deriv c b, c :: w)) alphabet in
            let next := filter (fun t => match fst (fst t), snd (fst t) with
                                         | Emp, _ | _, Emp => false | _, _ => true end) next in
            explore f (rest ++ next) ((a, b) :: seen)
      end
  end.


Definition disjoint_cert (r1 r2 : re) (fuel : nat) : option (list (re * re)) :=
  match explore fuel [(r1, r2, [])] [] with
  | inl (Some cert) => Some cert
  | _ => None
  end.
Definition common_word (r1 r2 : re) (fuel : nat) : option (list sym) :=
  match explore fuel [(r1, r2, [])] [] with inr w => Some w | _ => None end.

(* closure check that tolerates dead pairs: a derivative pair with an Emp side need not be in S *)
Definition dead (p : re * re) : bool := match fst p, snd p with Emp, _ | _, Emp => true | _, _ => false end.
Definition closed_check' (cert : list (re * re)) : bool :=
  forallb (fun p => negb (nullable (fst p) && nullable (snd p)) &&
                    forallb (fun c => let q := (deriv c (fst p), deriv c (snd p)) in dead q || pmem q cert) alphabet) cert.

Definition disjointb (r1 r2 : re) (fuel : nat) : bool :=
  match disjoint_cert r1 r2 fuel with
  | Some cert => closed_check' cert && (dead (r1, r2) || pmem (r1, r2) cert)
  | None => false
  end.
