(* Front/Barrier.v — the token/answer protocol between bondmachine.VM.Step (main) and the
   Processor_execute workers, and the shutdown added by VM.Stop, as a labelled transition system.
   One round = one VM.Step.  Used by C09 (the barrier is complete: post-compute data movement
   starts only after every worker has answered, whatever the interleaving) and by C17 (after a
   round every worker is back at its select, so closing the quit channel releases all of them). *)
From Coq Require Import List Arith Bool.
Import ListNotations.

Inductive wstate :=
| WIdle        (* blocked in select { instruct, quit }, not yet served in this round *)
| WHasToken    (* received "1", about to run its processor step *)
| WStepped     (* step done, blocked sending its id on recv_chan *)
| WSentId      (* id taken, blocked sending its result *)
| WDone        (* blocked in select { instruct, quit }, served in this round *)
| WExited.

Inductive mstate :=
| MSend (k : nat)             (* sending the token to worker k *)
| MRecvId (c : nat)           (* c answers collected, waiting for an id *)
| MRecvRes (i c : nat)        (* got id i, waiting for its result *)
| MIdle                       (* between two Steps *)
| MStopped.                   (* Stop was called: quit is closed *)

Record bstate := mkB { b_main : mstate; b_ws : list wstate; b_log : list nat (* order of the processor steps *) }.

Fixpoint setw (k : nat) (v : wstate) (l : list wstate) : list wstate :=
  match l, k with [] , _ => [] | _ :: t, O => v :: t | x :: t, S k' => x :: setw k' v t end.

Inductive bstep : bstate -> bstate -> Prop :=
| T_begin : forall ws log, ws <> [] ->
    bstep (mkB MIdle ws log) (mkB (MSend 0) (map (fun w => match w with WExited => WExited | _ => WIdle end) ws) [])
| T_send : forall k ws log, nth_error ws k = Some WIdle ->
    bstep (mkB (MSend k) ws log)
          (mkB (if Nat.eqb (S k) (length ws) then MRecvId 0 else MSend (S k)) (setw k WHasToken ws) log)
| T_step : forall m i ws log, nth_error ws i = Some WHasToken ->
    bstep (mkB m ws log) (mkB m (setw i WStepped ws) (log ++ [i]))
| T_id : forall c i ws log, nth_error ws i = Some WStepped ->
    bstep (mkB (MRecvId c) ws log) (mkB (MRecvRes i c) (setw i WSentId ws) log)
| T_res : forall c i ws log, nth_error ws i = Some WSentId ->
    bstep (mkB (MRecvRes i c) ws log)
          (mkB (if Nat.eqb (S c) (length ws) then MIdle else MRecvId (S c)) (setw i WDone ws) log)
| T_stop : forall ws log,
    bstep (mkB MIdle ws log) (mkB MStopped ws log)
| T_exit : forall i ws log w, nth_error ws i = Some w -> (w = WIdle \/ w = WDone) ->
    bstep (mkB MStopped ws log) (mkB MStopped (setw i WExited ws) log).

Definition rank (w : wstate) : nat :=
  match w with WIdle => 4 | WHasToken => 3 | WStepped => 2 | WSentId => 1 | WDone => 0 | WExited => 0 end.
Definition measure (s : bstate) : nat := fold_right (fun w a => rank w + a) 0 (b_ws s).

Definition live (s : bstate) : nat := length (filter (fun w => match w with WExited => false | _ => true end) (b_ws s)).
