(* Front/BondgoProto.v — the three-process protocol of cmd/bondgo: the AST visitor (main), the
   variable allocator (BondgoRuninfo.Var_assigner) and the usage monitor
   (BondgoRequirements.Usage_Monitor), talking over unbuffered channels Reqs / Answers / Used /
   assignerdone / usagedone.  A step is one rendezvous; the scheduler is any enabled rendezvous. *)
From Coq Require Import List Arith Bool.
Import ListNotations.

(* what the visitor does, abstractly *)
Inductive vact :=
| VReq (note : option nat)   (* a request to the allocator; the allocator will afterwards notify the
                                monitor with this register count (None: a request that notifies nothing) *)
| VNote (u : nat).           (* the visitor itself notifies the monitor *)

Inductive sstep := SReqExit | SWaitAssigner | SUsedExit | SWaitUsage.
(* the order in the repaired main, and the order before the fix *)
Definition order_fixed := [SReqExit; SWaitAssigner; SUsedExit; SWaitUsage].
Definition order_old := [SUsedExit; SWaitUsage; SReqExit; SWaitAssigner].

Inductive astate := AWait | AAns (note : option nat) | AUsed (u : nat) | ADone | AEnd.
Inductive mstate := MWait | MDone | MEnd.

Record pstate := mkPS {
  v_todo : list vact; v_await : bool;        (* visitor: remaining actions; blocked on Answers *)
  v_shut : list sstep;                       (* remaining shutdown steps *)
  a_st : astate; m_st : mstate;
  reqs : nat                                 (* the monitor's accumulated requirement (a join: max) *)
}.

Definition init (prog : list vact) (order : list sstep) : pstate := mkPS prog false order AWait MWait 0.

Definition final (s : pstate) : bool :=
  match v_todo s, v_await s, v_shut s, a_st s, m_st s with
  | [], false, [], AEnd, MEnd => true
  | _, _, _, _, _ => false
  end.

(* all rendezvous enabled in a state *)
Definition succs (s : pstate) : list pstate :=
  let V := v_todo s in
  (* visitor -> allocator: a request *)
  (match V, v_await s, a_st s with
   | VReq n :: rest, false, AWait => [mkPS rest true (v_shut s) (AAns n) (m_st s) (reqs s)]
   | _, _, _ => [] end) ++
  (* allocator -> visitor: the answer *)
  (match v_await s, a_st s with
   | true, AAns n => [mkPS V false (v_shut s) (match n with Some u => AUsed u | None => AWait end) (m_st s) (reqs s)]
   | _, _ => [] end) ++
  (* allocator -> monitor: the notification that follows an answer *)
  (match a_st s, m_st s with
   | AUsed u, MWait => [mkPS V (v_await s) (v_shut s) AWait MWait (Nat.max (reqs s) u)]
   | _, _ => [] end) ++
  (* visitor -> monitor *)
  (match V, v_await s, m_st s with
   | VNote u :: rest, false, MWait => [mkPS rest false (v_shut s) (a_st s) MWait (Nat.max (reqs s) u)]
   | _, _, _ => [] end) ++
  (* shutdown steps of main, once the walk is over *)
  (match V, v_await s, v_shut s with
   | [], false, SReqExit :: sh => match a_st s with AWait => [mkPS [] false sh ADone (m_st s) (reqs s)] | _ => [] end
   | [], false, SWaitAssigner :: sh => match a_st s with ADone => [mkPS [] false sh AEnd (m_st s) (reqs s)] | _ => [] end
   | [], false, SUsedExit :: sh => match m_st s with MWait => [mkPS [] false sh (a_st s) MDone (reqs s)] | _ => [] end
   | [], false, SWaitUsage :: sh => match m_st s with MDone => [mkPS [] false sh (a_st s) MEnd (reqs s)] | _ => [] end
   | _, _, _ => [] end).

Inductive reach (s0 : pstate) : pstate -> Prop :=
| reach_refl : reach s0 s0
| reach_step : forall s t, reach s0 s -> In t (succs s) -> reach s0 t.

(* everything that will ever be notified *)
Definition note_of (a : vact) : nat := match a with VReq (Some u) => u | VReq None => 0 | VNote u => u end.
Definition total (prog : list vact) : nat := fold_right (fun a m => Nat.max (note_of a) m) 0 prog.

(* number of rendezvous still to happen: strictly decreases *)
Definition act_cost (a : vact) : nat := match a with VReq (Some _) => 3 | VReq None => 2 | VNote _ => 1 end.
Definition measure (s : pstate) : nat :=
  fold_right (fun a m => act_cost a + m) 0 (v_todo s) + length (v_shut s) +
  match a_st s with AAns (Some _) => 2 | AAns None => 1 | AUsed _ => 1 | _ => 0 end.
