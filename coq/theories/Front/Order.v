(* Front/Order.v — where Go's randomised map iteration enters the build tools, with the visiting
   order made an explicit argument.  A pass that ranges over a map is [visit_all visit order s]:
   the loop body [visit] applied to the keys in the order the runtime happened to choose.  The
   theorems of C07 are independence from [order]. *)
From Coq Require Import List String Bool Arith Permutation.
Import ListNotations.

Definition visit_all {K S} (visit : S -> K -> S) (order : list K) (s : S) : S := fold_left visit order s.

(* bmreqs.objectSet.getReqs: the keys of the set, joined in map order (objectset.go);
   basm/creatorbm.go splits the answer again, keeps the registered opcodes whose name is in the ROM
   or RAM answer, in registry order, and sorts them by name *)
Definition get_reqs (order : list string) : list string := order.
Definition mem (n : string) (l : list string) : bool := existsb (String.eqb n) l.
Definition select_ops {O} (name : O -> string) (registry : list O) (rom ram : list string) : list O :=
  filter (fun o => mem (name o) rom || mem (name o) ram) registry.

(* a pass whose loop body writes only under a key derived injectively from the loop key:
   symbol tagging, section cleaning, per-section resolution in pkg/basm *)
Definition keyed_write {K V} (eqb : K -> K -> bool) (f : K -> V) (s : list (K * V)) (k : K) : list (K * V) :=
  (k, f k) :: filter (fun p => negb (eqb (fst p) k)) s.
Definition lookup {K V} (eqb : K -> K -> bool) (s : list (K * V)) (k : K) : option V :=
  match find (fun p => eqb (fst p) k) s with Some p => Some (snd p) | None => None end.

(* accumulation of a requirement as a maximum (bmreqs objectMax, bondgo's usage monitor) *)
Definition max_all (order : list nat) (s : nat) : nat := visit_all Nat.max order s.
