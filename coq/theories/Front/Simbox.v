(* Front/Simbox.v — model of pkg/simbox: Rule, Rule.String(), Simbox.Add (the rule parser),
   Del / Suspend / Reactivate with the code's index guards. *)
From Coq Require Import String Ascii NArith ZArith List Bool Lia.
From BM Require Import Base.Dec Front.NumLit.
Import ListNotations.
Local Open Scope string_scope.

Inductive timec := TAbs | TNone | TRel | TOnValid | TOnRecv | TOnExit.
Inductive action := ASet | AGet | AShow | AConfig.

Record rule := mkRule {
  r_timec : timec; r_tick : N (* uint64 *); r_action : action;
  r_object : string; r_extra : string; r_suspended : bool }.

(* strings.Split(s, ":") *)
Fixpoint split_colon_acc (s : string) (cur : string) : list string :=
  match s with
  | EmptyString => [cur]
  | String c r => if Ascii.eqb c ":" then cur :: split_colon_acc r EmptyString
                  else split_colon_acc r (cur ++ String c EmptyString)
  end.
Definition split_colon (s : string) : list string := split_colon_acc s EmptyString.

(* strconv.Itoa(int(tick)): a uint64 reinterpreted as a signed 64-bit int *)
Definition print_int64_of_u64 (v : N) : string :=
  if (v <? 2 ^ 63)%N then print_dec v else "-" ++ print_dec (2 ^ 64 - v).

(* strconv.Atoi followed by the uint64 conversion: optional sign, digits, 64-bit signed range *)
Definition atoi_body (sgn : bool) (d : string) : option N :=
  if negb (match d with EmptyString => true | _ => false end) && all_digits d then
    match parse_digits d with
    | Some v => if sgn then (if (v <=? 2 ^ 63)%N then Some (if (v =? 0)%N then 0%N else (2 ^ 64 - v)%N) else None)
                else (if (v <? 2 ^ 63)%N then Some v else None)
    | None => None end
  else None.
Definition atoi_u64 (s : string) : option N :=
  match s with
  | String c d => if Ascii.eqb c "-" then atoi_body true d
                  else if Ascii.eqb c "+" then atoi_body false d else atoi_body false s
  | EmptyString => None
  end.

Definition timec_word (t : timec) : string :=
  match t with TAbs => "absolute" | TRel => "relative" | TOnValid => "onvalid" | TOnRecv => "onrecv"
          | TOnExit => "onexit" | TNone => "config" end.
Definition action_word (a : action) : string :=
  match a with ASet => "set" | AGet => "get" | AShow => "show" | AConfig => "config" end.

Definition config3 := ["get_all"; "get_all_internal"; "show_all"; "show_all_internal"].
Definition config2 := ["show_pc"; "show_instruction"; "show_disasm"; "show_ticks"; "get_ticks"; "show_proc_regs_pre";
                       "show_proc_regs_post"; "show_proc_io_pre"; "show_proc_io_post"; "show_io_pre"; "show_io_post"].
Definition mem_str (s : string) (l : list string) : bool := existsb (String.eqb s) l.

(* Rule.String() *)
Definition print_rule (r : rule) : string :=
  match r_timec r, r_action r with
  | TAbs, (ASet | AGet | AShow) | TRel, (ASet | AGet | AShow) =>
      timec_word (r_timec r) ++ ":" ++ print_int64_of_u64 (r_tick r) ++ ":" ++ action_word (r_action r) ++ ":" ++
      r_object r ++ ":" ++ r_extra r
  | TNone, AConfig =>
      if mem_str (r_object r) config3 then "config:" ++ r_object r ++ ":" ++ r_extra r
      else "config:" ++ r_object r
  | (TOnValid | TOnRecv | TOnExit), (AGet | AShow) =>
      timec_word (r_timec r) ++ ":" ++ action_word (r_action r) ++ ":" ++ r_object r ++ ":" ++ r_extra r
  | _, _ => ""
  end.

Definition timed_of (w : string) : option timec :=
  if String.eqb w "absolute" then Some TAbs else if String.eqb w "relative" then Some TRel else None.
Definition event_of (w : string) : option timec :=
  if String.eqb w "onvalid" then Some TOnValid else if String.eqb w "onrecv" then Some TOnRecv
  else if String.eqb w "onexit" then Some TOnExit else None.
Definition getshow_of (w : string) : option action :=
  if String.eqb w "get" then Some AGet else if String.eqb w "show" then Some AShow else None.
Definition act3_of (w : string) : option action :=
  if String.eqb w "set" then Some ASet else getshow_of w.

(* Simbox.Add: the rule a string denotes *)
Definition parse_rule (s : string) : option rule :=
  match split_colon s with
  | [w0; w1; w2; w3; w4] =>
      match timed_of w0, act3_of w2, atoi_u64 w1 with
      | Some t, Some a, Some k => Some (mkRule t k a w3 w4 false)
      | _, _, _ => None end
  | [w0; w1; w2; w3] =>
      match timed_of w0 with
      | Some t => match getshow_of w2, atoi_u64 w1 with
                  | Some a, Some k => Some (mkRule t k a w3 "unsigned" false)
                  | _, _ => None end
      | None => match event_of w0, getshow_of w1 with
                | Some t, Some a => Some (mkRule t 0 a w2 w3 false)
                | _, _ => None end
      end
  | [w0; w1; w2] =>
      if String.eqb w0 "config" then
        (if mem_str w1 config3 then Some (mkRule TNone 0 AConfig w1 w2 false) else None)
      else match event_of w0, getshow_of w1 with
           | Some t, Some a => Some (mkRule t 0 a w2 "unsigned" false)
           | _, _ => None end
  | [w0; w1] =>
      if String.eqb w0 "config" && mem_str w1 config2 then Some (mkRule TNone 0 AConfig w1 "" false) else None
  | _ => None
  end.

(* ---------- the rule list ---------- *)
Inductive sb_op := SbAdd (s : string) | SbDel (i : Z) | SbSuspend (i : Z) | SbReactivate (i : Z).
Inductive sb_out := SbOk | SbErr | SbPanic.

Fixpoint remove_nth {A} (n : nat) (l : list A) : list A :=
  match l, n with [], _ => [] | _ :: t, O => t | x :: t, S k => x :: remove_nth k t end.
Fixpoint update_nth {A} (n : nat) (f : A -> A) (l : list A) : list A :=
  match l, n with [], _ => [] | x :: t, O => f x :: t | x :: t, S k => x :: update_nth k f t end.

Definition set_susp (b : bool) (r : rule) : rule :=
  mkRule (r_timec r) (r_tick r) (r_action r) (r_object r) (r_extra r) b.

Definition sb_apply (rs : list rule) (o : sb_op) : list rule * sb_out :=
  let guarded (i : Z) (f : nat -> list rule) : list rule * sb_out :=
      if (i <? 0)%Z then (rs, SbPanic)
      else if Nat.ltb (Z.to_nat i) (List.length rs) then (f (Z.to_nat i), SbOk) else (rs, SbErr) in
  match o with
  | SbAdd s => match parse_rule s with Some r => ((rs ++ [r])%list, SbOk) | None => (rs, SbErr) end
  | SbDel i => guarded i (fun k => remove_nth k rs)
  | SbSuspend i => guarded i (fun k => update_nth k (set_susp true) rs)
  | SbReactivate i => guarded i (fun k => update_nth k (set_susp false) rs)
  end.

Definition active (rs : list rule) : list rule := filter (fun r => negb (r_suspended r)) rs.

(* ---------- the image of the parser, syntactically ---------- *)
Fixpoint no_colon (s : string) : bool :=
  match s with EmptyString => true | String c r => negb (Ascii.eqb c ":") && no_colon r end.

Definition wf_rule (r : rule) : bool :=
  negb (r_suspended r) && no_colon (r_object r) && no_colon (r_extra r) && (r_tick r <? 2 ^ 64)%N &&
  match r_timec r, r_action r with
  | (TAbs | TRel), (ASet | AGet | AShow) => true
  | TNone, AConfig =>
      (r_tick r =? 0)%N &&
      (mem_str (r_object r) config3 || (mem_str (r_object r) config2 && String.eqb (r_extra r) ""))
  | (TOnValid | TOnRecv | TOnExit), (AGet | AShow) => (r_tick r =? 0)%N
  | _, _ => false
  end.
