(* Front/Basm.v — the part of the BASM assembler (pkg/basm) that turns one .romtext section into a
   processor: labels, the entry directive, the mov pseudo-instruction, sizing of the architecture
   (creatorbm.go), for sources over the simulated instruction subset; and a direct meaning of the
   source that the assembled program is compared with.

   A source section is a list of items in file order.  The program counter of the source semantics
   is an item index; labels denote the instruction item they are written in front of; the entry
   directive is not an instruction (execution passes over it without taking a step). *)
From Coq Require Import List NArith Bool Arith String.
From BM Require Import Isa.Sim.
Import ListNotations.

Inductive sop :=
| SPlain (i : instr)              (* an opcode written explicitly, no label operand *)
| SJ (l : string)
| SJz (r : nat) (l : string)
| SMovRR (d s : nat)              (* mov rD, rS *)
| SMovRN (d : nat) (v : N)        (* mov rD, number *)
| SMovRI (d i : nat)              (* mov rD, iK *)
| SMovOR (o s : nat).             (* mov oK, rS *)

Inductive item := IEntry (l : string) | IOp (labels : list string) (op : sop).
Definition source := list item.

Definition is_op (it : item) : bool := match it with IOp _ _ => true | IEntry _ => false end.
Definition has_label (l : string) (it : item) : bool :=
  match it with IOp ls _ => existsb (String.eqb l) ls | IEntry _ => false end.

(* position (item index) of the instruction a label stands in front of *)
Fixpoint label_pos (src : source) (l : string) : option nat :=
  match src with
  | [] => None
  | it :: r => if has_label l it then Some 0 else option_map S (label_pos r l)
  end.

(* ROM address of an item index: the number of instruction items before it *)
Fixpoint addr (src : source) (k : nat) : nat :=
  match k, src with
  | O, _ => 0
  | S k', it :: r => (if is_op it then 1 else 0) + addr r k'
  | S _, [] => 0
  end.

(* ---------- the assembler ---------- *)
(* matcherResolver on the subset: mov by operand kinds; iomode selects the handshaking variants *)
Definition lower (sync : bool) (resolve : string -> option nat) (op : sop) : option instr :=
  match op with
  | SPlain i => Some i
  | SJ l => option_map (fun a => IJ (N.of_nat a)) (resolve l)
  | SJz r l => option_map (fun a => IJz r (N.of_nat a)) (resolve l)
  | SMovRR d s => Some (ICpy d s)
  | SMovRN d v => Some (IRset d v)
  | SMovRI d i => Some (if sync then II2rw d i else II2r d i)
  | SMovOR o s => Some (if sync then IR2owa s o else IR2o s o)
  end.

Definition ops_of (src : source) : list sop :=
  flat_map (fun it => match it with IOp _ op => [op] | IEntry _ => [] end) src.
Definition entries (src : source) : list string :=
  flat_map (fun it => match it with IEntry l => [l] | IOp _ _ => [] end) src.

(* symbolTagger + entryPoints (the directive line is deleted) + symbolResolver: a label becomes the
   index of its instruction among the remaining lines *)
Definition resolve (src : source) (l : string) : option nat := option_map (addr src) (label_pos src l).

Fixpoint all_some {A} (l : list (option A)) : option (list A) :=
  match l with
  | [] => Some []
  | Some x :: r => option_map (cons x) (all_some r)
  | None :: _ => None
  end.

Definition assemble (sync : bool) (src : source) : option (list instr) :=
  match entries src with
  | [e] => match resolve src e with
           | Some _ => all_some (map (lower sync (resolve src)) (ops_of src))
           | None => None            (* "entry point not detected" *)
           end
  | _ => None                        (* none or several entry directives *)
  end.

(* ---------- sizing (creatorbm.go) ---------- *)
Fixpoint needed_bits_from (fuel bits num : nat) : nat :=
  match fuel with O => bits | S f => if num <=? 2 ^ bits then bits else needed_bits_from f (S bits) num end.
Definition needed_bits (num : nat) : nat := if num =? 0 then 0 else needed_bits_from num 1 num.

Definition instr_regs (i : instr) : list nat :=
  match i with
  | IAdd d s | ISub d s | IMult d s | ICpy d s | IAnd d s | IOr d s | IXor d s | INot d s
  | INand d s | INor d s | IXnor d s | IAddp d s | IMultp d s => [d; s]
  | IClr r | IInc r | IDec r | IRset r _ | IJz r _ | II2r r _ | IR2o r _ | II2rw r _ | IR2owa r _ => [r]
  | IJ _ | INop => []
  end.
Definition instr_ins (i : instr) : list nat := match i with II2r _ k | II2rw _ k => [k] | _ => [] end.
Definition instr_outs (i : instr) : list nat := match i with IR2o _ k | IR2owa _ k => [k] | _ => [] end.
Definition max_list (l : list nat) : nat := fold_right Nat.max 0 l.

Record sizes := mkSizes { sz_R : nat; sz_N : nat; sz_M : nat; sz_O : nat }.
Definition infer (prog : list instr) : sizes :=
  let regs := flat_map instr_regs prog in
  let ins := flat_map instr_ins prog in
  let outs := flat_map instr_outs prog in
  mkSizes (needed_bits (S (max_list regs)))
          (match ins with [] => 0 | _ => S (max_list ins) end)
          (match outs with [] => 0 | _ => S (max_list outs) end)
          (needed_bits (List.length prog)).

(* what "fits" means for the simulator and the hardware: every register, port and jump target the
   program mentions exists in a machine of these sizes *)
Definition fits (z : sizes) (prog : list instr) : bool :=
  forallb (fun i => forallb (fun r => r <? 2 ^ sz_R z) (instr_regs i) &&
                    forallb (fun k => k <? sz_N z) (instr_ins i) &&
                    forallb (fun k => k <? sz_M z) (instr_outs i)) prog &&
  (List.length prog <=? 2 ^ sz_O z).

(* ---------- the source's own meaning ---------- *)
Definition skip (src : source) (k : nat) : nat :=
  match nth_error src k with Some (IEntry _) => S k | _ => k end.

Definition at_pc (p : pstate) (k : nat) : pstate := with_pc p (N.of_nat k).

(* one step of the processor, read off the source: the item under the program counter (passing over
   the directive), jumps go to the item the label is written in front of *)
Definition sstep (sync : bool) (rsize : N) (src : source) (p : pstate) : pstate :=
  let p1 := run_deferred p in
  let k := skip src (N.to_nat (pc p1)) in
  match nth_error src k with
  | Some (IOp _ op) =>
      match op with
      | SJ l => match label_pos src l with Some t => at_pc p1 t | None => p1 end
      | SJz r l => if (nthN (regs p1) r =? 0)%N
                   then match label_pos src l with Some t => at_pc p1 t | None => p1 end
                   else at_pc p1 (S k)
      | _ =>
          match lower sync (fun _ => None) op with
          | Some i =>
              (* non-jump instructions only look at the program counter to advance (or keep) it *)
              let q := exec rsize 0 (at_pc p1 k) i in
              q
          | None => p1
          end
      end
  | _ => p1
  end.
