(* Front/FragCheck.v — executable comparison for C06 *)
From Coq Require Import List NArith Bool Arith.
From BM Require Import Isa.Sim Net.TickCheck Front.Frag Front.BasmCheck.
Import ListNotations.

(* 1: the composed program of some processor differs from the assembler's, 2: the graph's direct
   evaluation differs from the settled outputs of the simulated machine *)
Definition check_case (rsize : N) (g : graph) (cps : list (list nat * list instr)) (xs : list N) (observed : list N) : list nat :=
  (if forallb (fun c => prog_eq (compose g (fst c)) (snd c)) cps then [] else [1]) ++
  (if TickCheck.leqb N.eqb (eval rsize 16 g xs) observed then [] else [2]).
