(* Front/FragCheck.v — executable comparison for C06 *)
From Coq Require Import List NArith Bool Arith.
From BM Require Import Isa.Sim Net.TickCheck Front.Frag Front.FragWf Front.FragNet Front.BasmCheck.
Import ListNotations.

(* 1: the composed program of some processor differs from the assembler's, 2: the graph's direct
   evaluation differs from the settled outputs of the simulated machine, 3: the graph or one of its
   collapse lists is outside the conditions under which Proofs/FragPass.v proves the composed section
   correct (so the theorem would say nothing about this case), 4: one pass of the assembled section on
   the settled inputs does not leave the graph's values at the processor outputs, 5: the machine of
   Front/FragNet.v, built from the assembled programs and run round-robin for as many rounds as there
   are instances from zero links and zero registers, does not end with the observed outputs *)
Definition pass_agrees (rsize : N) (g : graph) (xs : list N) (c : list nat * list instr) : bool :=
  let cl := fst c in
  let nouts := length (out_ports g cl) in
  let outs := snd (run_pass rsize (removelast (snd c)) (pass_inputs rsize 16 g cl xs) nouts (repeat 0%N 16)) in
  let vals := eval_insts rsize 16 xs (insts g) [] in
  TickCheck.leqb N.eqb outs (map (fun pq => nthN (nth (fst pq) vals []) (snd pq)) (out_ports g cl)).
Definition check_case (rsize : N) (g : graph) (cps : list (list nat * list instr)) (xs : list N) (observed : list N) : list nat :=
  (if forallb (fun c => prog_eq (compose g (fst c)) (snd c)) cps then [] else [1]) ++
  (if TickCheck.leqb N.eqb (eval rsize 16 g xs) observed then [] else [2]) ++
  (if graph_ok g && ext_ok g && partition_ok g (map fst cps) 16 then [] else [3]) ++
  (if TickCheck.leqb N.eqb
        (outputs_of g (mw (run_sched rsize 16 g (map fst cps) (map snd cps) xs (rounds (length cps) (length (insts g)))
                                     (mkM (wires0 g) (repeat (repeat 0%N 16) (length cps))))))
        observed then [] else [5]) ++
  (if forallb (pass_agrees rsize g xs) cps then [] else [4]).
