(* Front/QuantumCheck.v — executable side of C14: the gate table of MatrixFromOp over Z[1/2][zeta8],
   tabulation of model matrices, exact comparison with the reference *)
From Coq Require Import List Arith Bool ZArith NArith.
From BM Require Import Front.Quantum Front.QuantumSim Front.Cyclo8.
Import ListNotations.

Definition M8 := mat c8.
Definition idx_num (i : idx) : nat := fold_left (fun (acc : nat) (b : bool) => 2 * acc + (if b then 1 else 0)) i 0.
Definition of_table (k : nat) (t : list (list c8)) : M8 :=
  mkMat k (fun i j => nth (idx_num j) (nth (idx_num i) t []) c8_0).

Definition z := c8_0.
Definition o := c8_1.
Definition mo := c8_neg c8_1.
Definition ii := c8_i.
Definition mi := c8_neg c8_i.
Definition hh := c8_rsqrt2.
Definition half_p := mkC8 1 0 1 0 1.    (* (1+i)/2 *)
Definition half_m := mkC8 1 0 (-1) 0 1. (* (1-i)/2 *)

(* static2x2.go / static4x4.go / identity.go *)
Inductive gname := GH | GX | GY | GZ | GS | GT | GSX | GCX | GCZ | GSWAP | GISWAP | GDCNOT
                 | GRX (k : nat) | GRY (k : nat) | GRZ (k : nat)   (* angle k*pi/2 *)
                 | GP                                              (* "p": MatrixFromOp returns S(), the angle is ignored *)
                 | GR (k : nat).                                   (* "r": PhaseShift(k*pi/4) *)
Definition gate_of (g : gname) : M8 :=
  match g with
  | GH => of_table 1 [[hh; hh]; [hh; c8_neg hh]]
  | GX => of_table 1 [[z; o]; [o; z]]
  | GY => of_table 1 [[z; mi]; [ii; z]]
  | GZ => of_table 1 [[o; z]; [z; mo]]
  | GS | GP => of_table 1 [[o; z]; [z; ii]]
  | GT => of_table 1 [[o; z]; [z; zeta_pow 1]]
  | GSX => of_table 1 [[half_p; half_m]; [half_m; half_p]]
  | GCX => of_table 2 [[o; z; z; z]; [z; o; z; z]; [z; z; z; o]; [z; z; o; z]]
  | GCZ => of_table 2 [[o; z; z; z]; [z; o; z; z]; [z; z; o; z]; [z; z; z; mo]]
  | GSWAP => of_table 2 [[o; z; z; z]; [z; z; o; z]; [z; o; z; z]; [z; z; z; o]]
  | GISWAP => of_table 2 [[o; z; z; z]; [z; z; ii; z]; [z; ii; z; z]; [z; z; z; o]]
  | GDCNOT => of_table 2 [[o; z; z; z]; [z; z; o; z]; [z; z; z; o]; [z; o; z; z]]
  (* RX(t): [[cos t/2, -i sin t/2],[-i sin t/2, cos t/2]], t = k pi/2 so t/2 = k pi/4 *)
  | GRX k => of_table 1 [[c8_cos k; c8_mul mi (c8_sin k)]; [c8_mul mi (c8_sin k); c8_cos k]]
  | GRY k => of_table 1 [[c8_cos k; c8_neg (c8_sin k)]; [c8_sin k; c8_cos k]]
  (* RZ(t): diag(exp(-i t/2), exp(i t/2)) *)
  | GRZ k => of_table 1 [[zeta_pow ((8 - k mod 8) mod 8); z]; [z; zeta_pow (k mod 8)]]
  | GR k => of_table 1 [[o; z]; [z; zeta_pow (k mod 8)]]
  end.

Definition line := (gname * list nat)%type.
Definition to_op (l : line) : qop c8 := mkOp (snd l) (gate_of (fst l)).

Definition tabulate (m : M8) : list (list c8) :=
  map (fun i => map (fun j => c8_norm (ent m i j)) (all_idx (nq m))) (all_idx (nq m)).
Definition mat_eqb (n : nat) (a b : M8) : bool :=
  forallb (fun i => forallb (fun j => c8_eqb (ent a i j) (ent b i j)) (all_idx n)) (all_idx n).
Definition flat (x : c8) : list Z := [ca x; cb x; cc x; cd x; Z.of_N (ce x)].

(* evaluation helper: a matrix given by a function is tabulated once and then looked up (the
   function-level definitions recompute every sub-entry at every use); same entries on all indices
   of the right length *)
Definition memo (m : M8) : M8 := let t := tabulate m in of_table (nq m) t.
Definition prod_memo (n : nat) (ms : list M8) : M8 :=
  fold_left (fun acc m => memo (mmul c8 c8_0 c8_add c8_mul m acc)) ms (memo (ident c8 c8_0 c8_1 n)).

(* per circuit: (wf, safe, compiled ok, per-layer tables, product = reference, per-layer = parallel reference) *)
Definition run_circuit_gen (old : bool) (n : nat) (c : list line) :=
  let ops := map to_op c in
  let wf := forallb (op_wf c8 n) ops in
  let safe := circuit_safe c8 n ops in
  match (if old then compile_old c8 c8_0 c8_1 c8_mul n ops else compile c8 c8_0 c8_1 c8_mul n ops) with
  | None => (wf, safe, false, @nil (list (list (list Z))), false, false)
  | Some ms =>
      let tm := map memo ms in
      (wf, safe, true, map (fun m => map (map flat) (tabulate m)) tm,
       mat_eqb n (prod_memo n tm) (prod_memo n (map (fun o => memo (embed c8 c8_0 n o)) ops)),
       forallb (fun p => mat_eqb n (fst p) (memo (par_ref c8 c8_0 c8_1 c8_mul n (snd p)))) (combine tm (circuit_layers c8 ops)))
  end.

Definition run_circuit := run_circuit_gen false.

(* exact unitarity of a tabulated matrix: M M* = 1 and M* M = 1 on every pair of basis states *)
Definition unitaryb (n : nat) (m : M8) : bool :=
  let d := memo (dagger c8 c8_conj m) in
  mat_eqb n (mmul c8 c8_0 c8_add c8_mul m d) (ident c8 c8_0 c8_1 n) &&
  mat_eqb n (mmul c8 c8_0 c8_add c8_mul d m) (ident c8 c8_0 c8_1 n).
Definition all_gates : list gname :=
  [GH; GX; GY; GZ; GS; GT; GSX; GCX; GCZ; GSWAP; GISWAP; GDCNOT; GP] ++
  flat_map (fun k => [GRX k; GRY k; GRZ k; GR k]) (seq 0 8).
(* the premise of the unitarity theorem, for the gate table as transcribed *)
Definition gate_table_unitary : bool := forallb (fun g => unitaryb (nq (gate_of g)) (gate_of g)) all_gates.
(* per circuit: every matrix of the model's compilation is exactly unitary, and the model's software
   simulation of every basis state is the reference unitary's column *)
(* run_sim with the state vector tabulated after every matrix (same amplitudes on basis states of n bits) *)
Definition vmemo (n : nat) (v : vec c8) : vec c8 :=
  let t := map (fun i => c8_norm (v i)) (all_idx n) in fun i => nth (idx_num i) t c8_0.
Definition run_sim_memo (n : nat) (ms : list M8) (v : vec c8) : vec c8 :=
  fold_left (fun s m => vmemo n (mvec c8 c8_0 c8_add c8_mul m s)) ms (vmemo n v).
Definition circuit_unitary_and_sim (n : nat) (c : list line) : bool * bool :=
  let ops := map to_op c in
  match compile c8 c8_0 c8_1 c8_mul n ops with
  | None => (false, false)
  | Some ms =>
      let tm := map memo ms in
      let u := prod_memo n (map (fun o => memo (embed c8 c8_0 n o)) ops) in
      (forallb (unitaryb n) tm,
       forallb (fun j => let out := run_sim_memo n tm (basis c8 c8_0 c8_1 j) in
                         forallb (fun i => c8_eqb (out i) (ent u i j)) (all_idx n)) (all_idx n))
  end.
