(* Front/BondgoFlow.v — how pkg/bondgo lowers structured control flow (visiter.go: IfStmt, ForStmt,
   BranchStmt) to jumps.  The compiler emits the code of a construct into a program of its own with
   symbolic targets (FALSECONDITION, IFEND, STARTFOR, ENDFOR, CONTINUEFOR), replaces them by line numbers
   relative to the construct and shifts every number by the construct's starting point when the lines are
   appended to the enclosing program: [flatten] computes the same absolute addresses directly.

   [sasm] is the structured assembly in between: jump-free blocks (what assignments, ++/--, IOWrite and the
   evaluation of a condition compile to), conditionals on a register, loops, break and continue.
   [srun] is its meaning (big-step, with fuel); [lower] produces it from the control-flow subset of
   Front/BondgoCF.v with the register allocation of Front/Bondgo.v. *)
From Coq Require Import List NArith Bool Arith.
From BM Require Import Isa.Sim Front.Bondgo Front.BondgoCF.
Import ListNotations.

Inductive sasm :=
| ABlock (b : list instr)
| AIf (cb : list instr) (r : nat) (th : list sasm) (el : option (list sasm))   (* condition code, its register *)
| AFor (init : list instr) (cond : option (list instr * nat)) (body : list sasm) (post : list instr)
| ABreak
| AContinue.

Fixpoint size1 (s : sasm) : nat :=
  match s with
  | ABlock b => length b
  | AIf cb _ th el => length cb + 1 + fold_right (fun s n => size1 s + n) 0 th +
                      match el with Some e => 1 + fold_right (fun s n => size1 s + n) 0 e | None => 0 end
  | AFor init cond body post =>
      length init + match cond with Some (cb, _) => length cb + 1 | None => 0 end +
      fold_right (fun s n => size1 s + n) 0 body + length post + 1
  | ABreak | AContinue => 1
  end.
Definition size (l : list sasm) : nat := fold_right (fun s n => size1 s + n) 0 l.

Definition J (t : nat) : instr := IJ (N.of_nat t).
Definition Jz (r t : nat) : instr := IJz r (N.of_nat t).

(* code of a list of constructs placed at address [base]; [brk]/[cont] are the targets of break and continue *)
Fixpoint flat1 (base brk cont : nat) (s : sasm) : list instr :=
  let fix flat (base : nat) (brk cont : nat) (l : list sasm) : list instr :=
    match l with
    | [] => []
    | s :: r => flat1 base brk cont s ++ flat (base + size1 s) brk cont r
    end in
  match s with
  | ABlock b => b
  | AIf cb r th el =>
      let t0 := base + length cb + 1 in
      let e0 := t0 + size th + match el with Some _ => 1 | None => 0 end in     (* FALSECONDITION *)
      cb ++ [Jz r e0] ++ flat t0 brk cont th ++
      match el with
      | Some e => [J (e0 + size e)] ++ flat e0 brk cont e                       (* IFEND *)
      | None => []
      end
  | AFor init cond body post =>
      let s0 := base + length init in                                           (* STARTFOR *)
      let b0 := s0 + match cond with Some (cb, _) => length cb + 1 | None => 0 end in
      let c0 := b0 + size body in                                               (* CONTINUEFOR *)
      let e0 := c0 + length post + 1 in                                         (* ENDFOR *)
      init ++ match cond with Some (cb, r) => cb ++ [Jz r e0] | None => [] end ++
      flat b0 e0 c0 body ++ post ++ [J s0]
  | ABreak => [J brk]
  | AContinue => [J cont]
  end.
Fixpoint flatten (base brk cont : nat) (l : list sasm) : list instr :=
  match l with
  | [] => []
  | s :: r => flat1 base brk cont s ++ flatten (base + size1 s) brk cont r
  end.

(* ---------- meaning of the structured assembly ---------- *)
Inductive sig := GNormal | GBreak | GCont | GFuel.

(* instructions a block may contain: they complete in one step and only move the program counter on *)
Definition plain (i : instr) : bool :=
  match i with
  | IJ _ | IJz _ _ | II2rw _ _ | IR2owa _ _ | IAddp _ _ | IMultp _ _ => false
  | _ => true
  end.

Section Sem.
Variable rsize : N.

Definition dat (p : pstate) : pstate := with_pc p 0.
Definition bexec (b : list instr) (p : pstate) : pstate := fold_left (fun p i => dat (exec rsize 0 p i)) b (dat p).
Definition reg_true (p : pstate) (r : nat) : bool := negb (nthN (regs p) r =? 0)%N.

Fixpoint sloop (rb : pstate -> pstate * sig) (cond : option (list instr * nat)) (post : list instr) (k : nat) (p : pstate) : pstate * sig :=
  match k with
  | O => (p, GFuel)
  | S k' =>
      let p1 := match cond with Some (cb, _) => bexec cb p | None => p end in
      if match cond with Some (_, r) => reg_true p1 r | None => true end then
        let r := rb p1 in
        match snd r with
        | GBreak => (fst r, GNormal)
        | GFuel => r
        | GNormal | GCont => sloop rb cond post k' (bexec post (fst r))
        end
      else (p1, GNormal)
  end.

Fixpoint srun (fuel : nat) (l : list sasm) (p : pstate) : pstate * sig :=
  match fuel with
  | O => (p, GFuel)
  | S f =>
      match l with
      | [] => (p, GNormal)
      | s :: rest =>
          let r :=
            match s with
            | ABlock b => (bexec b p, GNormal)
            | AIf cb rg th el =>
                let p1 := bexec cb p in
                if reg_true p1 rg then srun f th p1
                else match el with Some e => srun f e p1 | None => (p1, GNormal) end
            | AFor init cond body post => sloop (srun f body) cond post f (bexec init p)
            | ABreak => (p, GBreak)
            | AContinue => (p, GCont)
            end in
          match snd r with GNormal => srun f rest (fst r) | _ => r end
      end
  end.
End Sem.

Fixpoint wf1 (s : sasm) : bool :=
  match s with
  | ABlock b => forallb plain b
  | AIf cb _ th el => forallb plain cb && forallb wf1 th && match el with Some e => forallb wf1 e | None => true end
  | AFor init cond body post =>
      forallb plain init && match cond with Some (cb, _) => forallb plain cb | None => true end &&
      forallb wf1 body && forallb plain post
  | ABreak | AContinue => true
  end.
Definition wfl (l : list sasm) : bool := forallb wf1 l.

(* ---------- from the control-flow subset of the source to structured assembly ---------- *)
(* allocation state of Front/Bondgo.v; [code] collects the block being built and is cut by [cut] *)
Definition conv (e : BondgoCF.cexpr) : Bondgo.expr :=
  match e with
  | BondgoCF.EVar v => Bondgo.EVar v
  | EConst c => ELit c
  | BondgoCF.EAdd a b => Bondgo.EAdd (Bondgo.EVar a) (Bondgo.EVar b)
  | EMulC a c => EMul (Bondgo.EVar a) (ELit c)
  end.
Definition cut (c : Bondgo.cstate) : list instr * Bondgo.cstate := (code c, Bondgo.mkCS (busy c) (Bondgo.vars c) []).
Definition vreg (c : Bondgo.cstate) (v : nat) : nat := nth v (Bondgo.vars c) 0.

(* the condition `true` / `false`: a bool literal in a fresh register, released after the jz *)
Definition ccond (c : Bondgo.cstate) (b : bool) : list instr * nat * Bondgo.cstate :=
  let '(r, c1) := take c in
  let c2 := emit c1 (if b then IRset r 1 else IClr r) in
  let '(blk, c3) := cut c2 in
  (blk, r, release c3 r).

Fixpoint lower1 (fuel : nat) (c : Bondgo.cstate) (s : BondgoCF.cstmt) : option (list sasm * Bondgo.cstate) :=
  match fuel with
  | O => None
  | S f =>
      let fix lowers (c : Bondgo.cstate) (l : list BondgoCF.cstmt) : option (list sasm * Bondgo.cstate) :=
        match l with
        | [] => Some ([], c)
        | s :: r => match lower1 f c s with
                    | Some (a, c1) => match lowers c1 r with Some (b, c2) => Some (a ++ b, c2) | None => None end
                    | None => None
                    end
        end in
      let block (c' : Bondgo.cstate) := let '(b, c'') := cut c' in Some ([ABlock b], c'') in
      match s with
      | BondgoCF.SWrite o e => block (Bondgo.cstmt c (Bondgo.SWrite o (conv e)))
      | BondgoCF.SAssign v e => block (Bondgo.cstmt c (Bondgo.SAssign v (conv e)))
      | SCall _ _ _ => None                                   (* inlined calls: not lowered here *)
      | SInc v => block (emit c (IInc (vreg c v)))
      | SDec v => block (emit c (IDec (vreg c v)))
      | SIf b th el =>
          let '(cb, r, c1) := ccond c b in
          match lowers c1 th with
          | Some (t, c2) =>
              match el with
              | [] => Some ([AIf cb r t None], c2)
              | _ => match lowers c2 el with Some (e, c3) => Some ([AIf cb r t (Some e)], c3) | None => None end
              end
          | None => None
          end
      | BondgoCF.SBreak => Some ([ABreak], c)
      | BondgoCF.SContinue => Some ([AContinue], c)
      | SFor init post body =>
          let '(ib, c1) := match init with
                           | Some (v, k) => cut (Bondgo.cstmt c (Bondgo.SAssign v (ELit k)))
                           | None => ([], c) end in
          match lowers c1 body with
          | Some (b, c2) =>
              let '(pb, c3) := match post with
                               | Some (v, true) => cut (emit c2 (IInc (vreg c2 v)))
                               | Some (v, false) => cut (emit c2 (IDec (vreg c2 v)))
                               | None => ([], c2) end in
              Some ([AFor ib None b pb], c3)
          | None => None
          end
      end
  end.
Fixpoint lowers (fuel : nat) (c : Bondgo.cstate) (l : list BondgoCF.cstmt) : option (list sasm * Bondgo.cstate) :=
  match l with
  | [] => Some ([], c)
  | s :: r => match lower1 fuel c s with
              | Some (a, c1) => match lowers fuel c1 r with Some (b, c2) => Some (a ++ b, c2) | None => None end
              | None => None
              end
  end.

(* a whole main: the declarations (clr of each variable's register) and the statements *)
Definition lower_main (nvars : nat) (l : list BondgoCF.cstmt) : option (list sasm) :=
  let c0 := fold_left (fun c _ => Bondgo.cstmt c SDecl) (seq 0 nvars) (Bondgo.mkCS [] [] []) in
  let '(decls, c1) := cut c0 in
  match lowers 100 c1 l with
  | Some (body, _) => Some (ABlock decls :: body)
  | None => None
  end.
Definition compile_main (nvars : nat) (l : list BondgoCF.cstmt) : option (list instr) :=
  option_map (flatten 0 0 0) (lower_main nvars l).

(* numeric rendering for the driver *)
Definition icode (i : instr) : list N :=
  let n := N.of_nat in
  match i with
  | IClr r => [1; n r] | IRset r v => [2; n r; v] | ICpy d s => [3; n d; n s] | IAdd d s => [4; n d; n s]
  | IMult d s => [5; n d; n s] | IInc r => [6; n r] | IDec r => [7; n r] | IJ t => [8; t] | IJz r t => [9; n r; t]
  | IR2o r o => [10; n r; n o] | _ => [0]
  end%N.
Definition compile_codes (nvars : nat) (l : list BondgoCF.cstmt) : list (list N) :=
  match compile_main nvars l with Some c => map icode c | None => [] end.
(* the premise of the jump theorem (blocks and condition code are one-step, jump-free), evaluated on every lowered program *)
Definition lower_wf (nvars : nat) (l : list BondgoCF.cstmt) : bool :=
  match lower_main nvars l with Some c => wfl c | None => true end.
