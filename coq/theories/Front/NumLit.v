(* Front/NumLit.v — Process_number (pkg/procbuilder/utils.go) for the integer notations:
   ImportString followed by ExportBinary(false), i.e. the binary digits of the value without
   leading zeros.  Plain decimals are read by strconv.ParseUint (64 bits); 0x / 0b literals
   have no size limit.  Other notations (floats, fixed point, sized forms) are out of this
   model: [process_number] returns None for them and the correspondence check does not send them. *)
From Coq Require Import String Ascii NArith List Bool Lia DecimalString.
From BM Require Import Base.Bits Base.Dec.
Import ListNotations.
Local Open Scope N_scope.

Definition is_digit (c : ascii) : bool :=
  let n := N_of_ascii c in (48 <=? n) && (n <=? 57).

Fixpoint all_digits (s : string) : bool :=
  match s with EmptyString => true | String c r => is_digit c && all_digits r end.

Definition hex_digit (c : ascii) : option N :=
  let n := N_of_ascii c in
  if (48 <=? n) && (n <=? 57) then Some (n - 48)
  else if (97 <=? n) && (n <=? 102) then Some (n - 87)
  else if (65 <=? n) && (n <=? 70) then Some (n - 55)
  else None.

Fixpoint hex_value (acc : N) (s : string) : option N :=
  match s with
  | EmptyString => Some acc
  | String c r => match hex_digit c with Some d => hex_value (16 * acc + d) r | None => None end
  end.

Fixpoint bin_value (acc : N) (s : string) : option N :=
  match s with
  | EmptyString => Some acc
  | String "0" r => bin_value (2 * acc) r
  | String "1" r => bin_value (2 * acc + 1) r
  | _ => None
  end.

Definition process_number (s : string) : option bstr :=
  if all_digits s then
    match parse_digits s with
    | Some v => if v <? 2 ^ 64 then Some (get_binary v) else None
    | None => None
    end
  else
    match s with
    | String "0" (String "x" r) =>
        match r with EmptyString => None | _ => option_map get_binary (hex_value 0 r) end
    | String "0" (String "b" r) =>
        match r with EmptyString => None | _ => option_map get_binary (bin_value 0 r) end
    | _ => None
    end.

(* ------------------------------------------------------------------ the two facts C03 needs *)

Lemma process_number_nonempty s b : process_number s = Some b -> b <> [].
Proof.
  unfold process_number. intro H.
  assert (G : forall o, option_map get_binary o = Some b -> b <> []).
  { intros [v|] E; simpl in E; [|discriminate]. inversion E. apply get_binary_nonempty. }
  repeat match type of H with
         | match ?x with _ => _ end = _ => destruct x; try discriminate; eauto
         | (if ?x then _ else _) = _ => destruct x; try discriminate; eauto
         end; try (inversion H; apply get_binary_nonempty).
Qed.

(* digits of a printed decimal *)
Lemma all_digits_app s t : all_digits (s ++ t) = all_digits s && all_digits t.
Proof. induction s; simpl; auto. rewrite IHs. apply andb_assoc. Qed.

Lemma all_digits_uint d : all_digits (NilEmpty.string_of_uint d) = true.
Proof. induction d; simpl; auto. Qed.

Lemma print_dec_digits v : all_digits (print_dec v) = true.
Proof. apply all_digits_uint. Qed.

Lemma process_number_dec v : v < 2 ^ 64 -> process_number (print_dec v) = Some (get_binary v).
Proof.
  intro Hv. unfold process_number.
  assert (Hlt : v <? 2 ^ 64 = true) by (apply N.ltb_lt; exact Hv).
  rewrite print_dec_digits, parse_digits_print, Hlt. reflexivity.
Qed.
