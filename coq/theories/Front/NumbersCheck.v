(* Front/NumbersCheck.v — executable comparison for the C08 correspondence check *)
From Coq Require Import String Ascii NArith List Bool.
From BM Require Import Base.Bits Base.Dec Front.NumLit Front.Regex Front.Numbers Isa.EncodeCheck.
Import ListNotations.
Local Open Scope N_scope.

Definition syms_of_string (s : string) : list sym := map N_of_ascii (list_ascii_of_string s).

Definition mk_matchers (gm : list (string * re * notation)) : list ((string -> bool) * notation) :=
  map (fun m => (fun s => matches (snd (fst m)) (syms_of_string s), snd m)) gm.

Definition tag_of (gm : list (string * re * notation)) (s : string) : option notation :=
  option_map snd (find (fun m => matches (snd (fst m)) (syms_of_string s)) gm).

Definition type_name (t : ntype) : string :=
  match t with TUnsigned => "unsigned" | THex => "hex" | TBin => "bin" end.

(* observed: literal, error?, type name, bits, ExportBinary digits, ExportString, ExportBinaryNBits n (""=error), n,
   ExportVerilogBinary text *)
Definition obs := (string * bool * string * N * string * string * string * nat * string)%type.

Definition verilog_text (n : bmnum) : string :=
  let '(b, d) := export_verilog_binary n in (print_dec b ++ "'b" ++ bits_to_string d)%string.

Definition check_num (gm : list (string * re * notation)) (o : obs) : list nat :=
  let '(s, err, ty, bits, bin, str, nb, k, vb) := o in
  match tag_of gm s with
  | Some NOther => []                                  (* unmodelled notation: not compared *)
  | None => if err then [] else [1%nat]
  | Some t =>
      match import_as t s with
      | None => if err then [] else [1%nat]
      | Some n =>
          if err then [1%nat] else
          (if String.eqb (type_name (nty n)) ty && (nbits n =? bits) && String.eqb (bits_to_string (export_binary n)) bin
           then [] else [1%nat]) ++
          (if String.eqb (export_string n) str then [] else [2%nat]) ++
          (match export_binary_nbits n k with
           | Some b => if String.eqb (bits_to_string b) nb then [] else [3%nat]
           | None => if String.eqb nb "" then [] else [3%nat] end) ++
          (if String.eqb (verilog_text n) vb then [] else [4%nat])
      end
  end.

Fixpoint check_nums (gm : list (string * re * notation)) (k : nat) (os : list obs) : list (nat * nat) :=
  match os with
  | [] => []
  | o :: r => map (fun c => (k, c)) (check_num gm o) ++ check_nums gm (S k) r
  end.

(* regex tie: (matcher index, string as symbols, Go's MatchString) *)
Fixpoint check_matches (gm : list (string * re * notation)) (k : nat) (os : list (nat * list sym * bool)) : list nat :=
  match os with
  | [] => []
  | (i, s, b) :: r =>
      (match nth_error gm i with
       | Some m => if Bool.eqb (matches (snd (fst m)) s) b then [] else [k]
       | None => [k] end) ++ check_matches gm (S k) r
  end.
