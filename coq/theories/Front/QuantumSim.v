(* Front/QuantumSim.v — the conjugate transpose, and the software simulation of pkg/bmqsim
   (RunSoftwareSimulation: the state vector is multiplied by every compiled matrix in turn,
   MatrixVectorProductComplex c[i] = sum_k a[i][k]*v[k]) over an arbitrary coefficient type. *)
From Coq Require Import List Arith Bool.
From BM Require Import Front.Quantum.
Import ListNotations.

Section S.
Variable K : Type.
Variables (k0 k1 : K) (kadd kmul : K -> K -> K) (kconj : K -> K).
Notation mat := (mat K).

Definition dagger (M : mat) : mat := mkMat (nq M) (fun i j => kconj (ent M j i)).

(* state vectors: amplitudes indexed by basis states *)
Definition vec := idx -> K.
Definition mvec (M : mat) (v : vec) : vec :=
  fun i => fold_left (fun acc k => kadd acc (kmul (ent M i k) (v k))) (all_idx (nq M)) k0.
Definition basis (j : idx) : vec := fun k => if idx_eqb k j then k1 else k0.
Definition run_sim (ms : list mat) (v : vec) : vec := fold_left (fun s m => mvec m s) ms v.

End S.
