(* Front/Sched.v — schedules made explicit (C09): the compute phase of a tick with the
   processors stepped in an arbitrary order, and two simulations interleaved in one process. *)
From Coq Require Import List NArith Bool Arith.
From BM Require Import Net.Topo Isa.Sim Net.Tick.
Import ListNotations.

(* step the processors one at a time, in the given order of indices *)
Definition step_one (cfg : list proc) (ps : list pstate) (k : nat) : list pstate :=
  match nth_error cfg k, nth_error ps k with
  | Some c, Some s => upd k (pstep (p_rsize c) (p_prog c) s) ps
  | _, _ => ps
  end.

Definition compute_order (cfg : list proc) (order : list nat) (v : vm) : vm :=
  mkVM (fold_left (step_one cfg) order (v_procs v))
       (v_in v) (v_in_valid v) (v_in_recv v) (v_out v) (v_out_valid v) (v_out_recv v)
       (v_iin v) (v_iin_valid v) (v_iin_recv v) (v_iout v) (v_iout_valid v) (v_iout_recv v).

Definition tick_order (t : bm) (cfg : list proc) (order : list nat) (v : vm) : vm :=
  post t (compute_order cfg order (backward_pre t (forward t v))).

(* two simulations in one process: an arbitrary merge of their ticks *)
Fixpoint interleave {A B} (f : A -> A) (g : B -> B) (sched : list bool) (ab : A * B) : A * B :=
  match sched with
  | [] => ab
  | true :: r => interleave f g r (f (fst ab), snd ab)
  | false :: r => interleave f g r (fst ab, g (snd ab))
  end.

Fixpoint iter {A} (f : A -> A) (n : nat) (a : A) : A := match n with O => a | S k => iter f k (f a) end.
