(* Front/SimRunCheck.v — executable side of the rule-firing model for the C15 correspondence check: given the
   rule list of a run, whether -sim-stop-on-valid-of 0 is used and the valid flag of o0 after every tick of a
   reference run, the ticks at which something is printed and the objects printed there (as positions in a
   list of names), and the set rules that act at each tick. *)
From Coq Require Import String NArith List Bool.
From BM Require Import Front.Simbox Front.SimRun.
Import ListNotations.
Local Open Scope N_scope.

Fixpoint index_of (o : string) (names : list string) (k : N) : N :=
  match names with [] => 999 | x :: r => if String.eqb x o then k else index_of o r (k + 1) end.

(* one row per iteration that prints something: tick, 1 if it is the stopping iteration, then the objects *)
Fixpoint shows_trace (rs : list rule) (names : list string) (stop : bool) (outv : list bool) (was : bool) (n : nat) (t : N) : list (list N) :=
  match n, outv with
  | S n', now :: rest =>
      let v (b : bool) := fun o : string => if String.eqb o "o0" then b else false in
      if stop && was
      then match shown rs t (v was) (v was) true with [] => [] | l => [t :: 1 :: map (fun o => index_of o names 0) l] end
      else match shown rs t (v was) (v now) false with
           | [] => shows_trace rs names stop rest now n' (t + 1)
           | l => (t :: 0 :: map (fun o => index_of o names 0) l) :: shows_trace rs names stop rest now n' (t + 1)
           end
  | _, _ => []
  end.

(* per tick: the positions (in the rule list) of the set rules that act *)
Definition sets_trace (rs : list rule) (n : nat) : list (list N) :=
  map (fun t => map (fun p => N.of_nat (fst p)) (filter (fun p => due_set (N.of_nat t) (snd p)) (combine (seq 0 (length rs)) rs))) (seq 0 n).
