(* Front/Quantum.v — the quantum-circuit compiler of pkg/bmqsim (QasmToBmMatrices,
   BmMatrixFromOperation, swaps2baseSwaps) over an arbitrary coefficient type K, and the
   reference meaning of a circuit.

   Basis states are bit lists, most significant (= first declared qubit) first; a matrix on k
   qubits is a function of two bit lists of length k.  In the Go code the same objects are
   [][]Complex32 indexed by the numbers those bit lists spell:
     TensorProductComplex  c[iA*bN+iB][jA*bN+jB] = a[iA][jA]*b[iB][jB]   = [tensor]  (append of bit lists)
     SwapRowsColsComplex over swaps2baseSwaps(s1,s2)                      = [conj_swap] (exchange two bit positions)
   That correspondence is what the correspondence check compares entry by entry; the control
   logic of the two functions (layering, the localQBits / localOrder bookkeeping, q++ skipping,
   undoing the swaps in reverse) is transcribed statement by statement. *)
From Coq Require Import List Arith Bool.
Import ListNotations.

Definition idx := list bool.

Section Q.
Variable K : Type.
Variables (k0 k1 : K) (kadd kmul : K -> K -> K).

Record mat := mkMat { nq : nat; ent : idx -> idx -> K }.

Definition idx_eqb (a b : idx) : bool := if list_eq_dec Bool.bool_dec a b then true else false.

Definition ident1 : mat := mkMat 1 (fun i j => if idx_eqb i j then k1 else k0).

(* TensorProductComplex *)
Definition tensor (a b : mat) : mat :=
  mkMat (nq a + nq b)
        (fun i j => kmul (ent a (firstn (nq a) i) (firstn (nq a) j)) (ent b (skipn (nq a) i) (skipn (nq a) j))).
Definition tensor_opt (r : option mat) (m : mat) : mat := match r with None => m | Some a => tensor a m end.

(* exchange the bits at positions a and b (positions count from the most significant bit) *)
Definition swap_pos {A} (d : A) (a b : nat) (l : list A) : list A :=
  map (fun p => if Nat.eqb p a then nth b l d else if Nat.eqb p b then nth a l d else nth p l d) (seq 0 (length l)).
(* all the SwapRowsCols of swaps2baseSwaps(s1,s2) together *)
Definition conj_swap (a b : nat) (m : mat) : mat :=
  mkMat (nq m) (fun i j => ent m (swap_pos false a b i) (swap_pos false a b j)).

(* one line of a layer: the qubits it names, in argument order, and its gate matrix *)
Record qop := mkOp { args : list nat; gate : mat }.

Inductive outcome := Ok (m : mat) | Panic (why : nat).   (* 1: index out of range in localQBits *)

Definition find_op (ops : list qop) (qbit : nat) : option qop :=
  find (fun o => existsb (Nat.eqb qbit) (args o)) ops.

(* the inner loop over localOrder of a multi-qubit line.  State: localQBits L, the swap list, localOrder, q.
   [rest] counts the entries still to visit. *)
Fixpoint place (n : nat) (i rest : nat) (L : list nat) (sw : list (nat * nat)) (lo : list nat) (q : nat)
  : option (list nat * list (nat * nat) * nat) :=
  match rest with
  | O => Some (L, sw, q)
  | S rest' =>
      let lq := nth i lo 0 in
      let last := Nat.eqb rest' 0 in
      if Nat.eqb lq q then place n (S i) rest' L sw lo (if last then q else S q)
      else if (q <? n) && (lq <? n) then
        let L' := swap_pos 0 q lq L in
        let lo' := map (fun x => if Nat.eqb x q then lq else if Nat.eqb x lq then q else x) lo in
        place n (S i) rest' L' (sw ++ [(q, lq)]) lo' (if last then q else S q)
      else None
  end.

(* localOrder as the code initialises it: the position of each argument in the current localQBits
   (after fix e051db6: before it, the original qubit number was used as if it were a position) *)
Fixpoint pos_of (L : list nat) (a : nat) : nat :=
  match L with [] => 0 | x :: r => if Nat.eqb x a then 0 else S (pos_of r a) end.
Definition local_order (fixed : bool) (L : list nat) (qs : list nat) : list nat :=
  if fixed then map (pos_of L) qs else qs.

(* the loop over q of BmMatrixFromOperation *)
Fixpoint build (fixed : bool) (fuel n : nat) (ops : list qop) (L : list nat) (sw : list (nat * nat)) (res : option mat) (q : nat)
  : option (option mat * list (nat * nat)) :=
  match fuel with
  | O => None
  | S fuel' =>
      if n <=? q then Some (res, sw)
      else
        match find_op ops (nth q L 0) with
        | None => build fixed fuel' n ops L sw (Some (tensor_opt res ident1)) (S q)
        | Some o =>
            if length (args o) =? 1 then build fixed fuel' n ops L sw (Some (tensor_opt res (gate o))) (S q)
            else match place n 0 (length (args o)) L sw (local_order fixed L (args o)) q with
                 | None => None
                 | Some (L', sw', q') => build fixed fuel' n ops L' sw' (Some (tensor_opt res (gate o))) (S q')
                 end
        end
  end.

Definition layer_matrix_gen (fixed : bool) (n : nat) (ops : list qop) : outcome :=
  match build fixed (S n) n ops (seq 0 n) [] None 0 with
  | None => Panic 1
  | Some (None, _) => Panic 2
  | Some (Some m, sw) => Ok (fold_left (fun m s => conj_swap (fst s) (snd s) m) (rev sw) m)
  end.
Definition layer_matrix := layer_matrix_gen true.
Definition layer_matrix_old := layer_matrix_gen false.

(* QasmToBmMatrices: a new layer starts at the first line that names a qubit already used in the
   current one; the last line closes the last layer *)
Definition uses (cur : list nat) (o : qop) : bool := existsb (fun a => existsb (Nat.eqb a) cur) (args o).
Fixpoint layers (cur : list nat) (acc : list qop) (c : list qop) : list (list qop) :=
  match c with
  | [] => match acc with [] => [] | _ => [acc] end
  | o :: r => if uses cur o then acc :: layers (args o) [o] r
              else layers (cur ++ args o) (acc ++ [o]) r
  end.
Definition circuit_layers (c : list qop) : list (list qop) := filter (fun l => negb (Nat.eqb (length l) 0)) (layers [] [] c).

Fixpoint all_ok (l : list outcome) : option (list mat) :=
  match l with
  | [] => Some []
  | Ok m :: r => match all_ok r with Some ms => Some (m :: ms) | None => None end
  | Panic _ :: _ => None
  end.
Definition compile (n : nat) (c : list qop) : option (list mat) := all_ok (map (layer_matrix n) (circuit_layers c)).
Definition compile_old (n : nat) (c : list qop) : option (list mat) := all_ok (map (layer_matrix_old n) (circuit_layers c)).

(* ---------- reference ---------- *)
(* a gate applied to the named qubits of an n-qubit register, identity on the others *)
Definition pick (qs : list nat) (i : idx) : idx := map (fun a => nth a i false) qs.
Definition others_equal (n : nat) (qs : list nat) (i j : idx) : bool :=
  forallb (fun p => existsb (Nat.eqb p) qs || Bool.eqb (nth p i false) (nth p j false)) (seq 0 n).
Definition embed (n : nat) (o : qop) : mat :=
  mkMat n (fun i j => if others_equal n (args o) i j then ent (gate o) (pick (args o) i) (pick (args o) j) else k0).

(* all gates of a layer at once (they name disjoint qubits) *)
Definition touched (ops : list qop) : list nat := flat_map args ops.
Definition par_ref (n : nat) (ops : list qop) : mat :=
  mkMat n (fun i j =>
    if others_equal n (touched ops) i j
    then fold_left (fun acc o => kmul acc (ent (gate o) (pick (args o) i) (pick (args o) j))) ops k1
    else k0).

(* matrix product and the unitary of a whole circuit: gates applied in program order *)
Fixpoint all_idx (n : nat) : list idx :=
  match n with O => [[]] | S m => map (cons false) (all_idx m) ++ map (cons true) (all_idx m) end.
Definition mmul (a b : mat) : mat :=
  mkMat (nq a) (fun i j => fold_left (fun acc k => kadd acc (kmul (ent a i k) (ent b k j))) (all_idx (nq a)) k0).
Definition ident (n : nat) : mat := mkMat n (fun i j => if idx_eqb i j then k1 else k0).
(* later gates multiply from the left *)
Definition prod_left (n : nat) (ms : list mat) : mat := fold_left (fun acc m => mmul m acc) ms (ident n).
Definition u_ref (n : nat) (c : list qop) : mat := prod_left n (map (embed n) c).

(* the class of layers the code before the fix compiled correctly: whenever a multi-qubit line is reached,
   none of its qubits has been moved by the swaps of an earlier line of the same layer *)
Fixpoint safe_build (fuel n : nat) (ops : list qop) (L : list nat) (sw : list (nat * nat)) (q : nat) : bool :=
  match fuel with
  | O => false
  | S fuel' =>
      if n <=? q then true
      else
        match find_op ops (nth q L 0) with
        | None => safe_build fuel' n ops L sw (S q)
        | Some o =>
            if length (args o) =? 1 then safe_build fuel' n ops L sw (S q)
            else forallb (fun a => Nat.eqb (nth a L n) a) (args o) &&
                 match place n 0 (length (args o)) L sw (args o) q with
                 | None => false
                 | Some (L', sw', q') => safe_build fuel' n ops L' sw' (S q')
                 end
        end
  end.
Definition layer_safe (n : nat) (ops : list qop) : bool := safe_build (S n) n ops (seq 0 n) [] 0.
Definition circuit_safe (n : nat) (c : list qop) : bool := forallb (layer_safe n) (circuit_layers c).

(* well-formed lines: qubit numbers in range, no repetition inside a line, gate arity = number of arguments *)
Fixpoint nodupb (l : list nat) : bool :=
  match l with [] => true | x :: r => negb (existsb (Nat.eqb x) r) && nodupb r end.
Definition op_wf (n : nat) (o : qop) : bool :=
  forallb (fun a => a <? n) (args o) && Nat.eqb (nq (gate o)) (length (args o)) &&
  nodupb (args o) && negb (Nat.eqb (length (args o)) 0).

End Q.

Arguments mkMat {K}.
Arguments nq {K}.
Arguments ent {K}.
Arguments mkOp {K}.
Arguments args {K}.
Arguments gate {K}.
Arguments Ok {K}.
Arguments Panic {K}.
