(* Front/Frag.v — fragments, instances and links of a BASM source, the direct (dataflow) meaning of
   the graph, and fragmentComposer: the section generated for a processor that collapses a list of
   instances (glue moves from inputs / temporaries, the fragment bodies in list order, glue moves to
   outputs / temporaries, a final jump to the start; temporaries renamed to the lowest registers
   that do not occur in the section). *)
From Coq Require Import List NArith Bool Arith.
From BM Require Import Isa.Sim.
Import ListNotations.

Record frag := mkFrag { resin : list nat; resout : list nat; fbody : list instr }.

(* where the value on an input port comes from *)
Inductive source := SExt (k : nat) | SOut (p q : nat).
Record inst := mkInst { ifrag : frag; isrc : list source }.
(* instances in index order; external outputs name (instance, output port) *)
Record graph := mkGraph { insts : list inst; ext_out : list (nat * nat) }.

(* ---------- straight-line execution on a register file ---------- *)
Definition st (r : list N) : pstate := mkP 0 r [] [] [] [] [] [] [] [false; false; false].
Definition rexec (rsize : N) (r : list N) (i : instr) : list N := regs (exec rsize 0 (st r) i).
Definition run_body (rsize : N) (b : list instr) (r : list N) : list N := fold_left (rexec rsize) b r.

Fixpoint load (ports : list nat) (vals : list N) (r : list N) : list N :=
  match ports, vals with
  | p :: ps, v :: vs => load ps vs (upd p v r)
  | _, _ => r
  end.

(* a fragment as a function of its inputs (registers it does not receive start at zero) *)
Definition frag_fun (rsize : N) (nregs : nat) (f : frag) (ins : list N) : list N :=
  map (nthN (run_body rsize (fbody f) (load (resin f) ins (repeat 0%N nregs)))) (resout f).

(* ---------- the graph's own meaning: instances evaluated in index order ---------- *)
Definition src_val (xs : list N) (vals : list (list N)) (s : source) : N :=
  match s with SExt k => nthN xs k | SOut p q => nthN (nth p vals []) q end.
Fixpoint eval_insts (rsize : N) (nregs : nat) (xs : list N) (g : list inst) (vals : list (list N)) : list (list N) :=
  match g with
  | [] => vals
  | i :: r => eval_insts rsize nregs xs r (vals ++ [frag_fun rsize nregs (ifrag i) (map (src_val xs vals) (isrc i))])
  end.
Definition eval (rsize : N) (nregs : nat) (g : graph) (xs : list N) : list N :=
  let vals := eval_insts rsize nregs xs (insts g) [] in
  map (fun pq => nthN (nth (fst pq) vals []) (snd pq)) (ext_out g).

(* ---------- fragmentComposer for one processor ---------- *)
(* the processor collapses the instances [cl] (indices into the graph, in list order) *)
Definition inside (cl : list nat) (p : nat) : bool := existsb (Nat.eqb p) cl.

(* consumers of output (p,q): the instances reading it, and whether an external output or an instance
   outside the list reads it *)
Definition reads (g : graph) (p q : nat) (c : nat) : bool :=
  existsb (fun s => match s with SOut p' q' => Nat.eqb p p' && Nat.eqb q q' | SExt _ => false end)
          (isrc (nth c (insts g) (mkInst (mkFrag [] [] []) []))).
Definition has_internal (g : graph) (cl : list nat) (p q : nat) : bool := existsb (reads g p q) cl.
Definition has_external (g : graph) (cl : list nat) (p q : nat) : bool :=
  existsb (fun pq => Nat.eqb (fst pq) p && Nat.eqb (snd pq) q) (ext_out g) ||
  existsb (fun c => negb (inside cl c) && reads g p q c) (seq 0 (length (insts g))).

(* numbering: walking the list, each output port takes the next processor output if it has an external
   consumer and the next temporary if it has an internal one; each input port fed from outside takes
   the next processor input.  The three counters advance independently, so a port's number is its
   position in the list of the ports of its kind, in walking order. *)
Definition inst_at (g : graph) (p : nat) : inst := nth p (insts g) (mkInst (mkFrag [] [] []) []).
Definition fed_from_outside (g : graph) (cl : list nat) (p j : nat) : bool :=
  match nth_error (isrc (inst_at g p)) j with
  | Some (SOut p' _) => negb (inside cl p')
  | Some (SExt _) => true
  | None => false
  end.
Definition ports_where (g : graph) (cl : list nat) (pred : nat -> nat -> bool) (count : inst -> nat) : list (nat * nat) :=
  flat_map (fun p => filter (fun pq => pred (fst pq) (snd pq)) (map (pair p) (seq 0 (count (inst_at g p))))) cl.
Definition out_ports (g : graph) (cl : list nat) := ports_where g cl (has_external g cl) (fun i => length (resout (ifrag i))).
Definition tmp_ports (g : graph) (cl : list nat) := ports_where g cl (has_internal g cl) (fun i => length (resout (ifrag i))).
Definition in_ports (g : graph) (cl : list nat) := ports_where g cl (fed_from_outside g cl) (fun i => length (isrc i)).

Fixpoint index_of2 (x : nat * nat) (l : list (nat * nat)) : option nat :=
  match l with
  | [] => None
  | y :: r => if Nat.eqb (fst x) (fst y) && Nat.eqb (snd x) (snd y) then Some 0 else option_map S (index_of2 x r)
  end.

Record numbering := mkNum { n_out : list (nat * nat); n_tmp : list (nat * nat); n_in : list (nat * nat) }.
Definition numbering_of (g : graph) (cl : list nat) : numbering := mkNum (out_ports g cl) (tmp_ports g cl) (in_ports g cl).
Definition lookup3 (l : list (nat * nat)) (p q : nat) : option nat := index_of2 (p, q) l.

(* the code for one instance, temporaries still symbolic: register [tbase + t] stands for temporary t *)
Definition inst_code (g : graph) (cl : list nat) (nm : numbering) (tmp : nat -> nat) (p : nat) : list instr :=
  let i := inst_at g p in
  let f := ifrag i in
  let ports := combine (seq 0 (length (isrc i))) (combine (resin f) (isrc i)) in
  flat_map (fun x => match lookup3 (n_in nm) p (fst x) with Some k => [II2r (fst (snd x)) k] | None => [] end) ports ++
  flat_map (fun x => match snd (snd x) with
                     | SOut p' q' => if inside cl p' then match lookup3 (n_tmp nm) p' q' with Some t => [ICpy (fst (snd x)) (tmp t)] | None => [] end else []
                     | SExt _ => [] end) ports ++
  fbody f ++
  flat_map (fun x => match lookup3 (n_out nm) p (fst x) with Some k => [IR2o (snd x) k] | None => [] end) (combine (seq 0 (length (resout f))) (resout f)) ++
  flat_map (fun x => match lookup3 (n_tmp nm) p (fst x) with Some t => [ICpy (tmp t) (snd x)] | None => [] end) (combine (seq 0 (length (resout f))) (resout f)).

(* NextResource: the lowest register index that does not occur in the section; temporaries are replaced one
   after the other, so each replacement sees the registers of the earlier ones *)
Definition instr_regs (i : instr) : list nat :=
  match i with
  | IAdd d s | ISub d s | IMult d s | ICpy d s | IAnd d s | IOr d s | IXor d s | INot d s
  | INand d s | INor d s | IXnor d s | IAddp d s | IMultp d s => [d; s]
  | IClr r | IInc r | IDec r | IRset r _ | IJz r _ | II2r r _ | IR2o r _ | II2rw r _ | IR2owa r _ => [r]
  | IJ _ | INop => []
  end.
Fixpoint lowest_free (fuel k : nat) (used : list nat) : nat :=
  match fuel with O => k | S f => if existsb (Nat.eqb k) used then lowest_free f (S k) used else k end.
Fixpoint alloc_tmps (n : nat) (used : list nat) : list nat :=
  match n with
  | O => []
  | S n' => let r := lowest_free (S (length used)) 0 used in r :: alloc_tmps n' (r :: used)
  end.

Definition frag_regs (g : graph) (cl : list nat) : list nat :=
  flat_map (fun p => let f := ifrag (nth p (insts g) (mkInst (mkFrag [] [] []) [])) in
                     resin f ++ resout f ++ flat_map instr_regs (fbody f)) cl.

Definition compose (g : graph) (cl : list nat) : list instr :=
  let nm := numbering_of g cl in
  let used := frag_regs g cl in
  let tmps := alloc_tmps (length (n_tmp nm)) used in
  let tmp := fun t => nth t tmps 0 in
  flat_map (inst_code g cl nm tmp) cl ++ [IJ 0].

(* one pass over the composed code (without the closing jump): processor inputs in, processor outputs out *)
Definition run_pass (rsize : N) (code : list instr) (ins : list N) (nouts : nat) (r : list N) : list N * list N :=
  let p0 := mkP 0 r ins (repeat false (length ins)) (repeat false (length ins)) (repeat 0%N nouts) (repeat false nouts) (repeat false nouts) [] [false; false; false] in
  let p := fold_left (fun p i => exec rsize 0 p i) code p0 in
  (regs p, outputs p).
