(* Front/SimboxCheck.v — executable comparison for the C15 correspondence check (rule text and list) *)
From Coq Require Import String Ascii NArith ZArith List Bool.
From BM Require Import Front.Simbox.
Import ListNotations.

Definition timec_eqb (a b : timec) : bool :=
  match a, b with TAbs, TAbs | TNone, TNone | TRel, TRel | TOnValid, TOnValid | TOnRecv, TOnRecv | TOnExit, TOnExit => true | _, _ => false end.
Definition action_eqb (a b : action) : bool :=
  match a, b with ASet, ASet | AGet, AGet | AShow, AShow | AConfig, AConfig => true | _, _ => false end.
Definition rule_eqb (a b : rule) : bool :=
  timec_eqb (r_timec a) (r_timec b) && (r_tick a =? r_tick b)%N && action_eqb (r_action a) (r_action b) &&
  String.eqb (r_object a) (r_object b) && String.eqb (r_extra a) (r_extra b) && Bool.eqb (r_suspended a) (r_suspended b).
Fixpoint rules_eqb (a b : list rule) : bool :=
  match a, b with [], [] => true | x :: a', y :: b' => rule_eqb x y && rules_eqb a' b' | _, _ => false end.
Definition out_eqb (a b : sb_out) : bool :=
  match a, b with SbOk, SbOk | SbErr, SbErr | SbPanic, SbPanic => true | _, _ => false end.

(* codes: 1 list/outcome differs, 2 printed form of the added rule differs,
   3 (spec on the model) printed form does not parse back *)
Fixpoint check_steps (k : nat) (rs : list rule) (ops : list sb_op) (obs : list (sb_out * list rule * string))
  : list (nat * nat) :=
  match ops, obs with
  | o :: ops', (oc, rl, printed) :: obs' =>
      let r := sb_apply rs o in
      (if rules_eqb (fst r) rl && out_eqb (snd r) oc then [] else [(k, 1)]) ++
      (match o, snd r with
       | SbAdd _, SbOk =>
           match last (fst r) (mkRule TAbs 0 ASet "" "" false) with
           | nr => (if String.eqb (print_rule nr) printed then [] else [(k, 2)]) ++
                   (match parse_rule (print_rule nr) with
                    | Some r2 => if rule_eqb r2 nr then [] else [(k, 3)]
                    | None => [(k, 3)] end)
           end
       | _, _ => [] end) ++
      check_steps (S k) (fst r) ops' obs'
  | _, _ => []
  end.

Definition check_case (c : list sb_op * list (sb_out * list rule * string)) : list (nat * nat) :=
  check_steps 0 [] (fst c) (snd c).
