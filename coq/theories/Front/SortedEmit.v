(* Front/SortedEmit.v — "collect the keys of a map, sort them, emit one line per key": the shape of
   neuralbond.WriteBasm's remaining-node loop after the repair (and of every other place that sorts
   what it took out of a map before printing it).  ssreflect style: uses mathcomp's sort. *)
From mathcomp Require Import all_ssreflect.
Set Implicit Arguments.
Unset Strict Implicit.
Unset Printing Implicit Defensive.

Section Emit.
Variables (T : eqType) (L : Type) (leT : rel T) (line : T -> L).
(* the code as repaired: keys in map order, sorted, one line each *)
Definition emit_sorted (order : seq T) : seq L := map line (sort leT order).
(* the code before the repair: one line per key in map order *)
Definition emit_unsorted (order : seq T) : seq L := map line order.

Hypothesis le_total : total leT.
Hypothesis le_trans : transitive leT.
Hypothesis le_anti : antisymmetric leT.

Lemma emit_sorted_order_free (o1 o2 : seq T) : perm_eq o1 o2 -> emit_sorted o1 = emit_sorted o2.
Proof. by rewrite /emit_sorted => /(perm_sortP le_total le_trans le_anti) ->. Qed.
End Emit.

(* the unsorted version depends on the order as soon as there are two keys *)
Lemma emit_unsorted_depends_on_order :
  perm_eq [:: 1; 2] [:: 2; 1] /\ emit_unsorted id [:: 1; 2] <> emit_unsorted id [:: 2; 1].
Proof. by split. Qed.

(* the hypotheses are met by the natural numbers (standing for node names under byte order) *)
Lemma emit_sorted_nat (line : nat -> nat) (o1 o2 : seq nat) :
  perm_eq o1 o2 -> emit_sorted leq line o1 = emit_sorted leq line o2.
Proof. apply: emit_sorted_order_free; [exact: leq_total | exact: leq_trans | exact: anti_leq]. Qed.
