(* Front/Leak.v — resource bookkeeping for C17: which calls start workers and which calls let
   them go.  A history is a list of complete calls; [live] counts the workers left behind,
   grouped by the function they run (Processor_execute, EmuDriverDispatcher, ReqRoot.run). *)
From Coq Require Import List Arith.
Import ListNotations.

Inductive call :=
| Simulate (procs : nat)        (* SinglePipelineSimulate / Fitness_default on a machine with that many processors:
                                   Init; Launch_processors; Steps; Stop *)
| SimulateNoStop (procs : nat)  (* the same without the final Stop (the code before the fix) *)
| Assemble.                     (* one BasmInstance: NewReqRoot, never closed *)

Record counts := mkC { c_proc : nat; c_disp : nat; c_req : nat }.
Definition zero := mkC 0 0 0.
Definition total (c : counts) : nat := c_proc c + c_disp c + c_req c.

Definition after_call (c : counts) (k : call) : counts :=
  match k with
  | Simulate _ => c                                          (* P+1 started, P+1 released *)
  | SimulateNoStop p => mkC (c_proc c + p) (S (c_disp c)) (c_req c)
  | Assemble => mkC (c_proc c) (c_disp c) (S (c_req c))
  end.

Definition live_after (h : list call) : counts := fold_left after_call h zero.

Definition only_simulations (h : list call) : Prop := forall k, In k h -> exists p, k = Simulate p.
